(* C06 lemmas (see Crash.v for the model). *)
From Coq Require Import ZArith List Bool Lia Arith.
Import ListNotations.
From MP Require Import Base Bytes Crash.
Local Open Scope Z_scope.

(* ------------------------------------------------------------------------------------------------ *)
(* paths and maps                                                                                   *)

Lemma zlist_eqb_eq : forall a b, zlist_eqb a b = true <-> a = b.
Proof.
  unfold zlist_eqb.
  induction a as [|x a IH]; destruct b as [|y b]; split; intros H; try reflexivity; try discriminate.
  - apply andb_true_iff in H. destruct H as [H1 H2]. apply Z.eqb_eq in H1. apply IH in H2. subst. reflexivity.
  - inversion H; subst. apply andb_true_iff. split; [apply Z.eqb_refl | apply IH; reflexivity].
Qed.

Lemma path_eqb_eq : forall a b, path_eqb a b = true <-> a = b.
Proof. exact zlist_eqb_eq. Qed.

Lemma path_eqb_refl : forall a, path_eqb a a = true.
Proof. intros a. apply path_eqb_eq. reflexivity. Qed.

Lemma path_eqb_neq : forall a b, a <> b -> path_eqb a b = false.
Proof.
  intros a b H. destruct (path_eqb a b) eqn:E; [|reflexivity].
  apply path_eqb_eq in E. contradiction.
Qed.

Lemma upd_same : forall s p v, upd s p v p = v.
Proof. intros. unfold upd. rewrite path_eqb_refl. reflexivity. Qed.

Lemma upd_other : forall s p v q, q <> p -> upd s p v q = s q.
Proof. intros. unfold upd. rewrite path_eqb_neq by assumption. reflexivity. Qed.

(* ------------------------------------------------------------------------------------------------ *)
(* frame: operations change only the paths they name                                                *)

Lemma apply_op_frame : forall s o q, ~ In q (touched_op o) -> apply_op s o q = s q.
Proof.
  intros s o q H. destruct o; cbn [apply_op touched_op] in *.
  - apply upd_other. intros ->. apply H. left. reflexivity.
  - destruct (s p) as [[c|t]|]; try reflexivity.
    apply upd_other. intros ->. apply H. left. reflexivity.
  - destruct (s a) as [n|]; try reflexivity.
    rewrite upd_other by (intros ->; apply H; right; left; reflexivity).
    apply upd_other. intros ->. apply H. left. reflexivity.
  - apply upd_other. intros ->. apply H. left. reflexivity.
  - destruct (s p); try reflexivity.
    apply upd_other. intros ->. apply H. left. reflexivity.
  - destruct (s a) as [[c|t]|]; try reflexivity.
    destruct (s b); try reflexivity.
    apply upd_other. intros ->. apply H. left. reflexivity.
Qed.

Lemma tears_touched : forall o o', In o' (tears o) -> touched_op o' = touched_op o.
Proof.
  intros o o' H. destruct o; cbn [tears] in H; try contradiction.
  apply in_map_iff in H. destruct H as [k [<- _]]. reflexivity.
Qed.

Lemma crash_states_frame : forall ops s s' q,
  In s' (crash_states s ops) -> ~ In q (touched ops) -> s' q = s q.
Proof.
  induction ops as [|o r IH]; intros s s' q H Hq; cbn [crash_states] in H.
  - destruct H as [<-|[]]. reflexivity.
  - destruct H as [<-|H]; [reflexivity|].
    unfold touched in Hq. cbn [flat_map] in Hq. fold (touched r) in Hq.
    apply in_app_or in H. destruct H as [H|H].
    + apply in_map_iff in H. destruct H as [o' [<- Ho']].
      apply apply_op_frame. rewrite (tears_touched _ _ Ho'). intros C. apply Hq. apply in_or_app. left. exact C.
    + rewrite (IH _ _ q H) by (intros C; apply Hq; apply in_or_app; right; exact C).
      apply apply_op_frame. intros C. apply Hq. apply in_or_app. left. exact C.
Qed.

Lemma resolve_frame : forall (s s' : fs) q (T : list path),
  (forall x, ~ In x T -> s' x = s x) ->
  ~ In q T -> (forall x, s q = Some (NLink x) -> ~ In x T) ->
  resolve s' q = resolve s q.
Proof.
  intros s s' q T A Hq Hl. unfold resolve. rewrite (A q Hq).
  destruct (s q) as [[d|x]|] eqn:E; try reflexivity.
  rewrite (A x (Hl x eq_refl)). reflexivity.
Qed.

(* Addresses whose path (and link target) no operation of the list names read the same in every crash state *)
Lemma crash_others_unaffected : forall ops s s' q,
  In s' (crash_states s ops) ->
  ~ In q (touched ops) -> (forall x, s q = Some (NLink x) -> ~ In x (touched ops)) ->
  read_path s' q = read_path s q.
Proof.
  intros ops s s' q H Hq Hl. unfold read_path.
  rewrite (resolve_frame s s' q (touched ops)); auto.
  intros x Hx. eapply crash_states_frame; eauto.
Qed.

Lemma crash_states_head : forall s ops, In s (crash_states s ops).
Proof. intros s ops; destruct ops; cbn; auto. Qed.

Lemma crash_states_last : forall ops s, In (apply_ops s ops) (crash_states s ops).
Proof.
  induction ops as [|o r IH]; intros s; cbn [crash_states apply_ops fold_left].
  - left. reflexivity.
  - right. apply in_or_app. right. apply IH.
Qed.

Lemma crash_states_app : forall a b s s',
  In s' (crash_states s (a ++ b)) ->
  In s' (crash_states s a) \/ In s' (crash_states (apply_ops s a) b).
Proof.
  induction a as [|o r IH]; intros b s s' H.
  - right. exact H.
  - cbn [app crash_states] in H. destruct H as [<-|H].
    + left. apply crash_states_head.
    + apply in_app_or in H. destruct H as [H|H].
      * left. cbn [crash_states]. right. apply in_or_app. left. exact H.
      * apply IH in H. destruct H as [H|H].
        -- left. cbn [crash_states]. right. apply in_or_app. right. exact H.
        -- right. exact H.
Qed.

Lemma apply_ops_app : forall a b s, apply_ops s (a ++ b) = apply_ops (apply_ops s a) b.
Proof. intros. unfold apply_ops. apply fold_left_app. Qed.

(* crash_state_at (used by the correspondence) names a member of crash_states *)
Lemma crash_state_at_in : forall ops s k cut,
  (match cut, nth_error ops k with
   | Some c, Some (OWrite _ _ d) => (c < length d)%nat
   | _, _ => True
   end) ->
  In (crash_state_at s ops k cut) (crash_states s ops).
Proof.
  induction ops as [|o r IH]; intros s k cut H.
  - unfold crash_state_at. destruct k; cbn; destruct cut; auto.
  - destruct k as [|k].
    + unfold crash_state_at. cbn [firstn apply_ops fold_left nth_error] in *.
      destruct cut as [c|]; [|apply crash_states_head].
      destruct o; try apply crash_states_head.
      cbn [crash_states]. right. apply in_or_app. left.
      apply in_map_iff. exists (OWrite p off (firstn c d)). split; [reflexivity|].
      cbn [tears]. apply in_map_iff. exists c. split; [reflexivity|]. apply in_seq. cbv beta iota in H. split; [apply Nat.le_0_l | exact H].
    + cbn [crash_states]. right. apply in_or_app. right.
      specialize (IH (apply_op s o) k cut). unfold crash_state_at in *.
      cbn [firstn apply_ops fold_left nth_error] in *. apply IH. exact H.
Qed.

(* ------------------------------------------------------------------------------------------------ *)
(* temp names                                                                                       *)

Lemma tmp_neq : forall p sfx, tmp_of p sfx <> p.
Proof.
  intros p sfx H. apply (f_equal (@length Z)) in H. unfold tmp_of, tmp_tag in H.
  rewrite !app_length in H. cbn [length] in H. lia.
Qed.

Lemma drop_digits_app : forall a b,
  forallb is_digit a = true -> drop_digits (a ++ b) = drop_digits b.
Proof.
  induction a as [|c a IH]; intros b H; cbn [app drop_digits forallb] in *; [reflexivity|].
  apply andb_true_iff in H. destruct H as [H1 H2]. rewrite H1. apply IH. exact H2.
Qed.

Lemma forallb_rev : forall (f : Z -> bool) l, forallb f (rev l) = forallb f l.
Proof.
  intros f l. induction l as [|x l IH]; [reflexivity|].
  cbn [rev forallb]. rewrite forallb_app. cbn [forallb]. rewrite IH. rewrite andb_true_r. apply andb_comm.
Qed.

(* every name write_atomic creates is recognised as a temp name *)
Lemma tmp_name_recognised : forall p sfx, digits_ok sfx = true -> is_tmp_name (tmp_of p sfx) = true.
Proof.
  intros p sfx H. unfold digits_ok in H. apply andb_true_iff in H. destruct H as [Hd Hn].
  unfold is_tmp_name, tmp_of. rewrite !rev_app_distr. rewrite <- app_assoc.
  rewrite drop_digits_app by (rewrite forallb_rev; exact Hd).
  unfold tmp_tag. cbn [rev app]. cbn [drop_digits].
  change (is_digit 45) with false. cbv iota.
  rewrite !app_length, rev_length. cbn [length].
  apply andb_true_iff. split.
  - apply negb_true_iff. apply Nat.eqb_neq. destruct sfx; [discriminate|]. cbn [length]. lia.
  - cbn [starts_with]. rewrite !Z.eqb_refl. reflexivity.
Qed.

(* so an address that is not a temp name is never equal to one *)
Lemma not_tmp_neq : forall q p sfx, is_tmp_name q = false -> digits_ok sfx = true -> q <> tmp_of p sfx.
Proof. intros q p sfx H D ->. rewrite tmp_name_recognised in H by exact D. discriminate. Qed.

(* ------------------------------------------------------------------------------------------------ *)
(* write_atomic                                                                                     *)

Lemma write_at_nil : forall d, write_at [] 0 d = d.
Proof. intros d. unfold write_at. cbn. rewrite skipn_nil. apply app_nil_r. Qed.

Lemma lexists_none : forall s p, lexists s p = false -> s p = None.
Proof. unfold lexists. intros s p. destruct (s p); [discriminate|reflexivity]. Qed.

Lemma wa_before_rename : forall s t d,
  apply_ops s [OCreate t; OWrite t 0 d] t = Some (NFile d).
Proof.
  intros. cbn [apply_ops fold_left apply_op]. rewrite upd_same. rewrite upd_same. rewrite write_at_nil. reflexivity.
Qed.

Lemma read_path_file : forall s p d, s p = Some (NFile d) -> read_path s p = RData d.
Proof. intros s p d H. unfold read_path, resolve. rewrite H. reflexivity. Qed.

Lemma read_path_none : forall s p, s p = None -> read_path s p = RMissing.
Proof. intros s p H. unfold read_path, resolve. rewrite H. reflexivity. Qed.

(* the three outcomes of write_atomic for the target itself *)
Lemma write_atomic_target : forall s p sfx d s',
  In s' (crash_states s (fst (write_atomic_ops s p sfx d))) ->
  (forall x, s p = Some (NLink x) -> x <> tmp_of p sfx) ->
  read_path s' p = read_path s p \/ read_path s' p = RData d.
Proof.
  intros s p sfx d s' H Hl. unfold write_atomic_ops in H.
  set (t := tmp_of p sfx) in *.
  assert (Hpt : p <> t) by (intros C; symmetry in C; revert C; apply tmp_neq).
  destruct (lexists s t) eqn:E; cbn [fst] in H.
  - left. apply crash_others_unaffected with (ops := [OUnlink t]); auto.
    + cbn. intros [C|[]]. apply Hpt. symmetry. exact C.
    + intros x Hx. cbn. intros [C|[]]. apply (Hl x Hx). symmetry. exact C.
  - change [OCreate t; OWrite t 0 d; ORename t p] with ([OCreate t; OWrite t 0 d] ++ [ORename t p]) in H.
    apply crash_states_app in H. destruct H as [H|H].
    + left. apply crash_others_unaffected with (ops := [OCreate t; OWrite t 0 d]); auto.
      * cbn. intros [C|[C|[]]]; apply Hpt; symmetry; exact C.
      * intros x Hx. cbn. intros [C|[C|[]]]; apply (Hl x Hx); symmetry; exact C.
    + cbn [crash_states tears map app] in H. destruct H as [<-|[<-|[]]].
      * left. apply crash_others_unaffected with (ops := [OCreate t; OWrite t 0 d]); auto.
        -- apply crash_states_last.
        -- cbn. intros [C|[C|[]]]; apply Hpt; symmetry; exact C.
        -- intros x Hx. cbn. intros [C|[C|[]]]; apply (Hl x Hx); symmetry; exact C.
      * right. cbn [apply_op]. rewrite wa_before_rename.
        apply read_path_file. rewrite upd_same. reflexivity.
Qed.

Lemma wa_apply_ok : forall s t p d,
  apply_ops s [OCreate t; OWrite t 0 d; ORename t p] p = Some (NFile d).
Proof.
  intros s t p d.
  change [OCreate t; OWrite t 0 d; ORename t p] with ([OCreate t; OWrite t 0 d] ++ [ORename t p]).
  rewrite apply_ops_app.
  remember (apply_ops s [OCreate t; OWrite t 0 d]) as s2 eqn:E2.
  assert (H2 : s2 t = Some (NFile d)) by (rewrite E2; apply wa_before_rename).
  cbn [apply_ops fold_left apply_op]. rewrite H2. apply upd_same.
Qed.

(* the completed write_atomic leaves the new content (when it did not raise) *)
Lemma write_atomic_completes : forall s p sfx d,
  snd (write_atomic_ops s p sfx d) = true ->
  read_path (apply_ops s (fst (write_atomic_ops s p sfx d))) p = RData d.
Proof.
  intros s p sfx d H. unfold write_atomic_ops in *. destruct (lexists s (tmp_of p sfx)); [discriminate|].
  cbn [fst]. apply read_path_file. apply wa_apply_ok.
Qed.

Lemma write_atomic_touched : forall s p sfx d q,
  In q (touched (fst (write_atomic_ops s p sfx d))) -> q = p \/ q = tmp_of p sfx.
Proof.
  intros s p sfx d q H. unfold write_atomic_ops in H. destruct (lexists s (tmp_of p sfx)); cbn in H.
  - destruct H as [<-|[]]. right. reflexivity.
  - destruct H as [<-|[<-|[<-|[<-|[]]]]]; auto.
Qed.

(* ------------------------------------------------------------------------------------------------ *)
(* FileCache._store                                                                                 *)

Lemma lexists_upd_other : forall s p v q, q <> p -> lexists (upd s p v) q = lexists s q.
Proof. intros. unfold lexists. rewrite upd_other by assumption. reflexivity. Qed.

Lemma write_atomic_ops_upd : forall s p v sfx d,
  write_atomic_ops (upd s p v) p sfx d = write_atomic_ops s p sfx d.
Proof.
  intros. unfold write_atomic_ops. rewrite lexists_upd_other by apply tmp_neq. reflexivity.
Qed.

Lemma store_plain_target : forall s p sfx d s',
  In s' (crash_states s (fst (store_plain_ops s p sfx d))) ->
  (forall x, s p = Some (NLink x) -> x <> tmp_of p sfx) ->
  read_path s' p = read_path s p \/ read_path s' p = RData d \/
  (read_path s' p = RMissing /\ is_link s p = true).
Proof.
  intros s p sfx d s' H Hl. unfold store_plain_ops in H. cbn [fst] in H.
  destruct (is_link s p) eqn:L.
  - apply crash_states_app in H. destruct H as [H|H].
    + cbn [crash_states tears map app] in H. destruct H as [<-|[<-|[]]].
      * left. reflexivity.
      * right. right. split; [|reflexivity]. apply read_path_none. cbn [apply_op]. apply upd_same.
    + cbn [apply_ops fold_left apply_op] in H.
      rewrite <- (write_atomic_ops_upd s p None sfx d) in H.
      apply write_atomic_target in H.
      * destruct H as [H|H].
        -- right. right. split; [|reflexivity]. rewrite H. apply read_path_none. apply upd_same.
        -- right. left. exact H.
      * intros x. rewrite upd_same. discriminate.
  - cbn [app] in H. apply write_atomic_target in H; [|exact Hl].
    destruct H as [H|H]; [left|right; left]; exact H.
Qed.

Lemma store_plain_touched : forall s p sfx d q,
  In q (touched (fst (store_plain_ops s p sfx d))) -> q = p \/ q = tmp_of p sfx.
Proof.
  intros s p sfx d q H. unfold store_plain_ops in H. cbn [fst] in H.
  unfold touched in H. rewrite flat_map_app in H. apply in_app_or in H. destruct H as [H|H].
  - destruct (is_link s p); cbn in H; [|contradiction]. destruct H as [<-|[]]. left. reflexivity.
  - apply (write_atomic_touched s p sfx d q). exact H.
Qed.

Lemma store_plain_completes : forall s p sfx d,
  snd (store_plain_ops s p sfx d) = true ->
  apply_ops s (fst (store_plain_ops s p sfx d)) p = Some (NFile d).
Proof.
  intros s p sfx d H. unfold store_plain_ops in *. cbn [fst snd] in *.
  rewrite apply_ops_app.
  assert (W : forall s0, snd (write_atomic_ops s0 p sfx d) = true ->
                         apply_ops s0 (fst (write_atomic_ops s0 p sfx d)) p = Some (NFile d)).
  { intros s0 H0. unfold write_atomic_ops in *. destruct (lexists s0 (tmp_of p sfx)); [discriminate|].
    cbn [fst]. apply wa_apply_ok. }
  destruct (is_link s p).
  - change (apply_ops s [OUnlink p]) with (upd s p None).
    rewrite <- (write_atomic_ops_upd s p None sfx d).
    apply W. rewrite write_atomic_ops_upd. exact H.
  - change (apply_ops s []) with s. apply W. exact H.
Qed.

(* ------------------------------------------------------------------------------------------------ *)
(* FileCache._store_single_color_tile (repaired: link under a temp name, rename over the tile)      *)

Lemma link_tail : forall s1 p sc hard sfx2 c s',
  s1 sc = Some (NFile c) -> p <> sc -> sc <> tmp_of p sfx2 ->
  (forall x, s1 p = Some (NLink x) -> x <> tmp_of p sfx2) ->
  In s' (crash_states s1 (if lexists s1 (tmp_of p sfx2) then [OUnlink (tmp_of p sfx2)]
                          else [link_op hard sc (tmp_of p sfx2); ORename (tmp_of p sfx2) p])) ->
  read_path s' p = read_path s1 p \/ read_path s' p = RData c.
Proof.
  intros s1 p sc hard sfx2 c s' Hsc Hne Hst Hl H.
  set (t := tmp_of p sfx2) in *.
  assert (Hpt : p <> t) by (intros C; symmetry in C; revert C; apply tmp_neq).
  assert (Fr : forall v, read_path (upd s1 t v) p = read_path s1 p).
  { intros v. unfold read_path. rewrite (resolve_frame s1 (upd s1 t v) p [t]); auto.
    - intros x Hx. apply upd_other. intros C. apply Hx. left. symmetry. exact C.
    - intros [C|[]]. apply Hpt. symmetry. exact C.
    - intros x Hx [C|[]]. apply (Hl x Hx). symmetry. exact C. }
  destruct (lexists s1 t) eqn:E.
  - cbn [crash_states tears map app] in H. destruct H as [<-|[<-|[]]].
    + left. reflexivity.
    + left. cbn [apply_op]. apply Fr.
  - apply lexists_none in E.
    assert (T0 : tears (link_op hard sc t) = []) by (unfold link_op; destruct hard; reflexivity).
    cbn [crash_states] in H. rewrite T0 in H. cbn [tears map app] in H.
    assert (Hlk : exists n, apply_op s1 (link_op hard sc t) = upd s1 t (Some n) /\
                            (n = NFile c \/ n = NLink sc)).
    { unfold link_op. destruct hard; cbn [apply_op]; rewrite ?Hsc, ?E.
      - exists (NFile c). auto.
      - exists (NLink sc). auto. }
    destruct Hlk as [n [En Hn]].
    destruct H as [<-|[<-|[<-|[]]]].
    + left. reflexivity.
    + left. rewrite En. apply Fr.
    + right. rewrite En. cbn [apply_op]. rewrite upd_same.
      unfold read_path, resolve. rewrite upd_same.
      destruct Hn as [-> | ->]; [reflexivity|].
      rewrite upd_other by (intros C; apply Hne; symmetry; exact C).
      rewrite upd_other by (intros C; apply Hst; exact C).
      rewrite upd_other by (intros C; apply Hst; exact C).
      rewrite Hsc. reflexivity.
Qed.

Lemma store_single_target : forall s p sc hard same sfx sfx2 d s',
  In s' (crash_states s (store_single_ops s p sc hard same sfx sfx2 d)) ->
  p <> sc -> p <> tmp_of sc sfx -> sc <> tmp_of p sfx2 -> is_link s sc = false ->
  (forall x, s p = Some (NLink x) -> x <> tmp_of p sfx2) ->
  (forall x, s p = Some (NLink x) -> exists_ s sc = false -> x <> sc /\ x <> tmp_of sc sfx) ->
  read_path s' p = read_path s p \/
  read_path s' p = RData (match resolve s sc with Some c => c | None => d end).
Proof.
  intros s p sc hard same sfx sfx2 d s' H Hne Hnt Hst Hl Hlt Hx. unfold store_single_ops in H.
  destruct (exists_ s sc) eqn:E.
  - cbn [fst snd apply_ops fold_left app] in H.
    unfold exists_ in E. destruct (resolve s sc) as [c|] eqn:R; [|discriminate].
    assert (Hc : s sc = Some (NFile c)).
    { unfold resolve, is_link in *. destruct (s sc) as [[c0|t]|]; try discriminate. inversion R; reflexivity. }
    destruct (hard && same)%bool.
    + cbn [crash_states] in H. destruct H as [<-|[]]. left. reflexivity.
    + destruct (lexists s (tmp_of p sfx2)) eqn:EL.
      * eapply link_tail with (hard := hard); eauto. rewrite EL. exact H.
      * eapply link_tail with (hard := hard); eauto. rewrite EL. exact H.
  - assert (R : resolve s sc = None) by (unfold exists_ in E; destruct (resolve s sc); [discriminate|reflexivity]).
    rewrite R.
    assert (Fr : forall x, In x (crash_states s (fst (store_plain_ops s sc sfx d))) ->
                           read_path x p = read_path s p /\ x p = s p).
    { intros x Hin. split.
      - eapply crash_others_unaffected; eauto.
        + intros C. apply store_plain_touched in C. destruct C; contradiction.
        + intros y Hy C. apply store_plain_touched in C. destruct (Hx y Hy eq_refl). destruct C; contradiction.
      - eapply crash_states_frame; eauto.
        intros C. apply store_plain_touched in C. destruct C; contradiction. }
    destruct (snd (store_plain_ops s sc sfx d)) eqn:OK; [|left; apply Fr; exact H].
    destruct (hard && same)%bool; [left; apply Fr; exact H|].
    set (s1 := apply_ops s (fst (store_plain_ops s sc sfx d))) in *.
    assert (H1 : read_path s1 p = read_path s p /\ s1 p = s p) by (apply Fr; apply crash_states_last).
    assert (Hc : s1 sc = Some (NFile d)) by (apply store_plain_completes; exact OK).
    assert (Tail : forall l, In s' (crash_states s (fst (store_plain_ops s sc sfx d) ++ l)) ->
              l = (if lexists s1 (tmp_of p sfx2) then [OUnlink (tmp_of p sfx2)]
                   else [link_op hard sc (tmp_of p sfx2); ORename (tmp_of p sfx2) p]) ->
              read_path s' p = read_path s p \/ read_path s' p = RData d).
    { intros l Hin El. apply crash_states_app in Hin. destruct Hin as [Hin|Hin].
      - left. apply Fr. exact Hin.
      - fold s1 in Hin. rewrite El in Hin.
        destruct (link_tail s1 p sc hard sfx2 d s' Hc Hne Hst) as [T|T]; auto.
        + intros x Hxx. apply Hlt. destruct H1 as [_ H1]. rewrite <- H1. exact Hxx.
        + left. rewrite T. apply H1. }
    destruct (lexists s1 (tmp_of p sfx2)) eqn:EL; eapply Tail; eauto; rewrite EL; reflexivity.
Qed.

Lemma store_single_touched : forall s p sc hard same sfx sfx2 d q,
  In q (touched (store_single_ops s p sc hard same sfx sfx2 d)) ->
  q = p \/ q = tmp_of p sfx2 \/ q = sc \/ q = tmp_of sc sfx.
Proof.
  intros s p sc hard same sfx sfx2 d q H. unfold store_single_ops in H.
  assert (A : forall l, In q (touched l) ->
              l = [] \/ l = fst (store_plain_ops s sc sfx d) -> q = p \/ q = tmp_of p sfx2 \/ q = sc \/ q = tmp_of sc sfx).
  { intros l Hq [-> | ->]; [contradiction|]. apply store_plain_touched in Hq. tauto. }
  assert (B : forall s1, In q (touched (if lexists s1 (tmp_of p sfx2) then [OUnlink (tmp_of p sfx2)]
                          else [link_op hard sc (tmp_of p sfx2); ORename (tmp_of p sfx2) p])) ->
                         q = p \/ q = tmp_of p sfx2).
  { intros s1 Hq. destruct (lexists s1 (tmp_of p sfx2)).
    - cbn in Hq. destruct Hq as [<-|[]]. auto.
    - unfold link_op in Hq. destruct hard; cbn in Hq; destruct Hq as [<-|[<-|[<-|[]]]]; auto. }
  assert (C : forall l s1, In q (touched (l ++ (if lexists s1 (tmp_of p sfx2) then [OUnlink (tmp_of p sfx2)]
                          else [link_op hard sc (tmp_of p sfx2); ORename (tmp_of p sfx2) p]))) ->
              l = [] \/ l = fst (store_plain_ops s sc sfx d) -> q = p \/ q = tmp_of p sfx2 \/ q = sc \/ q = tmp_of sc sfx).
  { intros l s1 Hq Hl. unfold touched in Hq. rewrite flat_map_app in Hq. apply in_app_or in Hq. destruct Hq as [Hq|Hq].
    - eapply A; eauto.
    - apply B in Hq. tauto. }
  destruct (exists_ s sc); cbn [fst snd] in H.
  - destruct (hard && same)%bool; [contradiction|].
    destruct (lexists (apply_ops s []) (tmp_of p sfx2)) eqn:EL.
    + eapply (C [] (apply_ops s [])); [rewrite EL; exact H|auto].
    + eapply (C [] (apply_ops s [])); [rewrite EL; exact H|auto].
  - destruct (snd (store_plain_ops s sc sfx d)); [|eapply A; eauto].
    destruct (hard && same)%bool; [eapply A; eauto|].
    destruct (lexists (apply_ops s (fst (store_plain_ops s sc sfx d))) (tmp_of p sfx2)) eqn:EL.
    + eapply (C _ (apply_ops s (fst (store_plain_ops s sc sfx d)))); [rewrite EL; exact H|auto].
    + eapply (C _ (apply_ops s (fst (store_plain_ops s sc sfx d)))); [rewrite EL; exact H|auto].
Qed.

(* ------------------------------------------------------------------------------------------------ *)
(* FileCache.store_tile                                                                             *)

(* side conditions on the state before the store (see P_C06.v for their meaning) *)
Definition req_ok (s : fs) (r : file_req) : Prop :=
  digits_ok (rq_sfx r) = true /\ digits_ok (rq_sfx2 r) = true /\
  is_tmp_name (rq_loc r) = false /\
  (forall x, s (rq_loc r) = Some (NLink x) -> is_tmp_name x = false) /\
  (forall sc, rq_color r = Some sc ->
     rq_loc r <> sc /\ is_tmp_name sc = false /\ is_link s sc = false /\
     (forall x, s (rq_loc r) = Some (NLink x) -> exists_ s sc = false -> x <> sc)).

Lemma file_store_target : forall s r s',
  req_ok s r ->
  In s' (crash_states s (file_store_ops s r)) ->
  read_path s' (rq_loc r) = read_path s (rq_loc r) \/
  read_path s' (rq_loc r) = RData (new_content s r) \/
  (read_path s' (rq_loc r) = RMissing /\ is_link s (rq_loc r) = true /\ linked_store r = false).
Proof.
  intros s r s' [Hd [Hd2 [Hp [Hl Hc]]]] H.
  assert (Plain : linked_store r = false ->
                  In s' (crash_states s (fst (store_plain_ops s (rq_loc r) (rq_sfx r) (rq_data r)))) ->
                  read_path s' (rq_loc r) = read_path s (rq_loc r) \/
                  read_path s' (rq_loc r) = RData (rq_data r) \/
                  (read_path s' (rq_loc r) = RMissing /\ is_link s (rq_loc r) = true /\ linked_store r = false)).
  { intros Ls H0. apply store_plain_target in H0.
    - destruct H0 as [T|[T|[T L]]]; auto.
    - intros x Hx. apply not_tmp_neq; auto. }
  assert (Single : forall sc hard, rq_color r = Some sc ->
             In s' (crash_states s (store_single_ops s (rq_loc r) sc hard (rq_same r) (rq_sfx r) (rq_sfx2 r) (rq_data r))) ->
             read_path s' (rq_loc r) = read_path s (rq_loc r) \/
             read_path s' (rq_loc r) = RData (match resolve s sc with Some c => c | None => rq_data r end) \/
             (read_path s' (rq_loc r) = RMissing /\ is_link s (rq_loc r) = true /\ linked_store r = false)).
  { intros sc hard Ec H0. destruct (Hc sc Ec) as [N1 [N0 [N2 N3]]].
    apply store_single_target in H0; auto.
    - destruct H0 as [T|T]; auto.
    - apply not_tmp_neq; auto.
    - apply not_tmp_neq; auto.
    - intros x Hx. apply not_tmp_neq; auto.
    - intros x Hx Ex. split; [apply N3; auto|]. apply not_tmp_neq; auto. }
  unfold file_store_ops, new_content, linked_store in *.
  destruct (rq_mode r); destruct (rq_color r) as [sc|];
    try (apply Plain; [reflexivity|exact H]); eapply Single; eauto.
Qed.

Lemma file_store_touched : forall s r q,
  In q (touched (file_store_ops s r)) ->
  q = rq_loc r \/ q = tmp_of (rq_loc r) (rq_sfx r) \/ q = tmp_of (rq_loc r) (rq_sfx2 r) \/
  (exists sc, rq_color r = Some sc /\ (q = sc \/ q = tmp_of sc (rq_sfx r))).
Proof.
  intros s r q H. unfold file_store_ops in H.
  destruct (rq_mode r); destruct (rq_color r) as [sc|];
    try (apply store_plain_touched in H; tauto);
    apply store_single_touched in H; destruct H as [H|[H|[H|H]]]; auto; right; right; right; exists sc; auto.
Qed.

(* the other addresses: anything that is neither the target, nor the colour file, nor one of the temp
   names, and does not link to one of them, reads as before in every crash state *)
Lemma file_store_others : forall s r s' q,
  In s' (crash_states s (file_store_ops s r)) ->
  let T := [rq_loc r; tmp_of (rq_loc r) (rq_sfx r); tmp_of (rq_loc r) (rq_sfx2 r)] ++
           match rq_color r with Some sc => [sc; tmp_of sc (rq_sfx r)] | None => [] end in
  ~ In q T -> (forall x, s q = Some (NLink x) -> ~ In x T) ->
  read_path s' q = read_path s q.
Proof.
  intros s r s' q H T Hq Hl.
  assert (Sub : forall x, In x (touched (file_store_ops s r)) -> In x T).
  { intros x Hx. apply file_store_touched in Hx. subst T. cbn [app].
    destruct Hx as [-> | [-> | [-> | [sc [E [-> | ->]]]]]]; try rewrite E; cbn [In app]; tauto. }
  eapply crash_others_unaffected; eauto.
  intros x Hx C. apply (Hl x Hx). apply Sub. exact C.
Qed.

(* a link to an existing colour file is not disturbed by a store of another tile of the same colour *)
Lemma file_store_same_colour_link_kept : forall s r s' q sc,
  In s' (crash_states s (file_store_ops s r)) ->
  rq_color r = Some sc -> exists_ s sc = true ->
  q <> rq_loc r -> q <> tmp_of (rq_loc r) (rq_sfx2 r) ->
  sc <> rq_loc r -> sc <> tmp_of (rq_loc r) (rq_sfx2 r) -> s q = Some (NLink sc) ->
  rq_mode r <> LNone ->
  read_path s' q = read_path s q.
Proof.
  intros s r s' q sc H Ec Ex Hq Hqt Hsc Hsct Hlq Hm.
  assert (Sub : forall x, In x (touched (file_store_ops s r)) -> x = rq_loc r \/ x = tmp_of (rq_loc r) (rq_sfx2 r)).
  { intros x Hx. unfold file_store_ops in Hx. rewrite Ec in Hx.
    assert (S1 : forall hard, In x (touched (store_single_ops s (rq_loc r) sc hard (rq_same r) (rq_sfx r) (rq_sfx2 r) (rq_data r))) ->
                              x = rq_loc r \/ x = tmp_of (rq_loc r) (rq_sfx2 r)).
    { intros hard Hh. unfold store_single_ops in Hh. rewrite Ex in Hh. cbn [fst snd app apply_ops fold_left] in Hh.
      destruct (hard && rq_same r)%bool; [contradiction|].
      destruct (lexists s (tmp_of (rq_loc r) (rq_sfx2 r))).
      - cbn in Hh. destruct Hh as [<-|[]]. auto.
      - unfold link_op in Hh. destruct hard; cbn in Hh; destruct Hh as [<-|[<-|[<-|[]]]]; auto. }
    destruct (rq_mode r); [contradiction Hm; reflexivity| |]; eapply S1; eauto. }
  eapply crash_others_unaffected; [exact H| |].
  - intros C. apply Sub in C. destruct C; contradiction.
  - intros x Hx C. rewrite Hlq in Hx. inversion Hx; subst x. apply Sub in C. destruct C; contradiction.
Qed.

(* ------------------------------------------------------------------------------------------------ *)
(* non-vacuity                                                                                      *)

Definition ex_p : path := [48; 49; 47; 48; 46; 112].           (* "01/0.p" *)
Definition ex_q : path := [48; 49; 47; 49; 46; 112].           (* "01/1.p" *)
Definition ex_sc : path := [115; 47; 102; 102; 46; 112].       (* "s/ff.p" *)
Definition ex_fs : fs := fs_of [(ex_p, NFile [1; 2; 3]); (ex_q, NLink ex_sc); (ex_sc, NFile [7; 7])].
Definition ex_req_plain : file_req := mkReq ex_q [4; 5; 6; 7] LSym None [52; 50] [53] false.
Definition ex_req_link : file_req := mkReq ex_p [7; 7] LSym (Some ex_sc) [52; 50] [53] false.

Example req_ok_plain_example : req_ok ex_fs ex_req_plain.
Proof.
  unfold req_ok. split; [reflexivity|]. split; [reflexivity|]. split; [reflexivity|]. split.
  - intros x Hx. vm_compute in Hx. inversion Hx. reflexivity.
  - intros sc Hc. discriminate Hc.
Qed.

Example req_ok_link_example : req_ok ex_fs ex_req_link.
Proof.
  unfold req_ok. split; [reflexivity|]. split; [reflexivity|]. split; [reflexivity|]. split.
  - intros x Hx. vm_compute in Hx. discriminate Hx.
  - intros sc Hc. cbn in Hc. inversion Hc; subst sc. split; [discriminate|]. split; [reflexivity|].
    split; [reflexivity|]. intros x Hx. vm_compute in Hx. discriminate Hx.
Qed.

(* a plain store over a link: 9 crash states; the address reads old, missing (link removed) or new *)
Example plain_store_states_example :
  map (fun s' => read_path s' ex_q) (crash_states ex_fs (file_store_ops ex_fs ex_req_plain)) =
  [RData [7; 7]; RMissing; RMissing; RMissing; RMissing; RMissing; RMissing; RMissing; RData [4; 5; 6; 7]].
Proof. vm_compute. reflexivity. Qed.

(* the formerly failing input (a regular tile replaced by a single colour link): symlink under the temp name,
   rename; the address reads old, old, new - never missing *)
Example regular_replaced_by_link_states_example :
  file_store_ops ex_fs ex_req_link = [OSymlink ex_sc (tmp_of ex_p [53]); ORename (tmp_of ex_p [53]) ex_p] /\
  map (fun s' => read_path s' ex_p) (crash_states ex_fs (file_store_ops ex_fs ex_req_link)) =
  [RData [1; 2; 3]; RData [1; 2; 3]; RData [7; 7]].
Proof. vm_compute. split; reflexivity. Qed.

(* ================================================================================================ *)
(* PART 2: compact bundles (Crash.v part 2)                                                         *)

(* ------------------------------------------------------------------------------------------------ *)
(* Files: frame, read-your-write, extensionality of the readers                                     *)

Lemma flen_fwrite : forall f off d, flen (fwrite f off d) = Z.max (flen f) (off + zlen d).
Proof. reflexivity. Qed.

Lemma fbyte_fwrite_out : forall f off d i,
  i < off \/ off + zlen d <= i -> fbyte (fwrite f off d) i = fbyte f i.
Proof.
  intros f off d i H. unfold fbyte, fwrite. cbn [flen fat].
  destruct (0 <=? i) eqn:E0; cbn [andb]; [|reflexivity].
  apply Z.leb_le in E0.
  destruct (off <=? i) eqn:E1; destruct (i <? off + zlen d) eqn:E2; cbn [andb];
    try apply Z.leb_le in E1; try apply Z.leb_gt in E1;
    try apply Z.ltb_lt in E2; try apply Z.ltb_ge in E2; try lia;
    destruct (i <? Z.max (flen f) (off + zlen d)) eqn:E3;
    destruct (i <? flen f) eqn:E4; try reflexivity;
    try apply Z.ltb_lt in E3; try apply Z.ltb_ge in E3;
    try apply Z.ltb_lt in E4; try apply Z.ltb_ge in E4; try lia;
    unfold fbyte; destruct (0 <=? i) eqn:E5; cbn [andb]; try reflexivity;
    try (apply Z.leb_gt in E5; lia);
    destruct (i <? flen f) eqn:E6; try reflexivity;
    try apply Z.ltb_lt in E6; try apply Z.ltb_ge in E6; lia.
Qed.

Lemma fbyte_fwrite_in : forall f off d i,
  0 <= off -> off <= i < off + zlen d ->
  fbyte (fwrite f off d) i = nth (Z.to_nat (i - off)) d 0.
Proof.
  intros f off d i H0 H. unfold fbyte, fwrite. cbn [flen fat].
  replace (0 <=? i) with true by (symmetry; apply Z.leb_le; lia).
  replace (i <? Z.max (flen f) (off + zlen d)) with true by (symmetry; apply Z.ltb_lt; lia).
  replace (off <=? i) with true by (symmetry; apply Z.leb_le; lia).
  replace (i <? off + zlen d) with true by (symmetry; apply Z.ltb_lt; lia).
  reflexivity.
Qed.

Lemma fread_length : forall f off n, length (fread f off n) = n.
Proof. intros. unfold fread. rewrite map_length, seq_length. reflexivity. Qed.

Lemma fread_ext : forall f g off n,
  (forall i, off <= i < off + Z.of_nat n -> fbyte g i = fbyte f i) ->
  fread g off n = fread f off n.
Proof.
  intros f g off n H. unfold fread. apply map_ext_in. intros k Hk.
  apply in_seq in Hk. apply H. lia.
Qed.

Lemma rdnum_ext : forall f g off n,
  off + Z.of_nat n <= flen f -> flen f <= flen g ->
  (forall i, off <= i < off + Z.of_nat n -> fbyte g i = fbyte f i) ->
  rdnum g off n = rdnum f off n.
Proof.
  intros f g off n H1 H2 H. unfold rdnum.
  replace (off + Z.of_nat n <=? flen f) with true by (symmetry; apply Z.leb_le; lia).
  replace (off + Z.of_nat n <=? flen g) with true by (symmetry; apply Z.leb_le; lia).
  rewrite (fread_ext f g); auto.
Qed.

Lemma freadz_full : forall f off n, off + n <= flen f -> freadz f off n = fread f off (Z.to_nat n).
Proof.
  intros. unfold freadz. replace (Z.min n (flen f - off)) with n by lia. reflexivity.
Qed.

Lemma map_nth_seq0 : forall (d : list Z), map (fun k => nth k d 0) (seq 0 (length d)) = d.
Proof.
  induction d as [|x d IH]; [reflexivity|].
  cbn [length seq map nth]. f_equal.
  rewrite <- seq_shift, map_map. exact IH.
Qed.

Lemma firstn_skipn_nth : forall a n (d : list Z), (a + n <= length d)%nat ->
  firstn n (skipn a d) = map (fun k => nth (a + k) d 0) (seq 0 n).
Proof.
  induction a as [|a IHa].
  - cbn [skipn Nat.add]. induction n as [|n IHn]; intros d H; [reflexivity|].
    destruct d as [|x d]; [cbn [length] in H; lia|].
    cbn [firstn seq map nth]. f_equal.
    rewrite <- seq_shift, map_map. cbn [nth]. apply IHn. cbn [length] in H. lia.
  - intros n d H. destruct d as [|x d]; [cbn [length] in H; lia|].
    cbn [skipn]. rewrite IHa by (cbn [length] in H; lia).
    apply map_ext. intros k. reflexivity.
Qed.

Lemma fread_fwrite_chunk : forall f off d a n,
  0 <= off -> (a + n <= length d)%nat ->
  fread (fwrite f off d) (off + Z.of_nat a) n = firstn n (skipn a d).
Proof.
  intros f off d a n H0 H. rewrite firstn_skipn_nth by exact H.
  unfold fread. apply map_ext_in. intros k Hk. apply in_seq in Hk.
  rewrite fbyte_fwrite_in by (unfold zlen; lia).
  f_equal. lia.
Qed.

Lemma fread_fwrite_same : forall f off d, 0 <= off -> fread (fwrite f off d) off (length d) = d.
Proof.
  intros f off d H0.
  replace off with (off + Z.of_nat 0) at 2 by lia.
  rewrite fread_fwrite_chunk by (auto; lia).
  cbn [skipn]. apply firstn_all.
Qed.

Lemma zlist_eqb_true : forall a b, zlist_eqb a b = true -> a = b.
Proof.
  unfold zlist_eqb. induction a as [|x a IH]; intros [|y b] H; try reflexivity; try discriminate.
  apply andb_true_iff in H. destruct H as [H1 H2]. apply Z.eqb_eq in H1. subst y.
  f_equal. apply IH. exact H2.
Qed.

Lemma zlen_firstn_le : forall k (d : list Z), zlen (firstn k d) <= zlen d.
Proof. intros. unfold zlen. rewrite firstn_length. lia. Qed.

Lemma in_firstn : forall (k : nat) (d : list Z) x, In x (firstn k d) -> In x d.
Proof.
  induction k as [|k IH]; intros d x H; [destruct H|].
  destruct d as [|y d]; [destruct H|].
  cbn [firstn] in H. destruct H as [H|H]; [left; exact H|right; apply IH; exact H].
Qed.

Lemma unle_nonneg : forall d, (forall x, In x d -> 0 <= x) -> 0 <= unle d.
Proof.
  induction d as [|x d IH]; intros H; cbn [unle]; [lia|].
  assert (0 <= x) by (apply H; left; reflexivity).
  assert (0 <= unle d) by (apply IH; intros y Hy; apply H; right; exact Hy).
  lia.
Qed.

(* ------------------------------------------------------------------------------------------------ *)
(* (1) Version 2                                                                                    *)

Definition v2_wf (f : file) : Prop :=
  V2_REC <= flen f /\ forall slot, 0 <= slot < SLOTS -> v2_slot_ok f slot = true.

(* the record area only grows *)
Definition ext2 (f g : file) : Prop :=
  flen f <= flen g /\ forall i, V2_REC <= i < flen f -> fbyte g i = fbyte f i.

Lemma ext2_refl : forall f, ext2 f f.
Proof. intros f. split; [lia|auto]. Qed.

Lemma ext2_trans : forall f g h, ext2 f g -> ext2 g h -> ext2 f h.
Proof.
  intros f g h [L1 B1] [L2 B2]. split; [lia|].
  intros i Hi. rewrite B2 by lia. apply B1. exact Hi.
Qed.

Lemma v2_published_ext : forall b L0 f g slot v,
  V2_REC <= L0 -> ext2 f g ->
  v2_published b L0 f slot v = true -> v2_published b L0 g slot v = true.
Proof.
  intros b L0 f g slot v HL [Hlen Hb] H. unfold v2_published in *.
  rewrite !andb_true_iff in *. destruct H as [[[H1 H2] H3] H4].
  apply Z.leb_le in H2. apply Z.leb_le in H3.
  repeat split; auto.
  - apply Z.leb_le. lia.
  - apply Z.leb_le. lia.
  - rewrite (fread_ext f g); auto. intros i Hi. apply Hb. lia.
Qed.

Lemma v2_entry_ext : forall f g slot,
  64 + 8 * slot + 8 <= flen f -> flen f <= flen g ->
  (forall i, 64 + 8 * slot <= i < 64 + 8 * slot + 8 -> fbyte g i = fbyte f i) ->
  v2_entry g slot = v2_entry f slot.
Proof.
  intros f g slot H1 H2 H. unfold v2_entry. apply rdnum_ext.
  - change (Z.of_nat 8) with 8. lia.
  - exact H2.
  - change (Z.of_nat 8) with 8. exact H.
Qed.

Section V2.
Variable b : batch.
Variable f0 : file.
Variable Q : Z -> Prop.
Hypothesis Hlen0 : V2_REC <= flen f0.

Definition P2 (f : file) (slot : Z) : Prop :=
  v2_entry f slot = v2_entry f0 slot \/
  exists v, v2_entry f slot = Some v /\ v2_published b (flen f0) f slot v = true /\ Q v.

Definition inv2 (f : file) : Prop :=
  ext2 f0 f /\ forall slot, 0 <= slot < SLOTS -> P2 f slot.

Lemma P2_transfer : forall f g slot,
  ext2 f g -> v2_entry g slot = v2_entry f slot -> P2 f slot -> P2 g slot.
Proof.
  intros f g slot He Hs [H|[v [H1 [H2 H3]]]].
  - left. congruence.
  - right. exists v. split; [congruence|]. split; [|exact H3].
    eapply v2_published_ext; eauto.
Qed.

Lemma inv2_init : inv2 f0.
Proof. split; [apply ext2_refl|]. intros slot _. left. reflexivity. Qed.

Lemma inv2_nonindex : forall f off d,
  inv2 f -> off = flen f \/ (0 <= off /\ off + zlen d <= 64) -> inv2 (fwrite f off d).
Proof.
  intros f off d [He HP] Hw.
  assert (Hf : V2_REC <= flen f) by (destruct He; lia).
  assert (Hz : 0 <= zlen d) by (unfold zlen; lia).
  assert (He' : ext2 f (fwrite f off d)).
  { split; [rewrite flen_fwrite; lia|].
    intros i Hi. apply fbyte_fwrite_out. unfold V2_REC in *. lia. }
  split; [eapply ext2_trans; eauto|].
  intros slot Hs. apply (P2_transfer f); auto.
  apply v2_entry_ext.
  - unfold V2_REC, SLOTS in *. lia.
  - destruct He'. assumption.
  - intros i Hi. apply fbyte_fwrite_out. unfold V2_REC, SLOTS in *. lia.
Qed.

Lemma inv2_index : forall f off d,
  inv2 f -> 64 <= off -> off + 8 <= V2_REC -> (off - 64) mod 8 = 0 -> zlen d = 8 ->
  v2_entry f ((off - 64) / 8) = Some (unle d) \/
    v2_published b (flen f0) f ((off - 64) / 8) (unle d) = true ->
  Q (unle d) ->
  inv2 (fwrite f off d).
Proof.
  intros f off d [He HP] H64 Hend Hmod Hn Hv HQ.
  assert (Hf : V2_REC <= flen f) by (destruct He; lia).
  assert (Hoff : off = 64 + 8 * ((off - 64) / 8)).
  { pose proof (Z.div_mod (off - 64) 8). lia. }
  set (s0 := (off - 64) / 8) in *.
  assert (Hlen : flen (fwrite f off d) = flen f) by (rewrite flen_fwrite; lia).
  assert (He' : ext2 f (fwrite f off d)).
  { split; [lia|]. intros i Hi. apply fbyte_fwrite_out. lia. }
  split; [eapply ext2_trans; eauto|].
  intros slot Hs.
  destruct (Z.eq_dec slot s0) as [E|E].
  - subst slot.
    assert (Hnew : v2_entry (fwrite f off d) s0 = Some (unle d)).
    { unfold v2_entry, rdnum. rewrite <- Hoff.
      replace (off + Z.of_nat 8 <=? flen (fwrite f off d)) with true
        by (symmetry; apply Z.leb_le; change (Z.of_nat 8) with 8; lia).
      replace 8%nat with (length d) by (unfold zlen in Hn; lia).
      rewrite fread_fwrite_same by lia. reflexivity. }
    destruct Hv as [Hv|Hv].
    + apply (P2_transfer f); auto. congruence.
    + right. exists (unle d). split; [exact Hnew|]. split; [|exact HQ].
      eapply v2_published_ext; eauto.
  - apply (P2_transfer f); auto.
    apply v2_entry_ext.
    + unfold V2_REC, SLOTS in *. lia.
    + lia.
    + intros i Hi. apply fbyte_fwrite_out. lia.
Qed.

Lemma inv2_step : forall f w,
  inv2 f -> v2_step_ok b (flen f0) f w = true -> Q (unle (snd w)) -> inv2 (bw_apply f w).
Proof.
  intros f [off d] Hi Hs HQ. unfold bw_apply, v2_step_ok in *. cbn [fst snd] in *.
  destruct (off =? flen f) eqn:E1.
  { apply Z.eqb_eq in E1. apply inv2_nonindex; auto. }
  destruct ((0 <=? off) && (off + zlen d <=? 64)) eqn:E2.
  { apply andb_true_iff in E2. destruct E2 as [A B]. apply Z.leb_le in A. apply Z.leb_le in B.
    apply inv2_nonindex; auto. }
  rewrite !andb_true_iff in Hs. destruct Hs as [[[[A B] C] D] E].
  apply Z.leb_le in A. apply Z.leb_le in B. apply Z.eqb_eq in C. apply Z.eqb_eq in D.
  apply inv2_index; auto; try lia.
  apply orb_true_iff in E. destruct E as [E|E]; [left|right; exact E].
  unfold opt_eqb in E. destruct (v2_entry f ((off - 64) / 8)); [|discriminate].
  apply Z.eqb_eq in E. congruence.
Qed.

Lemma inv2_tear : forall f w f',
  inv2 f -> v2_tearable f w = true -> In f' (bw_tears f w) -> inv2 f'.
Proof.
  intros f [off d] f' Hi Ht Hin. unfold v2_tearable, bw_tears in *. cbn [fst snd] in *.
  apply in_map_iff in Hin. destruct Hin as [k [Hk _]]. subst f'.
  pose proof (zlen_firstn_le k d).
  apply inv2_nonindex; auto.
  apply orb_true_iff in Ht. destruct Ht as [Ht|Ht].
  - left. apply Z.eqb_eq in Ht. exact Ht.
  - right. apply andb_true_iff in Ht. destruct Ht as [A B].
    apply Z.leb_le in A. apply Z.leb_le in B. lia.
Qed.

Lemma inv2_run : forall ops f f',
  inv2 f -> v2_raw_ok b (flen f0) f ops = true ->
  (forall w, In w ops -> Q (unle (snd w))) ->
  In f' (v2_crash_states f ops) -> inv2 f'.
Proof.
  induction ops as [|w r IH]; intros f f' Hi Hok HQ Hin.
  - cbn [v2_crash_states] in Hin. destruct Hin as [Hin|[]]. subst. exact Hi.
  - cbn [v2_crash_states v2_raw_ok] in *.
    apply andb_true_iff in Hok. destruct Hok as [Hs Hr].
    destruct Hin as [Hin|Hin]; [subst; exact Hi|].
    apply in_app_or in Hin. destruct Hin as [Hin|Hin].
    + destruct (v2_tearable f w) eqn:Et; [|destruct Hin].
      eapply inv2_tear; eauto.
    + apply (IH (bw_apply f w)); auto.
      * apply inv2_step; auto. apply HQ. left. reflexivity.
      * intros w' Hw'. apply HQ. right. exact Hw'.
Qed.

Lemma inv2_read : forall f slot,
  v2_wf f0 -> inv2 f -> 0 <= slot < SLOTS ->
  v2_read f slot = v2_read f0 slot \/
  exists dd v, has_data b slot dd = true /\ v2_read f slot = RData dd /\
               Q v /\ v / P40 <> 0 /\ length dd = Z.to_nat (v / P40).
Proof.
  intros f slot [_ Hok] [[Hlen Hb] HP] Hs.
  destruct (HP slot Hs) as [H|[v [H1 [H2 H3]]]].
  - left. specialize (Hok slot Hs). unfold v2_slot_ok, v2_read in *. rewrite H.
    destruct (v2_entry f0 slot) as [v|]; [|reflexivity].
    destruct (v / P40 =? 0) eqn:E; [reflexivity|].
    cbn [orb] in Hok. apply andb_true_iff in Hok. destruct Hok as [A B].
    apply Z.leb_le in A. apply Z.leb_le in B.
    rewrite !freadz_full by lia. f_equal.
    apply fread_ext. intros i Hi. apply Hb.
    apply Z.eqb_neq in E.
    assert (0 <= v / P40 \/ v / P40 < 0) as [G|G] by lia; lia.
  - right. unfold v2_published in H2. rewrite !andb_true_iff in H2.
    destruct H2 as [[[A B] C] D].
    apply negb_true_iff in A. apply Z.leb_le in B. apply Z.leb_le in C.
    exists (fread f (v mod P40) (Z.to_nat (v / P40))), v.
    split; [exact D|]. split.
    + unfold v2_read. rewrite H1. rewrite A. rewrite freadz_full by lia. reflexivity.
    + split; [exact H3|]. split; [apply Z.eqb_neq; exact A|apply fread_length].
Qed.

End V2.

(* the general form: no assumption on the written bytes, no claim that the exposed tile is non-empty *)
Theorem v2_crash_safe_gen : forall b f0 ops f' slot,
  v2_wf f0 -> v2_raw_ok b (flen f0) f0 ops = true ->
  In f' (v2_crash_states f0 ops) -> 0 <= slot < SLOTS ->
  v2_read f' slot = v2_read f0 slot \/
  exists dd, has_data b slot dd = true /\ v2_read f' slot = RData dd.
Proof.
  intros b f0 ops f' slot Hwf Hok Hin Hs.
  assert (Hi : inv2 b f0 (fun _ => True) f').
  { apply (inv2_run b f0 (fun _ => True) (proj1 Hwf) ops f0); auto.
    apply inv2_init. }
  destruct (inv2_read b f0 _ f' slot Hwf Hi Hs) as [H|[dd [v [H1 [H2 _]]]]]; [left; exact H|].
  right. exists dd. auto.
Qed.

(* every byte handed to write(2) is a byte (only the lower bound matters) *)
Definition ops_bytes_nonneg (ops : list bwrite) : Prop :=
  forall w, In w ops -> forall x, In x (snd w) -> 0 <= x.

Theorem v2_crash_safe : forall b f0 ops f' slot,
  v2_wf f0 -> v2_raw_ok b (flen f0) f0 ops = true -> ops_bytes_nonneg ops ->
  In f' (v2_crash_states f0 ops) -> 0 <= slot < SLOTS ->
  v2_read f' slot = v2_read f0 slot \/
  exists dd, has_data b slot dd = true /\ dd <> [] /\ v2_read f' slot = RData dd.
Proof.
  intros b f0 ops f' slot Hwf Hok Hby Hin Hs.
  assert (Hi : inv2 b f0 (fun v => 0 <= v) f').
  { apply (inv2_run b f0 (fun v => 0 <= v) (proj1 Hwf) ops f0); auto.
    - apply inv2_init.
    - intros w Hw. apply unle_nonneg. apply Hby. exact Hw. }
  destruct (inv2_read b f0 _ f' slot Hwf Hi Hs) as [H|[dd [v [H1 [H2 [H3 [H4 H5]]]]]]];
    [left; exact H|].
  right. exists dd. split; [exact H1|]. split; [|exact H2].
  intros E. subst dd. cbn [length] in H5.
  assert (0 <= v / P40) by (apply Z.div_pos; unfold P40; lia).
  lia.
Qed.

(* the same conclusion without looking at the bytes, for batches without empty tiles *)
Theorem v2_crash_safe_nonempty_batch : forall b f0 ops f' slot,
  v2_wf f0 -> v2_raw_ok b (flen f0) f0 ops = true -> (forall s, has_data b s [] = false) ->
  In f' (v2_crash_states f0 ops) -> 0 <= slot < SLOTS ->
  v2_read f' slot = v2_read f0 slot \/
  exists dd, has_data b slot dd = true /\ dd <> [] /\ v2_read f' slot = RData dd.
Proof.
  intros b f0 ops f' slot Hwf Hok Hne Hin Hs.
  destruct (v2_crash_safe_gen b f0 ops f' slot Hwf Hok Hin Hs) as [H|[dd [H1 H2]]]; [left; exact H|].
  right. exists dd. split; [exact H1|]. split; [|exact H2].
  intros E. subst dd. rewrite Hne in H1. discriminate.
Qed.

Corollary v2_others_unaffected : forall b f0 ops f' slot,
  v2_wf f0 -> v2_raw_ok b (flen f0) f0 ops = true ->
  In f' (v2_crash_states f0 ops) -> 0 <= slot < SLOTS ->
  (forall dd, has_data b slot dd = false) ->
  v2_read f' slot = v2_read f0 slot.
Proof.
  intros b f0 ops f' slot Hwf Hok Hin Hs Hno.
  destruct (v2_crash_safe_gen b f0 ops f' slot Hwf Hok Hin Hs) as [H|[dd [H1 H2]]]; [exact H|].
  rewrite Hno in H1. discriminate.
Qed.

(* why v2_crash_safe needs one of the two extra hypotheses: with a negative "byte" in an index entry the
   size field is negative, an empty tile of the batch counts as published, and the reader returns the
   empty string where the slot was missing before *)
Example v2_negative_byte_witness :
  let b : batch := [(0, [])] in
  let ops : list bwrite := [(64, [64; 0; 2; 0; 0; 0; 0; -1])] in
  v2_raw_ok b (flen v2_init) v2_init ops = true /\
  rres_eqb (v2_read v2_init 0) RMissing = true /\
  rres_eqb (v2_read (bw_apply_all v2_init ops) 0) (RData []) = true.
Proof. vm_compute. auto. Qed.

(* ------------------------------------------------------------------------------------------------ *)
(* (2) an aligned 8-byte entry contains no tear point when the tear granularity is a multiple of 8   *)

Theorem v2_entry_never_torn : forall B off c,
  0 < B -> B mod 8 = 0 -> off mod 8 = 0 -> off < c < off + 8 -> c mod B <> 0.
Proof.
  intros B off c HB HB8 Hoff Hc Hcut.
  pose proof (Z.div_mod c B) as E1.
  pose proof (Z.div_mod B 8) as E2.
  pose proof (Z.div_mod off 8) as E3.
  assert (Ec : c = 8 * ((B / 8) * (c / B))).
  { rewrite Z.mul_assoc. rewrite Hcut, Z.add_0_r in E1 by lia.
    rewrite HB8, Z.add_0_r in E2 by lia. rewrite <- E2 by lia. apply E1. lia. }
  set (t := (B / 8) * (c / B)) in *.
  lia.
Qed.

(* ------------------------------------------------------------------------------------------------ *)
(* (3) byte-granular tearing of an index entry is not safe                                          *)

Example index_byte_tear_refuted :
  exists (f0 : file) (b : batch) (app idxw : bwrite) (k : nat),
    let f1 := bw_apply f0 app in
    let torn := fwrite f1 (fst idxw) (firstn k (snd idxw)) in
    v2_raw_ok b (flen f0) f0 [app; idxw] = true /\
    Nat.ltb k (length (snd idxw)) = true /\
    forallb (fun dd => has_data b 0 dd) [[9; 8; 7; 6; 5]] = true /\
    rres_eqb (v2_read f0 0) (RData [1; 2; 3]) = true /\
    rres_eqb (v2_read (bw_apply f1 idxw) 0) (RData [9; 8; 7; 6; 5]) = true /\
    rres_eqb (v2_read torn 0) (RData [9; 8; 7]) = true /\
    rres_eqb (v2_read torn 0) (v2_read f0 0) = false /\
    rres_eqb (v2_read torn 0) (RData [9; 8; 7; 6; 5]) = false.
Proof.
  exists (bw_apply_all v2_init (v2_store_ops v2_init [(0, [1; 2; 3])])).
  exists [(0, [9; 8; 7; 6; 5])].
  exists (131143, le 4 5 ++ [9; 8; 7; 6; 5]).
  exists (64, le 8 (131147 + 5 * P40)).
  exists 5%nat.
  vm_compute. repeat split; reflexivity.
Qed.

(* ------------------------------------------------------------------------------------------------ *)
(* (4) Version 1                                                                                    *)

Definition v1_wf (s : v1st) : Prop :=
  V1_REC <= flen (v1dat s) /\ V1_IDX_END <= flen (v1idx s) /\
  forall slot, 0 <= slot < SLOTS -> v1_slot_ok s slot = true.

Definition v1op_bytes (o : v1op) : list Z := match o with WD _ d => d | WI _ d => d end.

(* the record area [60, flen) of the data file only grows *)
Definition ext1 (f g : file) : Prop :=
  flen f <= flen g /\ forall i, 60 <= i < flen f -> fbyte g i = fbyte f i.

Lemma ext1_refl : forall f, ext1 f f.
Proof. intros f. split; [lia|auto]. Qed.

Lemma ext1_trans : forall f g h, ext1 f g -> ext1 g h -> ext1 f h.
Proof.
  intros f g h [L1 B1] [L2 B2]. split; [lia|].
  intros i Hi. rewrite B2 by lia. apply B1. exact Hi.
Qed.

Lemma rdnum_some_len : forall f off n v, rdnum f off n = Some v -> off + Z.of_nat n <= flen f.
Proof.
  intros f off n v H. unfold rdnum in H.
  destruct (off + Z.of_nat n <=? flen f) eqn:E; [apply Z.leb_le; exact E|discriminate].
Qed.

Lemma fbyte_beyond : forall f i, flen f <= i -> fbyte f i = 0.
Proof.
  intros f i H. unfold fbyte. destruct (0 <=? i); cbn [andb]; [|reflexivity].
  destruct (i <? flen f) eqn:E; [apply Z.ltb_lt in E; lia|reflexivity].
Qed.

Lemma v1_published_ext : forall b L0 f g slot e,
  60 <= L0 -> ext1 f g ->
  v1_published b L0 f slot e = true -> v1_published b L0 g slot e = true.
Proof.
  intros b L0 f g slot e HL [Hlen Hb] H. unfold v1_published in *.
  apply andb_true_iff in H. destruct H as [H1 H2].
  destruct (rdnum f e 4) as [size|] eqn:R; [|discriminate].
  pose proof (rdnum_some_len _ _ _ _ R) as Hr. change (Z.of_nat 4) with 4 in Hr.
  apply Z.leb_le in H1.
  assert (R' : rdnum g e 4 = Some size).
  { rewrite <- R. apply rdnum_ext; change (Z.of_nat 4) with 4; try lia.
    intros i Hi. apply Hb. lia. }
  rewrite R'. rewrite !andb_true_iff in *. destruct H2 as [[A B] C].
  apply Z.leb_le in B.
  repeat split; auto.
  - apply Z.leb_le. lia.
  - apply Z.leb_le. lia.
  - rewrite (fread_ext f g); auto. intros i Hi. apply Hb. lia.
Qed.

Section V1.
Variable b : batch.
Variable s0 : v1st.
Variable QB : Z -> Prop.
Hypothesis QB0 : QB 0.
Hypothesis Hlen0 : V1_REC <= flen (v1dat s0).

Definition P1 (s : v1st) (slot : Z) : Prop :=
  v1_entry s slot = v1_entry s0 slot \/
  exists e, v1_entry s slot = Some e /\ v1_published b (flen (v1dat s0)) (v1dat s) slot e = true.

Definition inv1 (s : v1st) : Prop :=
  ext1 (v1dat s0) (v1dat s) /\ V1_IDX_END <= flen (v1idx s) /\
  (forall i, flen (v1dat s0) <= i -> QB (fbyte (v1dat s) i)) /\
  forall slot, 0 <= slot < SLOTS -> P1 s slot.

Lemma P1_transfer : forall s s' slot,
  ext1 (v1dat s) (v1dat s') -> v1_entry s' slot = v1_entry s slot -> P1 s slot -> P1 s' slot.
Proof.
  intros s s' slot He Hs [H|[e [H1 H2]]].
  - left. congruence.
  - right. exists e. split; [congruence|].
    eapply v1_published_ext; eauto. unfold V1_REC in *. lia.
Qed.

Lemma inv1_init : V1_IDX_END <= flen (v1idx s0) -> inv1 s0.
Proof.
  intros H. split; [apply ext1_refl|]. split; [exact H|]. split.
  - intros i Hi. rewrite fbyte_beyond by exact Hi. exact QB0.
  - intros slot _. left. reflexivity.
Qed.

Lemma inv1_data : forall s off d,
  inv1 s -> off = flen (v1dat s) \/ (0 <= off /\ off + zlen d <= 60) ->
  (forall x, In x d -> QB x) ->
  inv1 (v1_apply s (WD off d)).
Proof.
  intros s off d [He [Hx [Hq HP]]] Hw Hd. cbn [v1_apply].
  assert (Hf : V1_REC <= flen (v1dat s)) by (destruct He; lia).
  assert (Hz : 0 <= zlen d) by (unfold zlen; lia).
  assert (He' : ext1 (v1dat s) (fwrite (v1dat s) off d)).
  { split; [rewrite flen_fwrite; lia|].
    intros i Hi. apply fbyte_fwrite_out. unfold V1_REC in *. lia. }
  split; [cbn [v1dat]; eapply ext1_trans; eauto|].
  split; [exact Hx|]. split.
  - cbn [v1dat]. intros i Hi.
    destruct (Z_lt_dec i off) as [L|L]; [rewrite fbyte_fwrite_out by lia; auto|].
    destruct (Z_le_dec (off + zlen d) i) as [G|G]; [rewrite fbyte_fwrite_out by lia; auto|].
    rewrite fbyte_fwrite_in by (unfold V1_REC in *; lia).
    apply Hd. apply nth_In. unfold zlen in *. lia.
  - intros slot Hs. apply (P1_transfer s); auto.
Qed.

Lemma inv1_index : forall s off d,
  inv1 s -> v1_step_ok b (flen (v1dat s0)) s (WI off d) = true -> inv1 (v1_apply s (WI off d)).
Proof.
  intros s off d [He [Hx [Hq HP]]] Hs. cbn [v1_apply]. unfold v1_step_ok in Hs.
  rewrite !andb_true_iff in Hs. destruct Hs as [[[[A B] C] D] E].
  apply Z.leb_le in A. apply Z.leb_le in B. apply Z.eqb_eq in C. apply Z.eqb_eq in D.
  assert (Hoff : off = 16 + 5 * ((off - 16) / 5)).
  { pose proof (Z.div_mod (off - 16) 5). lia. }
  set (s1 := (off - 16) / 5) in *.
  assert (Hm : length d = (5 * (length d / 5))%nat).
  { pose proof (Nat.div_mod (length d) 5).
    assert (length d mod 5 = 0)%nat.
    { unfold zlen in D. pose proof (Z.div_mod (Z.of_nat (length d)) 5).
      pose proof (Nat.mod_upper_bound (length d) 5). lia. }
    lia. }
  set (m := (length d / 5)%nat) in *.
  assert (Hlen : flen (fwrite (v1idx s) off d) = flen (v1idx s)) by (rewrite flen_fwrite; lia).
  split; [exact He|]. split; [cbn [v1idx]; lia|]. split; [exact Hq|].
  intros slot Hsl.
  destruct (Z_lt_dec slot s1) as [L|L];
    [|destruct (Z_le_dec (s1 + Z.of_nat m) slot) as [G|G]].
  - apply (P1_transfer s); auto; [apply ext1_refl|].
    unfold v1_entry. cbn [v1idx]. apply rdnum_ext; change (Z.of_nat 5) with 5.
    + unfold V1_IDX_END, SLOTS in *. lia.
    + lia.
    + intros i Hi. apply fbyte_fwrite_out. lia.
  - apply (P1_transfer s); auto; [apply ext1_refl|].
    unfold v1_entry. cbn [v1idx]. apply rdnum_ext; change (Z.of_nat 5) with 5.
    + unfold V1_IDX_END, SLOTS in *. lia.
    + lia.
    + intros i Hi. apply fbyte_fwrite_out. unfold zlen. lia.
  - set (j := Z.to_nat (slot - s1)).
    assert (Hj : (j < m)%nat) by lia.
    assert (Hnew : v1_entry (mkV1 (v1dat s) (fwrite (v1idx s) off d)) slot = Some (unle (chunk5 d j))).
    { unfold v1_entry, rdnum. cbn [v1idx].
      replace (16 + 5 * slot + Z.of_nat 5 <=? flen (fwrite (v1idx s) off d)) with true
        by (symmetry; apply Z.leb_le; change (Z.of_nat 5) with 5;
            unfold V1_IDX_END, zlen in *; lia).
      replace (16 + 5 * slot) with (off + Z.of_nat (5 * j)) by lia.
      rewrite fread_fwrite_chunk by lia. reflexivity. }
    rewrite forallb_forall in E. specialize (E j).
    assert (Hin : In j (seq 0 m)) by (apply in_seq; lia).
    specialize (E Hin).
    replace (s1 + Z.of_nat j) with slot in E by lia.
    apply orb_true_iff in E. destruct E as [E|E].
    + apply (P1_transfer s); auto; [apply ext1_refl|].
      unfold opt_eqb in E. destruct (v1_entry s slot); [|discriminate].
      apply Z.eqb_eq in E. congruence.
    + right. exists (unle (chunk5 d j)). split; [exact Hnew|exact E].
Qed.

Lemma inv1_step : forall s o,
  inv1 s -> v1_step_ok b (flen (v1dat s0)) s o = true ->
  (forall x, In x (v1op_bytes o) -> QB x) -> inv1 (v1_apply s o).
Proof.
  intros s [off d|off d] Hi Hs Hq.
  - apply inv1_data; auto. unfold v1_step_ok in Hs.
    apply orb_true_iff in Hs. destruct Hs as [Hs|Hs].
    + left. apply Z.eqb_eq in Hs. exact Hs.
    + right. apply andb_true_iff in Hs. destruct Hs as [A B].
      apply Z.leb_le in A. apply Z.leb_le in B. lia.
  - apply inv1_index; auto.
Qed.

Lemma inv1_tear : forall s o s',
  inv1 s -> v1_step_ok b (flen (v1dat s0)) s o = true ->
  (forall x, In x (v1op_bytes o) -> QB x) -> In s' (v1_tears s o) -> inv1 s'.
Proof.
  intros s [off d|off d] s' Hi Hs Hq Hin; cbn [v1_tears] in Hin; [|destruct Hin].
  apply in_map_iff in Hin. destruct Hin as [k [Hk _]]. subst s'.
  pose proof (zlen_firstn_le k d).
  apply inv1_data; auto.
  - unfold v1_step_ok in Hs. apply orb_true_iff in Hs. destruct Hs as [Hs|Hs].
    + left. apply Z.eqb_eq in Hs. exact Hs.
    + right. apply andb_true_iff in Hs. destruct Hs as [A B].
      apply Z.leb_le in A. apply Z.leb_le in B. lia.
  - intros x Hx. apply Hq. cbn [v1op_bytes]. eapply in_firstn. exact Hx.
Qed.

Lemma inv1_run : forall ops s s',
  inv1 s -> v1_raw_ok b (flen (v1dat s0)) s ops = true ->
  (forall o, In o ops -> forall x, In x (v1op_bytes o) -> QB x) ->
  In s' (v1_crash_states s ops) -> inv1 s'.
Proof.
  induction ops as [|o r IH]; intros s s' Hi Hok HQ Hin.
  - cbn [v1_crash_states] in Hin. destruct Hin as [Hin|[]]. subst. exact Hi.
  - cbn [v1_crash_states v1_raw_ok] in *.
    apply andb_true_iff in Hok. destruct Hok as [Hs Hr].
    destruct Hin as [Hin|Hin]; [subst; exact Hi|].
    apply in_app_or in Hin. destruct Hin as [Hin|Hin].
    + eapply inv1_tear; eauto. apply HQ. left. reflexivity.
    + apply (IH (v1_apply s o)); auto.
      * apply inv1_step; auto. apply HQ. left. reflexivity.
      * intros o' Ho'. apply HQ. right. exact Ho'.
Qed.

Lemma inv1_read : forall s slot,
  v1_wf s0 -> inv1 s -> 0 <= slot < SLOTS ->
  v1_read s slot = v1_read s0 slot \/
  exists dd size e, has_data b slot dd = true /\ (dd <> [] -> v1_read s slot = RData dd) /\
    length dd = Z.to_nat size /\ size <> 0 /\ flen (v1dat s0) <= e /\
    size = unle (fread (v1dat s) e 4).
Proof.
  intros s slot [_ [_ Hok]] [[Hlen Hb] [Hx [Hq HP]]] Hs.
  destruct (HP slot Hs) as [H|[e [H1 H2]]].
  - left. specialize (Hok slot Hs). unfold v1_slot_ok, v1_read in *. rewrite H.
    destruct (v1_entry s0 slot) as [e|]; [|reflexivity].
    destruct (e =? 0) eqn:E; [reflexivity|].
    cbn [orb] in Hok. apply andb_true_iff in Hok. destruct Hok as [A B].
    apply Z.leb_le in A.
    destruct (rdnum (v1dat s0) e 4) as [size|] eqn:R; [|discriminate].
    pose proof (rdnum_some_len _ _ _ _ R) as Hr. change (Z.of_nat 4) with 4 in Hr.
    apply Z.leb_le in B.
    assert (R' : rdnum (v1dat s) e 4 = Some size).
    { rewrite <- R. apply rdnum_ext; change (Z.of_nat 4) with 4; try lia.
      intros i Hi. apply Hb. lia. }
    rewrite R'. destruct (size =? 0) eqn:E2; [reflexivity|].
    rewrite !freadz_full by lia.
    rewrite (fread_ext (v1dat s0) (v1dat s)); [reflexivity|].
    intros i Hi. apply Hb.
    assert (0 <= size \/ size < 0) as [G|G] by lia; lia.
  - right. unfold v1_published in H2.
    apply andb_true_iff in H2. destruct H2 as [A H2]. apply Z.leb_le in A.
    destruct (rdnum (v1dat s) e 4) as [size|] eqn:R; [|discriminate].
    rewrite !andb_true_iff in H2. destruct H2 as [[B C] D].
    apply negb_true_iff in B. apply Z.leb_le in C.
    exists (fread (v1dat s) (e + 4) (Z.to_nat size)), size, e.
    split; [exact D|]. split; [|split; [apply fread_length|]].
    + intros Hne. unfold v1_read. rewrite H1.
      replace (e =? 0) with false by (symmetry; apply Z.eqb_neq; unfold V1_REC in *; lia).
      rewrite R, B. rewrite freadz_full by lia.
      destruct (fread (v1dat s) (e + 4) (Z.to_nat size)); [congruence|reflexivity].
    + split; [apply Z.eqb_neq; exact B|]. split; [exact A|].
      unfold rdnum in R. destruct (e + Z.of_nat 4 <=? flen (v1dat s)); [|discriminate].
      congruence.
Qed.

End V1.

Definition v1_ops_bytes_nonneg (ops : list v1op) : Prop :=
  forall o, In o ops -> forall x, In x (v1op_bytes o) -> 0 <= x.

Theorem v1_crash_safe : forall b s0 ops s' slot,
  v1_wf s0 -> v1_raw_ok b (flen (v1dat s0)) s0 ops = true -> v1_ops_bytes_nonneg ops ->
  In s' (v1_crash_states s0 ops) -> 0 <= slot < SLOTS ->
  v1_read s' slot = v1_read s0 slot \/
  exists dd, has_data b slot dd = true /\ dd <> [] /\ v1_read s' slot = RData dd.
Proof.
  intros b s0 ops s' slot Hwf Hok Hby Hin Hs.
  assert (Q0 : (fun x => 0 <= x) 0) by (cbv beta; lia).
  assert (Hi : inv1 b s0 (fun x => 0 <= x) s').
  { apply (inv1_run b s0 (fun x => 0 <= x) (proj1 Hwf) ops s0); auto.
    apply inv1_init; [exact Q0|]. destruct Hwf as [_ [H _]]. exact H. }
  destruct (inv1_read b s0 (fun x => 0 <= x) (proj1 Hwf) s' slot Hwf Hi Hs)
    as [H|[dd [size [e [H1 [H2 [H3 [H4 [H5 H6]]]]]]]]]; [left; exact H|].
  right. exists dd.
  assert (Hne : dd <> []).
  { intros E. subst dd. cbn [length] in H3.
    assert (0 <= size); [|lia].
    subst size. apply unle_nonneg. intros x Hx. unfold fread in Hx.
    apply in_map_iff in Hx. destruct Hx as [k [Hk _]]. subst x.
    destruct Hi as [_ [_ [Hq _]]]. apply Hq. lia. }
  split; [exact H1|]. split; [exact Hne|]. apply H2. exact Hne.
Qed.

Theorem v1_crash_safe_nonempty_batch : forall b s0 ops s' slot,
  v1_wf s0 -> v1_raw_ok b (flen (v1dat s0)) s0 ops = true -> (forall s, has_data b s [] = false) ->
  In s' (v1_crash_states s0 ops) -> 0 <= slot < SLOTS ->
  v1_read s' slot = v1_read s0 slot \/
  exists dd, has_data b slot dd = true /\ dd <> [] /\ v1_read s' slot = RData dd.
Proof.
  intros b s0 ops s' slot Hwf Hok Hne Hin Hs.
  assert (Hi : inv1 b s0 (fun _ => True) s').
  { apply (inv1_run b s0 (fun _ => True) (proj1 Hwf) ops s0); auto.
    apply inv1_init; [exact I|]. destruct Hwf as [_ [H _]]. exact H. }
  destruct (inv1_read b s0 (fun _ => True) (proj1 Hwf) s' slot Hwf Hi Hs)
    as [H|[dd [size [e [H1 [H2 _]]]]]]; [left; exact H|].
  right. exists dd.
  assert (Hd : dd <> []).
  { intros E. subst dd. rewrite Hne in H1. discriminate. }
  split; [exact H1|]. split; [exact Hd|]. apply H2. exact Hd.
Qed.

Corollary v1_others_unaffected : forall b s0 ops s' slot,
  v1_wf s0 -> v1_raw_ok b (flen (v1dat s0)) s0 ops = true ->
  In s' (v1_crash_states s0 ops) -> 0 <= slot < SLOTS ->
  (forall dd, has_data b slot dd = false) ->
  v1_read s' slot = v1_read s0 slot.
Proof.
  intros b s0 ops s' slot Hwf Hok Hin Hs Hno.
  assert (Hi : inv1 b s0 (fun _ => True) s').
  { apply (inv1_run b s0 (fun _ => True) (proj1 Hwf) ops s0); auto.
    apply inv1_init; [exact I|]. destruct Hwf as [_ [H _]]. exact H. }
  destruct (inv1_read b s0 (fun _ => True) (proj1 Hwf) s' slot Hwf Hi Hs)
    as [H|[dd [size [e [H1 _]]]]]; [exact H|].
  rewrite Hno in H1. discriminate.
Qed.

(* why v1_crash_safe needs one of the two extra hypotheses: a record whose size field has a negative
   "byte" and an empty tile in the batch make the reader return "missing" for a slot that had data *)
Example v1_negative_byte_witness :
  let b : batch := [(0, [])] in
  let s0 := v1_apply_all (mkV1 (v1_dat_init 0 0) v1_idx_init)
                         (v1_store_ops (mkV1 (v1_dat_init 0 0) v1_idx_init) [(0, [1; 2; 3])]) in
  let L := flen (v1dat s0) in
  let ops := [WD L [0; 0; 0; -1]; WI 16 (le 5 L)] in
  v1_raw_ok b L s0 ops = true /\
  rres_eqb (v1_read s0 0) (RData [1; 2; 3]) = true /\
  rres_eqb (v1_read (v1_apply_all s0 ops) 0) RMissing = true.
Proof. vm_compute. auto. Qed.

(* the byte hypothesis holds for the writes of the modelled store when the tile data are bytes *)
Lemma le_bytes_nonneg : forall n k x, In x (le n k) -> 0 <= x.
Proof.
  induction n as [|n IH]; intros k x H; [destruct H|].
  cbn [le] in H. destruct H as [H|H]; [|eapply IH; exact H].
  subst x. pose proof (Z.mod_pos_bound k 256). lia.
Qed.

Lemma v2_store_ops_bytes_nonneg : forall b f,
  (forall e, In e b -> forall x, In x (snd e) -> 0 <= x) -> ops_bytes_nonneg (v2_store_ops f b).
Proof.
  induction b as [|[slot d] r IH]; intros f Hb w Hw x Hx; [destruct Hw|].
  cbn [v2_store_ops] in Hw. apply in_app_or in Hw. destruct Hw as [Hw|Hw].
  - assert (Hd : forall y, In y d -> 0 <= y) by (apply (Hb (slot, d)); left; reflexivity).
    unfold v2_tile_ops in Hw. repeat (apply in_app_or in Hw; destruct Hw as [Hw|Hw]).
    + cbn [In] in Hw. destruct Hw as [Hw|[Hw|[Hw|[]]]]; subst w; cbn [snd] in Hx;
        try (eapply le_bytes_nonneg; exact Hx). apply Hd. exact Hx.
    + destruct (_ <? _) in Hw; [|destruct Hw].
      destruct Hw as [Hw|[]]. subst w. eapply le_bytes_nonneg. exact Hx.
    + destruct Hw as [Hw|[]]. subst w. eapply le_bytes_nonneg. exact Hx.
  - eapply IH; [|exact Hw|exact Hx]. intros e He. apply Hb. right. exact He.
Qed.


(* ==== PART 3: initial states, preservation of the invariant, validity of the modelled v2 writer ==== *)

(* ------------------------------------------------------------------------------------------------ *)
(* (a) freshly initialised bundles are well formed                                                  *)

Lemma le_length : forall n k, length (le n k) = n.
Proof. induction n as [|n IH]; intros k; cbn [le length]; [reflexivity|]. rewrite IH. reflexivity. Qed.

Lemma zlen_le : forall n k, zlen (le n k) = Z.of_nat n.
Proof. intros. unfold zlen. rewrite le_length. reflexivity. Qed.

Lemma unle_le : forall n v, 0 <= v < 256 ^ Z.of_nat n -> unle (le n v) = v.
Proof.
  induction n as [|n IH]; intros v H.
  - cbn [le unle]. change (256 ^ Z.of_nat 0) with 1 in H. lia.
  - cbn [le unle]. rewrite Nat2Z.inj_succ, Z.pow_succ_r in H by lia.
    rewrite IH.
    + pose proof (Z.div_mod v 256). lia.
    + split; [apply Z.div_pos; lia|]. apply Z.div_lt_upper_bound; lia.
Qed.

Lemma v2_init_byte : forall s k, 0 <= s < SLOTS -> (k < 8)%nat ->
  fbyte v2_init (64 + 8 * s + Z.of_nat k) = if Nat.eqb k 0 then 4 else 0.
Proof.
  intros s k Hs Hk. unfold fbyte, v2_init. cbn [flen fat].
  replace (0 <=? 64 + 8 * s + Z.of_nat k) with true by (symmetry; apply Z.leb_le; lia).
  replace (64 + 8 * s + Z.of_nat k <? V2_REC) with true
    by (symmetry; apply Z.ltb_lt; unfold V2_REC, SLOTS in *; lia).
  replace (64 + 8 * s + Z.of_nat k <? 64) with false by (symmetry; apply Z.ltb_ge; lia).
  cbn [andb].
  replace (64 + 8 * s + Z.of_nat k - 64) with (Z.of_nat k + s * 8) by lia.
  rewrite Z.mod_add by lia. rewrite Z.mod_small by lia.
  destruct k as [|k]; [reflexivity|]. cbn [Nat.eqb].
  destruct (Z.of_nat (S k) =? 0) eqn:E; [apply Z.eqb_eq in E; lia|reflexivity].
Qed.

Lemma v2_init_entry : forall s, 0 <= s < SLOTS -> v2_entry v2_init s = Some 4.
Proof.
  intros s Hs. unfold v2_entry, rdnum.
  replace (64 + 8 * s + Z.of_nat 8 <=? flen v2_init) with true
    by (symmetry; apply Z.leb_le; change (Z.of_nat 8) with 8; cbn [flen v2_init];
        unfold V2_REC, SLOTS in *; lia).
  unfold fread. cbn [seq map].
  rewrite !v2_init_byte by (auto; lia). reflexivity.
Qed.

Lemma v2_init_wf : v2_wf v2_init.
Proof.
  split; [cbn [flen v2_init]; lia|].
  intros slot Hs. unfold v2_slot_ok. rewrite v2_init_entry by exact Hs. reflexivity.
Qed.

Lemma v1_idx_init_byte : forall s k, 0 <= s < SLOTS -> (k < 5)%nat ->
  fbyte v1_idx_init (16 + 5 * s + Z.of_nat k) = nth k (le 5 (60 + 4 * s)) 0.
Proof.
  intros s k Hs Hk. unfold fbyte, v1_idx_init. cbn [flen fat].
  replace (0 <=? 16 + 5 * s + Z.of_nat k) with true by (symmetry; apply Z.leb_le; lia).
  replace (16 + 5 * s + Z.of_nat k <? V1_IDX_END + 16) with true
    by (symmetry; apply Z.ltb_lt; unfold V1_IDX_END, SLOTS in *; lia).
  replace (16 + 5 * s + Z.of_nat k <? 16) with false by (symmetry; apply Z.ltb_ge; lia).
  replace (16 + 5 * s + Z.of_nat k <? V1_IDX_END) with true
    by (symmetry; apply Z.ltb_lt; unfold V1_IDX_END, SLOTS in *; lia).
  cbn [andb].
  replace (16 + 5 * s + Z.of_nat k - 16) with (Z.of_nat k + s * 5) by lia.
  rewrite Z.mod_add, Z.div_add by lia.
  rewrite Z.mod_small, Z.div_small by lia.
  rewrite Nat2Z.id. cbn [Z.add]. reflexivity.
Qed.

Lemma v1_init_entry : forall c r s, 0 <= s < SLOTS ->
  v1_entry (mkV1 (v1_dat_init c r) v1_idx_init) s = Some (60 + 4 * s).
Proof.
  intros c r s Hs. unfold v1_entry, rdnum. cbn [v1idx].
  replace (16 + 5 * s + Z.of_nat 5 <=? flen v1_idx_init) with true
    by (symmetry; apply Z.leb_le; change (Z.of_nat 5) with 5; cbn [flen v1_idx_init];
        unfold V1_IDX_END, SLOTS in *; lia).
  f_equal.
  assert (E : fread v1_idx_init (16 + 5 * s) 5 = le 5 (60 + 4 * s)).
  { rewrite <- (map_nth_seq0 (le 5 (60 + 4 * s))). rewrite le_length.
    unfold fread. apply map_ext_in. intros k Hk. apply in_seq in Hk.
    apply v1_idx_init_byte; [exact Hs|lia]. }
  rewrite E. apply unle_le.
  assert (256 ^ Z.of_nat 5 = 1099511627776) by reflexivity.
  unfold SLOTS in *. lia.
Qed.

Lemma v1_dat_init_zero : forall c r i, 60 <= i -> fbyte (v1_dat_init c r) i = 0.
Proof.
  intros c r i H. unfold fbyte, v1_dat_init. cbn [flen fat].
  replace (i <? 60) with false by (symmetry; apply Z.ltb_ge; lia).
  destruct ((0 <=? i) && (i <? V1_REC)); reflexivity.
Qed.

Lemma v1_init_wf : forall c r, v1_wf (mkV1 (v1_dat_init c r) v1_idx_init).
Proof.
  intros c r. split; [cbn [v1dat flen v1_dat_init]; lia|].
  split; [cbn [v1idx flen v1_idx_init]; lia|].
  intros slot Hs. unfold v1_slot_ok. rewrite v1_init_entry by exact Hs.
  replace (60 + 4 * slot =? 0) with false by (symmetry; apply Z.eqb_neq; lia).
  replace (60 <=? 60 + 4 * slot) with true by (symmetry; apply Z.leb_le; lia).
  cbn [orb andb v1dat]. unfold rdnum.
  replace (60 + 4 * slot + Z.of_nat 4 <=? flen (v1_dat_init c r)) with true
    by (symmetry; apply Z.leb_le; change (Z.of_nat 4) with 4; cbn [flen v1_dat_init];
        unfold V1_REC, SLOTS in *; lia).
  unfold fread. cbn [seq map]. rewrite !v1_dat_init_zero by lia.
  cbn [unle]. apply Z.leb_le. cbn [flen v1_dat_init]. unfold V1_REC, SLOTS in *. lia.
Qed.

(* ------------------------------------------------------------------------------------------------ *)
(* (b) well-formedness is preserved by every legal run                                              *)

Lemma v2_crash_states_last : forall ops f, In (bw_apply_all f ops) (v2_crash_states f ops).
Proof.
  induction ops as [|w r IH]; intros f; [left; reflexivity|].
  cbn [v2_crash_states]. right. apply in_or_app. right. apply IH.
Qed.

Lemma v1_crash_states_last : forall ops s, In (v1_apply_all s ops) (v1_crash_states s ops).
Proof.
  induction ops as [|o r IH]; intros s; [left; reflexivity|].
  cbn [v1_crash_states]. right. apply in_or_app. right. apply IH.
Qed.

Theorem v2_wf_preserved : forall b f0 ops,
  v2_wf f0 -> v2_raw_ok b (flen f0) f0 ops = true -> v2_wf (bw_apply_all f0 ops).
Proof.
  intros b f0 ops Hwf Hok.
  assert (Hi : inv2 b f0 (fun _ => True) (bw_apply_all f0 ops)).
  { apply (inv2_run b f0 (fun _ => True) (proj1 Hwf) ops f0); auto.
    - apply inv2_init.
    - apply v2_crash_states_last. }
  destruct Hwf as [Hl Hok0]. destruct Hi as [[Hlen Hb] HP].
  split; [lia|]. intros slot Hs.
  destruct (HP slot Hs) as [H|[v [H1 [H2 _]]]].
  - specialize (Hok0 slot Hs). unfold v2_slot_ok in *. rewrite H.
    destruct (v2_entry f0 slot) as [v|]; [|discriminate].
    apply orb_true_iff in Hok0. apply orb_true_iff. destruct Hok0 as [A|A]; [left; exact A|right].
    apply andb_true_iff in A. destruct A as [A B]. apply Z.leb_le in B.
    apply andb_true_iff. split; [exact A|]. apply Z.leb_le. lia.
  - unfold v2_slot_ok. rewrite H1. unfold v2_published in H2.
    rewrite !andb_true_iff in H2. destruct H2 as [[[A B] C] D].
    apply Z.leb_le in B. apply orb_true_iff. right.
    apply andb_true_iff. split; [apply Z.leb_le; lia|exact C].
Qed.

Theorem v1_wf_preserved : forall b s0 ops,
  v1_wf s0 -> v1_raw_ok b (flen (v1dat s0)) s0 ops = true -> v1_wf (v1_apply_all s0 ops).
Proof.
  intros b s0 ops Hwf Hok.
  assert (Hi : inv1 b s0 (fun _ => True) (v1_apply_all s0 ops)).
  { apply (inv1_run b s0 (fun _ => True) (proj1 Hwf) ops s0); auto.
    - apply inv1_init; [exact I|]. destruct Hwf as [_ [H _]]. exact H.
    - apply v1_crash_states_last. }
  destruct Hwf as [Hl [Hx0 Hok0]]. destruct Hi as [[Hlen Hb] [Hx [_ HP]]].
  split; [lia|]. split; [exact Hx|]. intros slot Hs.
  destruct (HP slot Hs) as [H|[e [H1 H2]]].
  - specialize (Hok0 slot Hs). unfold v1_slot_ok in *. rewrite H.
    destruct (v1_entry s0 slot) as [e|]; [|discriminate].
    apply orb_true_iff in Hok0. apply orb_true_iff. destruct Hok0 as [A|A]; [left; exact A|right].
    apply andb_true_iff in A. destruct A as [A B]. apply Z.leb_le in A.
    destruct (rdnum (v1dat s0) e 4) as [size|] eqn:R; [|discriminate].
    pose proof (rdnum_some_len _ _ _ _ R) as Hr. change (Z.of_nat 4) with 4 in Hr.
    apply Z.leb_le in B.
    assert (R' : rdnum (v1dat (v1_apply_all s0 ops)) e 4 = Some size).
    { rewrite <- R. apply rdnum_ext; change (Z.of_nat 4) with 4; try lia.
      intros i Hi. apply Hb. lia. }
    rewrite R'. apply andb_true_iff. split; apply Z.leb_le; lia.
  - unfold v1_slot_ok. rewrite H1. unfold v1_published in H2.
    apply andb_true_iff in H2. destruct H2 as [A H2]. apply Z.leb_le in A.
    destruct (rdnum (v1dat (v1_apply_all s0 ops)) e 4) as [size|]; [|discriminate].
    rewrite !andb_true_iff in H2. destruct H2 as [[B C] D].
    apply orb_true_iff. right. apply andb_true_iff.
    split; [apply Z.leb_le; unfold V1_REC in *; lia|exact C].
Qed.

(* ------------------------------------------------------------------------------------------------ *)
(* (c) the modelled writer obeys the discipline                                                     *)

Fixpoint total_len (b : batch) : Z :=
  match b with
  | [] => 0
  | e :: r => 4 + zlen (snd e) + total_len r
  end.

Lemma total_len_nonneg : forall b, 0 <= total_len b.
Proof. induction b as [|e r IH]; cbn [total_len]; unfold zlen; lia. Qed.

Lemma zlist_eqb_refl : forall a, zlist_eqb a a = true.
Proof.
  unfold zlist_eqb. induction a as [|x a IH]; [reflexivity|].
  rewrite Z.eqb_refl, IH. reflexivity.
Qed.

Lemma v2_raw_ok_app : forall b L0 o1 o2 f,
  v2_raw_ok b L0 f (o1 ++ o2) = v2_raw_ok b L0 f o1 && v2_raw_ok b L0 (bw_apply_all f o1) o2.
Proof.
  induction o1 as [|w r IH]; intros o2 f; [reflexivity|].
  cbn [app v2_raw_ok bw_apply_all fold_left]. rewrite IH. rewrite andb_assoc. reflexivity.
Qed.

Lemma v2_step_append : forall b L0 f d, v2_step_ok b L0 f (flen f, d) = true.
Proof. intros. unfold v2_step_ok. cbn [fst snd]. rewrite Z.eqb_refl. reflexivity. Qed.

Lemma v2_step_header : forall b L0 f off d,
  0 <= off -> off + zlen d <= 64 -> v2_step_ok b L0 f (off, d) = true.
Proof.
  intros b L0 f off d H1 H2. unfold v2_step_ok. cbn [fst snd].
  destruct (off =? flen f); [reflexivity|].
  replace (0 <=? off) with true by (symmetry; apply Z.leb_le; lia).
  replace (off + zlen d <=? 64) with true by (symmetry; apply Z.leb_le; lia).
  reflexivity.
Qed.

Lemma v2_step_publish : forall b L0 f slot v,
  0 <= slot < SLOTS -> 0 <= v < 18446744073709551616 ->
  v2_published b L0 f slot v = true ->
  v2_step_ok b L0 f (64 + 8 * slot, le 8 v) = true.
Proof.
  intros b L0 f slot v Hs Hv Hp. unfold v2_step_ok. cbn [fst snd].
  destruct (64 + 8 * slot =? flen f); [reflexivity|].
  destruct ((0 <=? 64 + 8 * slot) && (64 + 8 * slot + zlen (le 8 v) <=? 64)); [reflexivity|].
  rewrite zlen_le. change (Z.of_nat 8) with 8.
  replace (64 + 8 * slot - 64) with (slot * 8) by lia.
  rewrite Z.mod_mul, Z.div_mul by lia.
  rewrite unle_le by (change (256 ^ Z.of_nat 8) with 18446744073709551616; exact Hv).
  rewrite Hp, orb_true_r.
  replace (64 <=? 64 + 8 * slot) with true by (symmetry; apply Z.leb_le; lia).
  replace (64 + 8 * slot + 8 <=? V2_REC) with true
    by (symmetry; apply Z.leb_le; unfold V2_REC, SLOTS in *; lia).
  reflexivity.
Qed.

Lemma v2_tile_ops_flen : forall f slot d,
  V2_REC <= flen f -> 0 <= slot < SLOTS ->
  flen (bw_apply_all f (v2_tile_ops f slot d)) = flen f + 4 + zlen d.
Proof.
  intros f slot d Hf Hs. unfold v2_tile_ops.
  assert (Hz : 0 <= zlen d) by (unfold zlen; lia).
  destruct (_ <? zlen d);
    cbn [app bw_apply_all fold_left]; unfold bw_apply; cbn [fst snd];
    rewrite !flen_fwrite, !zlen_le;
    change (Z.of_nat 4) with 4; change (Z.of_nat 8) with 8;
    unfold V2_REC, SLOTS in *; lia.
Qed.

Lemma v2_tile_ops_ok : forall ball L0 f slot d,
  V2_REC <= flen f -> L0 <= flen f -> flen f + 4 + zlen d <= P40 ->
  0 <= slot < SLOTS -> d <> [] -> zlen d < 16777216 ->
  In (slot, d) ball ->
  v2_raw_ok ball L0 f (v2_tile_ops f slot d) = true.
Proof.
  intros ball L0 f slot d Hf HL Hg Hs Hd Hn Hin.
  assert (Hz : 0 < zlen d).
  { unfold zlen. destruct d; [congruence|cbn [length]; lia]. }
  unfold v2_tile_ops.
  set (L := flen f) in *. set (n := zlen d) in *.
  set (old := match rdnum f 8 4 with Some v => v | None => 0 end).
  change ([(L, le 4 n); (L + 4, d); (64 + 8 * slot, le 8 (L + 4 + n * P40))]
            ++ (if old <? n then [(8, le 4 n)] else []) ++ [(24, le 8 (L + 4 + n))])
    with ((L, le 4 n) :: (L + 4, d) :: (64 + 8 * slot, le 8 (L + 4 + n * P40))
            :: ((if old <? n then [(8, le 4 n)] else []) ++ [(24, le 8 (L + 4 + n))])).
  cbn [v2_raw_ok].
  unfold bw_apply at 1 2 3. cbn [fst snd].
  set (f1 := fwrite f L (le 4 n)).
  set (f2 := fwrite f1 (L + 4) d).
  assert (Hf1 : flen f1 = L + 4).
  { unfold f1. rewrite flen_fwrite, zlen_le. change (Z.of_nat 4) with 4. fold L. lia. }
  assert (Hf2 : flen f2 = L + 4 + n).
  { unfold f2. rewrite flen_fwrite, Hf1. fold n. lia. }
  rewrite !andb_true_iff. split; [|split; [|split]].
  - apply v2_step_append.
  - rewrite <- Hf1. apply v2_step_append.
  - apply v2_step_publish; [exact Hs| |].
    + unfold P40 in *. unfold V2_REC in *. nia.
    + assert (E1 : (L + 4 + n * P40) / P40 = n).
      { rewrite Z.div_add by (unfold P40; lia). rewrite Z.div_small; unfold V2_REC, P40 in *; lia. }
      assert (E2 : (L + 4 + n * P40) mod P40 = L + 4).
      { rewrite Z.mod_add by (unfold P40; lia). apply Z.mod_small. unfold V2_REC, P40 in *; lia. }
      unfold v2_published. rewrite E1, E2.
      replace (n =? 0) with false by (symmetry; apply Z.eqb_neq; lia).
      replace (L0 <=? L + 4) with true by (symmetry; apply Z.leb_le; lia).
      replace (L + 4 + n <=? flen f2) with true by (symmetry; apply Z.leb_le; lia).
      cbn [negb andb].
      replace (Z.to_nat n) with (length d) by (unfold n, zlen; lia).
      unfold f2. rewrite fread_fwrite_same by (unfold V2_REC in *; lia).
      unfold has_data. apply existsb_exists. exists (slot, d). split; [exact Hin|].
      cbn [fst snd]. rewrite Z.eqb_refl, zlist_eqb_refl. reflexivity.
  - destruct (old <? n); cbn [app v2_raw_ok]; rewrite !andb_true_iff; repeat split;
      apply v2_step_header; rewrite ?zlen_le; try change (Z.of_nat 4) with 4;
      try change (Z.of_nat 8) with 8; lia.
Qed.

Lemma v2_store_ops_valid_gen : forall bs ball L0 f,
  incl bs ball -> V2_REC <= flen f -> L0 <= flen f -> flen f + total_len bs <= P40 ->
  (forall slot d, In (slot, d) bs -> 0 <= slot < SLOTS /\ d <> [] /\ zlen d < 16777216) ->
  v2_raw_ok ball L0 f (v2_store_ops f bs) = true.
Proof.
  induction bs as [|[slot d] r IH]; intros ball L0 f Hincl Hf HL Hg Hb; [reflexivity|].
  cbn [v2_store_ops]. cbv zeta. rewrite v2_raw_ok_app.
  cbn [total_len snd] in Hg. pose proof (total_len_nonneg r) as Hr.
  assert (Hz : 0 <= zlen d) by (unfold zlen; lia).
  destruct (Hb slot d (or_introl eq_refl)) as [Hs [Hd Hn]].
  apply andb_true_iff. split.
  - apply v2_tile_ops_ok; auto; try lia. apply Hincl. left. reflexivity.
  - apply IH.
    + intros e He. apply Hincl. right. exact He.
    + rewrite v2_tile_ops_flen by assumption. lia.
    + rewrite v2_tile_ops_flen by assumption. lia.
    + rewrite v2_tile_ops_flen by assumption. lia.
    + intros s' d' H'. apply Hb. right. exact H'.
Qed.

Theorem v2_store_ops_valid : forall b f0,
  v2_wf f0 -> flen f0 + total_len b <= P40 ->
  (forall slot d, In (slot, d) b -> 0 <= slot < SLOTS /\ d <> [] /\ zlen d < 16777216) ->
  v2_raw_ok b (flen f0) f0 (v2_store_ops f0 b) = true.
Proof.
  intros b f0 [Hl _] Hg Hb. apply v2_store_ops_valid_gen; auto; try lia. apply incl_refl.
Qed.

(* the three results together, for the modelled writer *)
Definition v2_batch_ok (b : batch) : Prop :=
  forall slot d, In (slot, d) b ->
    0 <= slot < SLOTS /\ d <> [] /\ zlen d < 16777216 /\ forall x, In x d -> 0 <= x < 256.

Theorem v2_store_crash_safe : forall b f0 f' slot,
  v2_wf f0 -> flen f0 + total_len b <= P40 -> v2_batch_ok b ->
  In f' (v2_crash_states f0 (v2_store_ops f0 b)) -> 0 <= slot < SLOTS ->
  v2_read f' slot = v2_read f0 slot \/
  exists dd, has_data b slot dd = true /\ dd <> [] /\ v2_read f' slot = RData dd.
Proof.
  intros b f0 f' slot Hwf Hg Hb Hin Hs.
  apply (v2_crash_safe b f0 (v2_store_ops f0 b)); auto.
  - apply v2_store_ops_valid; auto. intros s d H. destruct (Hb s d H) as [A [B [C _]]]. auto.
  - apply v2_store_ops_bytes_nonneg. intros [s d] He x Hx.
    destruct (Hb s d He) as [_ [_ [_ D]]]. apply D. exact Hx.
Qed.

Theorem v2_store_wf : forall b f0,
  v2_wf f0 -> flen f0 + total_len b <= P40 -> v2_batch_ok b ->
  v2_wf (bw_apply_all f0 (v2_store_ops f0 b)).
Proof.
  intros b f0 Hwf Hg Hb. apply (v2_wf_preserved b); auto.
  apply v2_store_ops_valid; auto. intros s d H. destruct (Hb s d H) as [A [B [C _]]]. auto.
Qed.


(* ==== the dependence of the v1 claim on A1 (B = infinity): one index entry in 1024 straddles a page boundary ==== *)
(* the page-granular tear of a v1 index entry that straddles a page boundary (slot 1635: bytes 8191..8195) *)
Definition pt_s0 : v1st :=
  let i := mkV1 (v1_dat_init 0 0) v1_idx_init in
  v1_apply_all i (v1_store_ops i [(1635, [1; 2; 3]); (0, repeat 7 200%nat)]).
Definition pt_b : batch := [(1635, [9; 8; 7])].
Definition pt_ops : list v1op := v1_store_ops pt_s0 pt_b.

Example v1_page_tear_refuted :
  cut_allowed 4096 (16 + 5 * 1635) 5 8192 /\
  v1_raw_ok pt_b (flen (v1dat pt_s0)) pt_s0 pt_ops = true /\
  nth_error pt_ops 3 = Some (WI 8191 (le 5 (flen (v1dat pt_s0)))) /\
  let s3 := v1_apply_all pt_s0 (firstn 3 pt_ops) in
  let torn := v1_apply s3 (WI 8191 (firstn 1 (le 5 (flen (v1dat pt_s0))))) in
  rres_eqb (v1_read pt_s0 1635) (RData [1; 2; 3]) = true /\
  rres_eqb (v1_read (v1_apply_all pt_s0 pt_ops) 1635) (RData [9; 8; 7]) = true /\
  rres_eqb (v1_read torn 1635) RMissing = true.
Proof.
  split; [unfold cut_allowed; split; [lia|reflexivity]|].
  vm_compute. repeat split; reflexivity.
Qed.

(* ==== PART 4: validity of the modelled v1 writer ==== *)

(* ------------------------------------------------------------------------------------------------ *)
(* the modelled version 1 writer obeys the discipline                                               *)

Lemma v1_raw_ok_app : forall b L0 o1 o2 s,
  v1_raw_ok b L0 s (o1 ++ o2) = v1_raw_ok b L0 s o1 && v1_raw_ok b L0 (v1_apply_all s o1) o2.
Proof.
  induction o1 as [|w r IH]; intros o2 s; [reflexivity|].
  cbn [app v1_raw_ok v1_apply_all fold_left]. rewrite IH. rewrite andb_assoc. reflexivity.
Qed.

Lemma chunk5_le5 : forall v, chunk5 (le 5 v) 0 = le 5 v.
Proof.
  intros v. unfold chunk5. change (5 * 0)%nat with 0%nat. cbn [skipn].
  apply firstn_all2. rewrite le_length. lia.
Qed.

(* the four writes of one tile, with an arbitrary 60-byte header image *)
Definition v1_tile_shape (s : v1st) (slot : Z) (d hdr : list Z) : list v1op :=
  [WD (flen (v1dat s)) (le 4 (zlen d)); WD (flen (v1dat s) + 4) d; WD 0 hdr;
   WI (16 + 5 * slot) (le 5 (flen (v1dat s)))].

Lemma v1_tile_ops_shape : forall s slot d,
  exists hdr, zlen hdr = 60 /\ v1_tile_ops s slot d = v1_tile_shape s slot d hdr.
Proof.
  intros s slot d. unfold v1_tile_ops, v1_tile_shape. cbv zeta.
  eexists. split; [|reflexivity].
  unfold zlen. rewrite !app_length, !fread_length, !le_length. reflexivity.
Qed.

Lemma v1_tile_shape_flen : forall s slot d hdr,
  V1_REC <= flen (v1dat s) -> zlen hdr = 60 ->
  flen (v1dat (v1_apply_all s (v1_tile_shape s slot d hdr))) = flen (v1dat s) + 4 + zlen d.
Proof.
  intros s slot d hdr Hf Hh. unfold v1_tile_shape.
  assert (Hz : 0 <= zlen d) by (unfold zlen; lia).
  cbn [v1_apply_all fold_left v1_apply v1dat v1idx].
  rewrite !flen_fwrite, !zlen_le, Hh. change (Z.of_nat 4) with 4.
  unfold V1_REC in *. lia.
Qed.

Lemma v1_tile_shape_ok : forall ball L0 s slot d hdr,
  V1_REC <= flen (v1dat s) -> L0 <= flen (v1dat s) ->
  flen (v1dat s) < 1099511627776 -> zlen hdr = 60 ->
  0 <= slot < SLOTS -> d <> [] -> zlen d < 4294967296 ->
  In (slot, d) ball ->
  v1_raw_ok ball L0 s (v1_tile_shape s slot d hdr) = true.
Proof.
  intros ball L0 s slot d hdr Hf HL Hg Hh Hs Hd Hn Hin.
  assert (Hz : 0 < zlen d).
  { unfold zlen. destruct d; [congruence|cbn [length]; lia]. }
  unfold v1_tile_shape.
  set (L := flen (v1dat s)) in *. set (n := zlen d) in *.
  cbn [v1_raw_ok v1_apply v1dat v1idx].
  set (f1 := fwrite (v1dat s) L (le 4 n)).
  set (f2 := fwrite f1 (L + 4) d).
  set (f3 := fwrite f2 0 hdr).
  assert (Hf1 : flen f1 = L + 4).
  { unfold f1. rewrite flen_fwrite, zlen_le. change (Z.of_nat 4) with 4. fold L. lia. }
  assert (Hf2 : flen f2 = L + 4 + n).
  { unfold f2. rewrite flen_fwrite, Hf1. fold n. lia. }
  assert (Hf3 : flen f3 = L + 4 + n).
  { unfold f3. rewrite flen_fwrite, Hf2, Hh. unfold V1_REC in *. lia. }
  rewrite !andb_true_iff. split; [|split; [|split; [|split; [|reflexivity]]]].
  - unfold v1_step_ok. cbn [v1dat]. fold L. rewrite Z.eqb_refl. reflexivity.
  - unfold v1_step_ok. cbn [v1dat]. rewrite Hf1, Z.eqb_refl. reflexivity.
  - unfold v1_step_ok. cbn [v1dat]. apply orb_true_iff. right.
    rewrite Hh. reflexivity.
  - unfold v1_step_ok. rewrite zlen_le, le_length. change (Z.of_nat 5) with 5.
    change (5 / 5)%nat with 1%nat. cbn [seq forallb]. change (Z.of_nat 0) with 0.
    rewrite chunk5_le5.
    rewrite unle_le by (change (256 ^ Z.of_nat 5) with 1099511627776; unfold V1_REC in *; lia).
    replace (16 + 5 * slot - 16) with (slot * 5) by lia.
    rewrite Z.mod_mul, Z.div_mul by lia. rewrite Z.add_0_r.
    replace (16 <=? 16 + 5 * slot) with true by (symmetry; apply Z.leb_le; lia).
    replace (16 + 5 * slot + 5 <=? V1_IDX_END) with true
      by (symmetry; apply Z.leb_le; unfold V1_IDX_END, SLOTS in *; lia).
    change (0 =? 0) with true. change (5 mod 5 =? 0) with true. cbn [andb]. rewrite andb_true_r.
    apply orb_true_iff. right.
    cbn [v1dat]. unfold v1_published.
    replace (L0 <=? L) with true by (symmetry; apply Z.leb_le; lia).
    cbn [andb].
    assert (R : rdnum f3 L 4 = Some n).
    { unfold rdnum.
      replace (L + Z.of_nat 4 <=? flen f3) with true
        by (symmetry; apply Z.leb_le; change (Z.of_nat 4) with 4; lia).
      f_equal.
      assert (E : fread f3 L 4 = le 4 n).
      { transitivity (fread f1 L 4).
        - apply fread_ext. change (Z.of_nat 4) with 4. intros i Hi.
          unfold f3, f2. rewrite fbyte_fwrite_out by (unfold V1_REC in *; lia).
          apply fbyte_fwrite_out. lia.
        - unfold f1. replace 4%nat with (length (le 4 n)) at 2 by apply le_length.
          apply fread_fwrite_same. unfold V1_REC in *. lia. }
      rewrite E. apply unle_le. change (256 ^ Z.of_nat 4) with 4294967296. lia. }
    rewrite R.
    replace (n =? 0) with false by (symmetry; apply Z.eqb_neq; lia).
    replace (L + 4 + n <=? flen f3) with true by (symmetry; apply Z.leb_le; lia).
    cbn [negb andb].
    replace (Z.to_nat n) with (length d) by (unfold n, zlen; lia).
    assert (E : fread f3 (L + 4) (length d) = d).
    { transitivity (fread f2 (L + 4) (length d)).
      - apply fread_ext. intros i Hi. unfold f3.
        apply fbyte_fwrite_out. unfold V1_REC in *. lia.
      - unfold f2. apply fread_fwrite_same. unfold V1_REC in *. lia. }
    rewrite E.
    unfold has_data. apply existsb_exists. exists (slot, d). split; [exact Hin|].
    cbn [fst snd]. rewrite Z.eqb_refl, zlist_eqb_refl. reflexivity.
Qed.

Lemma v1_store_ops_valid_gen : forall bs ball L0 s,
  incl bs ball -> V1_REC <= flen (v1dat s) -> L0 <= flen (v1dat s) ->
  flen (v1dat s) + total_len bs <= 1099511627776 ->
  (forall slot d, In (slot, d) bs -> 0 <= slot < SLOTS /\ d <> [] /\ zlen d < 4294967296) ->
  v1_raw_ok ball L0 s (v1_store_ops s bs) = true.
Proof.
  induction bs as [|[slot d] r IH]; intros ball L0 s Hincl Hf HL Hg Hb; [reflexivity|].
  cbn [v1_store_ops]. cbv zeta. rewrite v1_raw_ok_app.
  cbn [total_len snd] in Hg. pose proof (total_len_nonneg r) as Hr.
  assert (Hz : 0 <= zlen d) by (unfold zlen; lia).
  destruct (Hb slot d (or_introl eq_refl)) as [Hs [Hd Hn]].
  assert (Hpos : 0 < zlen d).
  { unfold zlen. destruct d; [congruence|cbn [length]; lia]. }
  destruct (v1_tile_ops_shape s slot d) as [hdr [Hh Eo]]. rewrite Eo.
  apply andb_true_iff. split.
  - apply v1_tile_shape_ok; auto; try lia. apply Hincl. left. reflexivity.
  - apply IH.
    + intros e He. apply Hincl. right. exact He.
    + rewrite v1_tile_shape_flen by assumption. lia.
    + rewrite v1_tile_shape_flen by assumption. lia.
    + rewrite v1_tile_shape_flen by assumption. lia.
    + intros s' d' H'. apply Hb. right. exact H'.
Qed.

Definition v1_batch_ok (b : batch) : Prop :=
  forall slot d, In (slot, d) b -> 0 <= slot < SLOTS /\ d <> [] /\ zlen d < 4294967296.

Theorem v1_store_ops_valid : forall b s0,
  v1_wf s0 -> flen (v1dat s0) + total_len b <= 1099511627776 -> v1_batch_ok b ->
  v1_raw_ok b (flen (v1dat s0)) s0 (v1_store_ops s0 b) = true.
Proof.
  intros b s0 [Hl _] Hg Hb. apply v1_store_ops_valid_gen; auto; try lia. apply incl_refl.
Qed.

Lemma batch_ok_no_empty : forall b,
  (forall slot d, In (slot, d) b -> d <> []) -> forall s, has_data b s [] = false.
Proof.
  intros b Hb s. destruct (has_data b s []) eqn:E; [|reflexivity].
  unfold has_data in E. apply existsb_exists in E. destruct E as [[s' d] [Hin E]].
  cbn [fst snd] in E. apply andb_true_iff in E. destruct E as [_ E].
  apply zlist_eqb_true in E. exfalso. apply (Hb s' d Hin). exact E.
Qed.

Theorem v1_store_crash_safe : forall b s0 s' slot,
  v1_wf s0 -> flen (v1dat s0) + total_len b <= 1099511627776 -> v1_batch_ok b ->
  In s' (v1_crash_states s0 (v1_store_ops s0 b)) -> 0 <= slot < SLOTS ->
  v1_read s' slot = v1_read s0 slot \/
  exists dd, has_data b slot dd = true /\ dd <> [] /\ v1_read s' slot = RData dd.
Proof.
  intros b s0 s' slot Hwf Hg Hb Hin Hs.
  apply (v1_crash_safe_nonempty_batch b s0 (v1_store_ops s0 b)); auto.
  - apply v1_store_ops_valid; auto.
  - apply batch_ok_no_empty. intros s d H. destruct (Hb s d H) as [_ [B _]]. exact B.
Qed.

Theorem v1_store_wf : forall b s0,
  v1_wf s0 -> flen (v1dat s0) + total_len b <= 1099511627776 -> v1_batch_ok b ->
  v1_wf (v1_apply_all s0 (v1_store_ops s0 b)).
Proof.
  intros b s0 Hwf Hg Hb. apply (v1_wf_preserved b); auto. apply v1_store_ops_valid; auto.
Qed.


(* ==== PART 5: the seed progress file and the legend cache as instances of write_atomic ==== *)

Lemma read_path_resolve : forall s s' p q, read_path s' p = read_path s q -> resolve s' p = resolve s q.
Proof.
  intros s s' p q H. unfold read_path in H.
  destruct (resolve s' p), (resolve s q); try discriminate; [inversion H; reflexivity|reflexivity].
Qed.

Lemma progress_write_crash_safe : forall (A : Type) (unpickle : list Z -> option A) (empty : A) s p sfx d s',
  In s' (crash_states s (progress_write_ops s p sfx d)) ->
  (forall x, s p = Some (NLink x) -> x <> tmp_of p sfx) ->
  progress_load unpickle empty s' p = progress_load unpickle empty s p \/
  progress_load unpickle empty s' p = match unpickle d with Some st => st | None => empty end.
Proof.
  intros A unpickle empty s p sfx d s' H Hl. unfold progress_write_ops in H.
  destruct (write_atomic_target s p sfx d s' H Hl) as [T|T].
  - left. unfold progress_load. rewrite (read_path_resolve _ _ _ _ T). reflexivity.
  - right. unfold progress_load. unfold read_path in T.
    destruct (resolve s' p) as [c|]; [|discriminate]. inversion T; subst. reflexivity.
Qed.

Lemma progress_write_completes : forall (A : Type) (unpickle : list Z -> option A) (empty : A) s p sfx d,
  snd (write_atomic_ops s p sfx d) = true ->
  progress_load unpickle empty (apply_ops s (progress_write_ops s p sfx d)) p =
  match unpickle d with Some st => st | None => empty end.
Proof.
  intros A unpickle empty s p sfx d H. unfold progress_write_ops, progress_load.
  pose proof (write_atomic_completes s p sfx d H) as T. unfold read_path in T.
  destruct (resolve (apply_ops s (fst (write_atomic_ops s p sfx d))) p) as [c|]; [|discriminate].
  inversion T; subst. reflexivity.
Qed.

Lemma legend_store_crash_safe : forall s p sfx d s',
  In s' (crash_states s (legend_store_ops s p sfx d)) ->
  (forall x, s p = Some (NLink x) -> x <> tmp_of p sfx) ->
  legend_load s' p = legend_load s p \/ legend_load s' p = RData d.
Proof. intros. unfold legend_load. apply (write_atomic_target s p sfx d); assumption. Qed.

(* non-vacuity: a progress file with old content [1], new content [2;3]: the four crash states load old, old, old, new
   (identity "unpickle") *)
Example progress_states_example :
  let s := fs_of [([112], NFile [1])] in
  map (fun s' => progress_load (fun d => Some d) [] s' [112]) (crash_states s (progress_write_ops s [112] [55] [2; 3])) =
  [[1]; [1]; [1]; [1]; [1]; [2; 3]].
Proof. vm_compute. reflexivity. Qed.

(* ==== PART 6: batches that span several bundle files ==== *)


(* ------------------------------------------------------------------------------------------------ *)
(* Version 2                                                                                        *)

Lemma mupd_same : forall st b f, mupd st b f b = f.
Proof. intros st b f. unfold mupd. rewrite Z.eqb_refl. reflexivity. Qed.

Lemma mupd_other : forall st b f x, x <> b -> mupd st b f x = st x.
Proof. intros st b f x H. unfold mupd. apply Z.eqb_neq in H. rewrite H. reflexivity. Qed.

Lemma m_apply_same : forall st o, m_apply st o (fst o) = bw_apply (st (fst o)) (snd o).
Proof. intros st o. unfold m_apply. apply mupd_same. Qed.

Lemma m_apply_other : forall st o x, x <> fst o -> m_apply st o x = st x.
Proof. intros st o x H. unfold m_apply. apply mupd_other. exact H. Qed.

Lemma v2_crash_states_head : forall ops f, In f (v2_crash_states f ops).
Proof. intros ops f. destruct ops; left; reflexivity. Qed.

Lemma m_proj_cons_same : forall b (o : mop) (r : list mop), fst o = b -> m_proj b (o :: r) = snd o :: m_proj b r.
Proof.
  intros b o r H. unfold m_proj. cbn [filter]. apply Z.eqb_eq in H. rewrite H. reflexivity.
Qed.

Lemma m_proj_cons_other : forall b (o : mop) (r : list mop), fst o <> b -> m_proj b (o :: r) = m_proj b r.
Proof.
  intros b o r H. unfold m_proj. cbn [filter]. apply Z.eqb_neq in H. rewrite H. reflexivity.
Qed.

Lemma m_proj_app : forall b l1 l2, m_proj b (l1 ++ l2) = m_proj b l1 ++ m_proj b l2.
Proof. intros b l1 l2. unfold m_proj. rewrite filter_app, map_app. reflexivity. Qed.

Lemma m_proj_tag_same : forall b (l : list bwrite), m_proj b (map (fun w => (b, w)) l) = l.
Proof.
  intros b l. induction l as [|w l IH]; [reflexivity|].
  cbn [map]. rewrite m_proj_cons_same by reflexivity. cbn [snd]. rewrite IH. reflexivity.
Qed.

Lemma m_proj_tag_other : forall b b' (l : list bwrite), b' <> b -> m_proj b (map (fun w => (b', w)) l) = [].
Proof.
  intros b b' l H. induction l as [|w l IH]; [reflexivity|].
  cbn [map]. rewrite m_proj_cons_other by (cbn [fst]; exact H). exact IH.
Qed.

(* (1) a crash state of the cache, seen through one bundle, is a crash state of that bundle under the
   writes addressed to it *)
Lemma m_crash_proj : forall ops st st' b,
  In st' (m_crash_states st ops) -> In (st' b) (v2_crash_states (st b) (m_proj b ops)).
Proof.
  induction ops as [|o r IH]; intros st st' b Hin.
  - cbn [m_crash_states] in Hin. destruct Hin as [E|[]]. subst st'. left. reflexivity.
  - cbn [m_crash_states] in Hin. destruct Hin as [E|Hin].
    { subst st'. apply v2_crash_states_head. }
    apply in_app_or in Hin.
    destruct (Z.eq_dec (fst o) b) as [E|E].
    + rewrite (m_proj_cons_same b o r E). subst b. cbn [v2_crash_states]. right. apply in_or_app.
      destruct Hin as [Hin|Hin].
      * left. destruct (v2_tearable (st (fst o)) (snd o)); [|destruct Hin].
        apply in_map_iff in Hin. destruct Hin as [k [Ek Hk]]. subst st'. rewrite mupd_same.
        unfold bw_tears. apply in_map_iff. exists k. split; [reflexivity|exact Hk].
      * right. apply (IH _ _ (fst o)) in Hin. rewrite m_apply_same in Hin. exact Hin.
    + rewrite (m_proj_cons_other b o r E).
      assert (E' : b <> fst o) by congruence.
      destruct Hin as [Hin|Hin].
      * destruct (v2_tearable (st (fst o)) (snd o)); [|destruct Hin].
        apply in_map_iff in Hin. destruct Hin as [k [Ek Hk]]. subst st'.
        rewrite mupd_other by exact E'. apply v2_crash_states_head.
      * apply (IH _ _ b) in Hin. rewrite m_apply_other in Hin by exact E'. exact Hin.
Qed.

Lemma m_apply_all_proj : forall ops st b, m_apply_all st ops b = bw_apply_all (st b) (m_proj b ops).
Proof.
  induction ops as [|o r IH]; intros st b; [reflexivity|].
  unfold m_apply_all. cbn [fold_left]. fold (m_apply_all (m_apply st o) r). rewrite IH.
  destruct (Z.eq_dec (fst o) b) as [E|E].
  - rewrite (m_proj_cons_same b o r E). subst b. rewrite m_apply_same. reflexivity.
  - rewrite (m_proj_cons_other b o r E). rewrite m_apply_other by congruence. reflexivity.
Qed.

Lemma m_crash_states_last : forall ops st, In (m_apply_all st ops) (m_crash_states st ops).
Proof.
  induction ops as [|o r IH]; intros st; [left; reflexivity|].
  cbn [m_crash_states]. right. apply in_or_app. right. apply IH.
Qed.

(* (2) crash safety per bundle, for any raw write sequence whose projections obey the v2 discipline *)
Theorem m_crash_safe : forall (bt : Z -> batch) st ops st' b slot,
  (forall x, v2_wf (st x)) ->
  (forall x, v2_raw_ok (bt x) (flen (st x)) (st x) (m_proj x ops) = true) ->
  (forall x s, has_data (bt x) s [] = false) ->
  In st' (m_crash_states st ops) -> 0 <= slot < SLOTS ->
  v2_read (st' b) slot = v2_read (st b) slot \/
  exists dd, has_data (bt b) slot dd = true /\ dd <> [] /\ v2_read (st' b) slot = RData dd.
Proof.
  intros bt st ops st' b slot Hwf Hok Hne Hin Hs.
  apply (v2_crash_safe_nonempty_batch (bt b) (st b) (m_proj b ops)); auto.
  apply m_crash_proj. exact Hin.
Qed.

Corollary m_others_unaffected : forall (bt : Z -> batch) st ops st' b slot,
  (forall x, v2_wf (st x)) ->
  (forall x, v2_raw_ok (bt x) (flen (st x)) (st x) (m_proj x ops) = true) ->
  In st' (m_crash_states st ops) -> 0 <= slot < SLOTS ->
  (forall dd, has_data (bt b) slot dd = false) ->
  v2_read (st' b) slot = v2_read (st b) slot.
Proof.
  intros bt st ops st' b slot Hwf Hok Hin Hs Hno.
  apply (v2_others_unaffected (bt b) (st b) (m_proj b ops)); auto.
  apply m_crash_proj. exact Hin.
Qed.

Theorem m_wf_preserved : forall (bt : Z -> batch) st ops,
  (forall x, v2_wf (st x)) ->
  (forall x, v2_raw_ok (bt x) (flen (st x)) (st x) (m_proj x ops) = true) ->
  forall x, v2_wf (m_apply_all st ops x).
Proof.
  intros bt st ops Hwf Hok x. rewrite m_apply_all_proj.
  apply (v2_wf_preserved (bt x)); auto.
Qed.

(* (3) the writes of the multi-bundle store that go to bundle b are exactly the writes of
   BundleV2.store_tiles on the tiles of b *)
Lemma m_store_proj : forall tiles st b,
  m_proj b (m_store_ops st tiles) = v2_store_ops (st b) (m_batch_of b tiles).
Proof.
  induction tiles as [|[[b' slot] d] r IH]; intros st b; [reflexivity|].
  cbn [m_store_ops]. cbv zeta. rewrite m_proj_app, IH, m_apply_all_proj.
  unfold m_batch_of. cbn [filter fst snd].
  destruct (Z.eq_dec b' b) as [E|E].
  - subst b'. rewrite Z.eqb_refl. rewrite !m_proj_tag_same.
    cbn [map fst snd v2_store_ops]. cbv zeta. reflexivity.
  - rewrite !m_proj_tag_other by exact E.
    apply Z.eqb_neq in E. rewrite E. reflexivity.
Qed.

Lemma m_batch_of_in : forall b tiles s d, In (s, d) (m_batch_of b tiles) -> In (b, s, d) tiles.
Proof.
  intros b tiles s d H. unfold m_batch_of in H. apply in_map_iff in H.
  destruct H as [[[b' s'] d'] [E H]]. cbn [fst snd] in E. inversion E; subst s' d'.
  apply filter_In in H. destruct H as [H E']. cbn [fst] in E'. apply Z.eqb_eq in E'. subst b'. exact H.
Qed.

Lemma m_store_ops_valid : forall st tiles,
  (forall x, v2_wf (st x)) ->
  (forall x, flen (st x) + total_len (m_batch_of x tiles) <= P40) ->
  (forall bb s d, In (bb, s, d) tiles -> 0 <= s < SLOTS /\ d <> [] /\ zlen d < 16777216) ->
  forall x, v2_raw_ok (m_batch_of x tiles) (flen (st x)) (st x) (m_proj x (m_store_ops st tiles)) = true.
Proof.
  intros st tiles Hwf Hg Hb x. rewrite m_store_proj. apply v2_store_ops_valid; auto.
  intros s d H. apply (Hb x). apply m_batch_of_in. exact H.
Qed.

Lemma m_batch_no_empty : forall tiles,
  (forall bb s d, In (bb, s, d) tiles -> 0 <= s < SLOTS /\ d <> [] /\ zlen d < 16777216) ->
  forall x s, has_data (m_batch_of x tiles) s [] = false.
Proof.
  intros tiles Hb x. apply batch_ok_no_empty. intros s d H.
  apply m_batch_of_in in H. destruct (Hb x s d H) as [_ [B _]]. exact B.
Qed.

(* (4) the modelled multi-bundle store is crash safe: in every crash state every slot of every bundle
   reads as before or as a complete non-empty tile stored into that slot of that bundle *)
Theorem m_store_crash_safe : forall st tiles st' b slot,
  (forall x, v2_wf (st x)) ->
  (forall x, flen (st x) + total_len (m_batch_of x tiles) <= P40) ->
  (forall bb s d, In (bb, s, d) tiles -> 0 <= s < SLOTS /\ d <> [] /\ zlen d < 16777216) ->
  In st' (m_crash_states st (m_store_ops st tiles)) -> 0 <= slot < SLOTS ->
  v2_read (st' b) slot = v2_read (st b) slot \/
  exists dd, has_data (m_batch_of b tiles) slot dd = true /\ dd <> [] /\ v2_read (st' b) slot = RData dd.
Proof.
  intros st tiles st' b slot Hwf Hg Hb Hin Hs.
  apply (m_crash_safe (fun x => m_batch_of x tiles) st (m_store_ops st tiles) st' b slot); auto.
  - apply m_store_ops_valid; auto.
  - apply m_batch_no_empty. exact Hb.
Qed.

Corollary m_store_others_unaffected : forall st tiles st' b slot,
  (forall x, v2_wf (st x)) ->
  (forall x, flen (st x) + total_len (m_batch_of x tiles) <= P40) ->
  (forall bb s d, In (bb, s, d) tiles -> 0 <= s < SLOTS /\ d <> [] /\ zlen d < 16777216) ->
  In st' (m_crash_states st (m_store_ops st tiles)) -> 0 <= slot < SLOTS ->
  (forall d, ~ In (b, slot, d) tiles) ->
  v2_read (st' b) slot = v2_read (st b) slot.
Proof.
  intros st tiles st' b slot Hwf Hg Hb Hin Hs Hno.
  apply (m_others_unaffected (fun x => m_batch_of x tiles) st (m_store_ops st tiles) st' b slot); auto.
  - apply m_store_ops_valid; auto.
  - intros dd. cbv beta. destruct (has_data (m_batch_of b tiles) slot dd) eqn:E; [|reflexivity].
    unfold has_data in E. apply existsb_exists in E. destruct E as [[s d] [Hi E]].
    cbn [fst snd] in E. apply andb_true_iff in E. destruct E as [E _]. apply Z.eqb_eq in E. subst s.
    exfalso. apply (Hno d). apply m_batch_of_in. exact Hi.
Qed.

Theorem m_store_wf : forall st tiles,
  (forall x, v2_wf (st x)) ->
  (forall x, flen (st x) + total_len (m_batch_of x tiles) <= P40) ->
  (forall bb s d, In (bb, s, d) tiles -> 0 <= s < SLOTS /\ d <> [] /\ zlen d < 16777216) ->
  forall x, v2_wf (m_apply_all st (m_store_ops st tiles) x).
Proof.
  intros st tiles Hwf Hg Hb.
  apply (m_wf_preserved (fun x => m_batch_of x tiles)); auto.
  apply m_store_ops_valid; auto.
Qed.

(* (5) non-vacuity: two fresh bundles, three tiles, the second one in the other bundle *)
Definition m_ex_st : mstate := fun _ => v2_init.
Definition m_ex_tiles : list mtile := [(0, 5, [1;2;3]); (1, 5, [9;8]); (0, 6, [4])].

Example m_ex_hyps :
  (forall x, v2_wf (m_ex_st x)) /\
  (forall x, flen (m_ex_st x) + total_len (m_batch_of x m_ex_tiles) <= P40) /\
  (forall bb s d, In (bb, s, d) m_ex_tiles -> 0 <= s < SLOTS /\ d <> [] /\ zlen d < 16777216).
Proof.
  split; [intros x; apply v2_init_wf|]. split.
  - intros x. unfold m_ex_st, m_ex_tiles, m_batch_of. cbn [filter fst snd].
    destruct (0 =? x); destruct (1 =? x); vm_compute; discriminate.
  - intros bb s d H. unfold m_ex_tiles in H. cbn [In] in H.
    destruct H as [H|[H|[H|[]]]]; inversion H; subst bb s d;
      (split; [unfold SLOTS; lia|]); (split; [discriminate|]); vm_compute; reflexivity.
Qed.

Example m_ex_crash_states :
  length (m_store_ops m_ex_st m_ex_tiles) = 14%nat /\
  length (m_crash_states m_ex_st (m_store_ops m_ex_st m_ex_tiles)) = 65%nat.
Proof. vm_compute. split; reflexivity. Qed.

Example m_ex_safe : forall st' b slot,
  In st' (m_crash_states m_ex_st (m_store_ops m_ex_st m_ex_tiles)) -> 0 <= slot < SLOTS ->
  v2_read (st' b) slot = v2_read (m_ex_st b) slot \/
  exists dd, has_data (m_batch_of b m_ex_tiles) slot dd = true /\ dd <> [] /\ v2_read (st' b) slot = RData dd.
Proof.
  intros st' b slot Hin Hs. destruct m_ex_hyps as [A [B C]].
  apply (m_store_crash_safe m_ex_st m_ex_tiles st' b slot); auto.
Qed.

(* ------------------------------------------------------------------------------------------------ *)
(* Version 1                                                                                        *)

Lemma m1upd_same : forall st b s, m1upd st b s b = s.
Proof. intros st b s. unfold m1upd. rewrite Z.eqb_refl. reflexivity. Qed.

Lemma m1upd_other : forall st b s x, x <> b -> m1upd st b s x = st x.
Proof. intros st b s x H. unfold m1upd. apply Z.eqb_neq in H. rewrite H. reflexivity. Qed.

Lemma m1_apply_same : forall st o, m1_apply st o (fst o) = v1_apply (st (fst o)) (snd o).
Proof. intros st o. unfold m1_apply. apply m1upd_same. Qed.

Lemma m1_apply_other : forall st o x, x <> fst o -> m1_apply st o x = st x.
Proof. intros st o x H. unfold m1_apply. apply m1upd_other. exact H. Qed.

Lemma v1_crash_states_head : forall ops s, In s (v1_crash_states s ops).
Proof. intros ops s. destruct ops; left; reflexivity. Qed.

Lemma m1_proj_cons_same : forall b (o : m1op) (r : list m1op), fst o = b -> m1_proj b (o :: r) = snd o :: m1_proj b r.
Proof.
  intros b o r H. unfold m1_proj. cbn [filter]. apply Z.eqb_eq in H. rewrite H. reflexivity.
Qed.

Lemma m1_proj_cons_other : forall b (o : m1op) (r : list m1op), fst o <> b -> m1_proj b (o :: r) = m1_proj b r.
Proof.
  intros b o r H. unfold m1_proj. cbn [filter]. apply Z.eqb_neq in H. rewrite H. reflexivity.
Qed.

Lemma m1_proj_app : forall b l1 l2, m1_proj b (l1 ++ l2) = m1_proj b l1 ++ m1_proj b l2.
Proof. intros b l1 l2. unfold m1_proj. rewrite filter_app, map_app. reflexivity. Qed.

Lemma m1_proj_tag_same : forall b (l : list v1op), m1_proj b (map (fun w => (b, w)) l) = l.
Proof.
  intros b l. induction l as [|w l IH]; [reflexivity|].
  cbn [map]. rewrite m1_proj_cons_same by reflexivity. cbn [snd]. rewrite IH. reflexivity.
Qed.

Lemma m1_proj_tag_other : forall b b' (l : list v1op), b' <> b -> m1_proj b (map (fun w => (b', w)) l) = [].
Proof.
  intros b b' l H. induction l as [|w l IH]; [reflexivity|].
  cbn [map]. rewrite m1_proj_cons_other by (cbn [fst]; exact H). exact IH.
Qed.

Lemma m1_crash_proj : forall ops st st' b,
  In st' (m1_crash_states st ops) -> In (st' b) (v1_crash_states (st b) (m1_proj b ops)).
Proof.
  induction ops as [|o r IH]; intros st st' b Hin.
  - cbn [m1_crash_states] in Hin. destruct Hin as [E|[]]. subst st'. left. reflexivity.
  - cbn [m1_crash_states] in Hin. destruct Hin as [E|Hin].
    { subst st'. apply v1_crash_states_head. }
    apply in_app_or in Hin.
    destruct (Z.eq_dec (fst o) b) as [E|E].
    + rewrite (m1_proj_cons_same b o r E). subst b. cbn [v1_crash_states]. right. apply in_or_app.
      destruct Hin as [Hin|Hin].
      * left. apply in_map_iff in Hin. destruct Hin as [s [Es Hs]]. subst st'.
        rewrite m1upd_same. exact Hs.
      * right. apply (IH _ _ (fst o)) in Hin. rewrite m1_apply_same in Hin. exact Hin.
    + rewrite (m1_proj_cons_other b o r E).
      assert (E' : b <> fst o) by congruence.
      destruct Hin as [Hin|Hin].
      * apply in_map_iff in Hin. destruct Hin as [s [Es Hs]]. subst st'.
        rewrite m1upd_other by exact E'. apply v1_crash_states_head.
      * apply (IH _ _ b) in Hin. rewrite m1_apply_other in Hin by exact E'. exact Hin.
Qed.

Lemma m1_apply_all_proj : forall ops st b, m1_apply_all st ops b = v1_apply_all (st b) (m1_proj b ops).
Proof.
  induction ops as [|o r IH]; intros st b; [reflexivity|].
  unfold m1_apply_all. cbn [fold_left]. fold (m1_apply_all (m1_apply st o) r). rewrite IH.
  destruct (Z.eq_dec (fst o) b) as [E|E].
  - rewrite (m1_proj_cons_same b o r E). subst b. rewrite m1_apply_same. reflexivity.
  - rewrite (m1_proj_cons_other b o r E). rewrite m1_apply_other by congruence. reflexivity.
Qed.

Lemma m1_crash_states_last : forall ops st, In (m1_apply_all st ops) (m1_crash_states st ops).
Proof.
  induction ops as [|o r IH]; intros st; [left; reflexivity|].
  cbn [m1_crash_states]. right. apply in_or_app. right. apply IH.
Qed.

Theorem m1_crash_safe : forall (bt : Z -> batch) st ops st' b slot,
  (forall x, v1_wf (st x)) ->
  (forall x, v1_raw_ok (bt x) (flen (v1dat (st x))) (st x) (m1_proj x ops) = true) ->
  (forall x s, has_data (bt x) s [] = false) ->
  In st' (m1_crash_states st ops) -> 0 <= slot < SLOTS ->
  v1_read (st' b) slot = v1_read (st b) slot \/
  exists dd, has_data (bt b) slot dd = true /\ dd <> [] /\ v1_read (st' b) slot = RData dd.
Proof.
  intros bt st ops st' b slot Hwf Hok Hne Hin Hs.
  apply (v1_crash_safe_nonempty_batch (bt b) (st b) (m1_proj b ops)); auto.
  apply m1_crash_proj. exact Hin.
Qed.

Corollary m1_others_unaffected : forall (bt : Z -> batch) st ops st' b slot,
  (forall x, v1_wf (st x)) ->
  (forall x, v1_raw_ok (bt x) (flen (v1dat (st x))) (st x) (m1_proj x ops) = true) ->
  In st' (m1_crash_states st ops) -> 0 <= slot < SLOTS ->
  (forall dd, has_data (bt b) slot dd = false) ->
  v1_read (st' b) slot = v1_read (st b) slot.
Proof.
  intros bt st ops st' b slot Hwf Hok Hin Hs Hno.
  apply (v1_others_unaffected (bt b) (st b) (m1_proj b ops)); auto.
  apply m1_crash_proj. exact Hin.
Qed.

Theorem m1_wf_preserved : forall (bt : Z -> batch) st ops,
  (forall x, v1_wf (st x)) ->
  (forall x, v1_raw_ok (bt x) (flen (v1dat (st x))) (st x) (m1_proj x ops) = true) ->
  forall x, v1_wf (m1_apply_all st ops x).
Proof.
  intros bt st ops Hwf Hok x. rewrite m1_apply_all_proj.
  apply (v1_wf_preserved (bt x)); auto.
Qed.

Lemma m1_store_proj : forall tiles st b,
  m1_proj b (m1_store_ops st tiles) = v1_store_ops (st b) (m_batch_of b tiles).
Proof.
  induction tiles as [|[[b' slot] d] r IH]; intros st b; [reflexivity|].
  cbn [m1_store_ops]. cbv zeta. rewrite m1_proj_app, IH, m1_apply_all_proj.
  unfold m_batch_of. cbn [filter fst snd].
  destruct (Z.eq_dec b' b) as [E|E].
  - subst b'. rewrite Z.eqb_refl. rewrite !m1_proj_tag_same.
    cbn [map fst snd v1_store_ops]. cbv zeta. reflexivity.
  - rewrite !m1_proj_tag_other by exact E.
    apply Z.eqb_neq in E. rewrite E. reflexivity.
Qed.

Lemma m1_store_ops_valid : forall st tiles,
  (forall x, v1_wf (st x)) ->
  (forall x, flen (v1dat (st x)) + total_len (m_batch_of x tiles) <= 1099511627776) ->
  (forall bb s d, In (bb, s, d) tiles -> 0 <= s < SLOTS /\ d <> [] /\ zlen d < 4294967296) ->
  forall x, v1_raw_ok (m_batch_of x tiles) (flen (v1dat (st x))) (st x) (m1_proj x (m1_store_ops st tiles)) = true.
Proof.
  intros st tiles Hwf Hg Hb x. rewrite m1_store_proj. apply v1_store_ops_valid; auto.
  intros s d H. apply (Hb x). apply m_batch_of_in. exact H.
Qed.

Lemma m1_batch_no_empty : forall tiles,
  (forall bb s d, In (bb, s, d) tiles -> 0 <= s < SLOTS /\ d <> [] /\ zlen d < 4294967296) ->
  forall x s, has_data (m_batch_of x tiles) s [] = false.
Proof.
  intros tiles Hb x. apply batch_ok_no_empty. intros s d H.
  apply m_batch_of_in in H. destruct (Hb x s d H) as [_ [B _]]. exact B.
Qed.

Theorem m1_store_crash_safe : forall st tiles st' b slot,
  (forall x, v1_wf (st x)) ->
  (forall x, flen (v1dat (st x)) + total_len (m_batch_of x tiles) <= 1099511627776) ->
  (forall bb s d, In (bb, s, d) tiles -> 0 <= s < SLOTS /\ d <> [] /\ zlen d < 4294967296) ->
  In st' (m1_crash_states st (m1_store_ops st tiles)) -> 0 <= slot < SLOTS ->
  v1_read (st' b) slot = v1_read (st b) slot \/
  exists dd, has_data (m_batch_of b tiles) slot dd = true /\ dd <> [] /\ v1_read (st' b) slot = RData dd.
Proof.
  intros st tiles st' b slot Hwf Hg Hb Hin Hs.
  apply (m1_crash_safe (fun x => m_batch_of x tiles) st (m1_store_ops st tiles) st' b slot); auto.
  - apply m1_store_ops_valid; auto.
  - apply m1_batch_no_empty. exact Hb.
Qed.

Corollary m1_store_others_unaffected : forall st tiles st' b slot,
  (forall x, v1_wf (st x)) ->
  (forall x, flen (v1dat (st x)) + total_len (m_batch_of x tiles) <= 1099511627776) ->
  (forall bb s d, In (bb, s, d) tiles -> 0 <= s < SLOTS /\ d <> [] /\ zlen d < 4294967296) ->
  In st' (m1_crash_states st (m1_store_ops st tiles)) -> 0 <= slot < SLOTS ->
  (forall d, ~ In (b, slot, d) tiles) ->
  v1_read (st' b) slot = v1_read (st b) slot.
Proof.
  intros st tiles st' b slot Hwf Hg Hb Hin Hs Hno.
  apply (m1_others_unaffected (fun x => m_batch_of x tiles) st (m1_store_ops st tiles) st' b slot); auto.
  - apply m1_store_ops_valid; auto.
  - intros dd. cbv beta. destruct (has_data (m_batch_of b tiles) slot dd) eqn:E; [|reflexivity].
    unfold has_data in E. apply existsb_exists in E. destruct E as [[s d] [Hi E]].
    cbn [fst snd] in E. apply andb_true_iff in E. destruct E as [E _]. apply Z.eqb_eq in E. subst s.
    exfalso. apply (Hno d). apply m_batch_of_in. exact Hi.
Qed.

Theorem m1_store_wf : forall st tiles,
  (forall x, v1_wf (st x)) ->
  (forall x, flen (v1dat (st x)) + total_len (m_batch_of x tiles) <= 1099511627776) ->
  (forall bb s d, In (bb, s, d) tiles -> 0 <= s < SLOTS /\ d <> [] /\ zlen d < 4294967296) ->
  forall x, v1_wf (m1_apply_all st (m1_store_ops st tiles) x).
Proof.
  intros st tiles Hwf Hg Hb.
  apply (m1_wf_preserved (fun x => m_batch_of x tiles)); auto.
  apply m1_store_ops_valid; auto.
Qed.

(* non-vacuity for version 1: the same three tiles on two fresh bundles *)
Definition m1_ex_st : m1state := fun _ => mkV1 (v1_dat_init 0 0) v1_idx_init.

Example m1_ex_hyps :
  (forall x, v1_wf (m1_ex_st x)) /\
  (forall x, flen (v1dat (m1_ex_st x)) + total_len (m_batch_of x m_ex_tiles) <= 1099511627776) /\
  (forall bb s d, In (bb, s, d) m_ex_tiles -> 0 <= s < SLOTS /\ d <> [] /\ zlen d < 4294967296).
Proof.
  split; [intros x; apply v1_init_wf|]. split.
  - intros x. unfold m1_ex_st, m_ex_tiles, m_batch_of. cbn [filter fst snd].
    destruct (0 =? x); destruct (1 =? x); vm_compute; discriminate.
  - intros bb s d H. unfold m_ex_tiles in H. cbn [In] in H.
    destruct H as [H|[H|[H|[]]]]; inversion H; subst bb s d;
      (split; [unfold SLOTS; lia|]); (split; [discriminate|]); vm_compute; reflexivity.
Qed.

Example m1_ex_crash_states :
  length (m1_store_ops m1_ex_st m_ex_tiles) = 12%nat /\
  length (m1_crash_states m1_ex_st (m1_store_ops m1_ex_st m_ex_tiles)) = 211%nat.
Proof. vm_compute. split; reflexivity. Qed.

Example m1_ex_safe : forall st' b slot,
  In st' (m1_crash_states m1_ex_st (m1_store_ops m1_ex_st m_ex_tiles)) -> 0 <= slot < SLOTS ->
  v1_read (st' b) slot = v1_read (m1_ex_st b) slot \/
  exists dd, has_data (m_batch_of b m_ex_tiles) slot dd = true /\ dd <> [] /\ v1_read (st' b) slot = RData dd.
Proof.
  intros st' b slot Hin Hs. destruct m1_ex_hyps as [A [B C]].
  apply (m1_store_crash_safe m1_ex_st m_ex_tiles st' b slot); auto.
Qed.

(* ==== PART 6b: CompactCacheBase.store_tiles = routing decision + one of the two paths ==== *)

Lemma filter_all_true : forall (A : Type) (f : A -> bool) l, forallb f l = true -> filter f l = l.
Proof.
  intros A f l. induction l as [|a l IH]; intros H; [reflexivity|].
  cbn [forallb] in H. apply andb_true_iff in H. destruct H as [Ha Hl].
  cbn [filter]. rewrite Ha. rewrite (IH Hl). reflexivity.
Qed.

Lemma filter_all_false : forall (A : Type) (f g : A -> bool) l,
  forallb g l = true -> (forall a, g a = true -> f a = false) -> filter f l = [].
Proof.
  intros A f g l. induction l as [|a l IH]; intros H Hfg; [reflexivity|].
  cbn [forallb] in H. apply andb_true_iff in H. destruct H as [Ha Hl].
  cbn [filter]. rewrite (Hfg a Ha). apply IH; assumption.
Qed.

(* the single-bundle route is taken only when every tile of the call lies in the bundle that receives the call:
   the batch handed to that bundle (all tiles, coordinates reduced modulo 128) is the batch of that bundle ... *)
Lemma c_single_batch_same : forall tiles,
  c_single_bundle tiles = true -> c_all_slots tiles = m_batch_of (c_last_bundle tiles) tiles.
Proof.
  intros tiles E. unfold c_single_bundle in E. apply andb_true_iff in E. destruct E as [_ E].
  unfold m_batch_of, c_all_slots.
  rewrite (filter_all_true _ (fun t => fst (fst t) =? c_last_bundle tiles) tiles E). reflexivity.
Qed.

(* ... and no other bundle has a tile in the call *)
Lemma c_single_batch_other : forall tiles b,
  c_single_bundle tiles = true -> c_last_bundle tiles <> b -> m_batch_of b tiles = [].
Proof.
  intros tiles b E Hb. unfold c_single_bundle in E. apply andb_true_iff in E. destruct E as [_ E].
  unfold m_batch_of.
  rewrite (filter_all_false _ (fun t => fst (fst t) =? b) (fun t => c_bundle_of t =? c_last_bundle tiles) tiles E).
  - reflexivity.
  - intros a Ha. unfold c_bundle_of in Ha. apply Z.eqb_eq in Ha. apply Z.eqb_neq. congruence.
Qed.

(* the writes of CompactCacheBase.store_tiles (version 2) that go to bundle b are, on BOTH routes, exactly the writes of
   Bundle.store_tiles on the tiles of b *)
Lemma c_store_proj : forall tiles st b,
  m_proj b (c_store_ops st tiles) = v2_store_ops (st b) (m_batch_of b tiles).
Proof.
  intros tiles st b. unfold c_store_ops.
  destruct (c_single_bundle tiles) eqn:E; [|apply m_store_proj].
  cbv zeta. destruct (Z.eq_dec (c_last_bundle tiles) b) as [Eb|Eb].
  - rewrite Eb. rewrite m_proj_tag_same. rewrite <- Eb.
    rewrite (c_single_batch_same tiles E). reflexivity.
  - rewrite m_proj_tag_other by exact Eb.
    rewrite (c_single_batch_other tiles b E Eb). reflexivity.
Qed.

Lemma c_store_ops_valid : forall st tiles,
  (forall x, v2_wf (st x)) ->
  (forall x, flen (st x) + total_len (m_batch_of x tiles) <= P40) ->
  (forall bb s d, In (bb, s, d) tiles -> 0 <= s < SLOTS /\ d <> [] /\ zlen d < 16777216) ->
  forall x, v2_raw_ok (m_batch_of x tiles) (flen (st x)) (st x) (m_proj x (c_store_ops st tiles)) = true.
Proof.
  intros st tiles Hwf Hg Hb x. rewrite c_store_proj. apply v2_store_ops_valid; auto.
  intros s d H. apply (Hb x). apply m_batch_of_in. exact H.
Qed.

Theorem c_store_crash_safe : forall st tiles st' b slot,
  (forall x, v2_wf (st x)) ->
  (forall x, flen (st x) + total_len (m_batch_of x tiles) <= P40) ->
  (forall bb s d, In (bb, s, d) tiles -> 0 <= s < SLOTS /\ d <> [] /\ zlen d < 16777216) ->
  In st' (m_crash_states st (c_store_ops st tiles)) -> 0 <= slot < SLOTS ->
  v2_read (st' b) slot = v2_read (st b) slot \/
  exists dd, has_data (m_batch_of b tiles) slot dd = true /\ dd <> [] /\ v2_read (st' b) slot = RData dd.
Proof.
  intros st tiles st' b slot Hwf Hg Hb Hin Hs.
  apply (m_crash_safe (fun x => m_batch_of x tiles) st (c_store_ops st tiles) st' b slot); auto.
  - apply c_store_ops_valid; auto.
  - apply m_batch_no_empty. exact Hb.
Qed.

Corollary c_store_others_unaffected : forall st tiles st' b slot,
  (forall x, v2_wf (st x)) ->
  (forall x, flen (st x) + total_len (m_batch_of x tiles) <= P40) ->
  (forall bb s d, In (bb, s, d) tiles -> 0 <= s < SLOTS /\ d <> [] /\ zlen d < 16777216) ->
  In st' (m_crash_states st (c_store_ops st tiles)) -> 0 <= slot < SLOTS ->
  (forall d, ~ In (b, slot, d) tiles) ->
  v2_read (st' b) slot = v2_read (st b) slot.
Proof.
  intros st tiles st' b slot Hwf Hg Hb Hin Hs Hno.
  apply (m_others_unaffected (fun x => m_batch_of x tiles) st (c_store_ops st tiles) st' b slot); auto.
  - apply c_store_ops_valid; auto.
  - intros dd. cbv beta. destruct (has_data (m_batch_of b tiles) slot dd) eqn:E; [|reflexivity].
    unfold has_data in E. apply existsb_exists in E. destruct E as [[s d] [Hi E]].
    cbn [fst snd] in E. apply andb_true_iff in E. destruct E as [E _]. apply Z.eqb_eq in E. subst s.
    exfalso. apply (Hno d). apply m_batch_of_in. exact Hi.
Qed.

Theorem c_store_wf : forall st tiles,
  (forall x, v2_wf (st x)) ->
  (forall x, flen (st x) + total_len (m_batch_of x tiles) <= P40) ->
  (forall bb s d, In (bb, s, d) tiles -> 0 <= s < SLOTS /\ d <> [] /\ zlen d < 16777216) ->
  forall x, v2_wf (m_apply_all st (c_store_ops st tiles) x).
Proof.
  intros st tiles Hwf Hg Hb.
  apply (m_wf_preserved (fun x => m_batch_of x tiles)); auto.
  apply c_store_ops_valid; auto.
Qed.

(* the writes of CompactCacheBase.store_tiles (version 1) that go to bundle b are, on BOTH routes, exactly the writes of
   Bundle.store_tiles on the tiles of b *)
Lemma c1_store_proj : forall tiles st b,
  m1_proj b (c1_store_ops st tiles) = v1_store_ops (st b) (m_batch_of b tiles).
Proof.
  intros tiles st b. unfold c1_store_ops.
  destruct (c_single_bundle tiles) eqn:E; [|apply m1_store_proj].
  cbv zeta. destruct (Z.eq_dec (c_last_bundle tiles) b) as [Eb|Eb].
  - rewrite Eb. rewrite m1_proj_tag_same. rewrite <- Eb.
    rewrite (c_single_batch_same tiles E). reflexivity.
  - rewrite m1_proj_tag_other by exact Eb.
    rewrite (c_single_batch_other tiles b E Eb). reflexivity.
Qed.

Lemma c1_store_ops_valid : forall st tiles,
  (forall x, v1_wf (st x)) ->
  (forall x, flen (v1dat (st x)) + total_len (m_batch_of x tiles) <= 1099511627776) ->
  (forall bb s d, In (bb, s, d) tiles -> 0 <= s < SLOTS /\ d <> [] /\ zlen d < 4294967296) ->
  forall x, v1_raw_ok (m_batch_of x tiles) (flen (v1dat (st x))) (st x) (m1_proj x (c1_store_ops st tiles)) = true.
Proof.
  intros st tiles Hwf Hg Hb x. rewrite c1_store_proj. apply v1_store_ops_valid; auto.
  intros s d H. apply (Hb x). apply m_batch_of_in. exact H.
Qed.

Theorem c1_store_crash_safe : forall st tiles st' b slot,
  (forall x, v1_wf (st x)) ->
  (forall x, flen (v1dat (st x)) + total_len (m_batch_of x tiles) <= 1099511627776) ->
  (forall bb s d, In (bb, s, d) tiles -> 0 <= s < SLOTS /\ d <> [] /\ zlen d < 4294967296) ->
  In st' (m1_crash_states st (c1_store_ops st tiles)) -> 0 <= slot < SLOTS ->
  v1_read (st' b) slot = v1_read (st b) slot \/
  exists dd, has_data (m_batch_of b tiles) slot dd = true /\ dd <> [] /\ v1_read (st' b) slot = RData dd.
Proof.
  intros st tiles st' b slot Hwf Hg Hb Hin Hs.
  apply (m1_crash_safe (fun x => m_batch_of x tiles) st (c1_store_ops st tiles) st' b slot); auto.
  - apply c1_store_ops_valid; auto.
  - apply m1_batch_no_empty. exact Hb.
Qed.

Corollary c1_store_others_unaffected : forall st tiles st' b slot,
  (forall x, v1_wf (st x)) ->
  (forall x, flen (v1dat (st x)) + total_len (m_batch_of x tiles) <= 1099511627776) ->
  (forall bb s d, In (bb, s, d) tiles -> 0 <= s < SLOTS /\ d <> [] /\ zlen d < 4294967296) ->
  In st' (m1_crash_states st (c1_store_ops st tiles)) -> 0 <= slot < SLOTS ->
  (forall d, ~ In (b, slot, d) tiles) ->
  v1_read (st' b) slot = v1_read (st b) slot.
Proof.
  intros st tiles st' b slot Hwf Hg Hb Hin Hs Hno.
  apply (m1_others_unaffected (fun x => m_batch_of x tiles) st (c1_store_ops st tiles) st' b slot); auto.
  - apply c1_store_ops_valid; auto.
  - intros dd. cbv beta. destruct (has_data (m_batch_of b tiles) slot dd) eqn:E; [|reflexivity].
    unfold has_data in E. apply existsb_exists in E. destruct E as [[s d] [Hi E]].
    cbn [fst snd] in E. apply andb_true_iff in E. destruct E as [E _]. apply Z.eqb_eq in E. subst s.
    exfalso. apply (Hno d). apply m_batch_of_in. exact Hi.
Qed.

Theorem c1_store_wf : forall st tiles,
  (forall x, v1_wf (st x)) ->
  (forall x, flen (v1dat (st x)) + total_len (m_batch_of x tiles) <= 1099511627776) ->
  (forall bb s d, In (bb, s, d) tiles -> 0 <= s < SLOTS /\ d <> [] /\ zlen d < 4294967296) ->
  forall x, v1_wf (m1_apply_all st (c1_store_ops st tiles) x).
Proof.
  intros st tiles Hwf Hg Hb.
  apply (m1_wf_preserved (fun x => m_batch_of x tiles)); auto.
  apply c1_store_ops_valid; auto.
Qed.

(* non-vacuity: both routes are taken.  Two tiles of one bundle: one Bundle.store_tiles call; first and last tile in
   one bundle and a tile of another bundle between them: one store_tile per tile (each tile reaches its own bundle) *)
Definition c_ex_tiles_one : list mtile := [(0, 5, [1;2;3]); (0, 6, [4])].

Example c_ex_routes :
  c_single_bundle c_ex_tiles_one = true /\ c_single_bundle m_ex_tiles = false /\
  c_single_bundle [(0, 5, [1;2;3])] = false /\
  map fst (c_store_ops m_ex_st c_ex_tiles_one) = [0; 0; 0; 0; 0; 0; 0; 0; 0] /\
  map fst (c_store_ops m_ex_st m_ex_tiles) = map fst (m_store_ops m_ex_st m_ex_tiles) /\
  In 1 (map fst (c_store_ops m_ex_st m_ex_tiles)).
Proof. vm_compute. repeat split; try reflexivity. tauto. Qed.

Example c_ex_safe : forall st' b slot,
  In st' (m_crash_states m_ex_st (c_store_ops m_ex_st m_ex_tiles)) -> 0 <= slot < SLOTS ->
  v2_read (st' b) slot = v2_read (m_ex_st b) slot \/
  exists dd, has_data (m_batch_of b m_ex_tiles) slot dd = true /\ dd <> [] /\ v2_read (st' b) slot = RData dd.
Proof.
  intros st' b slot Hin Hs. destruct m_ex_hyps as [A [B C]].
  apply (c_store_crash_safe m_ex_st m_ex_tiles st' b slot); auto.
Qed.

Example c1_ex_safe : forall st' b slot,
  In st' (m1_crash_states m1_ex_st (c1_store_ops m1_ex_st m_ex_tiles)) -> 0 <= slot < SLOTS ->
  v1_read (st' b) slot = v1_read (m1_ex_st b) slot \/
  exists dd, has_data (m_batch_of b m_ex_tiles) slot dd = true /\ dd <> [] /\ v1_read (st' b) slot = RData dd.
Proof.
  intros st' b slot Hin Hs. destruct m1_ex_hyps as [A [B C]].
  apply (c1_store_crash_safe m1_ex_st m_ex_tiles st' b slot); auto.
Qed.

(* ==== PART 7: bundle files embedded in the directory: initialisation + in-place phase in one theorem ==== *)


(* ------------------------------------------------------------------------------------------------ *)
(* generic facts                                                                                    *)

Lemma bd_upd_same : forall s p v, bd_upd s p v p = v.
Proof. intros. unfold bd_upd. rewrite path_eqb_refl. reflexivity. Qed.

Lemma bd_upd_other : forall s p v q, q <> p -> bd_upd s p v q = s q.
Proof. intros. unfold bd_upd. rewrite path_eqb_neq by assumption. reflexivity. Qed.

Lemma b_crash_states_head : forall s ops, In s (b_crash_states s ops).
Proof. intros s ops; destruct ops; cbn [b_crash_states]; left; reflexivity. Qed.

Lemma b_crash_states_last : forall ops s, In (b_apply_all s ops) (b_crash_states s ops).
Proof.
  induction ops as [|o r IH]; intros s; cbn [b_crash_states b_apply_all fold_left].
  - left. reflexivity.
  - right. apply in_or_app. right. apply IH.
Qed.

Lemma b_crash_states_app : forall a b s s',
  In s' (b_crash_states s (a ++ b)) ->
  In s' (b_crash_states s a) \/ In s' (b_crash_states (b_apply_all s a) b).
Proof.
  induction a as [|o r IH]; intros b s s' H.
  - right. exact H.
  - cbn [app b_crash_states] in H. destruct H as [<-|H].
    + left. apply b_crash_states_head.
    + apply in_app_or in H. destruct H as [H|H].
      * left. cbn [b_crash_states]. right. apply in_or_app. left. exact H.
      * apply IH in H. destruct H as [H|H].
        -- left. cbn [b_crash_states]. right. apply in_or_app. right. exact H.
        -- right. exact H.
Qed.

Lemma b_apply_all_app : forall a b s, b_apply_all s (a ++ b) = b_apply_all (b_apply_all s a) b.
Proof. intros. unfold b_apply_all. apply fold_left_app. Qed.

Lemma b_apply_frame : forall s o q, ~ In q (b_touched_op o) -> b_apply s o q = s q.
Proof.
  intros s o q H. destruct o; cbn [b_apply b_touched_op] in *.
  - apply bd_upd_other. intros E; apply H; subst; cbn [In]; auto.
  - destruct (s t); [|reflexivity]. apply bd_upd_other. intros E; apply H; subst; cbn [In]; auto.
  - destruct (s t); [|reflexivity]. rewrite !bd_upd_other; [reflexivity| |];
      intros E; apply H; subst; cbn [In]; auto.
  - apply bd_upd_other. intros E; apply H; subst; cbn [In]; auto.
  - destruct (s p); [|reflexivity]. apply bd_upd_other. intros E; apply H; subst; cbn [In]; auto.
  - destruct (s p); [|reflexivity]. apply bd_upd_other. intros E; apply H; subst; cbn [In]; auto.
  - destruct (s p); [|reflexivity]. apply bd_upd_other. intros E; apply H; subst; cbn [In]; auto.
Qed.

Lemma b_tears_frame : forall s o s' q,
  In s' (b_tears s o) -> ~ In q (b_touched_op o) -> s' q = s q.
Proof.
  intros s o s' q Hin H. destruct o; cbn [b_tears b_touched_op In] in *; try contradiction.
  - destruct (s t); [|contradiction]. apply in_map_iff in Hin. destruct Hin as [k [<- _]].
    apply bd_upd_other. intros E; apply H; subst; auto.
  - destruct (s p); [|contradiction]. destruct (v2_tearable f w); [|contradiction].
    apply in_map_iff in Hin. destruct Hin as [k [<- _]].
    apply bd_upd_other. intros E; apply H; subst; auto.
  - destruct (s p); [|contradiction]. apply in_map_iff in Hin. destruct Hin as [k [<- _]].
    apply bd_upd_other. intros E; apply H; subst; auto.
Qed.

Lemma b_crash_states_frame : forall ops s s' q,
  ~ In q (b_touched ops) -> In s' (b_crash_states s ops) -> s' q = s q.
Proof.
  induction ops as [|o r IH]; intros s s' q Hq Hin; cbn [b_crash_states] in Hin.
  - destruct Hin as [<-|[]]. reflexivity.
  - unfold b_touched in Hq. cbn [flat_map] in Hq.
    assert (Ho : ~ In q (b_touched_op o)) by (intros E; apply Hq; apply in_or_app; left; exact E).
    assert (Hr : ~ In q (b_touched r)) by (intros E; apply Hq; apply in_or_app; right; exact E).
    destruct Hin as [<-|Hin]; [reflexivity|].
    apply in_app_or in Hin. destruct Hin as [Hin|Hin].
    + eapply b_tears_frame; eauto.
    + rewrite (IH _ _ _ Hr Hin). apply b_apply_frame. exact Ho.
Qed.

Lemma b_apply_all_frame : forall ops s q, ~ In q (b_touched ops) -> b_apply_all s ops q = s q.
Proof.
  intros ops s q H. apply b_crash_states_frame with (ops := ops); [exact H|apply b_crash_states_last].
Qed.

(* ------------------------------------------------------------------------------------------------ *)
(* write_atomic of an initial file                                                                  *)

Lemma b_init_apply : forall s t p g,
  b_apply_all s (b_init_ops t p g) =
  bd_upd (bd_upd (bd_upd (bd_upd s t (Some fempty)) t (Some g)) t None) p (Some g).
Proof.
  intros s t p g. unfold b_init_ops, b_apply_all. cbn [fold_left b_apply].
  rewrite bd_upd_same. rewrite bd_upd_same. reflexivity.
Qed.

Lemma b_init_target : forall s t p g, b_apply_all s (b_init_ops t p g) p = Some g.
Proof. intros. rewrite b_init_apply. apply bd_upd_same. Qed.

Lemma b_init_other : forall s t p g q, q <> t -> q <> p -> b_apply_all s (b_init_ops t p g) q = s q.
Proof. intros. rewrite b_init_apply. rewrite !bd_upd_other by assumption. reflexivity. Qed.

(* before the rename completes nothing but the temp name has changed; the only other state is the final one *)
Lemma b_init_states : forall s t p g s',
  In s' (b_crash_states s (b_init_ops t p g)) ->
  (forall q, q <> t -> s' q = s q) \/ s' = b_apply_all s (b_init_ops t p g).
Proof.
  intros s t p g s' H.
  change (b_init_ops t p g) with ([BCreate t; BPut t g] ++ [BRename t p]) in H.
  apply b_crash_states_app in H. destruct H as [H|H].
  - left. intros q Hq. eapply b_crash_states_frame; [|exact H].
    unfold b_touched. cbn [flat_map b_touched_op app In]. intros [E|[E|[]]]; apply Hq; symmetry; exact E.
  - cbn [b_crash_states b_tears app] in H. destruct H as [<-|[<-|[]]].
    + left. intros q Hq. apply b_apply_all_frame.
      unfold b_touched. cbn [flat_map b_touched_op app In]. intros [E|[E|[]]]; apply Hq; symmetry; exact E.
    + right. change (b_init_ops t p g) with ([BCreate t; BPut t g] ++ [BRename t p]).
      rewrite b_apply_all_app. reflexivity.
Qed.

(* ------------------------------------------------------------------------------------------------ *)
(* version 2                                                                                        *)

Lemma b_inplace_states : forall ops s p f s',
  s p = Some f -> In s' (b_crash_states s (map (BW p) ops)) ->
  exists f', In f' (v2_crash_states f ops) /\ s' p = Some f' /\ forall q, q <> p -> s' q = s q.
Proof.
  induction ops as [|w r IH]; intros s p f s' Hp Hin; cbn [map b_crash_states] in Hin.
  - destruct Hin as [<-|[]]. exists f. split; [left; reflexivity|]. split; [exact Hp|reflexivity].
  - destruct Hin as [<-|Hin].
    + exists f. split; [left; reflexivity|]. split; [exact Hp|reflexivity].
    + apply in_app_or in Hin. destruct Hin as [Hin|Hin].
      * cbn [b_tears] in Hin. rewrite Hp in Hin.
        destruct (v2_tearable f w) eqn:Et; [|destruct Hin].
        apply in_map_iff in Hin. destruct Hin as [f' [<- Hf']].
        exists f'. split.
        { cbn [v2_crash_states]. right. apply in_or_app. left. rewrite Et. exact Hf'. }
        split; [apply bd_upd_same|]. intros q Hq. apply bd_upd_other. exact Hq.
      * cbn [b_apply] in Hin. rewrite Hp in Hin.
        destruct (IH (bd_upd s p (Some (bw_apply f w))) p (bw_apply f w) s' (bd_upd_same _ _ _) Hin)
          as [f' [H1 [H2 H3]]].
        exists f'. split.
        { cbn [v2_crash_states]. right. apply in_or_app. right. exact H1. }
        split; [exact H2|]. intros q Hq. rewrite (H3 q Hq). apply bd_upd_other. exact Hq.
Qed.

Lemma b_inplace_apply_all : forall ops s p f,
  s p = Some f -> b_apply_all s (map (BW p) ops) p = Some (bw_apply_all f ops).
Proof.
  induction ops as [|w r IH]; intros s p f Hp; [exact Hp|].
  cbn [map b_apply_all fold_left bw_apply_all b_apply]. rewrite Hp.
  apply (IH (bd_upd s p (Some (bw_apply f w))) p (bw_apply f w)). apply bd_upd_same.
Qed.

Lemma b_touched_inplace : forall p ops q, In q (b_touched (map (BW p) ops)) -> q = p.
Proof.
  intros p ops q H. unfold b_touched in H. apply in_flat_map in H. destruct H as [o [Ho Hq]].
  apply in_map_iff in Ho. destruct Ho as [w [<- _]]. cbn [b_touched_op In] in Hq.
  destruct Hq as [E|[]]. symmetry. exact E.
Qed.

Lemma v2_init_read : forall slot, 0 <= slot < SLOTS -> v2_read v2_init slot = RMissing.
Proof. intros slot Hs. unfold v2_read. rewrite v2_init_entry by exact Hs. reflexivity. Qed.

Lemma v2_dir_store_ops_touched : forall s p sfx b q,
  In q (b_touched (v2_dir_store_ops s p sfx b)) -> q = p \/ q = tmp_of p sfx.
Proof.
  intros s p sfx b q H. unfold v2_dir_store_ops in H. destruct (s p) as [f|].
  - left. eapply b_touched_inplace. exact H.
  - destruct (bd_exists s (tmp_of p sfx)).
    + cbn in H. destruct H as [E|[]]. right. symmetry. exact E.
    + unfold b_touched in H. rewrite flat_map_app in H. apply in_app_or in H. destruct H as [H|H].
      * cbn [flat_map b_touched_op app In] in H.
        destruct H as [E|[E|[E|[E|[]]]]]; auto.
      * left. eapply b_touched_inplace. exact H.
Qed.

Theorem v2_dir_store_crash_safe : forall s p sfx b s' slot,
  (forall f, s p = Some f -> v2_wf f /\ flen f + total_len b <= P40) ->
  V2_REC + total_len b <= P40 -> v2_batch_ok b ->
  In s' (b_crash_states s (v2_dir_store_ops s p sfx b)) -> 0 <= slot < SLOTS ->
  v2_dir_read s' p slot = v2_dir_read s p slot \/
  exists dd, has_data b slot dd = true /\ dd <> [] /\ v2_dir_read s' p slot = RData dd.
Proof.
  intros s p sfx b s' slot Hf Hg Hb Hin Hs.
  unfold v2_dir_store_ops in Hin. unfold v2_dir_read at 2.
  destruct (s p) as [f|] eqn:Ep.
  - destruct (Hf f eq_refl) as [Hwf Hlen].
    destruct (b_inplace_states _ _ _ _ _ Ep Hin) as [f' [H1 [H2 _]]].
    unfold v2_dir_read. rewrite H2.
    apply (v2_store_crash_safe b f f' slot); assumption.
  - assert (Ht : tmp_of p sfx <> p) by apply tmp_neq.
    assert (Ht' : p <> tmp_of p sfx) by (intros E; apply Ht; symmetry; exact E).
    destruct (bd_exists s (tmp_of p sfx)).
    + left. unfold v2_dir_read.
      rewrite (b_crash_states_frame [BUnlink (tmp_of p sfx)] s s' p); [rewrite Ep; reflexivity| |exact Hin].
      cbn. intros [E|[]]. contradiction.
    + apply b_crash_states_app in Hin.
      assert (Hfin : b_apply_all s (b_init_ops (tmp_of p sfx) p v2_init) p = Some v2_init)
        by apply b_init_target.
      assert (Hsecond : forall s2, In s2 (b_crash_states (b_apply_all s (b_init_ops (tmp_of p sfx) p v2_init))
                                            (map (BW p) (v2_store_ops v2_init b))) ->
              v2_dir_read s2 p slot = RMissing \/
              exists dd, has_data b slot dd = true /\ dd <> [] /\ v2_dir_read s2 p slot = RData dd).
      { intros s2 H2.
        destruct (b_inplace_states _ _ _ _ _ Hfin H2) as [f' [H1 [H3 _]]].
        unfold v2_dir_read. rewrite H3. rewrite <- (v2_init_read slot Hs).
        apply (v2_store_crash_safe b v2_init f' slot); auto using v2_init_wf. }
      destruct Hin as [Hin|Hin].
      * apply b_init_states in Hin. destruct Hin as [Hin| ->].
        -- left. unfold v2_dir_read. rewrite (Hin p Ht'), Ep. reflexivity.
        -- apply Hsecond. apply b_crash_states_head.
      * apply Hsecond. exact Hin.
Qed.

Theorem v2_dir_store_others : forall s p sfx b s' q,
  In s' (b_crash_states s (v2_dir_store_ops s p sfx b)) ->
  q <> p -> q <> tmp_of p sfx -> s' q = s q.
Proof.
  intros s p sfx b s' q Hin Hp Ht.
  eapply b_crash_states_frame; [|exact Hin].
  intros H. apply v2_dir_store_ops_touched in H. destruct H; contradiction.
Qed.

Theorem v2_dir_store_completes : forall s p sfx b,
  (forall f, s p = Some f -> v2_wf f /\ flen f + total_len b <= P40) ->
  V2_REC + total_len b <= P40 -> v2_batch_ok b ->
  (s p = None -> bd_exists s (tmp_of p sfx) = false) ->
  exists f, b_apply_all s (v2_dir_store_ops s p sfx b) p = Some f /\ v2_wf f.
Proof.
  intros s p sfx b Hf Hg Hb Hex. unfold v2_dir_store_ops.
  destruct (s p) as [f|] eqn:Ep.
  - destruct (Hf f eq_refl) as [Hwf Hlen].
    exists (bw_apply_all f (v2_store_ops f b)). split.
    + apply b_inplace_apply_all. exact Ep.
    + apply v2_store_wf; assumption.
  - rewrite (Hex eq_refl).
    exists (bw_apply_all v2_init (v2_store_ops v2_init b)). split.
    + rewrite b_apply_all_app. apply b_inplace_apply_all. apply b_init_target.
    + apply v2_store_wf; [apply v2_init_wf|exact Hg|exact Hb].
Qed.

(* the completed call returns the stored data or keeps the old answer (the final state is a crash state) *)
Corollary v2_dir_store_final_read : forall s p sfx b slot,
  (forall f, s p = Some f -> v2_wf f /\ flen f + total_len b <= P40) ->
  V2_REC + total_len b <= P40 -> v2_batch_ok b -> 0 <= slot < SLOTS ->
  let s' := b_apply_all s (v2_dir_store_ops s p sfx b) in
  v2_dir_read s' p slot = v2_dir_read s p slot \/
  exists dd, has_data b slot dd = true /\ dd <> [] /\ v2_dir_read s' p slot = RData dd.
Proof.
  intros s p sfx b slot Hf Hg Hb Hs s'.
  apply (v2_dir_store_crash_safe s p sfx b s' slot); auto. apply b_crash_states_last.
Qed.

(* non-vacuity: an empty directory, one tile *)
Definition ex_dir : bdir := fun _ => None.
Definition ex_bp : path := [1; 2].
Definition ex_batch : batch := [(5, [1; 2; 3])].

Example v2_dir_example :
  (forall f, ex_dir ex_bp = Some f -> v2_wf f /\ flen f + total_len ex_batch <= P40) /\
  V2_REC + total_len ex_batch <= P40 /\ v2_batch_ok ex_batch /\
  bd_exists ex_dir (tmp_of ex_bp [49]) = false /\
  length (v2_dir_store_ops ex_dir ex_bp [49] ex_batch) = 8%nat /\
  In (b_apply_all ex_dir (v2_dir_store_ops ex_dir ex_bp [49] ex_batch))
     (b_crash_states ex_dir (v2_dir_store_ops ex_dir ex_bp [49] ex_batch)) /\
  v2_dir_read ex_dir ex_bp 5 = RMissing /\
  v2_dir_read (b_apply_all ex_dir (v2_dir_store_ops ex_dir ex_bp [49] ex_batch)) ex_bp 5 = RData [1; 2; 3] /\
  v2_dir_read (b_apply_all ex_dir (v2_dir_store_ops ex_dir ex_bp [49] ex_batch)) ex_bp 6 = RMissing.
Proof.
  split; [intros f H; discriminate H|].
  split; [vm_compute; discriminate|].
  split.
  { intros slot d [H|[]]. inversion H; subst. split; [unfold SLOTS; lia|].
    split; [discriminate|]. split; [vm_compute; reflexivity|].
    intros x [<-|[<-|[<-|[]]]]; lia. }
  split; [reflexivity|].
  split; [vm_compute; reflexivity|].
  split; [apply b_crash_states_last|].
  split; [reflexivity|].
  split; vm_compute; reflexivity.
Qed.

(* ------------------------------------------------------------------------------------------------ *)
(* version 1                                                                                        *)

Lemma b_inplace_states_v1 : forall ops s pd pi fd fi s',
  pd <> pi -> s pd = Some fd -> s pi = Some fi ->
  In s' (b_crash_states s (map (v1_bop pd pi) ops)) ->
  exists st', In st' (v1_crash_states (mkV1 fd fi) ops) /\
              s' pd = Some (v1dat st') /\ s' pi = Some (v1idx st') /\
              forall q, q <> pd -> q <> pi -> s' q = s q.
Proof.
  induction ops as [|o r IH]; intros s pd pi fd fi s' Hne Hd Hi Hin; cbn [map b_crash_states] in Hin.
  - destruct Hin as [<-|[]]. exists (mkV1 fd fi). split; [left; reflexivity|].
    split; [exact Hd|]. split; [exact Hi|reflexivity].
  - assert (Hne' : pi <> pd) by (intros E; apply Hne; symmetry; exact E).
    destruct Hin as [<-|Hin].
    + exists (mkV1 fd fi). split; [left; reflexivity|].
      split; [exact Hd|]. split; [exact Hi|reflexivity].
    + apply in_app_or in Hin. destruct Hin as [Hin|Hin].
      * destruct o as [off d|off d]; cbn [v1_bop b_tears] in Hin; [|destruct Hin].
        rewrite Hd in Hin. apply in_map_iff in Hin. destruct Hin as [k [<- Hk]].
        exists (v1_apply (mkV1 fd fi) (WD off (firstn k d))). split.
        { cbn [v1_crash_states]. right. apply in_or_app. left. cbn [v1_tears].
          apply in_map_iff. exists k. split; [reflexivity|exact Hk]. }
        cbn [v1_apply v1dat v1idx].
        split; [apply bd_upd_same|]. split; [rewrite bd_upd_other by exact Hne'; exact Hi|].
        intros q Hq _. apply bd_upd_other. exact Hq.
      * destruct o as [off d|off d]; cbn [v1_bop b_apply] in Hin.
        -- rewrite Hd in Hin.
           assert (Hi2 : bd_upd s pd (Some (fwrite fd off d)) pi = Some fi)
             by (rewrite bd_upd_other by exact Hne'; exact Hi).
           destruct (IH _ pd pi (fwrite fd off d) fi s' Hne (bd_upd_same _ _ _) Hi2 Hin)
             as [st' [H1 [H2 [H3 H4]]]].
           exists st'. split.
           { cbn [v1_crash_states]. right. apply in_or_app. right. exact H1. }
           split; [exact H2|]. split; [exact H3|].
           intros q Hq1 Hq2. rewrite (H4 q Hq1 Hq2). apply bd_upd_other. exact Hq1.
        -- rewrite Hi in Hin.
           assert (Hd2 : bd_upd s pi (Some (fwrite fi off d)) pd = Some fd)
             by (rewrite bd_upd_other by exact Hne; exact Hd).
           destruct (IH _ pd pi fd (fwrite fi off d) s' Hne Hd2 (bd_upd_same _ _ _) Hin)
             as [st' [H1 [H2 [H3 H4]]]].
           exists st'. split.
           { cbn [v1_crash_states]. right. apply in_or_app. right. exact H1. }
           split; [exact H2|]. split; [exact H3|].
           intros q Hq1 Hq2. rewrite (H4 q Hq1 Hq2). apply bd_upd_other. exact Hq2.
Qed.

Lemma b_inplace_apply_all_v1 : forall ops s pd pi fd fi,
  pd <> pi -> s pd = Some fd -> s pi = Some fi ->
  b_apply_all s (map (v1_bop pd pi) ops) pd = Some (v1dat (v1_apply_all (mkV1 fd fi) ops)) /\
  b_apply_all s (map (v1_bop pd pi) ops) pi = Some (v1idx (v1_apply_all (mkV1 fd fi) ops)).
Proof.
  induction ops as [|o r IH]; intros s pd pi fd fi Hne Hd Hi; [split; assumption|].
  assert (Hne' : pi <> pd) by (intros E; apply Hne; symmetry; exact E).
  cbn [map b_apply_all fold_left v1_apply_all].
  destruct o as [off d|off d]; cbn [v1_bop b_apply v1_apply v1dat v1idx].
  - rewrite Hd. apply IH; [exact Hne|apply bd_upd_same|rewrite bd_upd_other by exact Hne'; exact Hi].
  - rewrite Hi. apply IH; [exact Hne|rewrite bd_upd_other by exact Hne; exact Hd|apply bd_upd_same].
Qed.

Lemma b_touched_inplace_v1 : forall pd pi ops q,
  In q (b_touched (map (v1_bop pd pi) ops)) -> q = pd \/ q = pi.
Proof.
  intros pd pi ops q H. unfold b_touched in H. apply in_flat_map in H. destruct H as [o [Ho Hq]].
  apply in_map_iff in Ho. destruct Ho as [w [<- _]].
  destruct w; cbn [v1_bop b_touched_op In] in Hq; destruct Hq as [E|[]]; auto.
Qed.

Lemma b_init_tmp_gone : forall s t p g, t <> p -> b_apply_all s (b_init_ops t p g) t = None.
Proof. intros. rewrite b_init_apply. rewrite bd_upd_other by assumption. apply bd_upd_same. Qed.

Lemma v1_init_read : forall c r slot, 0 <= slot < SLOTS ->
  v1_read (mkV1 (v1_dat_init c r) v1_idx_init) slot = RMissing.
Proof.
  intros c r slot Hs. unfold v1_read. rewrite v1_init_entry by exact Hs.
  replace (60 + 4 * slot =? 0) with false by (symmetry; apply Z.eqb_neq; lia).
  cbn [v1dat]. unfold rdnum.
  replace (60 + 4 * slot + Z.of_nat 4 <=? flen (v1_dat_init c r)) with true
    by (symmetry; apply Z.leb_le; change (Z.of_nat 4) with 4; cbn [flen v1_dat_init];
        unfold V1_REC, SLOTS in *; lia).
  unfold fread. cbn [seq map]. rewrite !v1_dat_init_zero by lia. reflexivity.
Qed.

(* the in-place phase on two existing files *)
Lemma v1_dir_inplace_safe : forall s pd pi b fd fi s' slot,
  pd <> pi -> s pd = Some fd -> s pi = Some fi ->
  v1_wf (mkV1 fd fi) -> flen fd + total_len b <= 1099511627776 -> v1_batch_ok b ->
  In s' (b_crash_states s (v1_dir_inplace_ops s pd pi b)) -> 0 <= slot < SLOTS ->
  v1_dir_read s' pd pi slot = v1_read (mkV1 fd fi) slot \/
  exists dd, has_data b slot dd = true /\ dd <> [] /\ v1_dir_read s' pd pi slot = RData dd.
Proof.
  intros s pd pi b fd fi s' slot Hne Hd Hi Hwf Hlen Hb Hin Hs.
  unfold v1_dir_inplace_ops in Hin. rewrite Hd, Hi in Hin.
  destruct (b_inplace_states_v1 _ _ _ _ _ _ _ Hne Hd Hi Hin) as [st' [H1 [H2 [H3 _]]]].
  unfold v1_dir_read. rewrite H3, H2. destruct st' as [fd' fi']. cbn [v1dat v1idx].
  apply (v1_store_crash_safe b (mkV1 fd fi) (mkV1 fd' fi') slot); assumption.
Qed.

(* index initialisation + in-place phase, the data file exists *)
Lemma v1_dir_idx_safe : forall s pd pi sfx2 b fd s' slot,
  pd <> pi -> tmp_of pi sfx2 <> pd -> s pd = Some fd ->
  v1_wf (mkV1 fd (match s pi with Some fi => fi | None => v1_idx_init end)) ->
  flen fd + total_len b <= 1099511627776 -> v1_batch_ok b ->
  (s pi = None -> v1_read (mkV1 fd v1_idx_init) slot = RMissing) ->
  In s' (b_crash_states s (v1_dir_idx_ops s pd pi sfx2 b)) -> 0 <= slot < SLOTS ->
  v1_dir_read s' pd pi slot = v1_dir_read s pd pi slot \/
  exists dd, has_data b slot dd = true /\ dd <> [] /\ v1_dir_read s' pd pi slot = RData dd.
Proof.
  intros s pd pi sfx2 b fd s' slot Hne Hti Hd Hwf Hlen Hb Hmiss Hin Hs.
  unfold v1_dir_idx_ops in Hin. unfold v1_dir_read at 2.
  destruct (s pi) as [fi|] eqn:Ei.
  - rewrite Hd. eapply v1_dir_inplace_safe; eauto.
  - assert (Ht : tmp_of pi sfx2 <> pi) by apply tmp_neq.
    assert (Ht' : pi <> tmp_of pi sfx2) by (intros E; apply Ht; symmetry; exact E).
    assert (Hti' : pd <> tmp_of pi sfx2) by (intros E; apply Hti; symmetry; exact E).
    destruct (bd_exists s (tmp_of pi sfx2)).
    + left. unfold v1_dir_read.
      rewrite (b_crash_states_frame [BUnlink (tmp_of pi sfx2)] s s' pi); [rewrite Ei; reflexivity| |exact Hin].
      cbn. intros [E|[]]. contradiction.
    + apply b_crash_states_app in Hin.
      assert (Hsecond : forall s2,
                In s2 (b_crash_states (b_apply_all s (b_init_ops (tmp_of pi sfx2) pi v1_idx_init))
                         (v1_dir_inplace_ops (b_apply_all s (b_init_ops (tmp_of pi sfx2) pi v1_idx_init)) pd pi b)) ->
                v1_dir_read s2 pd pi slot = RMissing \/
                exists dd, has_data b slot dd = true /\ dd <> [] /\ v1_dir_read s2 pd pi slot = RData dd).
      { intros s2 H2. rewrite <- (Hmiss eq_refl).
        eapply v1_dir_inplace_safe; [exact Hne| |apply b_init_target|exact Hwf|exact Hlen|exact Hb|exact H2|exact Hs].
        rewrite b_init_other by assumption. exact Hd. }
      destruct Hin as [Hin|Hin].
      * apply b_init_states in Hin. destruct Hin as [Hin| ->].
        -- left. unfold v1_dir_read. rewrite (Hin pi Ht'), Ei. reflexivity.
        -- apply Hsecond. apply b_crash_states_head.
      * apply Hsecond. exact Hin.
Qed.

Theorem v1_dir_store_crash_safe : forall s pd pi sfx1 sfx2 c r b s' slot,
  pd <> pi -> tmp_of pd sfx1 <> pi -> tmp_of pi sfx2 <> pd ->
  (s pd = None -> s pi = None) ->
  v1_wf (v1_dir_eff s pd pi c r) ->
  flen (v1dat (v1_dir_eff s pd pi c r)) + total_len b <= 1099511627776 -> v1_batch_ok b ->
  (s pi = None -> v1_read (v1_dir_eff s pd pi c r) slot = RMissing) ->
  In s' (b_crash_states s (v1_dir_store_ops s pd pi sfx1 sfx2 c r b)) -> 0 <= slot < SLOTS ->
  v1_dir_read s' pd pi slot = v1_dir_read s pd pi slot \/
  exists dd, has_data b slot dd = true /\ dd <> [] /\ v1_dir_read s' pd pi slot = RData dd.
Proof.
  intros s pd pi sfx1 sfx2 c r b s' slot Hne Htd Hti Hdi Hwf Hlen Hb Hmiss Hin Hs.
  unfold v1_dir_store_ops in Hin. unfold v1_dir_eff in *. cbn [v1dat] in Hlen.
  destruct (s pd) as [fd|] eqn:Ed.
  - eapply v1_dir_idx_safe; eauto.
    intros Ei. specialize (Hmiss Ei). rewrite Ei in Hmiss. exact Hmiss.
  - assert (Ei : s pi = None) by (apply Hdi; reflexivity).
    rewrite Ei in *. specialize (Hmiss eq_refl).
    assert (Hold : v1_dir_read s pd pi slot = RMissing) by (unfold v1_dir_read; rewrite Ei; reflexivity).
    rewrite Hold.
    assert (Ht : tmp_of pd sfx1 <> pd) by apply tmp_neq.
    assert (Htd' : pi <> tmp_of pd sfx1) by (intros E; apply Htd; symmetry; exact E).
    assert (Hne' : pi <> pd) by (intros E; apply Hne; symmetry; exact E).
    destruct (bd_exists s (tmp_of pd sfx1)).
    + left. unfold v1_dir_read.
      rewrite (b_crash_states_frame [BUnlink (tmp_of pd sfx1)] s s' pi); [rewrite Ei; reflexivity| |exact Hin].
      cbn. intros [E|[]]. apply Htd. exact E.
    + apply b_crash_states_app in Hin.
      set (sA := b_apply_all s (b_init_ops (tmp_of pd sfx1) pd (v1_dat_init c r))) in *.
      assert (HAd : sA pd = Some (v1_dat_init c r)) by apply b_init_target.
      assert (HAi : sA pi = None) by (unfold sA; rewrite b_init_other by assumption; exact Ei).
      assert (Hsecond : forall s2, In s2 (b_crash_states sA (v1_dir_idx_ops sA pd pi sfx2 b)) ->
                v1_dir_read s2 pd pi slot = RMissing \/
                exists dd, has_data b slot dd = true /\ dd <> [] /\ v1_dir_read s2 pd pi slot = RData dd).
      { intros s2 H2.
        assert (HoldA : v1_dir_read sA pd pi slot = RMissing) by (unfold v1_dir_read; rewrite HAi; reflexivity).
        rewrite <- HoldA.
        eapply v1_dir_idx_safe; [exact Hne|exact Hti|exact HAd| |exact Hlen|exact Hb| |exact H2|exact Hs].
        - rewrite HAi. exact Hwf.
        - intros _. exact Hmiss. }
      destruct Hin as [Hin|Hin].
      * apply b_init_states in Hin. destruct Hin as [Hin| ->].
        -- left. unfold v1_dir_read. rewrite (Hin pi Htd'), Ei. reflexivity.
        -- apply Hsecond. apply b_crash_states_head.
      * apply Hsecond. exact Hin.
Qed.

(* a fresh bundle (neither file exists): only the batch has to fit *)
Corollary v1_dir_store_crash_safe_fresh : forall s pd pi sfx1 sfx2 c r b s' slot,
  pd <> pi -> tmp_of pd sfx1 <> pi -> tmp_of pi sfx2 <> pd ->
  s pd = None -> s pi = None ->
  V1_REC + total_len b <= 1099511627776 -> v1_batch_ok b ->
  In s' (b_crash_states s (v1_dir_store_ops s pd pi sfx1 sfx2 c r b)) -> 0 <= slot < SLOTS ->
  v1_dir_read s' pd pi slot = RMissing \/
  exists dd, has_data b slot dd = true /\ dd <> [] /\ v1_dir_read s' pd pi slot = RData dd.
Proof.
  intros s pd pi sfx1 sfx2 c r b s' slot Hne Htd Hti Ed Ei Hlen Hb Hin Hs.
  assert (Hold : v1_dir_read s pd pi slot = RMissing) by (unfold v1_dir_read; rewrite Ei; reflexivity).
  rewrite <- Hold.
  apply (v1_dir_store_crash_safe s pd pi sfx1 sfx2 c r b s' slot); auto;
    unfold v1_dir_eff; rewrite Ed, Ei.
  - apply v1_init_wf.
  - exact Hlen.
  - intros _. apply v1_init_read. exact Hs.
Qed.

Lemma v1_dir_inplace_touched : forall s pd pi b q,
  In q (b_touched (v1_dir_inplace_ops s pd pi b)) -> q = pd \/ q = pi.
Proof.
  intros s pd pi b q H. unfold v1_dir_inplace_ops in H.
  destruct (s pd); [|destruct H]. destruct (s pi); [|destruct H].
  eapply b_touched_inplace_v1. exact H.
Qed.

Lemma b_init_touched : forall t p g q, In q (b_touched (b_init_ops t p g)) -> q = t \/ q = p.
Proof.
  intros t p g q H. cbn in H. destruct H as [E|[E|[E|[E|[]]]]]; auto.
Qed.

Lemma v1_dir_idx_touched : forall s pd pi sfx2 b q,
  In q (b_touched (v1_dir_idx_ops s pd pi sfx2 b)) -> q = pd \/ q = pi \/ q = tmp_of pi sfx2.
Proof.
  intros s pd pi sfx2 b q H. unfold v1_dir_idx_ops in H. destruct (s pi).
  - apply v1_dir_inplace_touched in H. tauto.
  - destruct (bd_exists s (tmp_of pi sfx2)).
    + cbn in H. destruct H as [E|[]]. auto.
    + unfold b_touched in H. rewrite flat_map_app in H. apply in_app_or in H. destruct H as [H|H].
      * apply b_init_touched in H. tauto.
      * apply v1_dir_inplace_touched in H. tauto.
Qed.

Lemma v1_dir_store_touched : forall s pd pi sfx1 sfx2 c r b q,
  In q (b_touched (v1_dir_store_ops s pd pi sfx1 sfx2 c r b)) ->
  q = pd \/ q = pi \/ q = tmp_of pd sfx1 \/ q = tmp_of pi sfx2.
Proof.
  intros s pd pi sfx1 sfx2 c r b q H. unfold v1_dir_store_ops in H. destruct (s pd).
  - apply v1_dir_idx_touched in H. tauto.
  - destruct (bd_exists s (tmp_of pd sfx1)).
    + cbn in H. destruct H as [E|[]]. auto.
    + unfold b_touched in H. rewrite flat_map_app in H. apply in_app_or in H. destruct H as [H|H].
      * apply b_init_touched in H. tauto.
      * apply v1_dir_idx_touched in H. tauto.
Qed.

Theorem v1_dir_store_others : forall s pd pi sfx1 sfx2 c r b s' q,
  In s' (b_crash_states s (v1_dir_store_ops s pd pi sfx1 sfx2 c r b)) ->
  q <> pd -> q <> pi -> q <> tmp_of pd sfx1 -> q <> tmp_of pi sfx2 -> s' q = s q.
Proof.
  intros s pd pi sfx1 sfx2 c r b s' q Hin H1 H2 H3 H4.
  eapply b_crash_states_frame; [|exact Hin].
  intros H. apply v1_dir_store_touched in H. tauto.
Qed.

(* the completed call leaves a bundle that satisfies the invariant *)
Lemma v1_dir_inplace_completes : forall s pd pi b fd fi,
  pd <> pi -> s pd = Some fd -> s pi = Some fi ->
  v1_wf (mkV1 fd fi) -> flen fd + total_len b <= 1099511627776 -> v1_batch_ok b ->
  exists st, b_apply_all s (v1_dir_inplace_ops s pd pi b) pd = Some (v1dat st) /\
             b_apply_all s (v1_dir_inplace_ops s pd pi b) pi = Some (v1idx st) /\ v1_wf st.
Proof.
  intros s pd pi b fd fi Hne Hd Hi Hwf Hlen Hb.
  unfold v1_dir_inplace_ops. rewrite Hd, Hi.
  exists (v1_apply_all (mkV1 fd fi) (v1_store_ops (mkV1 fd fi) b)).
  destruct (b_inplace_apply_all_v1 (v1_store_ops (mkV1 fd fi) b) s pd pi fd fi Hne Hd Hi) as [A B].
  split; [exact A|]. split; [exact B|]. apply v1_store_wf; assumption.
Qed.

Lemma v1_dir_idx_completes : forall s pd pi sfx2 b fd,
  pd <> pi -> tmp_of pi sfx2 <> pd -> s pd = Some fd ->
  v1_wf (mkV1 fd (match s pi with Some fi => fi | None => v1_idx_init end)) ->
  flen fd + total_len b <= 1099511627776 -> v1_batch_ok b ->
  (s pi = None -> bd_exists s (tmp_of pi sfx2) = false) ->
  exists st, b_apply_all s (v1_dir_idx_ops s pd pi sfx2 b) pd = Some (v1dat st) /\
             b_apply_all s (v1_dir_idx_ops s pd pi sfx2 b) pi = Some (v1idx st) /\ v1_wf st.
Proof.
  intros s pd pi sfx2 b fd Hne Hti Hd Hwf Hlen Hb Hex.
  unfold v1_dir_idx_ops. destruct (s pi) as [fi|] eqn:Ei.
  - eapply v1_dir_inplace_completes; eauto.
  - rewrite (Hex eq_refl). rewrite b_apply_all_app.
    assert (Hti' : pd <> tmp_of pi sfx2) by (intros E; apply Hti; symmetry; exact E).
    eapply v1_dir_inplace_completes; [exact Hne| |apply b_init_target|exact Hwf|exact Hlen|exact Hb].
    rewrite b_init_other by assumption. exact Hd.
Qed.

Theorem v1_dir_store_completes : forall s pd pi sfx1 sfx2 c r b,
  pd <> pi -> tmp_of pd sfx1 <> pi -> tmp_of pi sfx2 <> pd ->
  v1_wf (v1_dir_eff s pd pi c r) ->
  flen (v1dat (v1_dir_eff s pd pi c r)) + total_len b <= 1099511627776 -> v1_batch_ok b ->
  (s pd = None -> bd_exists s (tmp_of pd sfx1) = false) ->
  (s pi = None -> bd_exists s (tmp_of pi sfx2) = false) ->
  exists st, b_apply_all s (v1_dir_store_ops s pd pi sfx1 sfx2 c r b) pd = Some (v1dat st) /\
             b_apply_all s (v1_dir_store_ops s pd pi sfx1 sfx2 c r b) pi = Some (v1idx st) /\ v1_wf st.
Proof.
  intros s pd pi sfx1 sfx2 c r b Hne Htd Hti Hwf Hlen Hb Hex1 Hex2.
  unfold v1_dir_store_ops. unfold v1_dir_eff in *. cbn [v1dat] in Hlen.
  destruct (s pd) as [fd|] eqn:Ed.
  - eapply v1_dir_idx_completes; eauto.
  - rewrite (Hex1 eq_refl). rewrite b_apply_all_app.
    assert (Ht : tmp_of pd sfx1 <> pd) by apply tmp_neq.
    assert (Htd' : pi <> tmp_of pd sfx1) by (intros E; apply Htd; symmetry; exact E).
    assert (Hne' : pi <> pd) by (intros E; apply Hne; symmetry; exact E).
    set (sA := b_apply_all s (b_init_ops (tmp_of pd sfx1) pd (v1_dat_init c r))).
    assert (HAd : sA pd = Some (v1_dat_init c r)) by apply b_init_target.
    assert (HAi : sA pi = s pi) by (unfold sA; rewrite b_init_other by assumption; reflexivity).
    eapply v1_dir_idx_completes; [exact Hne|exact Hti|exact HAd| |exact Hlen|exact Hb|].
    + rewrite HAi. exact Hwf.
    + rewrite HAi. intros Ei. specialize (Hex2 Ei). unfold bd_exists in *.
      destruct (path_eqb (tmp_of pi sfx2) (tmp_of pd sfx1)) eqn:E.
      * apply path_eqb_eq in E. rewrite E. unfold sA. rewrite b_init_tmp_gone by exact Ht. reflexivity.
      * assert (En : tmp_of pi sfx2 <> tmp_of pd sfx1)
          by (intros H; apply path_eqb_eq in H; rewrite H in E; discriminate E).
        unfold sA. rewrite b_init_other by assumption. exact Hex2.
Qed.

(* non-vacuity: an empty directory, one tile *)
Definition ex_pd : path := [1; 2; 100].
Definition ex_pi : path := [1; 2; 120].

Example v1_dir_example :
  ex_pd <> ex_pi /\ tmp_of ex_pd [49] <> ex_pi /\ tmp_of ex_pi [50] <> ex_pd /\
  V1_REC + total_len ex_batch <= 1099511627776 /\ v1_batch_ok ex_batch /\
  length (v1_dir_store_ops ex_dir ex_pd ex_pi [49] [50] 0 0 ex_batch) = 10%nat /\
  In (b_apply_all ex_dir (v1_dir_store_ops ex_dir ex_pd ex_pi [49] [50] 0 0 ex_batch))
     (b_crash_states ex_dir (v1_dir_store_ops ex_dir ex_pd ex_pi [49] [50] 0 0 ex_batch)) /\
  v1_dir_read ex_dir ex_pd ex_pi 5 = RMissing /\
  v1_dir_read (b_apply_all ex_dir (v1_dir_store_ops ex_dir ex_pd ex_pi [49] [50] 0 0 ex_batch)) ex_pd ex_pi 5
    = RData [1; 2; 3] /\
  v1_dir_read (b_apply_all ex_dir (v1_dir_store_ops ex_dir ex_pd ex_pi [49] [50] 0 0 ex_batch)) ex_pd ex_pi 6
    = RMissing.
Proof.
  split; [discriminate|]. split; [discriminate|]. split; [discriminate|].
  split; [vm_compute; discriminate|].
  split.
  { intros slot d [H|[]]. inversion H; subst. split; [unfold SLOTS; lia|].
    split; [discriminate|]. vm_compute; reflexivity. }
  split; [vm_compute; reflexivity|].
  split; [apply b_crash_states_last|].
  split; [reflexivity|].
  split; vm_compute; reflexivity.
Qed.
