(* Model of the tile creation protocol of mapproxy/cache/tile.py (C08):
     TileManager._load_tile_coords -> TileCreator.create_tiles ->
     _create_single_tile / _create_meta_tile (via _create_single_tiles / _create_meta_tiles)
   for an unbounded number of concurrent requesters that share one cache, one lock directory
   and one upstream source.

   Granularity: one step = one access to the shared world, i.e.
     - a cache read   (os.path.exists in FileCache.load_tile / FileCache.is_cached),
     - a lock attempt (FileLock._try_lock; refused while another requester holds the same lock file),
     - an upstream call (source.get_map),
     - a cache write  (write_atomic in FileCache._store, one tile at a time),
     - an unlock      (os.remove of the lock file).
   Phase changes that touch nothing shared are `OSilent` steps (they may be scheduled anywhere).

   A requester is the program
       cache.load_tiles(tiles)                                   Load
       for tile in tiles: is_cached(tile) (only if still missing) Check   [-> uncached_tiles]
       creator.create_tiles(uncached_tiles):
         for each unit (tile, or meta tile = main tile of the uncached tiles, first occurrence order):
           with tile_mgr.lock(unit):                              Lock
             re-check is_cached of every tile of the unit         Recheck (stops at the first miss)
             miss: get_map, split, store tile by tile             Fetch, Store
             hit (single tile): cache.load_tile(tile)             LoadUnder
           unlock                                                 Unlock
           hit (meta tile): load_tiles(all tiles) AFTER unlock    LoadAfter
   `o_reload` = true is the code: a tile that was missing in Load but is found by the is_cached of
   Check (stored by somebody else in between) is loaded again (`elif tile.is_missing(): load_tile`,
   repair of finding F22).  `o_reload` = false is the protocol before that repair - the tile is
   neither loaded nor created, its source stays None - kept only for no_reload_refuted.
   `o_recheck` = false is the protocol without the re-check under the lock (used only for
   no_recheck_refuted).

   No proofs here: the model must stay executable when a proof breaks. *)
From Coq Require Import ZArith List Bool Arith.
Import ListNotations.
From MP Require Import Base.

Definition coord : Type := (Z * Z * Z)%type.
Definition coord_eqb (a b : coord) : bool := Z3_eqb a b.

Fixpoint lookup {V} (l : list (coord * V)) (t : coord) : option V :=
  match l with
  | [] => None
  | (k, v) :: r => if coord_eqb k t then Some v else lookup r t
  end.

Definition is_some {V} (o : option V) : bool := match o with Some _ => true | None => false end.
Definition cached (c : list (coord * Z)) (t : coord) : bool := is_some (lookup c t).
Definition mem (t : coord) (l : list coord) : bool := existsb (coord_eqb t) l.

Fixpoint remove_key {V} (l : list (coord * V)) (k : coord) : list (coord * V) :=
  match l with
  | [] => []
  | (k', v) :: r => if coord_eqb k' k then remove_key r k else (k', v) :: remove_key r k
  end.

(* meta_tiles / meta_bboxes of create_tiles: first occurrence order *)
Fixpoint dedup (l : list coord) (seen : list coord) : list coord :=
  match l with
  | [] => []
  | x :: r => if mem x seen then dedup r seen else x :: dedup r (x :: seen)
  end.

Fixpoint set_nth {A} (l : list A) (n : nat) (x : A) : list A :=
  match l, n with
  | [], _ => []
  | _ :: r, O => x :: r
  | y :: r, S k => y :: set_nth r k x
  end.

(* The system: how tiles are grouped (grid part), which protocol variant, what the upstream draws. *)
Record sys := mk_sys {
  o_main : coord -> coord;          (* unit a tile belongs to: meta_grid.main_tile, or the tile itself *)
  o_members : coord -> list coord;  (* the valid tiles of a unit (MetaTile.tiles without None) *)
  o_key : coord -> coord;           (* coordinate in the lock file name used for a unit *)
  o_single : bool;                  (* no meta grid: _create_single_tile *)
  o_recheck : bool;
  o_reload : bool;
  o_up : coord -> Z;                (* content the upstream delivers for a tile *)
  o_expire : bool;                  (* the tile manager has an expire timestamp (refresh_before / seeding) *)
  o_old : coord -> option Z;        (* expired files present at the start (image of the file), see below *)
  o_bulk : bool                     (* tiled source + bulk_meta_tiles: _create_bulk_meta_tile, one upstream request per tile *)
}.

(* Expiry.  `cache s` holds the files that is_cached accepts: present and, with an expire timestamp, newer than
   it.  Files that exist but are expired at the start are `o_old`; they never change, a tile that is written
   during the run is not expired (the expire timestamp lies before the start of the run) and shadows its old
   file.  So "file exists" = in the cache or old, "is_cached" (exists and not stale) = in the cache.
   TileManager.is_cached = cache.is_cached (os.path.exists, skipped when the Tile object has a source) followed by
   cache.load_tile_metadata (os.lstat): one look at the file, one step. *)
Definition file (S : sys) (c : list (coord * Z)) (t : coord) : option Z :=
  match lookup c t with Some v => Some v | None => o_old S t end.

Inductive pc :=
| Load (todo : list coord)
| Check (todo : list coord)
| Reload (t : coord) (todo : list coord)
| Lock (m : coord) (rest : list coord)
| Recheck (m : coord) (todo : list coord) (rest : list coord)
| Fetch (m : coord) (qs : list coord) (rest : list coord)   (* qs: upstream requests still to make *)
| Store (m : coord) (todo : list coord) (rest : list coord)
| LoadUnder (m : coord) (rest : list coord)
| Unlock (m : coord) (after : bool) (rest : list coord)
| LoadAfter (m : coord) (todo : list coord) (rest : list coord)
| Done.

(* p_src: Tile.source of the tiles this requester knows (first entry wins; None = looked and missing) *)
Record proc := mk_proc {
  p_pc : pc;
  p_req : list coord;
  p_src : list (coord * option Z);
  p_unc : list coord
}.

Record state := mk_state {
  cache : list (coord * Z);
  locks : list (coord * nat);
  fetched : list coord;            (* upstream call log, newest first *)
  procs : list proc
}.

Inductive obs :=
| OSkip                            (* no such requester / requester finished: nothing happens *)
| OSilent
| ORead (t : coord) (hit : bool)
| OLock (k : coord) (ok : bool)
| OFetch (m : coord)
| OWrite (t : coord) (v : Z)
| OUnlock (k : coord).

Definition src_of (src : list (coord * option Z)) (t : coord) : option Z :=
  match lookup src t with Some (Some v) => Some v | _ => None end.
Definition has_src (src : list (coord * option Z)) (t : coord) : bool := is_some (src_of src t).

(* the upstream requests for unit m: one (the meta tile / the tile), or one per tile (bulk meta tile) *)
Definition queries (S : sys) (m : coord) : list coord := if o_bulk S then o_members S m else [m].

Definition next_unit (rest : list coord) : pc :=
  match rest with [] => Done | m :: r => Lock m r end.

Definition units (S : sys) (unc : list coord) : list coord :=
  if o_single S then map (o_main S) unc else dedup (map (o_main S) unc) [].

Definition set_proc (s : state) (p : nat) (pr : proc) : state :=
  mk_state (cache s) (locks s) (fetched s) (set_nth (procs s) p pr).

Definition with_pc (pr : proc) (c : pc) : proc := mk_proc c (p_req pr) (p_src pr) (p_unc pr).
Definition with_src (pr : proc) (c : pc) (src : list (coord * option Z)) : proc :=
  mk_proc c (p_req pr) src (p_unc pr).

Definition step (S : sys) (s : state) (p : nat) : state * obs :=
  match nth_error (procs s) p with
  | None => (s, OSkip)
  | Some pr =>
    match p_pc pr with
    (* self.cache.load_tiles(tiles, with_metadata, dimensions=dimensions) *)
    | Load [] =>
      (set_proc s p (with_pc pr (Check (filter (fun t => o_expire S || negb (has_src (p_src pr) t)) (p_req pr)))), OSilent)
    | Load (t :: todo) =>
      match file S (cache s) t with
      | Some v => (set_proc s p (with_src pr (Load todo) ((t, Some v) :: p_src pr)), ORead t true)
      | None => (set_proc s p (with_pc pr (Load todo)), ORead t false)
      end
    (* for tile in tiles: if self._is_tile_missing(tile, ...): uncached_tiles.append(tile) *)
    | Check [] => (set_proc s p (with_pc pr (next_unit (units S (p_unc pr)))), OSilent)
    | Check (t :: todo) =>
      (* is_cached: with an expire timestamp every tile is looked at (stat), otherwise only the missing ones *)
      if cached (cache s) t
      then (set_proc s p (with_pc pr (if has_src (p_src pr) t then Check todo
                                      else if o_reload S then Reload t todo else Check todo)), ORead t true)
      else (set_proc s p (mk_proc (Check todo) (p_req pr) (p_src pr) (p_unc pr ++ [t])), ORead t false)
    | Reload t todo =>
      (set_proc s p (with_src pr (Check todo) ((t, file S (cache s) t) :: p_src pr)),
       ORead t (is_some (file S (cache s) t)))
    (* with self.tile_mgr.lock(tile): *)
    | Lock m rest =>
      match lookup (locks s) (o_key S m) with
      | Some _ => (s, OLock (o_key S m) false)
      | None =>
        (mk_state (cache s) ((o_key S m, p) :: locks s) (fetched s)
                  (set_nth (procs s) p
                     (with_pc pr (if o_recheck S then Recheck m (o_members S m) rest else Fetch m (queries S m) rest))),
         OLock (o_key S m) true)
      end
    (* if not all(self.is_cached(t) for t in meta_tile.tiles if t is not None) /
       if not self.is_cached(tile) *)
    | Recheck m [] rest =>
      (set_proc s p (with_pc pr (if o_single S then LoadUnder m rest else Unlock m true rest)), OSilent)
    | Recheck m (t :: todo) rest =>
      if cached (cache s) t
      then (set_proc s p (with_pc pr (Recheck m todo rest)), ORead t true)
      else (set_proc s p (with_pc pr (Fetch m (queries S m) rest)), ORead t false)
    (* self._query_sources(query); split_meta_tiles *)
    | Fetch m (q :: qs) rest =>
      (mk_state (cache s) (locks s) (q :: fetched s)
                (set_nth (procs s) p (with_pc pr (Fetch m qs rest))),
       OFetch q)
    (* all answers are there: split_meta_tiles / the tiles of the bulk requests *)
    | Fetch m [] rest =>
      (set_proc s p (with_src pr (Store m (o_members S m) rest)
                      (map (fun t => (t, Some (o_up S t))) (o_members S m) ++ p_src pr)), OSilent)
    (* self.cache.store_tiles(splitted_tiles) / self.cache.store_tile(tile): one file after the other *)
    | Store m [] rest => (set_proc s p (with_pc pr (Unlock m false rest)), OSilent)
    | Store m (t :: todo) rest =>
      (mk_state ((t, o_up S t) :: cache s) (locks s) (fetched s)
                (set_nth (procs s) p (with_pc pr (Store m todo rest))),
       OWrite t (o_up S t))
    (* else: self.cache.load_tile(tile)   (single tile, still under the lock) *)
    (* load_tile does nothing for a Tile object that has a source (the expired image loaded at the start) *)
    | LoadUnder m rest =>
      if has_src (p_src pr) m then (set_proc s p (with_pc pr (Unlock m false rest)), OSilent)
      else (set_proc s p (with_src pr (Unlock m false rest) ((m, file S (cache s) m) :: p_src pr)),
            ORead m (is_some (file S (cache s) m)))
    | Unlock m after rest =>
      (mk_state (cache s) (remove_key (locks s) (o_key S m)) (fetched s)
                (set_nth (procs s) p
                   (with_pc pr (if after then LoadAfter m (o_members S m) rest else next_unit rest))),
       OUnlock (o_key S m))
    (* tiles = [Tile(coord) for coord in meta_tile.tiles]; self.cache.load_tiles(tiles)  (lock released) *)
    | LoadAfter m [] rest => (set_proc s p (with_pc pr (next_unit rest)), OSilent)
    | LoadAfter m (t :: todo) rest =>
      (set_proc s p (with_src pr (LoadAfter m todo rest) ((t, file S (cache s) t) :: p_src pr)),
       ORead t (is_some (file S (cache s) t)))
    | Done => (s, OSkip)
    end
  end.

Definition init_proc (req : list coord) : proc := mk_proc (Load req) req [] [].
Definition init (c0 : list (coord * Z)) (reqs : list (list coord)) : state :=
  mk_state c0 [] [] (map init_proc reqs).

Fixpoint run (S : sys) (s : state) (sched : list nat) : state :=
  match sched with
  | [] => s
  | p :: r => run S (fst (step S s p)) r
  end.

Definition is_done (pr : proc) : bool := match p_pc pr with Done => true | _ => false end.
Definition all_done (s : state) : bool := forallb is_done (procs s).

(* what the requester hands to its caller: the requested tiles with their sources *)
Definition response (pr : proc) : list (coord * option Z) :=
  map (fun t => (t, src_of (p_src pr) t)) (p_req pr).

(* The same with file sources read when the response is built: a tile loaded from the cache is an
   ImageSource(location) that opens the file lazily, so a request that loaded an expired file and then found the tile
   re-created (re-check under the lock) hands back the image the file holds by then.  In-memory images (upstream)
   equal the file once stored.  c = the valid files when the response is built (any time after the request finished). *)
Definition answer (c : list (coord * Z)) (pr : proc) (t : coord) : option Z :=
  match src_of (p_src pr) t with
  | Some v => Some (match lookup c t with Some w => w | None => v end)
  | None => None
  end.
Definition response_in (c : list (coord * Z)) (pr : proc) : list (coord * option Z) :=
  map (fun t => (t, answer c pr t)) (p_req pr).

(* ------------------------------------------------------------------------------------------
   The grid part: MetaGrid.main_tile, _meta_size, _meta_tile_list / _create_tile_list,
   MetaTile.main_tile_coord, TileManager.lock. *)
Local Open Scope Z_scope.

Record gconf := mk_gconf {
  g_meta : bool;                    (* TileManager.meta_grid is not None *)
  g_mw : Z; g_mh : Z;               (* meta_size *)
  g_flip : bool;                    (* grid.flipped_y_axis *)
  g_sizes : list (Z * Z)            (* grid.grid_sizes *)
}.

Definition gsize (g : gconf) (z : Z) : Z * Z := nth (Z.to_nat z) (g_sizes g) (1, 1).
(* _meta_size(level) *)
Definition msize (g : gconf) (z : Z) : Z * Z :=
  (Z.min (g_mw g) (fst (gsize g z)), Z.min (g_mh g) (snd (gsize g z))).

(* MetaGrid.main_tile *)
Definition meta_main (g : gconf) (t : coord) : coord :=
  let '(x, y, z) := t in
  (x / fst (msize g z) * fst (msize g z), y / snd (msize g z) * snd (msize g z), z).
Definition g_main (g : gconf) (t : coord) : coord := if g_meta g then meta_main g t else t.

Definition in_grid (g : gconf) (t : coord) : bool :=
  let '(x, y, z) := t in
  (0 <=? x) && (x <? fst (gsize g z)) && (0 <=? y) && (y <? snd (gsize g z)).

Definition zrange (a n : Z) : list Z := map (fun i => a + Z.of_nat i) (seq 0%nat (Z.to_nat n)).

(* _meta_tile_list(main_tile, _meta_size(level)); None entries = tiles outside the grid *)
Definition tile_list (g : gconf) (m : coord) : list coord :=
  let '(x0, y0, z) := meta_main g m in
  let ys := if g_flip g then zrange y0 (snd (msize g z)) else rev (zrange y0 (snd (msize g z))) in
  flat_map (fun y => map (fun x => (x, y, z)) (zrange x0 (fst (msize g z)))) ys.

Definition g_members (g : gconf) (m : coord) : list coord :=
  if g_meta g then filter (in_grid g) (tile_list g m) else [m].

(* lock(Tile(meta_tile.main_tile_coord)) -> locker.lock(Tile(meta_grid.main_tile(coord))) *)
Definition g_key (g : gconf) (m : coord) : coord :=
  if g_meta g then match g_members g m with [] => m | t :: _ => meta_main g t end else m.

(* tiled source with bulk_meta_tiles when bulk = true (needs a meta grid) *)
Definition grid_sys_b (g : gconf) (recheck reload : bool) (up : coord -> Z) (expire : bool) (old : coord -> option Z)
           (bulk : bool) : sys :=
  mk_sys (g_main g) (g_members g) (g_key g) (negb (g_meta g)) recheck reload up expire old (bulk && g_meta g).
Definition grid_sys_x (g : gconf) (recheck reload : bool) (up : coord -> Z) (expire : bool) (old : coord -> option Z) : sys :=
  grid_sys_b g recheck reload up expire old false.
(* no expire timestamp, no expired files *)
Definition grid_sys (g : gconf) (recheck reload : bool) (up : coord -> Z) : sys :=
  grid_sys_x g recheck reload up false (fun _ => None).

(* ------------------------------------------------------------------------------------------
   TileLocker.lock_filename: lock_cache_id + '-' + '-'.join(map(str, coord)) + '.lck'
   (the directory part is the same for all locks of a TileLocker). *)
From Coq Require Import Ascii String DecimalString.

Definition dec (z : Z) : list ascii := list_ascii_of_string (NilZero.string_of_int (Z.to_int z)).
Definition dash : ascii := "-"%char.
Definition lck : list ascii := list_ascii_of_string ".lck".

Definition lock_name (id : list ascii) (t : coord) : list ascii :=
  let '(x, y, z) := t in
  id ++ dash :: dec x ++ dash :: dec y ++ dash :: dec z ++ lck.

(* ------------------------------------------------------------------------------------------
   Replay of an observed trace (correspondence check). *)

(* silent steps of requester p (bounded: at most 4 can follow each other) *)
Fixpoint skip_silent (S : sys) (fuel : nat) (s : state) (p : nat) : state :=
  match fuel with
  | O => s
  | Datatypes.S f =>
    match step S s p with
    | (s', OSilent) => skip_silent S f s' p
    | _ => s
    end
  end.

Definition obs_eqb (a b : obs) : bool :=
  match a, b with
  | OSkip, OSkip => true
  | OSilent, OSilent => true
  | ORead t h, ORead t' h' => coord_eqb t t' && Bool.eqb h h'
  | OLock k o, OLock k' o' => coord_eqb k k' && Bool.eqb o o'
  | OFetch m, OFetch m' => coord_eqb m m'
  | OWrite t v, OWrite t' v' => coord_eqb t t' && Z.eqb v v'
  | OUnlock k, OUnlock k' => coord_eqb k k'
  | _, _ => false
  end.

(* every observed access must be the one the model makes next for that requester, with the same result *)
Fixpoint replay (S : sys) (s : state) (tr : list (nat * obs)) : option state :=
  match tr with
  | [] => Some s
  | (p, o) :: r =>
    let s1 := skip_silent S 6%nat s p in
    let (s2, o') := step S s1 p in
    if obs_eqb o o' then replay S s2 r else None
  end.

Fixpoint settle (S : sys) (s : state) (n : nat) : state :=
  match n with
  | O => s
  | Datatypes.S k => settle S (skip_silent S 6%nat s k) k
  end.

Definition resp_eqb (a b : list (coord * option Z)) : bool :=
  list_eqb (pair_eqb coord_eqb (opt_eqb Z.eqb)) a b.

Definition cache_sub (a b : list (coord * Z)) : bool :=
  forallb (fun kv => opt_eqb Z.eqb (lookup a (fst kv)) (lookup b (fst kv))) a.

(* observed: trace, per-requester responses, final cache (one entry per file), upstream log (oldest first) *)
Definition files_sub (S : sys) (c : list (coord * Z)) (final : list (coord * Z)) : bool :=
  forallb (fun kv => opt_eqb Z.eqb (file S c (fst kv)) (Some (snd kv))) final.
Definition known_sub (l final : list (coord * Z)) : bool :=
  forallb (fun kv => is_some (lookup final (fst kv))) l.

(* with expired files: oldl = the expired files at the start (S must have o_old = lookup oldl) *)
Definition trace_ok_x (S : sys) (c0 oldl : list (coord * Z)) (reqs : list (list coord))
           (tr : list (nat * obs)) (resps : list (list (coord * option Z)))
           (final : list (coord * Z)) (ups : list coord) : bool :=
  match replay S (init c0 reqs) tr with
  | None => false
  | Some s =>
    let s' := settle S s (List.length reqs) in
    all_done s'
    && list_eqb resp_eqb (map (response_in (cache s')) (procs s')) resps
    && files_sub S (cache s') final && known_sub (cache s') final && known_sub oldl final
    && list_eqb coord_eqb (rev (fetched s')) ups
    && match locks s' with [] => true | _ => false end
  end.

Definition trace_ok (S : sys) (c0 : list (coord * Z)) (reqs : list (list coord))
           (tr : list (nat * obs)) (resps : list (list (coord * option Z)))
           (final : list (coord * Z)) (ups : list coord) : bool :=
  match replay S (init c0 reqs) tr with
  | None => false
  | Some s =>
    let s' := settle S s (List.length reqs) in
    all_done s'
    && list_eqb resp_eqb (map response (procs s')) resps
    && cache_sub (cache s') final && cache_sub final (cache s')
    && list_eqb coord_eqb (rev (fetched s')) ups
    && match locks s' with [] => true | _ => false end
  end.

(* index of the first observed step the model does not reproduce (diagnostics) *)
Fixpoint first_bad (S : sys) (s : state) (tr : list (nat * obs)) (i : nat) : option (nat * obs)%type :=
  match tr with
  | [] => None
  | (p, o) :: r =>
    let s1 := skip_silent S 6%nat s p in
    let (s2, o') := step S s1 p in
    if obs_eqb o o' then first_bad S s2 r (Datatypes.S i) else Some (i, o')
  end.
