(* Model of mapproxy/util/lock.py (FileLock, SemLock) and mapproxy/util/ext/lockfile.py (LockFile, _lock_file)
   at the granularity of the file-system calls they make (C07).

   A labelled transition system for an unbounded number of processes.  One "process" = one user of one
   FileLock / SemLock object.  A label is (pid, op) where op is the call the process performs now; `step`
   says whether that call is what the code does next in the process's control state (None = not enabled),
   what the call returns and which user-visible event follows (lock() returned / raised LockTimeout).

   Files: path k (k = 0 for FileLock; lock_file + str(k) for SemLock) is bound to an inode or absent;
   inodes are never reused; flock is an exclusive advisory lock per inode owned by an open file
   description and released when that description is closed.

   `chk` = the identity check of _lock_file (os.stat(path) vs os.fstat(fd) after flock; commit 493c25f).
   chk = true is the code as it is; chk = false is the protocol before the repair (finding F5).

   No proofs here: the model must stay executable when a proof breaks. *)
From Coq Require Import ZArith List Bool Arith.
Import ListNotations.

Definition pid := nat.
Definition inode := nat.
Definition slot := nat.

(* FileLock(remove_on_unlock=rm) or SemLock(n) *)
(* KClean: a process that runs cleanup_lockdir(lock_dir, max_lock_time = p_timeout, force = True) (as TileLocker.lock
   does on every 50th call); it only takes steps in `stepc` below *)
Inductive kind := KFile (rm : bool) | KSem (n : nat) | KClean.
Record pconf := mk_pconf { p_kind : kind; p_timeout : Z }.

Definition nslots (c : pconf) : nat := match p_kind c with KFile _ => 1 | KSem n => n | KClean => 1 end.
Definition removes (c : pconf) : bool := match p_kind c with KFile rm => rm | _ => false end.
Definition is_sem (c : pconf) : bool := match p_kind c with KSem _ => true | _ => false end.
Definition is_clean (c : pconf) : bool := match p_kind c with KClean => true | _ => false end.

(* context of one LockFile attempt inside FileLock.lock / SemLock._try_lock:
   stop_time of the lock() call, `tries` of SemLock._try_lock (1-based, 1 for FileLock), path index *)
Record att := mk_att { a_stop : Z; a_tries : nat; a_k : slot }.

Inductive pc :=
| Idle                                        (* outside lock()/unlock() *)
| Draw (stop : Z)                             (* SemLock._try_lock: about to call random.randint(0, n-1) *)
| Try (a : att)                               (* LockFile.__init__: about to open(path, 'w+') *)
| Opened (a : att) (i : inode)                (* _lock_file: about to fcntl.flock(fd, LOCK_EX | LOCK_NB) *)
| Flocked (a : att) (i : inode)               (* flock succeeded: about to os.stat(path) (then fstat, compare) *)
| Closing (a : att) (i : inode) (held : bool) (* attempt failed: about to fp.close(); held = flock was taken *)
| Failed (stop : Z)                           (* LockError reached FileLock.lock: about to read time.time() *)
| Sleep (stop : Z)                            (* about to time.sleep(step) *)
| Replacing (k : slot) (i : inode)            (* self._lock = <new LockFile>: the old LockFile is dropped, its file closes *)
| Inside (k : slot) (i : inode)               (* lock() has returned; next call is the first one of unlock() *)
| RmFailed (k : slot) (i : inode)             (* os.remove raised OSError: about to self._lock.close() *)
(* cleanup_lockdir (KClean processes only) *)
| CScan (expire : Z)                          (* expire_time computed: about to os.listdir (then isfile, endswith) *)
| CStat (expire : Z)                          (* the lock file was listed: about to os.path.getmtime *)
| CUnlink.                                    (* mtime < expire_time: about to os.unlink *)

(* zomb: the file of a LockFile that was released by os.remove only; FileLock.unlock does not close it, it stays
   open (and keeps its flock on the unlinked inode) until the FileLock drops it *)
Record pstate := mk_pstate { st_pc : pc; st_zomb : option inode }.

Record state := mk_state {
  path : slot -> option inode;
  next : inode;
  owner : inode -> option pid;
  ps : pid -> pstate
}.

Definition init : state := mk_state (fun _ => None) 0 (fun _ => None) (fun _ => mk_pstate Idle None).

Definition upd {A} (f : nat -> A) (x : nat) (v : A) : nat -> A := fun y => if Nat.eqb y x then v else f y.

Inductive op := OTime (t : Z) | ORand (r : nat) | OOpen | OFlock | OStat | OClose | ORemove | OSleep
  | OList | OMtime (m : option Z) | OUnlink
  | OFlockErr | ORemoveErr.   (* environment faults, see step_fault *)
Inductive res :=
| RUnit
| ROpen (k : slot) (i : inode) (created : bool)
| RFlock (ok : bool)
| RStat (o : option inode)
| RRemove (ok : bool)
| RList (present : bool).
Inductive event := ENone | EAcquired (k : slot) (i : inode) | ETimeout.

Definition set_p (s : state) (p : pid) (st : pstate) : state :=
  mk_state (path s) (next s) (owner s) (upd (ps s) p st).
Definition set_pc (s : state) (p : pid) (c : pc) : state :=
  set_p s p (mk_pstate c (st_zomb (ps s p))).
Definition set_owner (s : state) (i : inode) (o : option pid) : state :=
  mk_state (path s) (next s) (upd (owner s) i o) (ps s).
Definition set_path (s : state) (k : slot) (o : option inode) : state :=
  mk_state (upd (path s) k o) (next s) (owner s) (ps s).
Definition bump (s : state) : state := mk_state (path s) (S (next s)) (owner s) (ps s).

(* first LockFile attempt of a _try_lock call *)
Definition first_try (c : pconf) (stop : Z) : pc :=
  if is_sem c then Draw stop else Try (mk_att stop 1 0).

(* a LockFile was constructed: `self._lock = ...` drops the previous LockFile (closing its file) and then
   lock() returns *)
Definition succeed (s : state) (p : pid) (k : slot) (i : inode) : state * event :=
  match st_zomb (ps s p) with
  | Some _ => (set_pc s p (Replacing k i), ENone)
  | None => (set_pc s p (Inside k i), EAcquired k i)
  end.

Definition step (chk : bool) (cfg : pid -> pconf) (s : state) (p : pid) (o : op)
  : option (state * res * event) :=
  let c := cfg p in
  let st := ps s p in
  match st_pc st, o with
  (* lock(): current_time = time.time(); stop_time = current_time + self.timeout *)
  | Idle, OTime t => Some (set_pc s p (first_try c (t + p_timeout c)%Z), RUnit, ENone)
  (* the FileLock object (or its old LockFile) is dropped: the file left open by unlock() closes *)
  | Idle, OClose =>
    match st_zomb st with
    | Some z => Some (set_p (set_owner s z None) p (mk_pstate Idle None), RUnit, ENone)
    | None => None
    end
  | Draw stop, ORand r =>
    if Nat.ltb r (nslots c) then Some (set_pc s p (Try (mk_att stop 1 r)), RUnit, ENone) else None
  (* open(path, 'w+'): binds to the existing file or creates a fresh inode *)
  | Try a, OOpen =>
    match path s (a_k a) with
    | Some i => Some (set_pc s p (Opened a i), ROpen (a_k a) i false, ENone)
    | None =>
      let i := next s in
      Some (set_pc (bump (set_path s (a_k a) (Some i))) p (Opened a i), ROpen (a_k a) i true, ENone)
    end
  (* non-blocking flock *)
  | Opened a i, OFlock =>
    match owner s i with
    | Some _ => Some (set_pc s p (Closing a i false), RFlock false, ENone)
    | None =>
      let s1 := set_owner s i (Some p) in
      if chk then Some (set_pc s1 p (Flocked a i), RFlock true, ENone)
      else let (s2, e) := succeed s1 p (a_k a) i in Some (s2, RFlock true, e)
    end
  (* identity check: does the path still name the inode we locked? *)
  | Flocked a i, OStat =>
    match path s (a_k a) with
    | Some j =>
      if Nat.eqb j i then let (s2, e) := succeed s p (a_k a) i in Some (s2, RStat (Some j), e)
      else Some (set_pc s p (Closing a i true), RStat (Some j), ENone)
    | None => Some (set_pc s p (Closing a i true), RStat None, ENone)
    end
  (* failed attempt: fp.close(), LockError; SemLock tries the next file, FileLock.lock gets the LockError *)
  | Closing a i held, OClose =>
    let s1 := if held then set_owner s i None else s in
    let n := nslots c in
    let c' := if Nat.leb n (a_tries a) then Failed (a_stop a)
              else Try (mk_att (a_stop a) (S (a_tries a)) (Nat.modulo (S (a_k a)) n)) in
    Some (set_pc s1 p c', RUnit, ENone)
  | Failed stop, OTime t =>
    if Z.ltb t stop then Some (set_pc s p (Sleep stop), RUnit, ENone)
    else Some (set_pc s p Idle, RUnit, ETimeout)
  | Sleep stop, OSleep => Some (set_pc s p (first_try c stop), RUnit, ENone)
  | Replacing k i, OClose =>
    let s1 := match st_zomb st with Some z => set_owner s z None | None => s end in
    Some (set_p s1 p (mk_pstate (Inside k i) None), RUnit, EAcquired k i)
  (* unlock() *)
  | Inside k i, OClose =>
    if removes c then None
    else Some (set_pc (set_owner s i None) p Idle, RUnit, ENone)
  | Inside k i, ORemove =>
    if removes c then
      match path s k with
      | Some _ => Some (set_p (set_path s k None) p (mk_pstate Idle (Some i)), RRemove true, ENone)
      | None => Some (set_pc s p (RmFailed k i), RRemove false, ENone)
      end
    else None
  | RmFailed k i, OClose => Some (set_pc (set_owner s i None) p Idle, RUnit, ENone)
  | _, _ => None
  end.

(* a schedule: which process performs which call, in order *)
Definition label := (pid * op)%type.

Fixpoint run (chk : bool) (cfg : pid -> pconf) (s : state) (l : list label) : option state :=
  match l with
  | [] => Some s
  | (p, o) :: r =>
    match step chk cfg s p o with
    | Some (s', _, _) => run chk cfg s' r
    | None => None
    end
  end.

Definition reachable (chk : bool) (cfg : pid -> pconf) (s : state) : Prop :=
  exists l, run chk cfg init l = Some s.

(* ---------------------------------------------------------------- the lock directory clean-up

   cleanup_lockdir(lockdir, suffix='.lck', max_lock_time, force=True), for a directory that holds the FileLock path
   (slot 0; the files of a SemLock end in a digit and do not match the suffix):
     expire_time = time.time() - max_lock_time
     for entry in os.listdir(lockdir):            one step with isfile/endswith
         if os.path.getmtime(name) < expire_time: (OSError ENOENT is ignored)
             os.unlink(name)                      (a failing unlink is logged and ignored)
   The modification time is a reading supplied by the environment, like the clock: the label carries it. *)
Definition step_clean (cfg : pid -> pconf) (s : state) (p : pid) (o : op) : option (state * res * event) :=
  match st_pc (ps s p), o with
  | Idle, OTime t => Some (set_pc s p (CScan (t - p_timeout (cfg p))%Z), RUnit, ENone)
  | CScan e, OList =>
    match path s 0 with
    | Some _ => Some (set_pc s p (CStat e), RList true, ENone)
    | None => Some (set_pc s p Idle, RList false, ENone)
    end
  | CStat e, OMtime m =>
    match path s 0, m with
    | Some _, Some mt => Some (set_pc s p (if Z.ltb mt e then CUnlink else Idle), RUnit, ENone)
    | None, None => Some (set_pc s p Idle, RUnit, ENone)
    | _, _ => None
    end
  | CUnlink, OUnlink =>
    match path s 0 with
    | Some _ => Some (set_pc (set_path s 0 None) p Idle, RRemove true, ENone)
    | None => Some (set_pc s p Idle, RRemove false, ENone)
    end
  | _, _ => None
  end.

(* lock users and clean-up processes together *)
Definition stepc (chk : bool) (cfg : pid -> pconf) (s : state) (p : pid) (o : op) : option (state * res * event) :=
  if is_clean (cfg p) then step_clean cfg s p o else step chk cfg s p o.

Fixpoint runc (chk : bool) (cfg : pid -> pconf) (s : state) (l : list label) : option state :=
  match l with
  | [] => Some s
  | (p, o) :: r =>
    match stepc chk cfg s p o with
    | Some (s', _, _) => runc chk cfg s' r
    | None => None
    end
  end.

(* ---------------------------------------------------------------- environment faults

   OFlockErr: fcntl.flock fails with an errno other than "held by somebody else" (ENOLCK ...): _lock_file turns every
   IOError/OSError of flock into LockError, the attempt fails like a refused one (fp.close(), retry or timeout).
   ORemoveErr: os.remove in unlock() of a remove_on_unlock lock fails although the file is there (EPERM, read-only
   directory): `except OSError: self._lock.close()` - the lock is released by closing, the file stays. *)
Definition step_fault (cfg : pid -> pconf) (s : state) (p : pid) (o : op) : option (state * res * event) :=
  match st_pc (ps s p), o with
  | Opened a i, OFlockErr => Some (set_pc s p (Closing a i false), RFlock false, ENone)
  | Inside k i, ORemoveErr =>
    if removes (cfg p) then Some (set_pc s p (RmFailed k i), RRemove false, ENone) else None
  | _, _ => None
  end.

(* lock users, clean-up processes and faults *)
Definition stepf (chk : bool) (cfg : pid -> pconf) (s : state) (p : pid) (o : op) : option (state * res * event) :=
  match o with
  | OFlockErr => if is_clean (cfg p) then None else step_fault cfg s p o
  | ORemoveErr => if is_clean (cfg p) then None else step_fault cfg s p o
  | _ => stepc chk cfg s p o
  end.

Fixpoint runf (chk : bool) (cfg : pid -> pconf) (s : state) (l : list label) : option state :=
  match l with
  | [] => Some s
  | (p, o) :: r =>
    match stepf chk cfg s p o with
    | Some (s', _, _) => runf chk cfg s' r
    | None => None
    end
  end.

(* ---------------------------------------------------------------- the clean-up in a semaphore's lock directory

   The slot files of SemLock(lock_file, n) are lock_file + str(i) (`<name>.lck0`, `<name>.lck1` ...): for every entry of
   such a directory `name.endswith(suffix)` is false, so a cleanup_lockdir pass is time.time(), os.listdir and nothing
   else - no getmtime, no unlink, whatever the age of the files.  (cache.lock_dir holds the tile locks and the
   http.concurrent_requests semaphores together; in the state of this model path k is then the k-th slot file.) *)
Definition step_clean_sem (cfg : pid -> pconf) (s : state) (p : pid) (o : op) : option (state * res * event) :=
  match st_pc (ps s p), o with
  | Idle, OTime t => Some (set_pc s p (CScan (t - p_timeout (cfg p))%Z), RUnit, ENone)
  | CScan e, OList => Some (set_pc s p Idle, RList false, ENone)
  | _, _ => None
  end.

(* semaphore users, clean-up processes and faults together *)
Definition steps (chk : bool) (cfg : pid -> pconf) (s : state) (p : pid) (o : op) : option (state * res * event) :=
  if is_clean (cfg p) then step_clean_sem cfg s p o
  else match o with
       | OFlockErr => step_fault cfg s p o
       | ORemoveErr => step_fault cfg s p o
       | _ => step chk cfg s p o
       end.

Fixpoint runs (chk : bool) (cfg : pid -> pconf) (s : state) (l : list label) : option state :=
  match l with
  | [] => Some s
  | (p, o) :: r =>
    match steps chk cfg s p o with
    | Some (s', _, _) => runs chk cfg s' r
    | None => None
    end
  end.

(* no clean-up of the schedule got as far as unlinking *)
Definition no_unlink (l : list label) : Prop := forall p, ~ In (p, OUnlink) l.

(* the process is inside the locked section through lock file k *)
Definition inside_at (s : state) (p : pid) (k : slot) : Prop :=
  exists i, st_pc (ps s p) = Inside k i.
Definition inside (s : state) (p : pid) : Prop := exists k, inside_at s p k.

Definition is_inside (s : state) (p : pid) : bool :=
  match st_pc (ps s p) with Inside _ _ => true | _ => false end.

(* ---------------------------------------------------------------- vocabulary of the property statements *)

(* the inode on which the control state has an open descriptor with the flock taken *)
Definition holds_pc (c : pc) : option inode :=
  match c with
  | Flocked _ i => Some i
  | Closing _ i true => Some i
  | Replacing _ i => Some i
  | Inside _ i => Some i
  | RmFailed _ i => Some i
  | _ => None
  end.

(* process p has an open descriptor on inode i with the flock taken (through its current LockFile or through
   the file that unlock() left open after os.remove) *)
Definition holds (s : state) (p : pid) (i : inode) : Prop :=
  holds_pc (st_pc (ps s p)) = Some i \/ st_zomb (ps s p) = Some i.

(* lock() has constructed a LockFile on path k / inode i (it returns at once, or after dropping the old LockFile) *)
Definition inside_pc (c : pc) : option (slot * inode) :=
  match c with
  | Inside k i => Some (k, i)
  | Replacing k i => Some (k, i)
  | _ => None
  end.

(* the LockFile attempt a control state belongs to *)
Definition att_of (c : pc) : option att :=
  match c with
  | Try a => Some a
  | Opened a _ => Some a
  | Flocked a _ => Some a
  | Closing a _ _ => Some a
  | _ => None
  end.

Definition slot_of (c : pc) : option slot :=
  match c with
  | Replacing k _ => Some k
  | Inside k _ => Some k
  | RmFailed k _ => Some k
  | _ => None
  end.

(* every FileLock on the path keeps the file on unlock *)
Definition keepfile (cfg : pid -> pconf) : Prop := forall p, removes (cfg p) = false.

(* the calls of one lock() that meets no resistance: time, [randint], open, flock, stat, [close of the file
   left over from the previous unlock-by-remove] *)
Definition solo_ops (c : pconf) (zomb : bool) (t : Z) (r : nat) : list op :=
  [OTime t] ++ (if is_sem c then [ORand r] else []) ++ [OOpen; OFlock; OStat] ++ (if zomb then [OClose] else []).

Definition has_zomb (s : state) (p : pid) : bool :=
  match st_zomb (ps s p) with Some _ => true | None => false end.

(* the same process performs a list of calls *)
Definition solo (p : pid) (l : list op) : list label := map (fun o => (p, o)) l.

(* run that also reports the event of the last step *)
Fixpoint run_ev (chk : bool) (cfg : pid -> pconf) (s : state) (l : list label) (e : event) : option (state * event) :=
  match l with
  | [] => Some (s, e)
  | (p, o) :: r =>
    match step chk cfg s p o with
    | Some (s', _, e') => run_ev chk cfg s' r e'
    | None => None
    end
  end.

(* nobody else has a LockFile with the flock taken (others may be idle, sleeping, or anywhere before flock) *)
Definition quiet_others (s : state) (p : pid) : Prop :=
  forall q, q <> p -> holds_pc (st_pc (ps s q)) = None.

(* LockError has reached FileLock.lock (state Failed) only through the close that ends a failed attempt, after
   every one of the n lock files was tried in this _try_lock call; the process has done nothing since *)
Definition after_failed_attempt chk cfg (l : list label) (p : pid) (stop : Z) : Prop :=
  exists l1 l2 s1 a i held,
    l = l1 ++ (p, OClose) :: l2 /\ run chk cfg init l1 = Some s1 /\
    st_pc (ps s1 p) = Closing a i held /\ a_stop a = stop /\ nslots (cfg p) <= a_tries a /\
    (forall o, ~ In (p, o) l2).

(* process p is in the LockFile attempt a on inode i, between its open and the end of the identity check *)
Definition in_attempt (c : pc) (a : att) (i : inode) : Prop := c = Opened a i \/ c = Flocked a i.

(* during p's attempt a on inode i (p had opened i and has not opened anything since), another process q that
   was inside through the same path on the same inode released the lock by removing the file *)
Definition removed_under chk cfg (l : list label) (p : pid) (a : att) (i : inode) : Prop :=
  exists l1 l2 s1 q,
    l = l1 ++ (q, ORemove) :: l2 /\ run chk cfg init l1 = Some s1 /\ q <> p /\
    st_pc (ps s1 q) = Inside (a_k a) i /\ in_attempt (st_pc (ps s1 p)) a i /\
    (forall o, In (p, o) l2 -> o <> OOpen).

(* ---------------------------------------------------------------- time: clock and modification times

   A layer over `stepc` that supplies the readings: one clock `now` (time.time() of every process and the time
   stamps of the file system), the modification time of every lock file - set to `now` when open(path, 'w+')
   creates or truncates it and when the new owner writes its pid - and, as a ghost, the time at which each
   process opened the file it is working on.  OTime t is enabled only for t = now, OMtime (Some m) only for
   m = modification time of the file at the path. *)
Record tstate := mk_tstate { base : state; now : Z; mtime : inode -> Z; opened : pid -> Z }.

Definition tinit : tstate := mk_tstate init 0%Z (fun _ => 0%Z) (fun _ => 0%Z).

Definition reading_ok (ts : tstate) (o : op) : bool :=
  match o with
  | OTime t => Z.eqb t (now ts)
  | OMtime (Some m) => match path (base ts) 0 with Some i => Z.eqb m (mtime ts i) | None => true end
  | _ => true
  end.

(* the inode whose modification time the call sets: open('w+'), and the pid write that follows the successful
   identity check (or, without the check, the successful flock) in the same step *)
Definition touch_of (o : op) (r : res) (c' : pc) : option inode :=
  match o, r with
  | OOpen, ROpen _ i _ => Some i
  | OStat, _ => match inside_pc c' with Some (_, i) => Some i | None => None end
  | OFlock, _ => match inside_pc c' with Some (_, i) => Some i | None => None end
  | _, _ => None
  end.

Definition tstep (chk : bool) (cfg : pid -> pconf) (ts : tstate) (p : pid) (o : op) : option tstate :=
  if reading_ok ts o then
    match stepc chk cfg (base ts) p o with
    | Some (s', r, _) =>
      Some (mk_tstate s' (now ts)
              (match touch_of o r (st_pc (ps s' p)) with Some i => upd (mtime ts) i (now ts) | None => mtime ts end)
              (match o with OOpen => upd (opened ts) p (now ts) | _ => opened ts end))
    | None => None
    end
  else None.

(* time passes *)
Definition tick (ts : tstate) (d : Z) : tstate := mk_tstate (base ts) (now ts + d)%Z (mtime ts) (opened ts).

(* control states of a process that has the lock file open and has not yet given up on it or released it *)
Definition witness_pc (c : pc) : option inode :=
  match c with
  | Opened _ i => Some i
  | Flocked _ i => Some i
  | Replacing _ i => Some i
  | Inside _ i => Some i
  | _ => None
  end.

(* timing assumption: no process takes longer than B from opening a lock file to releasing it (or to the end of
   its failed attempt) *)
Definition timely (B : Z) (ts : tstate) : Prop :=
  forall q i, witness_pc (st_pc (ps (base ts) q)) = Some i -> (now ts - opened ts q <= B)%Z.

(* states reachable through timely states *)
Inductive treach (B : Z) (chk : bool) (cfg : pid -> pconf) : tstate -> Prop :=
| tr_init : treach B chk cfg tinit
| tr_tick ts d : treach B chk cfg ts -> (0 <= d)%Z -> timely B (tick ts d) -> treach B chk cfg (tick ts d)
| tr_act ts p o ts' : treach B chk cfg ts -> tstep chk cfg ts p o = Some ts' -> timely B ts' -> treach B chk cfg ts'.

(* timed schedules as lists: clock increments and calls *)
Inductive tlabel := LTick (d : Z) | LAct (p : pid) (o : op).

Definition tnext (chk : bool) (cfg : pid -> pconf) (ts : tstate) (x : tlabel) : option tstate :=
  match x with
  | LTick d => if Z.leb 0 d then Some (tick ts d) else None
  | LAct p o => tstep chk cfg ts p o
  end.

Fixpoint trun (chk : bool) (cfg : pid -> pconf) (ts : tstate) (l : list tlabel) : option tstate :=
  match l with
  | [] => Some ts
  | x :: r => match tnext chk cfg ts x with Some ts' => trun chk cfg ts' r | None => None end
  end.

(* every state the schedule passes through is timely *)
Fixpoint all_timely (B : Z) (chk : bool) (cfg : pid -> pconf) (ts : tstate) (l : list tlabel) : Prop :=
  match l with
  | [] => True
  | x :: r => match tnext chk cfg ts x with Some ts' => timely B ts' /\ all_timely B chk cfg ts' r | None => False end
  end.

(* every lock user is a FileLock(remove_on_unlock=True) (the tile locks), every clean-up has max_lock_time >= B *)
Definition tile_locks (B : Z) (cfg : pid -> pconf) : Prop :=
  forall p, p_kind (cfg p) = KFile true \/ (p_kind (cfg p) = KClean /\ (B <= p_timeout (cfg p))%Z).

(* ---------------------------------------------------------------- comparison with an observed trace *)

Definition res_eqb (a b : res) : bool :=
  match a, b with
  | RUnit, RUnit => true
  | ROpen k i c, ROpen k' i' c' => Nat.eqb k k' && Nat.eqb i i' && Bool.eqb c c'
  | RFlock x, RFlock y => Bool.eqb x y
  | RStat None, RStat None => true
  | RStat (Some x), RStat (Some y) => Nat.eqb x y
  | RRemove x, RRemove y => Bool.eqb x y
  | RList x, RList y => Bool.eqb x y
  | _, _ => false
  end.

Definition event_eqb (a b : event) : bool :=
  match a, b with
  | ENone, ENone => true
  | EAcquired k i, EAcquired k' i' => Nat.eqb k k' && Nat.eqb i i'
  | ETimeout, ETimeout => true
  | _, _ => false
  end.

Definition obs := (pid * op * res * event)%type.

(* position of the first observed step that the model does not allow or answers differently *)
Fixpoint first_bad (chk : bool) (cfg : pid -> pconf) (s : state) (tr : list obs) (n : nat) : option nat :=
  match tr with
  | [] => None
  | (p, o, r, e) :: rest =>
    match stepc chk cfg s p o with
    | Some (s', r', e') =>
      if res_eqb r r' && event_eqb e e' then first_bad chk cfg s' rest (S n) else Some n
    | None => Some n
    end
  end.

(* replay of an observed trace of semaphore users and clean-up processes that share the lock directory *)
Fixpoint first_bad_sem (chk : bool) (cfg : pid -> pconf) (s : state) (tr : list obs) (n : nat) : option nat :=
  match tr with
  | [] => None
  | (p, o, r, e) :: t =>
    match steps chk cfg s p o with
    | Some (s', r', e') => if res_eqb r r' && event_eqb e e' then first_bad_sem chk cfg s' t (S n) else Some n
    | None => Some n
    end
  end.

Definition cfg_of (l : list pconf) (p : pid) : pconf := nth p l (mk_pconf (KFile false) 0).

Definition trace_ok (chk : bool) (l : list pconf) (tr : list obs) : bool :=
  match first_bad chk (cfg_of l) init tr 0 with None => true | Some _ => false end.

Definition sem_trace_ok (chk : bool) (l : list pconf) (tr : list obs) : bool :=
  match first_bad_sem chk (cfg_of l) init tr 0 with None => true | Some _ => false end.

(* faults change no clock and no modification time *)
Definition tstepf (chk : bool) (cfg : pid -> pconf) (ts : tstate) (p : pid) (o : op) : option tstate :=
  match o with
  | OFlockErr | ORemoveErr =>
    match stepf chk cfg (base ts) p o with
    | Some (s', _, _) => Some (mk_tstate s' (now ts) (mtime ts) (opened ts))
    | None => None
    end
  | _ => tstep chk cfg ts p o
  end.

(* comparison of a trace with clock increments *)
Inductive tobs := TTick (d : Z) | TObs (x : obs).

Fixpoint tfirst_bad (chk : bool) (cfg : pid -> pconf) (ts : tstate) (tr : list tobs) (n : nat) : option nat :=
  match tr with
  | [] => None
  | TTick d :: rest => if Z.leb 0 d then tfirst_bad chk cfg (tick ts d) rest (S n) else Some n
  | TObs (p, o, r, e) :: rest =>
    match stepf chk cfg (base ts) p o, tstepf chk cfg ts p o with
    | Some (_, r', e'), Some ts' =>
      if res_eqb r r' && event_eqb e e' then tfirst_bad chk cfg ts' rest (S n) else Some n
    | _, _ => Some n
    end
  end.

Definition ttrace_ok (chk : bool) (l : list pconf) (tr : list tobs) : bool :=
  match tfirst_bad chk (cfg_of l) tinit tr 0 with None => true | Some _ => false end.

(* number of processes of `pids` that are inside after the trace (None when the trace is not a run) *)
Definition labels_of (tr : list obs) : list label := map (fun x => let '(p, o, _, _) := x in (p, o)) tr.

Definition count_inside (s : state) (pids : list pid) : nat :=
  length (filter (is_inside s) pids).

(* ---------------------------------------------------------------- the F5 schedule *)

(* three users of one FileLock(remove_on_unlock=True) path *)
Definition f5_cfg : pid -> pconf := fun _ => mk_pconf (KFile true) 5.

(* P0 takes the lock (creating inode 0); P1 opens the same file; P0 unlocks (unlink, then its file closes);
   P2 creates and locks inode 1; P1 locks the old inode 0.  Without the identity check both are inside. *)
Definition f5_schedule_nocheck : list label :=
  [ (0, OTime 0); (0, OOpen); (0, OFlock);
    (1, OTime 0); (1, OOpen);
    (0, ORemove); (0, OClose);
    (2, OTime 0); (2, OOpen); (2, OFlock);
    (1, OFlock) ].

(* the same interleaving on the repaired protocol (each flock is followed by the check) *)
Definition f5_schedule_check : list label :=
  [ (0, OTime 0); (0, OOpen); (0, OFlock); (0, OStat);
    (1, OTime 0); (1, OOpen);
    (0, ORemove); (0, OClose);
    (2, OTime 0); (2, OOpen); (2, OFlock); (2, OStat);
    (1, OFlock); (1, OStat) ].
