(* Model of conditional-request handling (C20):
     mapproxy/response.py    Response.cache_headers / make_conditional / last_modified setter
     mapproxy/util/times.py  parse_httpdate (on the tuple email.utils.parsedate returned), format_httpdate (whole seconds)
     mapproxy/service/tile.py TileServer.map, wmts.py WMTSServer.tile, kml.py KMLServer.map, wms.py WMSServer.map (tail)
     mapproxy/cache/tile.py  TileManager load/create of one tile coordinate (metadata capture on load and on store)
   No proofs here: the model must stay executable when a proof breaks.

   Conventions.  Text is a list of code points.  A timestamp is `st_ticks / tps` seconds (tps = ticks per second, a
   parameter; Python floats are dyadic, so every finite set of them fits some tps) together with the text Python's
   str() prints for it (st_repr: external behaviour of float/int repr, supplied with the value).  `h` is md5 (hex). *)
From Coq Require Import ZArith List Bool.
Import ListNotations.
From MP Require Import Base.
Local Open Scope Z_scope.

Definition str := list Z.
Definition str_eqb (a b : str) : bool := list_eqb Z.eqb a b.

(* ---- str() of an int ------------------------------------------------------------------------------- *)
Fixpoint digits (fuel : nat) (n : Z) (acc : str) : str :=
  match fuel with
  | O => acc
  | S f => let acc' := (48 + n mod 10) :: acc in
           if n <? 10 then acc' else digits f (n / 10) acc'
  end.
Definition str_nat (n : Z) : str := digits (S (Z.to_nat (Z.log2 n))) n [].
Definition str_Z (n : Z) : str := if n <? 0 then 45 :: str_nat (- n) else str_nat n.
Definition s_None : str := [78; 111; 110; 101].

Record stamp := { st_ticks : Z; st_repr : str }.

Definition str_ts (t : option stamp) : str := match t with Some s => st_repr s | None => s_None end.
Definition str_size (z : option Z) : str := match z with Some n => str_Z n | None => s_None end.
(* `if not timestamp`: None, 0 and 0.0 are falsy *)
Definition ts_truthy (t : option stamp) : bool :=
  match t with Some s => negb (st_ticks s =? 0) | None => false end.

(* ---- Response ---------------------------------------------------------------------------------------- *)
Record resp := {
  r_status : Z;              (* 200 / 304 *)
  r_body : option Z;         (* Some b: body number b; None: `response = []` *)
  r_ctype : bool;            (* 'Content-type' present *)
  r_etag : option str;       (* 'ETag' *)
  r_lastmod : option Z;      (* 'Last-modified', as the whole second that format_httpdate prints *)
  r_public : option Z;       (* 'Cache-control: public, max-age=N, s-maxage=N' *)
  r_nostore : bool;          (* 'Cache-Control: no-cache, no-store' + 'Pragma: no-cache' + 'Expires: -1' *)
  r_ts : option Z            (* Response._timestamp, in ticks *)
}.

Definition new_resp (body : Z) : resp :=
  {| r_status := 200; r_body := Some body; r_ctype := true; r_etag := None; r_lastmod := None;
     r_public := None; r_nostore := false; r_ts := None |}.

Definition set_etag (r : resp) (e : str) : resp :=
  {| r_status := r_status r; r_body := r_body r; r_ctype := r_ctype r; r_etag := Some e; r_lastmod := r_lastmod r;
     r_public := r_public r; r_nostore := r_nostore r; r_ts := r_ts r |}.
Definition set_nostore (r : resp) : resp :=
  {| r_status := r_status r; r_body := r_body r; r_ctype := r_ctype r; r_etag := r_etag r; r_lastmod := r_lastmod r;
     r_public := r_public r; r_nostore := true; r_ts := r_ts r |}.
Definition set_public (r : resp) (m : Z) : resp :=
  {| r_status := r_status r; r_body := r_body r; r_ctype := r_ctype r; r_etag := r_etag r; r_lastmod := r_lastmod r;
     r_public := Some m; r_nostore := r_nostore r; r_ts := r_ts r |}.
(* _last_modified_set: `if not date: return`; _timestamp = date; header = format_httpdate(date) (gmtime floors) *)
Definition set_last_modified (tps : Z) (r : resp) (t : option stamp) : resp :=
  match t with
  | Some s =>
    if st_ticks s =? 0 then r
    else {| r_status := r_status r; r_body := r_body r; r_ctype := r_ctype r; r_etag := r_etag r;
            r_lastmod := Some (st_ticks s / tps); r_public := r_public r; r_nostore := r_nostore r;
            r_ts := Some (st_ticks s) |}
  | None => r
  end.

Definition opt_truthy (m : option Z) : bool := match m with Some v => negb (v =? 0) | None => false end.
Definition etag_data_truthy (d : option (list str)) : bool :=
  match d with Some (_ :: _) => true | _ => false end.

(* Response.cache_headers(timestamp, etag_data, max_age, no_cache); None = the assert fails *)
Definition cache_headers (h : str -> str) (tps : Z) (r : resp) (ts : option stamp) (etag_data : option (list str))
           (max_age : option Z) (no_cache : bool) : option resp :=
  let r1 := match etag_data with
            | Some (x :: l) => set_etag r (h (concat (x :: l)))
            | _ => r
            end in
  if no_cache && (ts_truthy ts || opt_truthy max_age) then None
  else
    let r2 := if no_cache then set_nostore r1 else r1 in
    let r3 := set_last_modified tps r2 ts in
    Some (match max_age with
          | Some m => if ts_truthy ts || etag_data_truthy etag_data then set_public r3 m else r3
          | None => r3
          end).

(* ---- util/times.py ----------------------------------------------------------------------------------- *)
(* value of the If-Modified-Since header as seen by email.utils.parsedate (stdlib, external):
   absent (environ.get -> None), unparsable (parsedate -> None), or the first six fields of the tuple *)
Inductive imsval := ImsAbsent | ImsBad | ImsDate (y mo d hh mi ss : Z).
Inductive parsed := PNone | PSome (t : Z).

Definition is_leap (y : Z) : bool := (y mod 4 =? 0) && (negb (y mod 100 =? 0) || (y mod 400 =? 0)).
Definition days_before_year (y : Z) : Z := let y1 := y - 1 in y1 * 365 + y1 / 4 - y1 / 100 + y1 / 400.
Definition days_before_month (y m : Z) : Z :=
  nth (Z.to_nat (m - 1)) [0; 31; 59; 90; 120; 151; 181; 212; 243; 273; 304; 334] 0
  + (if (2 <? m) && is_leap y then 1 else 0).
(* datetime.date(y, m, 1).toordinal() *)
Definition ordinal_ym1 (y m : Z) : Z := days_before_year y + days_before_month y m + 1.
(* calendar.timegm *)
Definition timegm (y mo d hh mi ss : Z) : Z :=
  let days := ordinal_ym1 y mo - 719163 + d - 1 in
  ((days * 24 + hh) * 60 + mi) * 60 + ss.
(* parse_httpdate: the date is read as written (the old "+2000 for years below 1970" rule is gone, repair of C20-L4);
   datetime.date raises ValueError / OverflowError outside 1..9999 / 1..12, which parse_httpdate catches and turns
   into None (repair of F18) *)
Definition parse_httpdate (i : imsval) : parsed :=
  match i with
  | ImsAbsent | ImsBad => PNone
  | ImsDate y mo d hh mi ss =>
    if (y <? 1) || (9999 <? y) || (mo <? 1) || (12 <? mo) then PNone
    else PSome (timegm y mo d hh mi ss)
  end.

(* ---- make_conditional --------------------------------------------------------------------------------- *)
Inductive outcome := Resp (r : resp) | Err500.

(* `self.etag == environ.get('HTTP_IF_NONE_MATCH', -1)`: never equal when either side is missing *)
Definition etag_matches (e : option str) (inm : option str) : bool :=
  match e, inm with Some a, Some b => str_eqb a b | _, _ => false end.

Definition not_modified (r : resp) : resp :=
  {| r_status := 304; r_body := None; r_ctype := false; r_etag := r_etag r; r_lastmod := r_lastmod r;
     r_public := r_public r; r_nostore := r_nostore r; r_ts := r_ts r |}.

Definition make_conditional (tps : Z) (r : resp) (inm : option str) (ims : imsval) : outcome :=
  if etag_matches (r_etag r) inm then Resp (not_modified r)
  else match r_ts r with
       | Some ts =>
         match parse_httpdate ims with
         | PSome t => if ts <=? t * tps then Resp (not_modified r) else Resp r
         | PNone => Resp r
         end
       | None => Resp r
       end.

(* ---- service glue ------------------------------------------------------------------------------------- *)
(* what TileResponse / ImageResponse / Tile.cacheable (CacheInfo) carry *)
Record tinfo := { ti_cacheable : bool; ti_ts : option stamp; ti_size : option Z }.

Definition tile_headers (h : str -> str) (tps : Z) (max_age : option Z) (ti : tinfo) (r : resp) : option resp :=
  if ti_cacheable ti
  then cache_headers h tps r (ti_ts ti) (Some [str_ts (ti_ts ti); str_size (ti_size ti)]) max_age false
  else cache_headers h tps r None None None true.

(* TileServer.map lines 85-92 *)
Definition serve_tms (h : str -> str) (tps : Z) (max_age : option Z) (ti : tinfo) (body : Z)
           (inm : option str) (ims : imsval) : outcome :=
  match tile_headers h tps max_age ti (new_resp body) with
  | Some r => make_conditional tps r inm ims
  | None => Err500
  end.
(* WMTSServer.tile lines 104-111 *)
Definition serve_wmts (h : str -> str) (tps : Z) (max_age : option Z) (ti : tinfo) (body : Z)
           (inm : option str) (ims : imsval) : outcome :=
  match tile_headers h tps max_age ti (new_resp body) with
  | Some r => make_conditional tps r inm ims
  | None => Err500
  end.
(* KMLServer.map lines 106-114 *)
Definition serve_kml (h : str -> str) (tps : Z) (max_age : option Z) (ti : tinfo) (body : Z)
           (inm : option str) (ims : imsval) : outcome :=
  match tile_headers h tps max_age ti (new_resp body) with
  | Some r => make_conditional tps r inm ims
  | None => Err500
  end.

(* WMSServer.map lines 162-172: result.cacheable is a CacheInfo when the single cached tile is handed through
   (merge shortcut), otherwise the bool computed by the merger *)
Inductive wcache := WInfo (ti : tinfo) | WBool (b : bool).
Definition wc_truthy (w : wcache) : bool := match w with WInfo ti => ti_cacheable ti | WBool b => b end.

Definition serve_wms (h : str -> str) (tps : Z) (max_age : option Z) (tiled : bool) (w : wcache) (body : Z)
           (inm : option str) (ims : imsval) : outcome :=
  let r := new_resp body in
  if negb (wc_truthy w) then
    match cache_headers h tps r None None None true with Some r' => Resp r' | None => Err500 end
  else match w with
       | WInfo ti =>
         if tiled then
           match cache_headers h tps r (ti_ts ti) (Some [str_ts (ti_ts ti); str_size (ti_size ti)]) max_age false with
           | Some r' => make_conditional tps r' inm ims
           | None => Err500
           end
         else Resp r
       | WBool _ => Resp r
       end.

Inductive service := TMS | WMTS | KML | WMSC.

(* the four tile services on one tile (WMS-C = tiled GetMap of a single cached layer) *)
Definition serve (svc : service) (h : str -> str) (tps : Z) (max_age : option Z) (ti : tinfo) (body : Z)
           (inm : option str) (ims : imsval) : outcome :=
  match svc with
  | TMS => serve_tms h tps max_age ti body inm ims
  | WMTS => serve_wmts h tps max_age ti body inm ims
  | KML => serve_kml h tps max_age ti body inm ims
  | WMSC => serve_wms h tps max_age true (WInfo ti) body inm ims
  end.

(* ---- cache + tile manager: histories -------------------------------------------------------------------- *)
(* what a backend with timestamps reports for a stored tile: file: st_mtime, st_size, file bytes;
   sqlite: last_modified (whole seconds), len(tile_data), tile_data.
   File cache with link_single_color_images: the tile is a link to single_color_tiles/<rgb>.png and
   FileCache.load_tile_metadata uses os.lstat, i.e. the metadata of the directory entry of the TILE:
     symlink:  e_ts = mtime of the link itself (set when the tile is linked, so every rewrite of the tile advances
               it), e_size = length of the link text, e_body = bytes of the shared colour file (read through the link);
     hardlink: the tile shares the inode of the colour file: e_ts = mtime of the colour file (written once, when the
               colour was first seen), e_size = its size.
   `Rewrite k e` below is "the directory entry of tile k now reports e" - for a linked tile that is the lstat of the
   new link, whatever the age of the file it points to.  The theorems are about these reported values. *)
Record entry := { e_ts : stamp; e_size : Z; e_body : Z }.
Definition store := list (Z * entry).

Fixpoint lookup (st : store) (k : Z) : option entry :=
  match st with
  | [] => None
  | (k', e) :: r => if k' =? k then Some e else lookup r k
  end.
Fixpoint remove (st : store) (k : Z) : store :=
  match st with
  | [] => []
  | (k', e) :: r => if k' =? k then remove r k else (k', e) :: remove r k
  end.
Definition update (st : store) (k : Z) (e : entry) : store := (k, e) :: remove st k.

(* behaviour of the source if this request has to ask it *)
Inductive upstream :=
| UOk (body : Z) (now : stamp) (size : Z) (stored : entry)
      (* an image (body = the freshly encoded bytes of this answer).  The tile object of the request is stamped
         (now, size): tile_buffer = time.time() and the encoded size; for a file cache with link_single_color_images
         _store_single_color_tile afterwards sets the lstat values of the tile location (repair of C20-L1), so there
         (now, size) are the timestamp and size of `stored`.  Later loads report `stored`: mtime given by the file
         system / second kept by sqlite, size and bytes of what was written; for a linked tile see `entry` above. *)
| UFill (body : Z)      (* error handler answered with a fill image, `cache: false` *)
| UFillStale (body : Z) (* the same with `authorize_stale: true`: a stale tile in the cache is preferred to the fill image *)
| UErr.                 (* SourceError without handler: error page, no cache headers involved *)

Definition info_of_entry (e : entry) : tinfo :=
  {| ti_cacheable := true; ti_ts := Some (e_ts e); ti_size := Some (e_size e) |}.

(* TileManager.load_tile_coord(with_metadata=True) without a refresh rule *)
Definition load (st : store) (k : Z) (up : upstream) : store * option (tinfo * Z) :=
  match lookup st k with
  | Some e => (st, Some (info_of_entry e, e_body e))
  | None =>
    match up with
    | UOk body now size stored =>
      (update st k stored,
       Some ({| ti_cacheable := true; ti_ts := Some now; ti_size := Some size |}, body))
    | UFill body => (st, Some ({| ti_cacheable := false; ti_ts := None; ti_size := None |}, body))
    | UFillStale body => (st, Some ({| ti_cacheable := false; ti_ts := None; ti_size := None |}, body))
    | UErr => (st, None)
    end
  end.

(* the same for a request that finds the stored tile STALE (refresh_before / expire rule; single tile path, i.e.
   meta_size 1x1: TileManager._load_tile_coords hands the loaded Tile object to _create_single_tile):
   the source is asked again.  _create_single_tile forgets timestamp and size of the loaded (replaced) tile when it
   attaches the new source (repair of C20-L3), so an image is stamped and stored exactly like a fresh tile, and a fill
   image with cache: false is answered uncacheable while the old entry stays.  SourceError: the stale tile is served
   as it is. *)
Definition load_stale (st : store) (k : Z) (up : upstream) : store * option (tinfo * Z) :=
  match lookup st k with
  | None => load st k up
  | Some e =>
    match up with
    | UOk body now size stored =>
      (update st k stored,
       Some ({| ti_cacheable := true; ti_ts := Some now; ti_size := Some size |}, body))
    | UFill body => (st, Some ({| ti_cacheable := false; ti_ts := None; ti_size := None |}, body))
    | UFillStale _ => (st, Some (info_of_entry e, e_body e))
         (* _create_single_tile: `if source.authorize_stale and self.is_stale(tile): load_tile; return [tile]` - the exit
            lies before the new source is attached; is_stale has re-read the stored timestamp and size *)
    | UErr => (st, Some (info_of_entry e, e_body e))
    end
  end.

Inductive event :=
| Req (svc : service) (k : Z) (inm : option str) (ims : imsval) (up : upstream)
| Refresh (svc : service) (k : Z) (inm : option str) (ims : imsval) (up : upstream)
      (* a request for which the expiry rule of the cache (C13) calls the stored tile stale *)
| Rewrite (k : Z) (e : entry)       (* the tile is written again (seeding, refresh, another process) *)
| Remove (k : Z).

Definition step (h : str -> str) (tps : Z) (max_age : option Z) (st : store) (ev : event) : store * option outcome :=
  match ev with
  | Req svc k inm ims up =>
    match load st k up with
    | (st', Some (ti, body)) => (st', Some (serve svc h tps max_age ti body inm ims))
    | (st', None) => (st', Some Err500)
    end
  | Refresh svc k inm ims up =>
    match load_stale st k up with
    | (st', Some (ti, body)) => (st', Some (serve svc h tps max_age ti body inm ims))
    | (st', None) => (st', Some Err500)
    end
  | Rewrite k e => (update st k e, None)
  | Remove k => (remove st k, None)
  end.

Fixpoint run (h : str -> str) (tps : Z) (max_age : option Z) (st : store) (evs : list event)
  : store * list (option outcome) :=
  match evs with
  | [] => (st, [])
  | ev :: r => let '(st', o) := step h tps max_age st ev in
               let '(st'', os) := run h tps max_age st' r in (st'', o :: os)
  end.

(* ---- a cache WITHOUT storage built on a storing cache (tiled_only access) ---------------------------------- *)
(* `disable_storage: true` (DummyCache: is_cached is False, load_tile finds nothing, store_tile does nothing) on a
   cache whose source is another cache with a compatible grid and the same format: every request runs
   TileCreator._create_single_tile; the source is CacheSource(tiled_only) and CacheMapLayer._image hands the image of
   the LOWER cache's tile through with `cacheable = CacheInfo(cacheable, timestamp, size)` of that tile.
   The metadata triple of a Tile object is a `tinfo`; a value assigned to Tile.cacheable is a `wcache`.
   Tile._cacheable_set (cache/tile.py): a bool sets the flag only, a CacheInfo also copies timestamp and size. *)
Definition set_cacheable (t : tinfo) (c : wcache) : tinfo :=
  match c with
  | WBool b => {| ti_cacheable := b; ti_ts := ti_ts t; ti_size := ti_size t |}
  | WInfo ci => {| ti_cacheable := ti_cacheable ci; ti_ts := ti_ts ci; ti_size := ti_size ci |}
  end.
(* _create_single_tile: `tile.timestamp = None; tile.size = None; tile.cacheable = source.cacheable` (in this order) *)
Definition attach_source (t : tinfo) (c : wcache) : tinfo :=
  set_cacheable {| ti_cacheable := ti_cacheable t; ti_ts := None; ti_size := None |} c.

(* one event seen through the storage-less cache; `st` is the store of the LOWER cache, `t0` what the Tile object
   of the upper request held before the source was attached *)
Definition step_passthrough (h : str -> str) (tps : Z) (max_age : option Z) (t0 : tinfo) (st : store) (ev : event)
  : store * option outcome :=
  match ev with
  | Req svc k inm ims up =>
    match load st k up with
    | (st', Some (ci, body)) => (st', Some (serve svc h tps max_age (attach_source t0 (WInfo ci)) body inm ims))
    | (st', None) => (st', Some Err500)
    end
  | Refresh svc k inm ims up =>
    match load_stale st k up with
    | (st', Some (ci, body)) => (st', Some (serve svc h tps max_age (attach_source t0 (WInfo ci)) body inm ims))
    | (st', None) => (st', Some Err500)
    end
  | Rewrite k e => (update st k e, None)
  | Remove k => (remove st k, None)
  end.

(* ---- comparison helpers for the correspondence check ---------------------------------------------------- *)
Definition oZ_eqb := opt_eqb Z.eqb.
Definition ostr_eqb := opt_eqb str_eqb.
Definition resp_eqb (a b : resp) : bool :=
  (r_status a =? r_status b) && oZ_eqb (r_body a) (r_body b) && Bool.eqb (r_ctype a) (r_ctype b)
  && ostr_eqb (r_etag a) (r_etag b) && oZ_eqb (r_lastmod a) (r_lastmod b) && oZ_eqb (r_public a) (r_public b)
  && Bool.eqb (r_nostore a) (r_nostore b).
Definition outcome_eqb (a b : outcome) : bool :=
  match a, b with
  | Resp x, Resp y => resp_eqb x y
  | Err500, Err500 => true
  | _, _ => false
  end.
Definition parsed_eqb (a b : parsed) : bool :=
  match a, b with
  | PNone, PNone => true
  | PSome x, PSome y => x =? y
  | _, _ => false
  end.
Definition stamp_eqb (a b : stamp) : bool := (st_ticks a =? st_ticks b) && str_eqb (st_repr a) (st_repr b).
Definition entry_eqb (a b : entry) : bool :=
  stamp_eqb (e_ts a) (e_ts b) && (e_size a =? e_size b) && (e_body a =? e_body b).
(* the two stores agree on every key of `keys` *)
Definition store_agree (keys : list Z) (a b : store) : bool :=
  forallb (fun k => opt_eqb entry_eqb (lookup a k) (lookup b k)) keys.

(* A request that has loaded tile k (fresh or stale) and then waits for the tile lock while other requests and writers
   (`mid`) run.  Under the lock TileCreator re-checks TileManager.is_cached, which - with an expiry rule, file cache -
   reads the metadata of what is stored NOW into the waiting request's Tile (load_tile_metadata), and the lazily
   opened tile file delivers the bytes stored now; without an expiry rule a request for a stored tile never waits.
   So the waiter answers like a request that starts when it gets the lock: *)
Definition waiter (h : str -> str) (tps : Z) (max_age : option Z) (st_loaded : store) (mid : list event) (ev : event)
  : store * option outcome :=
  step h tps max_age (fst (run h tps max_age st_loaded mid)) ev.
