(* Exact-arithmetic model of mapproxy/grid.py: MetaGrid / MetaTile, of TileSplitter.get_tile
   (mapproxy/image/tile.py) and of the creation strategy TileCreator.create_tiles (mapproxy/cache/tile.py).
   Property C04.  Same conventions as Grid.v: all coordinates and resolutions are integers in units of a
   common quantum, Python's // is Z.div, int(round(x)) is round-half-even of the exact quotient,
   int(round(delta / res, 5)) for delta > 0 is floor(delta / res + 1/200000) (round-half-even to 5 decimals,
   then truncation; the tie k - 0.000005 goes to the even neighbour k * 10^5).
   No proofs here. *)
From Coq Require Import ZArith List Bool.
Import ListNotations.
From MP Require Import Base Grid.
Local Open Scope Z_scope.

Definition coord := (Z * Z * Z)%type.

Record mgrid := mkMG {
  mg_grid : grid;
  msx : Z; msy : Z;        (* meta_size *)
  mbuf : Z                 (* meta_buffer in pixels *)
}.

(* MetaGrid._meta_size *)
Definition meta_size (m : mgrid) (l : Z) : Z * Z :=
  let '(nx, ny) := grid_size (mg_grid m) l in (Z.min (msx m) nx, Z.min (msy m) ny).

(* MetaGrid.main_tile *)
Definition main_tile (m : mgrid) (x y z : Z) : coord :=
  let '(sx, sy) := meta_size m z in (x / sx * sx, y / sy * sy, z).

(* TileGrid._tiles_bbox([a, b]) *)
Definition tiles_bbox (g : grid) (a b : coord) : bbox :=
  let '(ax, ay, az) := a in
  let '(bx, by_, bz) := b in
  merge_bbox (tile_bbox g ax ay az) (tile_bbox g bx by_ bz).

(* MetaGrid.unbuffered_meta_bbox *)
Definition unbuffered_meta_bbox (m : mgrid) (x y z : Z) : bbox :=
  let '(sx, sy) := meta_size m z in
  tiles_bbox (mg_grid m) (x, y, z) (x + sx - 1, y + sy - 1, z).

(* int(round(delta / res, 5)) for delta > 0, res > 0 *)
Definition trunc_px (delta res : Z) : Z := (200000 * delta + res) / (200000 * res).

(* int(round(n / d)) for d > 0: round half to even *)
Definition round_half_even (n d : Z) : Z :=
  let q := n / d in
  let r2 := 2 * (n mod d) in
  if r2 <? d then q else if d <? r2 then q + 1 else if Z.even q then q else q + 1.

Definition buffers := (Z * Z * Z * Z)%type.

(* MetaGrid._buffered_bbox *)
Definition buffered_bbox (m : mgrid) (b : bbox) (l : Z) (limit : bool) : bbox * buffers :=
  let g := mg_grid m in
  let '(minx, miny, maxx, maxy) := b in
  if mbuf m <=? 0 then (b, (0, 0, 0, 0))
  else
    let res := res_at g l in
    let buf := mbuf m in
    let minx := minx - buf * res in
    let miny := miny - buf * res in
    let maxx := maxx + buf * res in
    let maxy := maxy + buf * res in
    if negb limit then ((minx, miny, maxx, maxy), (buf, buf, buf, buf))
    else
      let '(b0, minx') := if minx <? gx0 g then (buf - trunc_px (gx0 g - minx) res, gx0 g) else (buf, minx) in
      let '(b1, miny') := if miny <? gy0 g then (buf - trunc_px (gy0 g - miny) res, gy0 g) else (buf, miny) in
      let '(b2, maxx') := if gx1 g <? maxx then (buf - trunc_px (maxx - gx1 g) res, gx1 g) else (buf, maxx) in
      let '(b3, maxy') := if gy1 g <? maxy then (buf - trunc_px (maxy - gy1 g) res, gy1 g) else (buf, maxy) in
      ((minx', miny', maxx', maxy'), (b0, b1, b2, b3)).

(* MetaGrid._size_from_buffered_bbox *)
Definition size_from_bbox (m : mgrid) (b : bbox) (l : Z) : Z * Z :=
  let '(minx, miny, maxx, maxy) := b in
  let res := res_at (mg_grid m) l in
  (round_half_even (maxx - minx) res, round_half_even (maxy - miny) res).

(* rows from the top of the picture: ascending for 'ul' grids, descending otherwise *)
Definition rows_from_top (g : grid) (miny maxy : Z) : list Z :=
  if ul g then zrange miny maxy else rev (zrange miny maxy).

(* MetaGrid._meta_tile_list (main_tile is applied again to the argument, as the code does) *)
Definition meta_tile_list (m : mgrid) (x y z : Z) (gs : Z * Z) : list (option coord) :=
  let '(minx, miny, z') := main_tile m x y z in
  let maxx := minx + fst gs - 1 in
  let maxy := miny + snd gs - 1 in
  create_tile_list (zrange minx maxx) (rows_from_top (mg_grid m) miny maxy) z' (grid_size (mg_grid m) z').

(* MetaGrid.tile_list *)
Definition tile_list (m : mgrid) (x y z : Z) : list (option coord) :=
  meta_tile_list m x y z (meta_size m z).

Definition pattern := list (option coord * (Z * Z)).

(* MetaGrid._tiles_pattern: tiles[j + i * grid_size[0]] with crop offset (j * tw + buffers[0], i * th + buffers[3]).
   The index is always in range in the two callers (lemma pattern_index_in_range); the default of nth is never used. *)
Definition tiles_pattern (g : grid) (gs : Z * Z) (bufs : buffers) (tiles : list (option coord)) : pattern :=
  let '(b0, _, _, b3) := bufs in
  flat_map (fun i => map (fun j => (nth (Z.to_nat (j + i * fst gs)) tiles None,
                                    (j * tw g + b0, i * th g + b3)))
                         (zrange 0 (fst gs - 1)))
           (zrange 0 (snd gs - 1)).

Record metatile := mkMT {
  mt_bbox : bbox;
  mt_size : Z * Z;
  mt_pattern : pattern;
  mt_grid_size : Z * Z
}.

(* MetaGrid.meta_tile *)
Definition meta_tile (m : mgrid) (x y z : Z) : metatile :=
  let '(x0, y0, z0) := main_tile m x y z in
  let '(bb, bufs) := buffered_bbox m (unbuffered_meta_bbox m x0 y0 z0) z0 true in
  let gs := meta_size m z0 in
  mkMT bb (size_from_bbox m bb z0) (tiles_pattern (mg_grid m) gs bufs (meta_tile_list m x0 y0 z0 gs)) gs.

(* MetaGrid._full_tile_list: tiles.pop() takes the last element, the loop runs over the rest.
   Result: tiles (row by row from the top), grid_size, bounds.  None = IndexError on an empty list. *)
Definition full_tile_list (m : mgrid) (tiles : list coord) : option (list (option coord) * (Z * Z) * (coord * coord)) :=
  match rev tiles with
  | [] => None
  | (lx, ly, z) :: rest =>
    let '(minx, maxx, miny, maxy) :=
      fold_left (fun acc t => let '(minx, maxx, miny, maxy) := acc in
                              let '(x, y, _) := t in
                              (Z.min minx x, Z.max maxx x, Z.min miny y, Z.max maxy y))
                (rev rest) (lx, lx, ly, ly) in
    Some (create_tile_list (zrange minx maxx) (rows_from_top (mg_grid m) miny maxy) z (maxx + 1, maxy + 1),
          (1 + maxx - minx, 1 + maxy - miny),
          ((minx, miny, z), (maxx, maxy, z)))
  end.

(* MetaGrid.minimal_meta_tile.  None = the Python raises (empty list; tiles[0] is None). *)
Definition minimal_meta_tile (m : mgrid) (tiles : list coord) : option metatile :=
  match full_tile_list m tiles with
  | None => None
  | Some (full, gs, (lo, hi)) =>
    match full with
    | Some (_, _, level) :: _ =>
      let '(bb, bufs) := buffered_bbox m (tiles_bbox (mg_grid m) lo hi) (snd lo) true in
      Some (mkMT bb (size_from_bbox m bb level) (tiles_pattern (mg_grid m) gs bufs full) gs)
    | _ => None
    end
  end.

Definition mt_tiles (t : metatile) : list coord :=
  flat_map (fun p => match fst p with Some c => [c] | None => [] end) (mt_pattern t).

(* MetaTile.main_tile_coord *)
Definition main_tile_coord (t : metatile) : option coord := hd_error (mt_tiles t).

(* ---- TileSplitter.get_tile: which rectangle of the meta image is copied where.
   Result: (source rectangle in the meta image, paste position in the new tile, padded?) *)
Definition get_tile_rect (crop : Z * Z) (tsz : Z * Z) (isz : Z * Z) : (Z * Z * Z * Z) * (Z * Z) * bool :=
  let '(minx, miny) := crop in
  let maxx := minx + fst tsz in
  let maxy := miny + snd tsz in
  if (minx <? 0) || (miny <? 0) || (fst isz <? maxx) || (snd isz <? maxy)
  then ((Z.max minx 0, Z.max miny 0, Z.min maxx (fst isz), Z.min maxy (snd isz)),
        (Z.abs (Z.min minx 0), Z.abs (Z.min miny 0)), true)
  else ((minx, miny, maxx, maxy), (0, 0), false).

(* pixel (j, k) of the tile cut at `crop`: the meta image pixel it shows, None = background *)
Definition tile_pixel_src (crop : Z * Z) (tsz : Z * Z) (isz : Z * Z) (j k : Z) : option (Z * Z) :=
  let '(rect, (px, py), _) := get_tile_rect crop tsz isz in
  let '(sx0, sy0, sx1, sy1) := rect in
  let c := sx0 + (j - px) in
  let r := sy0 + (k - py) in
  if (sx0 <=? c) && (c <? sx1) && (sy0 <=? r) && (r <? sy1) then Some (c, r) else None.

(* ---- a picture that depends on ground position only: the value at a point is the index of the
   q-quantum cell containing it (counted from the lower left grid corner), reduced mod 4093.
   A W x H image of bbox b samples the picture at pixel centres. *)
Definition pic_modulus : Z := 4093.
Definition sample_x (g : grid) (q : Z) (b : bbox) (isz : Z * Z) (c : Z) : Z :=
  let '(minx, _, maxx, _) := b in
  (((2 * c + 1) * (maxx - minx) + 2 * fst isz * (minx - gx0 g)) / (2 * fst isz * q)) mod pic_modulus.
Definition sample_y (g : grid) (q : Z) (b : bbox) (isz : Z * Z) (r : Z) : Z :=
  let '(_, miny, _, maxy) := b in
  ((2 * snd isz * (maxy - gy0 g) - (2 * r + 1) * (maxy - miny)) / (2 * snd isz * q)) mod pic_modulus.

(* what the stored tile shows at pixel (j, k) when cut at `crop` out of the upstream image of (b, isz) *)
Definition stored_pixel (g : grid) (q : Z) (b : bbox) (isz : Z * Z) (crop : Z * Z) (j k : Z) : option (Z * Z) :=
  match tile_pixel_src crop (tw g, th g) isz j k with
  | None => None
  | Some (c, r) => Some (sample_x g q b isz c, sample_y g q b isz r)
  end.

(* ---- TileCreator.create_tiles: which upstream requests are made and which tiles each one stores *)
Inductive strategy := Single | Minimal | PerMeta | Bulk.

Definition request := (bbox * (Z * Z))%type.
(* one creation step: the upstream requests it makes, the tiles handed to one store call *)
Definition step := (list request * list coord)%type.

Fixpoint coord_mem (c : coord) (l : list coord) : bool :=
  match l with [] => false | x :: r => coord_eqb c x || coord_mem c r end.

(* the loop "if main_tile not in main_tiles": meta tiles are identified by their main tile *)
Fixpoint dedup_meta (m : mgrid) (tiles : list coord) (seen : list coord) : list metatile :=
  match tiles with
  | [] => []
  | (x, y, z) :: rest =>
    let mt := main_tile m x y z in
    if coord_mem mt seen then dedup_meta m rest seen
    else meta_tile m x y z :: dedup_meta m rest (mt :: seen)
  end.

Definition tile_request (g : grid) (c : coord) : request :=
  let '(x, y, z) := c in (tile_bbox g x y z, (tw g, th g)).

(* has_meta: TileManager built a MetaGrid; minimize: minimize_meta_requests; bulk: bulk_meta_tiles creator *)
Definition create_plan (m : mgrid) (has_meta minimize bulk : bool) (tiles : list coord) : option (list step) :=
  let g := mg_grid m in
  if negb has_meta then Some (map (fun c => ([tile_request g c], [c])) tiles)
  else if minimize && (1 <? Z.of_nat (length tiles)) then
    match minimal_meta_tile m tiles with
    | None => None
    | Some mt => Some [([(mt_bbox mt, mt_size mt)], mt_tiles mt)]
    end
  else
    Some (map (fun mt => if bulk then (map (tile_request g) (mt_tiles mt), mt_tiles mt)
                         else ([(mt_bbox mt, mt_size mt)], mt_tiles mt))
              (dedup_meta m tiles [])).

(* ---- the image stored for one tile, by way of production *)
Fixpoint find_crop (c : coord) (p : pattern) : option (Z * Z) :=
  match p with
  | [] => None
  | (Some c', crop) :: r => if coord_eqb c c' then Some crop else find_crop c r
  | (None, _) :: r => find_crop c r
  end.

Inductive how := HowSingle | HowMeta | HowMinimal (tiles : list coord).

Definition pixel_of_metatile (g : grid) (q : Z) (mt : metatile) (c : coord) (j k : Z) : option (option (Z * Z)) :=
  match find_crop c (mt_pattern mt) with
  | None => None
  | Some crop => Some (stored_pixel g q (mt_bbox mt) (mt_size mt) crop j k)
  end.

(* outer None: the tile is not part of what this way of production stores *)
Definition model_pixel (m : mgrid) (q : Z) (h : how) (c : coord) (j k : Z) : option (option (Z * Z)) :=
  let g := mg_grid m in
  let '(x, y, z) := c in
  match h with
  | HowSingle => Some (stored_pixel g q (tile_bbox g x y z) (tw g, th g) (0, 0) j k)
  | HowMeta => pixel_of_metatile g q (meta_tile m x y z) c j k
  | HowMinimal tiles =>
    match minimal_meta_tile m tiles with
    | None => None
    | Some mt => pixel_of_metatile g q mt c j k
    end
  end.

(* ---- requests on a cache that already holds tiles (TileManager._load_tile_coords + the re-check under the lock).
   cached: the coordinates is_cached answers True for when the request looks for its tiles; only the missing tiles
   are handed to create_tiles.  locked: what is_cached answers later, under the lock of the main tile of a creation
   step (another request may have stored tiles in between; sequentially locked = cached): the step looks again
   whether ALL tiles of the meta tile are cached
   ("if not all(self.is_cached(t) for t in meta_tile.tiles if t is not None)") and then only loads them.
   (Requests without duplicate coordinates: the tiles stored by one step are not among those of a later step.) *)
Definition all_cached (cached : list coord) (tiles : list coord) : bool :=
  forallb (fun c => coord_mem c cached) tiles.

Definition plan_with_caches (m : mgrid) (has_meta minimize bulk : bool) (cached locked tiles : list coord) : option (list step) :=
  let unc := filter (fun c => negb (coord_mem c cached)) tiles in
  match unc with
  | [] => Some []
  | _ =>
    match create_plan m has_meta minimize bulk unc with
    | None => None
    | Some plan => Some (filter (fun st => negb (all_cached locked (snd st))) plan)
    end
  end.

Definition plan_with_cache (m : mgrid) (has_meta minimize bulk : bool) (cached tiles : list coord) : option (list step) :=
  plan_with_caches m has_meta minimize bulk cached cached tiles.

(* ---- upstream faults.  bad: the bboxes whose response is not cacheable (ImageSource.cacheable = False, e.g. the
   substitute image of an on_error handler with cache: false); cut: the bboxes whose response ends in the middle of the
   image data.  _create_single_tile stores "if source.cacheable", _create_meta_tile "if meta_tile_image.cacheable"
   (all tiles or none), _create_bulk_meta_tile stores "[t for t in tiles if t.cacheable]" where
   Tile(coord, cacheable=tile_image.cacheable).  A cut-off meta tile image makes TileSplitter raise
   (PIL: image file is truncated): the step stores nothing, the request fails and the rest of the plan is not run
   (cut is modelled for the meta tile strategies only: single and bulk tiles are not decoded before they are stored). *)
Fixpoint bbox_mem (b : bbox) (l : list bbox) : bool :=
  match l with [] => false | x :: r => bbox_eqb b x || bbox_mem b r end.

Definition step_with_faults (g : grid) (bulk : bool) (bad : list bbox) (st : step) : step :=
  if bulk then (fst st, filter (fun c => negb (bbox_mem (fst (tile_request g c)) bad)) (snd st))
  else if existsb (fun rq => bbox_mem (fst rq) bad) (fst st) then (fst st, []) else st.

(* errs: the bboxes whose upstream request raises SourceError (HTTP error, timeout; no on_error handler).
   _create_single_tile re-raises it (no stale tile to fall back to), _create_meta_tile lets it pass, the bulk creator
   catches only BlankImage in query_tile and re-raises the first exception of its pool: the step stores nothing, the
   request fails, no later request is made (creators run one after the other: concurrent_tile_creators = 1). *)
Fixpoint upto_first_error (errs : list bbox) (rqs : list request) : list request :=
  match rqs with
  | [] => []
  | rq :: r => if bbox_mem (fst rq) errs then [rq] else rq :: upto_first_error errs r
  end.

(* result: the steps that were run, and whether the request failed *)
Fixpoint run_plan_faults (g : grid) (bulk : bool) (bad cut errs : list bbox) (plan : list step) : list step * bool :=
  match plan with
  | [] => ([], false)
  | st :: rest =>
    if existsb (fun rq => bbox_mem (fst rq) errs) (fst st) then ([(upto_first_error errs (fst st), [])], true)
    else if negb bulk && existsb (fun rq => bbox_mem (fst rq) cut) (fst st) then ([(fst st, [])], true)
    else let '(r, failed) := run_plan_faults g bulk bad cut errs rest in
         (step_with_faults g bulk bad st :: r, failed)
  end.

Definition request_with_faults (m : mgrid) (has_meta minimize bulk : bool) (cached : list coord) (bad cut errs : list bbox)
           (tiles : list coord) : option (list request * list coord * bool) :=
  match plan_with_cache m has_meta minimize bulk cached tiles with
  | None => None
  | Some plan =>
    let '(steps, failed) := run_plan_faults (mg_grid m) (has_meta && bulk) bad cut errs plan in
    Some (flat_map fst steps, flat_map snd steps, failed)
  end.

(* ---- colours: a second position-only picture whose four bands all carry information (alpha between 1 and 254
   when the cache is transparent) and what TileSplitter.get_tile stores for a pixel:
   result = create_image(tile_size, image_opts) is the background (bgcolor white, alpha 0 when transparent),
   result.paste(crop, pos) WITHOUT mask copies all bands of the crop unchanged *)
Definition rgba := (Z * Z * Z * Z)%type.
Definition colour_of (transparent : bool) (v : Z * Z) : rgba :=
  let '(vx, vy) := v in
  (vx mod 256, vy mod 256, (vx * 7 + vy * 13) mod 255, if transparent then 1 + (vx + 3 * vy) mod 254 else 255).
Definition background (transparent : bool) : rgba := (255, 255, 255, if transparent then 0 else 255).
Definition stored_colour (transparent : bool) (p : option (Z * Z)) : rgba :=
  match p with None => background transparent | Some v => colour_of transparent v end.
Definition model_colour (m : mgrid) (q : Z) (h : how) (transparent : bool) (c : coord) (j k : Z) : option rgba :=
  match model_pixel m q h c j k with None => None | Some p => Some (stored_colour transparent p) end.
Definition orgba_eqb (a b : option rgba) : bool := opt_eqb Z4_eqb a b.

(* ---- a source with a clipping coverage (TileCreator._query_sources): with one source the shortcut
   "return self.sources[0].get_map(query)" is taken unless the source has a coverage with clip that intersects the
   query bbox; then merge_images clips the image at the coverage (mask_image) and draws it on the background of the
   cache: result = create_image(size, image_opts); result.paste(img, (0, 0), img) - for an opaque RGB cache every band
   becomes div255(s * a + 255 * (255 - a) + 128), outside the coverage the background stays.  (A source whose coverage
   does not intersect the query raises BlankImage: no tile.) *)
Definition takes_merge_path (clip : bool) (cov : option bbox) (q : bbox) : bool :=
  match cov with Some c => clip && bbox_intersects c q | None => false end.
Definition div255 (t : Z) : Z := Z.shiftr (t + Z.shiftr t 8) 8.
Definition blend_on_white (c : rgba) : rgba :=
  let '(r, g, b, a) := c in
  (div255 (r * a + 255 * (255 - a) + 128), div255 (g * a + 255 * (255 - a) + 128), div255 (b * a + 255 * (255 - a) + 128), 255).
(* inside: the pixel lies inside the coverage *)
Definition clipped_colour (inside : bool) (p : option (Z * Z)) : rgba :=
  match p with
  | None => background false
  | Some v => if inside then blend_on_white (colour_of true v) else background false
  end.
Definition model_clip_colour (m : mgrid) (q : Z) (h : how) (inside : bool) (c : coord) (j k : Z) : option rgba :=
  match model_pixel m q h c j k with None => None | Some p => Some (clipped_colour inside p) end.

(* ---- what the cache backend stores: tile.source.as_buffer() -> img_to_buf(img, image_opts) works on a copy of the
   image options ("image_opts = image_opts.copy()": the options object of the cache is never modified, so the result
   does not depend on the tiles encoded before) and keeps the bands of the image (alpha; the tRNS colour of a true
   colour image).  Format `mixed` decides per image: PNG when img_has_transparency(img), else JPEG. *)
Inductive encoding := EncPNG | EncJPEG.
Definition stored_encoding (mixed has_alpha : bool) : encoding :=
  if mixed then (if has_alpha then EncPNG else EncJPEG) else EncPNG.
Definition encoding_eqb (a b : encoding) : bool :=
  match a, b with EncPNG, EncPNG | EncJPEG, EncJPEG => true | _, _ => false end.

(* img_to_buf (image/__init__.py:347-368), the number of colours the encoder quantises to: image_opts.colors, or 255
   when that is None, globals.image.paletted of the base configuration in force is set and the format ends with png;
   format mixed without transparency (JPEG) resets it.  The image is quantised (stored with a palette, PNG mode P) when
   the number is set and not 0.  The result is a function of the image options, the base configuration of the request
   and the image only: it does not depend on which creator (request thread or pool worker) encodes the tile. *)
Definition encode_colors (colors : option Z) (paletted png mixed has_alpha : bool) : option Z :=
  let colors := match colors with
                | None => if paletted && png then Some 255 else None
                | Some c => Some c
                end in
  if mixed && negb has_alpha then None else colors.
Definition quantises (c : option Z) : bool :=
  match c with Some c => negb (c =? 0) | None => false end.
Definition stored_with_palette (colors : option Z) (paletted png mixed has_alpha : bool) : bool :=
  quantises (encode_colors colors paletted png mixed has_alpha).

(* ---- comparison helpers for the correspondence *)
Definition Z2_eqb (a b : Z * Z) : bool := (fst a =? fst b) && (snd a =? snd b).
Definition pat_item_eqb (a b : option coord * (Z * Z)) : bool :=
  ocoord_eqb (fst a) (fst b) && Z2_eqb (snd a) (snd b).
Definition pat_eqb (a b : pattern) : bool := list_eqb pat_item_eqb a b.
Definition metatile_eqb (a b : metatile) : bool :=
  bbox_eqb (mt_bbox a) (mt_bbox b) && Z2_eqb (mt_size a) (mt_size b) &&
  pat_eqb (mt_pattern a) (mt_pattern b) && Z2_eqb (mt_grid_size a) (mt_grid_size b).
Definition ometatile_eqb (a b : option metatile) : bool := opt_eqb metatile_eqb a b.
Definition request_eqb (a b : request) : bool := bbox_eqb (fst a) (fst b) && Z2_eqb (snd a) (snd b).
Definition step_eqb (a b : step) : bool :=
  list_eqb request_eqb (fst a) (fst b) && list_eqb coord_eqb (snd a) (snd b).
Definition plan_eqb (a b : option (list step)) : bool := opt_eqb (list_eqb step_eqb) a b.
Definition opix_eqb (a b : option (Z * Z)) : bool := opt_eqb Z2_eqb a b.
Definition oopix_eqb (a b : option (option (Z * Z))) : bool := opt_eqb opix_eqb a b.
Definition outcome_eqb (a b : option (list request * list coord * bool)) : bool :=
  opt_eqb (fun x y => list_eqb request_eqb (fst (fst x)) (fst (fst y)) &&
                      list_eqb coord_eqb (snd (fst x)) (snd (fst y)) && Bool.eqb (snd x) (snd y)) a b.

