(* C09 lemmas about theories/PathConf.v: the sanitiser (_path_component) removes every separator and NUL and is
   injective; POSIX resolution of join(root, safe components) is root followed by exactly those components;
   every file name the path builders produce is of that form. *)
From Coq Require Import ZArith List Bool String Ascii Arith Lia.
Import ListNotations.
From MP Require Import Base Gen_path Gen_pathconf PathConf.
Local Open Scope Z_scope.

(* ------------------------------------------------------------------ equality on str *)
Lemma str_eqb_eq a b : str_eqb a b = true <-> a = b.
Proof.
  unfold str_eqb. revert b; induction a as [|x a IH]; intros [|y b]; simpl; split; intro H;
    try discriminate; try reflexivity.
  - apply andb_true_iff in H as [H1 H2]. apply Z.eqb_eq in H1. apply IH in H2. subst; reflexivity.
  - injection H as -> ->. rewrite Z.eqb_refl. simpl. apply IH. reflexivity.
Qed.

Lemma str_eqb_neq a b : a <> b -> str_eqb a b = false.
Proof. intro H. destruct (str_eqb a b) eqn:E; [|reflexivity]. apply str_eqb_eq in E. contradiction. Qed.

(* ------------------------------------------------------------------ what "safe" means *)
(* a single directory entry name that path resolution cannot interpret: not empty, no separator, not a dot segment *)
Definition safe (c : str) : Prop := c <> [] /\ ~ In 47 c /\ c <> dot /\ c <> dotdot.
(* ... and neither a Windows separator nor NUL *)
Definition portable_safe (c : str) : Prop := safe c /\ ~ In 92 c /\ ~ In 0 c.

Lemma has_char_not_dots c x : x <> 46 -> In x c -> c <> [] /\ c <> dot /\ c <> dotdot.
Proof.
  intros Hx Hin. repeat split; intro E; subst c; simpl in Hin; intuition congruence.
Qed.

Lemma safe_head c r : c <> 46 -> c <> 47 -> ~ In 47 r -> safe (c :: r).
Proof.
  intros H1 H2 H3. destruct (has_char_not_dots (c :: r) c H1 (or_introl eq_refl)) as [A [B C]].
  repeat split; try assumption. intros [E|E]; [congruence|contradiction].
Qed.

(* ------------------------------------------------------------------ the sanitiser *)
Lemma replace1_in c esc s x : In x (replace1 c esc s) -> (In x s /\ x <> c) \/ In x esc.
Proof.
  unfold replace1. rewrite in_flat_map. intros [y [Hy Hx]].
  destruct (Z.eqb_spec y c).
  - right; exact Hx.
  - destruct Hx as [<-|[]]. left; split; assumption.
Qed.

Lemma replace1_cons c e x s : replace1 c e (x :: s) = (if x =? c then e else [x]) ++ replace1 c e s.
Proof. reflexivity. Qed.

Lemma replace1_app c e a b : replace1 c e (a ++ b) = replace1 c e a ++ replace1 c e b.
Proof. apply flat_map_app. Qed.

Lemma replace1_single c e x : replace1 c e [x] = if x =? c then e else [x].
Proof. unfold replace1. simpl. apply app_nil_r. Qed.

Lemma path_component_unfold s :
  path_component s =
  replace1 0 [37; 48; 48] (replace1 92 [37; 53; 67] (replace1 47 [37; 50; 70] (replace1 37 [37; 50; 53] s))).
Proof. reflexivity. Qed.

Lemma pc_single x :
  replace1 0 [37; 48; 48] (replace1 92 [37; 53; 67] (replace1 47 [37; 50; 70] (if x =? 37 then [37; 50; 53] else [x])))
  = enc1 x.
Proof.
  unfold enc1.
  destruct (Z.eqb_spec x 37) as [->|H1]; [reflexivity|].
  rewrite replace1_single.
  destruct (Z.eqb_spec x 47) as [->|H2]; [reflexivity|].
  rewrite replace1_single.
  destruct (Z.eqb_spec x 92) as [->|H3]; [reflexivity|].
  rewrite replace1_single.
  destruct (Z.eqb_spec x 0) as [->|H4]; reflexivity.
Qed.

(* the four successive str.replace calls are one pass of enc1 *)
Lemma path_component_encode s : path_component s = encode s.
Proof.
  induction s as [|x s IH]; [reflexivity|].
  rewrite path_component_unfold in *. rewrite replace1_cons. rewrite !replace1_app.
  rewrite pc_single. rewrite IH. reflexivity.
Qed.

Lemma enc1_cases x :
  (x = 37 /\ enc1 x = [37; 50; 53]) \/ (x = 47 /\ enc1 x = [37; 50; 70]) \/
  (x = 92 /\ enc1 x = [37; 53; 67]) \/ (x = 0 /\ enc1 x = [37; 48; 48]) \/
  (x <> 37 /\ x <> 47 /\ x <> 92 /\ x <> 0 /\ enc1 x = [x]).
Proof.
  unfold enc1.
  destruct (Z.eqb_spec x 37); [left; auto|].
  destruct (Z.eqb_spec x 47); [right; left; auto|].
  destruct (Z.eqb_spec x 92); [right; right; left; auto|].
  destruct (Z.eqb_spec x 0); [right; right; right; left; auto|].
  right; right; right; right; auto.
Qed.

Lemma enc1_chars x c : In c (enc1 x) -> c <> 47 /\ c <> 92 /\ c <> 0.
Proof.
  destruct (enc1_cases x) as [[_ E]|[[_ E]|[[_ E]|[[_ E]|[A [B [C [D E]]]]]]]]; rewrite E; simpl; intros H;
    repeat split; intro; subst c; intuition congruence.
Qed.

Lemma encode_chars s c : In c (encode s) -> c <> 47 /\ c <> 92 /\ c <> 0.
Proof. unfold encode. rewrite in_flat_map. intros [x [_ H]]. exact (enc1_chars x c H). Qed.

Lemma encode_cons x s : encode (x :: s) = enc1 x ++ encode s.
Proof. reflexivity. Qed.

Lemma encode_app a b : encode (a ++ b) = encode a ++ encode b.
Proof. apply flat_map_app. Qed.

Lemma encode_inj a : forall b, encode a = encode b -> a = b.
Proof.
  induction a as [|x a IH]; intros [|y b] H.
  - reflexivity.
  - exfalso. rewrite encode_cons in H. simpl in H.
    destruct (enc1_cases y) as [[_ E]|[[_ E]|[[_ E]|[[_ E]|[_ [_ [_ [_ E]]]]]]]]; rewrite E in H; discriminate.
  - exfalso. rewrite encode_cons in H. simpl in H.
    destruct (enc1_cases x) as [[_ E]|[[_ E]|[[_ E]|[[_ E]|[_ [_ [_ [_ E]]]]]]]]; rewrite E in H; discriminate.
  - rewrite !encode_cons in H.
    destruct (enc1_cases x) as [[X E]|[[X E]|[[X E]|[[X E]|[X1 [X2 [X3 [X4 E]]]]]]]]; rewrite E in H;
    destruct (enc1_cases y) as [[Y F]|[[Y F]|[[Y F]|[[Y F]|[Y1 [Y2 [Y3 [Y4 F]]]]]]]]; rewrite F in H;
    simpl in H; try (injection H; intros; subst; try congruence; try lia; f_equal; apply IH; assumption).
Qed.

Lemma path_component_inj a b : path_component a = path_component b -> a = b.
Proof. rewrite !path_component_encode. apply encode_inj. Qed.

Lemma path_component_chars s c : In c (path_component s) -> c <> 47 /\ c <> 92 /\ c <> 0.
Proof. rewrite path_component_encode. apply encode_chars. Qed.

(* a dimension directory name: sanitised "<key>-<value>" *)
Lemma dim_component_has_dash k v : In 45 (path_component (k ++ dash :: v)).
Proof.
  rewrite path_component_encode, encode_app, encode_cons. apply in_or_app. right. apply in_or_app. left.
  left. reflexivity.
Qed.

Lemma dim_component_safe k v : portable_safe (path_component (k ++ dash :: v)).
Proof.
  pose proof (dim_component_has_dash k v) as Hd.
  destruct (has_char_not_dots _ 45 ltac:(lia) Hd) as [A [B C]].
  unfold portable_safe, safe. repeat split; try assumption; intro H; apply path_component_chars in H; lia.
Qed.

Lemma dim_component_value_inj k v1 v2 :
  path_component (k ++ dash :: v1) = path_component (k ++ dash :: v2) -> v1 = v2.
Proof.
  intro H. apply path_component_inj in H. apply app_inv_head in H. injection H. auto.
Qed.

(* ------------------------------------------------------------------ splitting and resolving *)
Lemma split47_nonempty s : split47 s <> [].
Proof.
  destruct s as [|c r]; simpl; [discriminate|].
  destruct (c =? 47); [discriminate|]. destruct (split47 r); discriminate.
Qed.

Lemma split47_app_sep p b : split47 (p ++ 47 :: b) = split47 p ++ split47 b.
Proof.
  induction p as [|c r IH]; [reflexivity|].
  simpl. destruct (c =? 47).
  - rewrite IH. reflexivity.
  - rewrite IH. destruct (split47 r) eqn:E; [exfalso; exact (split47_nonempty r E)|]. reflexivity.
Qed.

Lemma split47_nosep a : ~ In 47 a -> split47 a = [a].
Proof.
  induction a as [|c r IH]; intro H; [reflexivity|].
  simpl. destruct (Z.eqb_spec c 47) as [->|Hc]; [exfalso; apply H; left; reflexivity|].
  rewrite IH; [reflexivity|]. intro Hr; apply H; right; exact Hr.
Qed.

Lemma step_safe st c : safe c -> step st c = c :: st.
Proof.
  intros [A [B [C D]]]. unfold step.
  destruct c as [|x c]; [contradiction|]. simpl is_nil. simpl orb.
  rewrite (str_eqb_neq _ _ C), (str_eqb_neq _ _ D). reflexivity.
Qed.

Lemma step_nil st : step st [] = st.
Proof. reflexivity. Qed.

Lemma fold_step_safe cs : forall st, Forall safe cs -> fold_left step cs st = rev cs ++ st.
Proof.
  induction cs as [|c cs IH]; intros st H; [reflexivity|].
  inversion H; subst. simpl. rewrite step_safe by assumption. rewrite IH by assumption.
  rewrite <- app_assoc. reflexivity.
Qed.

Lemma safe_starts47 c : safe c -> starts47 c = false.
Proof.
  intros [A [B _]]. destruct c as [|x c]; [contradiction|]. simpl.
  destruct (Z.eqb_spec x 47) as [->|]; [exfalso; apply B; left; reflexivity|reflexivity].
Qed.

Lemma ends47_snoc p : ends47 p = true -> exists q, p = q ++ [47].
Proof.
  induction p as [|c r IH]; [discriminate|].
  simpl. destruct r as [|d r'].
  - intro H. apply Z.eqb_eq in H. subst. exists []. reflexivity.
  - intro H. destruct (IH H) as [q Hq]. exists (c :: q). rewrite Hq. reflexivity.
Qed.

Lemma starts47_app p b : p <> [] -> starts47 (p ++ b) = starts47 p.
Proof. destruct p; [contradiction|reflexivity]. Qed.

Lemma fold_split_app_sep q b st :
  fold_left step (split47 (q ++ 47 :: b)) st = fold_left step (split47 b) (fold_left step (split47 q) st).
Proof. rewrite split47_app_sep, fold_left_app. reflexivity. Qed.

(* the key fact about posixpath.join: a relative second argument is resolved on top of the first *)
Lemma join1_rel cwd path b :
  starts47 b = false ->
  resolve_rev cwd (join1 path b) = fold_left step (split47 b) (resolve_rev cwd path).
Proof.
  intro Hb. unfold join1. rewrite Hb.
  destruct path as [|c r].
  - simpl. unfold resolve_rev. rewrite Hb. reflexivity.
  - change (is_nil (c :: r) || ends47 (c :: r)) with (ends47 (c :: r)).
    destruct (ends47 (c :: r)) eqn:E.
    + destruct (ends47_snoc _ E) as [q Hq]. rewrite Hq.
      unfold resolve_rev.
      replace ((q ++ [47]) ++ b) with (q ++ 47 :: b) by (rewrite <- app_assoc; reflexivity).
      assert (S : starts47 (q ++ 47 :: b) = starts47 (q ++ [47])) by (destruct q; reflexivity).
      rewrite S. rewrite !fold_split_app_sep. simpl. reflexivity.
    + unfold resolve_rev.
      rewrite (starts47_app (c :: r)) by discriminate.
      rewrite fold_split_app_sep. reflexivity.
Qed.

(* a join argument b that contributes exactly the components cs *)
Definition seg_comps (b : str) (cs : list str) : Prop :=
  starts47 b = false /\ forall st, fold_left step (split47 b) st = rev cs ++ st.

Lemma seg_empty : seg_comps [] [].
Proof. split; [reflexivity|]. intro st. reflexivity. Qed.

Lemma seg_safe c : safe c -> seg_comps c [c].
Proof.
  intro H. split; [apply safe_starts47; exact H|]. intro st.
  destruct H as [A [B [C D]]]. rewrite split47_nosep by assumption. simpl.
  apply step_safe. repeat split; assumption.
Qed.

Lemma join_segs cwd bs : forall css root,
  Forall2 seg_comps bs css ->
  resolve_rev cwd (posix_join root bs) = rev (List.concat css) ++ resolve_rev cwd root.
Proof.
  induction bs as [|b bs IH]; intros css root H; inversion H as [|? cs ? css' Hs Hrest]; subst; [reflexivity|].
  change (posix_join root (b :: bs)) with (posix_join (join1 root b) bs). rewrite (IH css' _ Hrest).
  cbn [List.concat].
  destruct Hs as [Hb Hf].
  rewrite join1_rel by assumption. rewrite Hf. rewrite rev_app_distr, <- app_assoc. reflexivity.
Qed.

Lemma resolve_join_segs cwd root bs css :
  Forall2 seg_comps bs css ->
  resolve cwd (posix_join root bs) = resolve cwd root ++ List.concat css.
Proof.
  intro H. unfold resolve. rewrite (join_segs _ _ _ _ H). rewrite rev_app_distr, rev_involutive. reflexivity.
Qed.

Lemma concat_singletons (cs : list str) : List.concat (map (fun c => [c]) cs) = cs.
Proof. induction cs as [|c cs IH]; [reflexivity|]. simpl. rewrite IH. reflexivity. Qed.

Lemma Forall2_seg_safe cs : Forall safe cs -> Forall2 seg_comps cs (map (fun c => [c]) cs).
Proof. induction 1; constructor; [apply seg_safe; assumption|assumption]. Qed.

(* POSIX resolution of join(root, safe components) = root, then exactly these components *)
Lemma safe_join_resolves cwd root cs :
  Forall safe cs -> resolve cwd (posix_join root cs) = resolve cwd root ++ cs.
Proof.
  intro H. rewrite (resolve_join_segs _ _ _ _ (Forall2_seg_safe _ H)). rewrite concat_singletons. reflexivity.
Qed.

Lemma is_prefix_app a b : is_prefix a (a ++ b) = true.
Proof.
  induction a as [|x a IH]; [reflexivity|]. simpl. rewrite IH.
  rewrite (proj2 (str_eqb_eq x x) eq_refl). reflexivity.
Qed.

Lemma safe_join_confined cwd root cs :
  Forall safe cs -> is_prefix (resolve cwd root) (resolve cwd (posix_join root cs)) = true.
Proof. intro H. rewrite safe_join_resolves by assumption. apply is_prefix_app. Qed.

(* components that merely are not '..' (they may be empty or '.') still cannot leave the root *)
Lemma step_nodotdot st c : c <> dotdot -> step st c = st \/ step st c = c :: st.
Proof.
  intro H. unfold step. destruct (is_nil c || str_eqb c dot); [left; reflexivity|].
  rewrite (str_eqb_neq _ _ H). right; reflexivity.
Qed.

Lemma fold_step_nodotdot cs : forall st,
  Forall (fun c => c <> dotdot) cs -> exists extra, fold_left step cs st = extra ++ st.
Proof.
  induction cs as [|c cs IH]; intros st H.
  - exists []. reflexivity.
  - inversion H; subst. simpl.
    destruct (step_nodotdot st c) as [E|E]; [assumption| |]; rewrite E.
    + apply IH; assumption.
    + destruct (IH (c :: st)) as [ex Hex]; [assumption|]. exists (ex ++ [c]). rewrite Hex, <- app_assoc. reflexivity.
Qed.

Lemma join1_nodotdot cwd root b :
  starts47 b = false -> Forall (fun c => c <> dotdot) (split47 b) ->
  exists below, resolve cwd (join1 root b) = resolve cwd root ++ below.
Proof.
  intros Hb Hn. unfold resolve. rewrite join1_rel by assumption.
  destruct (fold_step_nodotdot _ (resolve_rev (rev cwd) root) Hn) as [ex Hex]. rewrite Hex.
  exists (rev ex). rewrite rev_app_distr. reflexivity.
Qed.

(* ------------------------------------------------------------------ joining safe components gives a segment *)
Lemma join1_rel_starts a b : starts47 a = false -> starts47 b = false -> starts47 (join1 a b) = false.
Proof.
  intros Ha Hb. unfold join1. rewrite Hb. destruct a as [|c r]; [exact Hb|].
  change (is_nil (c :: r) || ends47 (c :: r)) with (ends47 (c :: r)). destruct (ends47 (c :: r)); exact Ha.
Qed.

Lemma posix_join_rel_starts bs : forall a,
  starts47 a = false -> Forall (fun b => starts47 b = false) bs -> starts47 (posix_join a bs) = false.
Proof.
  induction bs as [|b bs IH]; intros a Ha H; [exact Ha|].
  inversion H; subst. simpl. apply IH; [apply join1_rel_starts; assumption|assumption].
Qed.

Lemma seg_join c cs : Forall safe (c :: cs) -> seg_comps (posix_join c cs) (c :: cs).
Proof.
  intro H. inversion H as [|? ? Hc Hcs]; subst.
  assert (Hs : starts47 (posix_join c cs) = false).
  { apply posix_join_rel_starts; [apply safe_starts47; assumption|].
    eapply Forall_impl; [|exact Hcs]. intros; apply safe_starts47; assumption. }
  split; [exact Hs|]. intro st.
  (* resolve_rev with working directory st, for a relative path, is the fold over its components *)
  assert (R : forall p, starts47 p = false -> resolve_rev st p = fold_left step (split47 p) st)
    by (intros p Hp; unfold resolve_rev; rewrite Hp; reflexivity).
  rewrite <- (R _ Hs).
  rewrite (join_segs st cs _ c (Forall2_seg_safe _ Hcs)). rewrite concat_singletons.
  rewrite (R c) by (apply safe_starts47; assumption).
  destruct (seg_safe c Hc) as [_ F]. rewrite F. simpl. rewrite <- app_assoc. reflexivity.
Qed.

(* ------------------------------------------------------------------ dimensions_part *)
Lemma dims_components_safe lower dm : Forall portable_safe (dims_components lower dm).
Proof.
  unfold dims_components. apply Forall_forall. intros c Hc. apply in_map_iff in Hc.
  destruct Hc as [k [<- _]]. apply dim_component_safe.
Qed.

Lemma portable_safe_safe cs : Forall portable_safe cs -> Forall safe cs.
Proof. apply Forall_impl. intros c [H _]. exact H. Qed.

Lemma dims_seg lower dm : seg_comps (dimensions_part lower dm) (dims_components lower dm).
Proof.
  destruct dm as [|kv dm].
  - exact seg_empty.
  - unfold dimensions_part.
    pose proof (portable_safe_safe _ (dims_components_safe lower (kv :: dm))) as H.
    destruct (dims_components lower (kv :: dm)) as [|c cs].
    + exact seg_empty.
    + apply seg_join. exact H.
Qed.

(* ------------------------------------------------------------------ text of numbers *)
Definition digitish (c : Z) : Prop := (48 <= c <= 57) \/ (97 <= c <= 102) \/ c = 45.

Lemma digitish_ok c : digitish c -> c <> 47 /\ c <> 46 /\ c <> 92 /\ c <> 0.
Proof. unfold digitish. lia. Qed.

Lemma digit_char_digitish d : 0 <= d < 16 -> digitish (digit_char d).
Proof. intro H. unfold digit_char, digitish. destruct (Z.ltb_spec d 10); lia. Qed.

Lemma digits_fuel_digitish fuel : forall base n acc,
  1 < base <= 16 -> Forall digitish acc -> Forall digitish (digits_fuel fuel base n acc).
Proof.
  induction fuel as [|f IH]; intros base n acc Hb Ha; [exact Ha|].
  simpl.
  assert (D : digitish (digit_char (n mod base))).
  { apply digit_char_digitish. pose proof (Z.mod_pos_bound n base ltac:(lia)). lia. }
  destruct (n <? base); [constructor; assumption|]. apply IH; [assumption|constructor; assumption].
Qed.

Lemma digits_fuel_nonempty fuel : forall base n acc,
  (fuel <> O \/ acc <> []) -> digits_fuel fuel base n acc <> [].
Proof.
  induction fuel as [|f IH]; intros base n acc H.
  - simpl. destruct H; [contradiction|assumption].
  - simpl. destruct (n <? base); [discriminate|]. apply IH. right. discriminate.
Qed.

Lemma nat_str_digitish base n : 1 < base <= 16 -> Forall digitish (nat_str base n).
Proof. intro H. apply digits_fuel_digitish; [assumption|constructor]. Qed.

Lemma nat_str_nonempty base n : nat_str base n <> [].
Proof. apply digits_fuel_nonempty. left. discriminate. Qed.

Lemma dec_str_digitish n : Forall digitish (dec_str n).
Proof.
  unfold dec_str. destruct (n <? 0).
  - constructor; [right; right; reflexivity|]. apply nat_str_digitish; lia.
  - apply nat_str_digitish; lia.
Qed.

Lemma dec_str_nonempty n : dec_str n <> [].
Proof. unfold dec_str. destruct (n <? 0); [discriminate|apply nat_str_nonempty]. Qed.

Lemma pad_digitish base w n : 1 < base <= 16 -> Forall digitish (pad base w n).
Proof.
  intro H. unfold pad. apply Forall_app. split.
  - destruct (n <? 0); constructor; [right; right; reflexivity|constructor].
  - apply Forall_app. split; [|apply nat_str_digitish; assumption].
    apply Forall_forall. intros c Hc. apply repeat_spec in Hc. subst. left. lia.
Qed.

Lemma pad_nonempty base w n : pad base w n <> [].
Proof.
  unfold pad. intro E. apply app_eq_nil in E as [_ E]. apply app_eq_nil in E as [_ E].
  exact (nat_str_nonempty _ _ E).
Qed.

Lemma flat_dec_digitish l : Forall digitish (flat_map dec_str l).
Proof.
  induction l as [|n l IH]; [constructor|]. simpl. apply Forall_app. split; [apply dec_str_digitish|exact IH].
Qed.

Lemma digitish_no c (d : str) : Forall digitish d -> In c d -> c <> 47 /\ c <> 46 /\ c <> 92 /\ c <> 0.
Proof. intros H Hin. rewrite Forall_forall in H. apply digitish_ok. apply H. exact Hin. Qed.

(* a name that starts with the text of a number, followed by anything without a separator *)
Lemma safe_digit_led d r : d <> [] -> Forall digitish d -> ~ In 47 r -> safe (d ++ r).
Proof.
  intros Hne Hd Hr. destruct d as [|x d]; [contradiction|].
  inversion Hd as [|? ? Hx Hd']; subst. simpl.
  destruct (digitish_ok x Hx) as [A [B _]].
  apply safe_head; try assumption.
  intro H. apply in_app_or in H as [H|H]; [|contradiction].
  destruct (digitish_no 47 d Hd' H) as [K _]. congruence.
Qed.

(* ------------------------------------------------------------------ tile, level and lock file names *)
(* the configured file extension: not empty, no separator, no dot *)
Definition ext_ok (ext : string) : Prop := s2z ext <> [] /\ ~ In 47 (s2z ext) /\ ~ In 46 (s2z ext).

Lemma no47_app (a b : str) : ~ In 47 a -> ~ In 47 b -> ~ In 47 (a ++ b).
Proof. intros Ha Hb H. apply in_app_or in H as [H|H]; contradiction. Qed.

Lemma no47_digitish d : Forall digitish d -> ~ In 47 d.
Proof. intros H Hin. destruct (digitish_no 47 d H Hin) as [K _]. congruence. Qed.

Lemma dot_ext_no47 ext : ext_ok ext -> ~ In 47 (s2z "." ++ s2z ext ++ []).
Proof.
  intros [_ [B _]]. rewrite app_nil_r. apply no47_app; [|exact B].
  simpl. intros [H|[]]. discriminate.
Qed.

(* "<number>" *)
Lemma safe_num d : d <> [] -> Forall digitish d -> safe (d ++ []).
Proof. intros. apply safe_digit_led; auto. Qed.

(* "<number>.<ext>" *)
Lemma safe_num_ext d ext : d <> [] -> Forall digitish d -> ext_ok ext -> safe (d ++ s2z "." ++ s2z ext ++ []).
Proof. intros. apply safe_digit_led; auto. apply dot_ext_no47; assumption. Qed.

(* "<digits, possibly none>.<ext>": the quadkey name *)
Lemma safe_quadkey d ext : Forall digitish d -> ext_ok ext -> safe (d ++ s2z "." ++ s2z ext ++ []).
Proof.
  intros Hd He. destruct d as [|x d]; [|apply safe_num_ext; [discriminate|assumption|assumption]].
  destruct He as [A [B C]]. rewrite app_nil_r. simpl.
  destruct (s2z ext) as [|e r] eqn:E; [contradiction|].
  repeat split.
  - discriminate.
  - intros [H|H]; [discriminate|]. apply B. exact H.
  - discriminate.
  - unfold dotdot. intro H. injection H as H1 H2. apply C. left. exact H1.
Qed.

(* "<letter><number>..." *)
Lemma safe_letter_num l d r : l <> 46 -> l <> 47 -> Forall digitish d -> ~ In 47 r -> safe ((l :: []) ++ d ++ r).
Proof.
  intros. simpl. apply safe_head; try assumption. apply no47_app; [apply no47_digitish; assumption|assumption].
Qed.

Ltac padd := first [ apply pad_digitish; lia | apply dec_str_digitish | apply flat_dec_digitish ].
Ltac padn := first [ apply pad_nonempty | apply dec_str_nonempty ].

Section TilePaths.
  Variable lower : str -> str.
  Variables (cwd : list str) (root : str) (dm : dims) (x y z : Z) (ext : string).
  Hypothesis Hext : ext_ok ext.

  Let D := dims_components lower dm.

  Ltac sf := cbn [flat_map render_tok];
             first [ apply safe_num; [padn|padd]
                   | apply safe_num_ext; [padn|padd|exact Hext]
                   | apply safe_quadkey; [padd|exact Hext] ].
  Ltac seg := apply seg_safe; sf.

  Lemma tile_path_tc :
    exists cs, Forall safe cs /\ List.length cs = 7%nat /\
      resolve cwd (tile_path lower tile_location_tc root dm x y z ext) = resolve cwd root ++ D ++ cs.
  Proof.
    unfold tile_path, tile_location_tc. cbn [map render_comp posix_join_list].
    eexists. split; [|split]; [| |
      erewrite resolve_join_segs;
      [|constructor; [apply dims_seg|]; repeat (constructor; [seg|]); constructor]; cbn [List.concat app]; reflexivity].
    - repeat (apply Forall_cons; [sf|]); apply Forall_nil.
    - reflexivity.
  Qed.

  Lemma tile_path_mp :
    exists cs, Forall safe cs /\ List.length cs = 5%nat /\
      resolve cwd (tile_path lower tile_location_mp root dm x y z ext) = resolve cwd root ++ D ++ cs.
  Proof.
    unfold tile_path, tile_location_mp. cbn [map render_comp posix_join_list].
    eexists. split; [|split]; [| |
      erewrite resolve_join_segs;
      [|constructor; [apply dims_seg|]; repeat (constructor; [seg|]); constructor]; cbn [List.concat app]; reflexivity].
    - repeat (apply Forall_cons; [sf|]); apply Forall_nil.
    - reflexivity.
  Qed.

  Lemma tile_path_tms :
    exists cs, Forall safe cs /\ List.length cs = 3%nat /\
      resolve cwd (tile_path lower tile_location_tms root dm x y z ext) = resolve cwd root ++ D ++ cs.
  Proof.
    unfold tile_path, tile_location_tms. cbn [map render_comp posix_join_list].
    eexists. split; [|split]; [| |
      erewrite resolve_join_segs;
      [|constructor; [apply dims_seg|]; repeat (constructor; [seg|]); constructor]; cbn [List.concat app]; reflexivity].
    - repeat (apply Forall_cons; [sf|]); apply Forall_nil.
    - reflexivity.
  Qed.

  Lemma tile_path_reverse_tms :
    exists cs, Forall safe cs /\ List.length cs = 3%nat /\
      resolve cwd (tile_path lower tile_location_reverse_tms root dm x y z ext) = resolve cwd root ++ D ++ cs.
  Proof.
    unfold tile_path, tile_location_reverse_tms. cbn [map render_comp posix_join_list].
    eexists. split; [|split]; [| |
      erewrite resolve_join_segs;
      [|constructor; [apply dims_seg|]; repeat (constructor; [seg|]); constructor]; cbn [List.concat app]; reflexivity].
    - repeat (apply Forall_cons; [sf|]); apply Forall_nil.
    - reflexivity.
  Qed.

  (* quadkey and arcgis ignore the dimensions (finding F4 of C05): no D in the path *)
  Lemma tile_path_quadkey :
    exists cs, Forall safe cs /\ List.length cs = 1%nat /\
      resolve cwd (tile_path lower tile_location_quadkey root dm x y z ext) = resolve cwd root ++ cs.
  Proof.
    unfold tile_path, tile_location_quadkey. cbn [map render_comp posix_join_list].
    eexists. split; [|split]; [| |
      erewrite resolve_join_segs;
      [|repeat (constructor; [seg|]); constructor]; cbn [List.concat app]; reflexivity].
    - repeat (apply Forall_cons; [sf|]); apply Forall_nil.
    - reflexivity.
  Qed.

  Lemma tile_path_arcgis :
    exists cs, Forall safe cs /\ List.length cs = 3%nat /\
      resolve cwd (tile_path lower tile_location_arcgiscache root dm x y z ext) = resolve cwd root ++ cs.
  Proof.
    assert (S1 : safe (flat_map render_tok [TLit "L"; TPadDec 2 z])).
    { cbn [flat_map render_tok]. apply (safe_letter_num 76); [lia|lia|padd|intros []]. }
    assert (S2 : safe (flat_map render_tok [TLit "R"; TPadHex 8 y])).
    { cbn [flat_map render_tok]. apply (safe_letter_num 82); [lia|lia|padd|intros []]. }
    assert (S3 : safe (flat_map render_tok [TLit "C"; TPadHex 8 x; TLit "."; TStr ext])).
    { cbn [flat_map render_tok]. apply (safe_letter_num 67); [lia|lia|padd|apply dot_ext_no47; exact Hext]. }
    unfold tile_path, tile_location_arcgiscache. cbn [map render_comp posix_join_list].
    eexists. split; [|split]; [| |
      erewrite resolve_join_segs;
      [|repeat (constructor; [apply seg_safe; eassumption|]); constructor]; cbn [List.concat app]; reflexivity].
    - repeat (apply Forall_cons; [assumption|]); apply Forall_nil.
    - reflexivity.
  Qed.

  Lemma level_location_resolves :
    resolve cwd (level_location lower root dm z) = resolve cwd root ++ D ++ [pad 10 2 z].
  Proof.
    unfold level_location.
    erewrite resolve_join_segs;
      [|constructor; [apply dims_seg|]; constructor; [apply seg_safe|constructor]].
    - cbn [List.concat app]. reflexivity.
    - rewrite <- (app_nil_r (pad 10 2 z)). apply safe_num; [padn|padd].
  Qed.
End TilePaths.

Lemma level_name_safe layout level n : level_name layout level = Some n -> safe n.
Proof.
  unfold level_name. intro H.
  destruct (String.eqb layout "tc" || String.eqb layout "mp")%bool.
  - injection H as <-. rewrite <- (app_nil_r (pad 10 2 level)). apply safe_num; [padn|padd].
  - destruct (String.eqb layout "tms").
    + injection H as <-. rewrite <- (app_nil_r (dec_str level)). apply safe_num; [padn|padd].
    + destruct (String.eqb layout "arcgis"); [|discriminate]. injection H as <-.
      apply safe_head; [lia|lia|]. apply no47_digitish. padd.
Qed.

Lemma file_level_location_resolves lower cwd layout root dm level p :
  file_level_location lower layout root dm level = Some p ->
  exists n, safe n /\ resolve cwd p = resolve cwd root ++ dims_components lower dm ++ [n].
Proof.
  unfold file_level_location. destruct (level_name layout level) as [n|] eqn:E; [|discriminate].
  intro H. assert (Hp : p = posix_join root [dimensions_part lower dm; n]) by (injection H; auto). clear H. subst p.
  exists n. split; [exact (level_name_safe _ _ _ E)|].
  erewrite (resolve_join_segs cwd root);
    [|constructor; [apply dims_seg|]; constructor; [apply seg_safe; exact (level_name_safe _ _ _ E)|constructor]].
  cbn [List.concat app]. reflexivity.
Qed.

(* every layout of location_funcs: the file is below root, and all intermediate names are safe *)
Lemma tile_paths_confined_all lower cwd root dm x y z ext layout f :
  ext_ok ext -> location_funcs layout = Some f ->
  exists below, Forall safe below /\ below <> [] /\
    resolve cwd (tile_path lower f root dm x y z ext) = resolve cwd root ++ below.
Proof.
  intros He Hf. unfold location_funcs in Hf.
  pose proof (portable_safe_safe _ (dims_components_safe lower dm)) as HD.
  repeat match type of Hf with
  | (if ?c then _ else _) = _ => destruct c
  end; try discriminate; injection Hf as <-.
  - destruct (tile_path_tc lower cwd root dm x y z ext He) as [cs [A [L E]]].
    exists (dims_components lower dm ++ cs). split; [apply Forall_app; split; assumption|]. split; [|exact E].
    destruct cs; [discriminate|]. intro K. apply app_eq_nil in K as [_ K]. discriminate.
  - destruct (tile_path_mp lower cwd root dm x y z ext He) as [cs [A [L E]]].
    exists (dims_components lower dm ++ cs). split; [apply Forall_app; split; assumption|]. split; [|exact E].
    destruct cs; [discriminate|]. intro K. apply app_eq_nil in K as [_ K]. discriminate.
  - destruct (tile_path_tms lower cwd root dm x y z ext He) as [cs [A [L E]]].
    exists (dims_components lower dm ++ cs). split; [apply Forall_app; split; assumption|]. split; [|exact E].
    destruct cs; [discriminate|]. intro K. apply app_eq_nil in K as [_ K]. discriminate.
  - destruct (tile_path_reverse_tms lower cwd root dm x y z ext He) as [cs [A [L E]]].
    exists (dims_components lower dm ++ cs). split; [apply Forall_app; split; assumption|]. split; [|exact E].
    destruct cs; [discriminate|]. intro K. apply app_eq_nil in K as [_ K]. discriminate.
  - destruct (tile_path_quadkey lower cwd root dm x y z ext He) as [cs [A [L E]]].
    exists cs. split; [assumption|]. split; [|exact E]. destruct cs; discriminate.
  - destruct (tile_path_arcgis lower cwd root dm x y z ext He) as [cs [A [L E]]].
    exists cs. split; [assumption|]. split; [|exact E]. destruct cs; discriminate.
Qed.

(* lock files *)
Lemma lock_name_safe cid x y z : ~ In 47 cid -> safe (lock_name cid x y z).
Proof.
  intro H. unfold lock_name.
  assert (Hin : In 45 (cid ++ dash :: (dec_str x ++ dash :: dec_str y ++ dash :: dec_str z) ++ lck))
    by (apply in_or_app; right; left; reflexivity).
  destruct (has_char_not_dots _ 45 ltac:(lia) Hin) as [A [B C]].
  repeat split; try assumption.
  apply no47_app; [exact H|].
  intros [K|K]; [discriminate|]. revert K. apply no47_app.
  - apply no47_app; [apply no47_digitish, dec_str_digitish|].
    intros [K|K]; [discriminate|]. revert K. apply no47_app; [apply no47_digitish, dec_str_digitish|].
    intros [K|K]; [discriminate|]. revert K. apply no47_digitish, dec_str_digitish.
  - unfold lck. simpl. intuition discriminate.
Qed.

Lemma lock_filename_resolves cwd lock_dir cid x y z :
  ~ In 47 cid ->
  resolve cwd (lock_filename lock_dir cid x y z) = resolve cwd lock_dir ++ [lock_name cid x y z].
Proof.
  intro H. unfold lock_filename. apply safe_join_resolves. constructor; [apply lock_name_safe; exact H|constructor].
Qed.

Lemma lock_paths_confined_lemma cwd lock_dir cid x y z :
  ~ In 47 cid ->
  safe (lock_name cid x y z) /\
  resolve cwd (lock_filename lock_dir cid x y z) = resolve cwd lock_dir ++ [lock_name cid x y z].
Proof. intro H. split; [apply lock_name_safe; assumption|apply lock_filename_resolves; assumption]. Qed.

(* multiapp *)
Lemma until47_no47 s : ~ In 47 (until47 s).
Proof.
  induction s as [|c r IH]; [intros []|]. simpl.
  destruct (Z.eqb_spec c 47); [intros []|]. intros [K|K]; [congruence|contradiction].
Qed.

Lemma app_name_safe p : safe (pop_path p ++ yaml).
Proof.
  assert (Hin : In 121 (pop_path p ++ yaml)) by (apply in_or_app; right; unfold yaml; simpl; auto).
  destruct (has_char_not_dots _ 121 ltac:(lia) Hin) as [A [B C]].
  repeat split; try assumption.
  apply no47_app; [apply until47_no47|]. unfold yaml. simpl. intuition discriminate.
Qed.

Lemma app_filename_resolves cwd base p :
  resolve cwd (app_filename base (pop_path p)) = resolve cwd base ++ [pop_path p ++ yaml].
Proof. unfold app_filename. apply safe_join_resolves. constructor; [apply app_name_safe|constructor]. Qed.

Lemma multiapp_lemma cwd base p :
  safe (pop_path p ++ yaml) /\
  resolve cwd (app_filename base (pop_path p)) = resolve cwd base ++ [pop_path p ++ yaml].
Proof. split; [apply app_name_safe|apply app_filename_resolves]. Qed.

(* demo static files *)
Lemma split47_head r x h t : split47 r = (x :: h) :: t -> exists r', r = x :: r'.
Proof.
  destruct r as [|c r']; simpl; [intro H; discriminate|].
  destruct (c =? 47); [intro H; discriminate|].
  destruct (split47 r'); intro H; injection H as -> _; eexists; reflexivity.
Qed.

Lemma has_dotdot_split s : has_dotdot s = false -> Forall (fun c => c <> dotdot) (split47 s).
Proof.
  induction s as [|c r IH]; intro H.
  - constructor; [discriminate|constructor].
  - assert (Hr : has_dotdot r = false).
    { simpl in H. destruct r as [|d r']; [reflexivity|]. apply orb_false_iff in H as [_ H]. exact H. }
    specialize (IH Hr). simpl. destruct (Z.eqb_spec c 47) as [->|Hc].
    + constructor; [discriminate|exact IH].
    + destruct (split47 r) as [|h t] eqn:E; [constructor; [discriminate|constructor]|].
      inversion IH; subst. constructor; [|assumption].
      unfold dotdot. intro K. injection K as K1 K2. subst c h.
      destruct (split47_head _ _ _ _ E) as [r' ->].
      simpl in H. discriminate.
Qed.

Lemma has_dotdot_lstrip s : has_dotdot s = false -> has_dotdot (lstrip47 s) = false.
Proof.
  induction s as [|c r IH]; intro H; [reflexivity|].
  simpl. destruct (c =? 47); [|exact H].
  apply IH. simpl in H. destruct r; [reflexivity|]. apply orb_false_iff in H as [_ H]. exact H.
Qed.

Lemma lstrip47_rel s : starts47 (lstrip47 s) = false.
Proof.
  induction s as [|c r IH]; [reflexivity|]. simpl. destruct (c =? 47) eqn:E; [exact IH|]. simpl. exact E.
Qed.

Lemma demo_static_confined_lemma cwd tdir p f :
  demo_static_filename tdir p = Some f -> exists below, resolve cwd f = resolve cwd tdir ++ below.
Proof.
  unfold demo_static_filename. destruct (has_dotdot p) eqn:E; [discriminate|]. intro H; injection H as <-.
  simpl. apply join1_nodotdot; [apply lstrip47_rel|]. apply has_dotdot_split, has_dotdot_lstrip, E.
Qed.

(* ------------------------------------------------------------------ ensure_directory / write_atomic / absolute base *)
Lemma ensure_dir_ops_not_existing isdir perm d o :
  In o (ensure_dir_ops isdir perm d) -> isdir (fsop_dir o) = false.
Proof.
  induction d as [|c parent IH]; [intros []|]. simpl.
  destruct (isdir (c :: parent)) eqn:E; [intros []|].
  intro H. apply in_app_or in H as [H|H]; [apply IH; exact H|].
  destruct H as [<-|H]; [exact E|]. destruct perm; [|contradiction].
  destruct H as [<-|[]]. exact E.
Qed.

Lemma ensure_dir_ops_chmod_created isdir perm d x :
  In (Chmod x) (ensure_dir_ops isdir perm d) -> In (Mkdir x) (ensure_dir_ops isdir perm d).
Proof.
  induction d as [|c parent IH]; [intros []|]. simpl.
  destruct (isdir (c :: parent)); [intros []|].
  intro H. apply in_or_app. apply in_app_or in H as [H|H]; [left; apply IH; exact H|].
  right. destruct H as [H|H]; [discriminate|]. destruct perm; [|contradiction].
  destruct H as [H|[]]. injection H as <-. left. reflexivity.
Qed.

Lemma ensure_dir_ops_ancestors isdir perm d o :
  In o (ensure_dir_ops isdir perm d) -> exists below, d = below ++ fsop_dir o.
Proof.
  induction d as [|c parent IH]; [intros []|]. simpl.
  destruct (isdir (c :: parent)); [intros []|].
  intro H. apply in_app_or in H as [H|H].
  - destruct (IH H) as [b Hb]. exists (c :: b). rewrite Hb at 1. reflexivity.
  - destruct H as [<-|H]; [exists []; reflexivity|]. destruct perm; [|contradiction].
    destruct H as [<-|[]]. exists []. reflexivity.
Qed.

Lemma ensure_dir_ops_noperm_no_chmod isdir d x : ~ In (Chmod x) (ensure_dir_ops isdir false d).
Proof.
  induction d as [|c parent IH]; [intros []|]. simpl.
  destruct (isdir (c :: parent)); [intros []|].
  intro H. apply in_app_or in H as [H|H]; [exact (IH H)|]. destruct H as [H|[]]. discriminate.
Qed.

Lemma tmp_name_safe name r : safe name -> safe (name ++ tmp_suffix r).
Proof.
  intros [A [B _]].
  assert (Hin : In 45 (name ++ tmp_suffix r)).
  { apply in_or_app. right. unfold tmp_suffix. apply in_or_app. left. simpl. auto 6. }
  destruct (has_char_not_dots _ 45 ltac:(lia) Hin) as [X [Y Z]].
  repeat split; try assumption.
  apply no47_app; [exact B|]. unfold tmp_suffix. apply no47_app; [|apply no47_digitish, dec_str_digitish].
  simpl. intuition discriminate.
Qed.

Lemma join1_app_suffix p b sfx : b <> [] -> starts47 b = false -> join1 p b ++ sfx = join1 p (b ++ sfx).
Proof.
  intros Hne Hb. unfold join1.
  assert (S : starts47 (b ++ sfx) = false) by (rewrite starts47_app; assumption).
  rewrite Hb, S. destruct (is_nil p || ends47 p); rewrite <- app_assoc; reflexivity.
Qed.

(* the temporary file of write_atomic is a sibling of its target *)
Lemma write_atomic_tmp_sibling cwd dir name r :
  safe name ->
  resolve cwd (join1 dir name ++ tmp_suffix r) = resolve cwd dir ++ [name ++ tmp_suffix r].
Proof.
  intro H. rewrite join1_app_suffix; [|destruct H as [A _]; exact A|apply safe_starts47; exact H].
  change (join1 dir (name ++ tmp_suffix r)) with (posix_join dir [name ++ tmp_suffix r]).
  apply safe_join_resolves. constructor; [apply tmp_name_safe; exact H|constructor].
Qed.

Lemma join1_abs a b : starts47 a = true -> starts47 (join1 a b) = true.
Proof.
  intro Ha. unfold join1. destruct (starts47 b) eqn:Hb; [exact Hb|].
  destruct a as [|c r]; [discriminate|].
  destruct (is_nil (c :: r) || ends47 (c :: r)); exact Ha.
Qed.

Lemma posix_join_abs ps : forall a, starts47 a = true -> starts47 (posix_join a ps) = true.
Proof.
  induction ps as [|b ps IH]; intros a Ha; [exact Ha|]. simpl. apply IH. apply join1_abs. exact Ha.
Qed.

(* paths built on an absolute base mean the same whatever the working directory is *)
Lemma absolute_base_cwd_independent base ps c1 c2 :
  starts47 base = true -> resolve c1 (posix_join base ps) = resolve c2 (posix_join base ps).
Proof.
  intro H. unfold resolve, resolve_rev. rewrite (posix_join_abs ps base H). reflexivity.
Qed.

(* ... and with a relative base they do not: the same configured text names two different directories *)
Lemma relative_base_follows_cwd :
  exists base ps c1 c2, resolve c1 (posix_join base ps) <> resolve c2 (posix_join base ps).
Proof. exists [], [[99]], [[97]], [[98]]. vm_compute. discriminate. Qed.

Example ensure_dir_example :
  ensure_dir_ops (fun d => Nat.leb (List.length d) 1) true [[99]; [98]; [97]]
  = [Mkdir [[98]; [97]]; Chmod [[98]; [97]]; Mkdir [[99]; [98]; [97]]; Chmod [[99]; [98]; [97]]].
Proof. vm_compute. reflexivity. Qed.

(* the relative link of a single colour tile leads to its target from wherever the tile lies *)
Lemma strip_common_spec a : forall b p s,
  strip_common a b = (p, s) -> exists c, a = c ++ p /\ b = c ++ s.
Proof.
  induction a as [|x a IH]; intros b p s H.
  - simpl in H. injection H as <- <-. exists []. split; reflexivity.
  - destruct b as [|y b].
    + simpl in H. injection H as <- <-. exists []. split; reflexivity.
    + simpl in H. destruct (str_eqb x y) eqn:E.
      * apply str_eqb_eq in E. subst y. destruct (IH b p s H) as [c [Ha Hb]].
        exists (x :: c). rewrite Ha at 1. rewrite Hb at 1. split; reflexivity.
      * injection H as <- <-. exists []. split; reflexivity.
Qed.

Lemma step_dotdot st : step st dotdot = tl st.
Proof. reflexivity. Qed.

Lemma fold_step_dotdots n : forall st, fold_left step (repeat dotdot n) st = skipn n st.
Proof.
  induction n as [|n IH]; intro st; [reflexivity|].
  simpl repeat. simpl fold_left. rewrite step_dotdot. rewrite IH. destruct st; [destruct n; reflexivity|reflexivity].
Qed.

Lemma relpath_resolves path start :
  Forall safe path -> fold_left step (relpath_comps path start) (rev start) = rev path.
Proof.
  intro Hs. unfold relpath_comps. destruct (strip_common path start) as [p s] eqn:E.
  destruct (strip_common_spec _ _ _ _ E) as [c [Hp Hst]]. subst path start.
  rewrite fold_left_app, fold_step_dotdots. rewrite rev_app_distr.
  rewrite <- (rev_length s). rewrite skipn_app, skipn_all, Nat.sub_diag. simpl.
  apply Forall_app in Hs as [_ Hp]. rewrite (fold_step_safe p _ Hp). rewrite rev_app_distr. reflexivity.
Qed.

(* a prefix computed for a tile below k more directories is k levels too long for a tile at the usual depth *)
Example memoised_link_prefix_escapes :
  fold_left step (relpath_comps [[114]; [115]; [99]] [[114]; [116]; [49]; [48]]) (rev [[114]; [48]]) = [[99]; [115]].
Proof. vm_compute. reflexivity. Qed.

(* the legend file: for a digest made of hex digits, one safe name directly in the legend cache directory *)
Lemma legend_location_resolves cwd cache_dir h ext :
  h <> [] -> Forall digitish h -> ~ In 47 (s2z ext) ->
  safe (h ++ 46 :: s2z ext) /\
  resolve cwd (legend_location cache_dir h ext) = resolve cwd cache_dir ++ [h ++ 46 :: s2z ext].
Proof.
  intros Hne Hd He.
  assert (S : safe (h ++ 46 :: s2z ext)).
  { apply safe_digit_led; try assumption. intros [K|K]; [discriminate|contradiction]. }
  split; [exact S|]. unfold legend_location.
  assert (Sh : safe (h ++ [])) by (apply safe_num; assumption). rewrite app_nil_r in Sh.
  rewrite join1_app_suffix; [|exact Hne|apply safe_starts47; exact Sh].
  change (join1 cache_dir (h ++ 46 :: s2z ext)) with (posix_join cache_dir [h ++ 46 :: s2z ext]).
  apply safe_join_resolves. constructor; [exact S|constructor].
Qed.

(* the single colour file: two safe names below the cache directory, whatever tile links to it *)
Lemma hex2_digitish v : 0 <= v < 256 -> Forall digitish (hex2 v).
Proof.
  intro H. unfold hex2. constructor; [|constructor; [|constructor]]; apply digit_char_digitish.
  - split; [apply Z.div_pos; lia | apply Z.div_lt_upper_bound; lia].
  - apply Z.mod_pos_bound; lia.
Qed.

Lemma hexcolor_digitish color : Forall (fun v => 0 <= v < 256) color -> Forall digitish (flat_map hex2 color).
Proof.
  induction 1 as [|v c Hv Hc IH]; cbn [flat_map]; [constructor|].
  apply Forall_app; split; [apply hex2_digitish; assumption|exact IH].
Qed.

Lemma sct_name_safe : safe sct_name.
Proof.
  unfold safe. split; [intro H; vm_compute in H; discriminate H|].
  split; [|split; intro H; vm_compute in H; discriminate H].
  intro H. vm_compute in H. repeat (destruct H as [H|H]; [discriminate H|]). exact H.
Qed.

Lemma single_color_location_resolves cwd cache_dir color ext :
  color <> [] -> Forall (fun v => 0 <= v < 256) color -> ~ In 47 (s2z ext) ->
  safe (flat_map hex2 color ++ 46 :: s2z ext) /\
  resolve cwd (single_color_location cache_dir color ext) =
  resolve cwd cache_dir ++ [sct_name; flat_map hex2 color ++ 46 :: s2z ext].
Proof.
  intros Hne Hc He.
  assert (S : safe (flat_map hex2 color ++ 46 :: s2z ext)).
  { apply safe_digit_led; [| apply hexcolor_digitish; assumption | intros [K|K]; [discriminate|contradiction]].
    destruct color as [|v c]; [contradiction|]. cbn [flat_map]. unfold hex2. cbn [app]. discriminate. }
  split; [exact S|]. unfold single_color_location. apply safe_join_resolves.
  constructor; [exact sct_name_safe|]. constructor; [exact S|constructor].
Qed.

(* the doctest of _single_color_tile_location: FileCache('/tmp/cache/', 'png'), colour (254, 0, 4) *)
Example single_color_location_example :
  single_color_location (s2z "/tmp/cache/") [254; 0; 4] "png" = s2z "/tmp/cache/single_color_tiles/fe0004.png"
  /\ resolve [] (single_color_location (s2z "/tmp/cache/") [254; 0; 4] "png")
     = resolve [] (s2z "/tmp/cache/") ++ [sct_name; s2z "fe0004.png"].
Proof. split; vm_compute; reflexivity. Qed.

(* with the request's SCALE text in the name (the code must not do that) the legend file leaves the directory *)
Example legend_raw_scale_escapes :
  is_prefix (resolve [] [47; 108]) (resolve [] (legend_location [47; 108] ([97; 45] ++ [46; 46; 47; 46; 46; 47; 46; 46; 47; 120]) "png")) = false.
Proof. vm_compute. reflexivity. Qed.

(* ------------------------------------------------------------------ non-vacuity *)
Definition t_time : str := [116; 105; 109; 101].        (* "time" *)
Definition t_attack : str := [46; 46; 47; 46; 46; 47; 46; 46; 47; 120].   (* "../../../x" *)
Definition t_root : str := [47; 99; 47; 114].           (* "/c/r" *)

(* the fixed code: the attack value stays one directory below the cache root *)
Example sanitised_attack_stays_inside :
  resolve [] (tile_path py_lower tile_location_tms t_root [(t_time, t_attack)] 3 4 2 "png")
  = [[99]; [114]; [116; 105; 109; 101; 45; 46; 46; 37; 50; 70; 46; 46; 37; 50; 70; 46; 46; 37; 50; 70; 120]; [50]; [51]; [52; 46; 112; 110; 103]].
Proof. vm_compute. reflexivity. Qed.

(* the same request without the sanitiser (the code before the repair of finding F7) leaves the root:
   the hypothesis `safe` of safe_join_resolves cannot be dropped *)
Example unsanitised_attack_escapes :
  is_prefix (resolve [] t_root)
            (resolve [] (posix_join t_root [t_time ++ dash :: t_attack; [50]; [51]; [52; 46; 112; 110; 103]])) = false.
Proof. vm_compute. reflexivity. Qed.

Example ext_ok_png : ext_ok "png".
Proof. unfold ext_ok. simpl. repeat split; try discriminate; intuition discriminate. Qed.

Example safe_example : Forall safe [[97]; [46; 46; 46]; [45; 49]].
Proof.
  repeat constructor; try discriminate; simpl; intuition discriminate.
Qed.

Example encode_example : path_component [37; 47; 92; 0; 46; 46] = [37; 50; 53; 37; 50; 70; 37; 53; 67; 37; 48; 48; 46; 46].
Proof. vm_compute. reflexivity. Qed.

(* two texts that a non-injective escaping ('/' -> '_', or forgetting to escape '%') would identify *)
Example encode_distinguishes : path_component [97; 47; 98] <> path_component [97; 37; 50; 70; 98].
Proof. vm_compute. discriminate. Qed.

Example lock_example :
  resolve [] (lock_filename [47; 108] [97; 98] 3 (-4) 2) = [[108]; [97; 98; 45; 51; 45; 45; 52; 45; 50; 46; 108; 99; 107]].
Proof. vm_compute. reflexivity. Qed.

Example multiapp_example :
  resolve [] (app_filename [47; 99] (pop_path [47; 46; 46; 47; 120])) = [[99]; [46; 46; 46; 121; 97; 109; 108]].
Proof. vm_compute. reflexivity. Qed.

Example demo_example :
  demo_static_filename [47; 116] [47; 100; 47; 46; 47; 120] = Some [47; 116; 47; 100; 47; 46; 47; 120]
  /\ demo_static_filename [47; 116] [47; 100; 47; 46; 46; 47; 120] = None.
Proof. vm_compute. split; reflexivity. Qed.

(* NOT true: injectivity in the (name, value) pair.  The directory name is "<name>-<value>" and '-' may occur in
   both, so DIM_A-B=c and DIM_A=b-c share the directory "dim_a-b-c" (both names pass the WMS dimension filter).
   This does not touch confinement; it is recorded for C05 ("tiles that differ in a dimension"). *)
Lemma dimension_name_value_split_ambiguous :
  exists d1 d2 : dims, d1 <> d2 /\ dimensions_part py_lower d1 = dimensions_part py_lower d2.
Proof.
  exists [([100; 105; 109; 95; 97; 45; 98], [99])], [([100; 105; 109; 95; 97], [98; 45; 99])].
  split; [discriminate|]. vm_compute. reflexivity.
Qed.
