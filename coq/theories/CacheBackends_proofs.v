(* C05  The refinement theorems per back-end, assembled from CacheMap_proofs (keyed store), CachePath_proofs
   (injectivity of the generated path / slot functions) and FileCache_proofs (links). *)
From Coq Require Import ZArith NArith List Bool String Ascii Arith Lia.
Import ListNotations.
From MP Require Import Base Gen_path Gen_compact Gen_sqlbatch CacheMap CacheMap_proofs CachePath_proofs.
From MP Require Import FileCache FileCache_proofs SqlCache SqlCache_proofs CacheBackends.
Local Open Scope string_scope.
Local Open Scope Z_scope.

(* ------------------------------------------------------------------ single_color_dir_disjoint *)
(* a single-colour file is  single_color_tiles/<rrggbb[aa]>.<ext>  (two components below cache_dir); no tile path of
   the six layouts has two components *)
Lemma sc_path_length : forall ext c, List.length (sc_path ext c) = 2%nat.
Proof. reflexivity. Qed.

Lemma disj_by_length : forall (f : layout_fun) ext (V : addr -> Prop),
  (forall a, V a -> List.length (file_key f ext a) <> 2%nat) ->
  forall a c, V a -> floc f ext a <> sc_path ext c.
Proof. intros f ext V H a c Va E. apply (H a Va). unfold floc in E. rewrite E. reflexivity. Qed.

Lemma len_tc : forall ext a, List.length (file_key tile_location_tc ext a) = (List.length (dims_part (adims a)) + 7)%nat.
Proof. intros. unfold file_key, tile_location_tc, render_path. cbn [flat_map render_comp app]. rewrite app_length. reflexivity. Qed.
Lemma len_mp : forall ext a, List.length (file_key tile_location_mp ext a) = (List.length (dims_part (adims a)) + 5)%nat.
Proof. intros. unfold file_key, tile_location_mp, render_path. cbn [flat_map render_comp app]. rewrite app_length. reflexivity. Qed.
Lemma len_tms : forall ext a, List.length (file_key tile_location_tms ext a) = (List.length (dims_part (adims a)) + 3)%nat.
Proof. intros. unfold file_key, tile_location_tms, render_path. cbn [flat_map render_comp app]. rewrite app_length. reflexivity. Qed.
Lemma len_rtms : forall ext a, List.length (file_key tile_location_reverse_tms ext a) = (List.length (dims_part (adims a)) + 3)%nat.
Proof. intros. unfold file_key, tile_location_reverse_tms, render_path. cbn [flat_map render_comp app]. rewrite app_length. reflexivity. Qed.
Lemma len_quadkey : forall ext a, List.length (file_key tile_location_quadkey ext a) = 1%nat.
Proof. reflexivity. Qed.
Lemma len_arcgis : forall ext a, List.length (file_key tile_location_arcgiscache ext a) = 3%nat.
Proof. reflexivity. Qed.

(* ------------------------------------------------------------------ file back-ends *)
Lemma file_backend_refines : forall lay f link (V : addr -> Prop) npix,
  location_funcs lay = Some f ->
  (forall a b, V a -> V b -> file_key f "png" a = file_key f "png" b -> a = b) ->
  (forall a, V a -> List.length (file_key f "png" a) <> 2%nat) ->
  forall ops, Forall (fop_ok V npix) ops -> model_outs (BFile lay link) ops = spec_outs ops.
Proof.
  intros lay f link V npix Hl Hinj Hlen ops Hok. unfold model_outs, spec_outs. rewrite Hl.
  apply (file_refines_spec f "png" link V npix); try assumption.
  apply disj_by_length. exact Hlen.
Qed.

Theorem file_tc_refines : forall link ks npix ops, NoDup ks -> Forall (fop_ok (file_valid ks) npix) ops ->
  model_outs (BFile "tc" link) ops = spec_outs ops.
Proof.
  intros link ks npix ops Hn. apply (file_backend_refines "tc" tile_location_tc); [reflexivity | |].
  - intros a b. apply file_key_tc_inj. exact Hn.
  - intros a _. rewrite len_tc. lia.
Qed.

Theorem file_mp_refines : forall link ks npix ops, NoDup ks -> Forall (fop_ok (file_valid ks) npix) ops ->
  model_outs (BFile "mp" link) ops = spec_outs ops.
Proof.
  intros link ks npix ops Hn. apply (file_backend_refines "mp" tile_location_mp); [reflexivity | |].
  - intros a b. apply file_key_mp_inj. exact Hn.
  - intros a _. rewrite len_mp. lia.
Qed.

Theorem file_tms_refines : forall link ks npix ops, NoDup ks -> Forall (fop_ok (file_valid ks) npix) ops ->
  model_outs (BFile "tms" link) ops = spec_outs ops.
Proof.
  intros link ks npix ops Hn. apply (file_backend_refines "tms" tile_location_tms); [reflexivity | |].
  - intros a b. apply file_key_tms_inj. exact Hn.
  - intros a _. rewrite len_tms. lia.
Qed.

Theorem file_reverse_tms_refines : forall link ks npix ops, NoDup ks -> Forall (fop_ok (file_valid ks) npix) ops ->
  model_outs (BFile "reverse_tms" link) ops = spec_outs ops.
Proof.
  intros link ks npix ops Hn. apply (file_backend_refines "reverse_tms" tile_location_reverse_tms); [reflexivity | |].
  - intros a b. apply file_key_reverse_tms_inj. exact Hn.
  - intros a _. rewrite len_rtms. lia.
Qed.

Theorem file_arcgis_refines : forall link d0 npix ops, Forall (fop_ok (nodim_valid d0) npix) ops ->
  model_outs (BFile "arcgis" link) ops = spec_outs ops.
Proof.
  intros link d0 npix ops. apply (file_backend_refines "arcgis" tile_location_arcgiscache); [reflexivity | |].
  - intros a b. apply file_key_arcgis_inj.
  - intros a _. rewrite len_arcgis. lia.
Qed.

Theorem file_quadkey_refines : forall link d0 npix ops, Forall (fop_ok (quad_valid d0) npix) ops ->
  model_outs (BFile "quadkey" link) ops = spec_outs ops.
Proof.
  intros link d0 npix ops. apply (file_backend_refines "quadkey" tile_location_quadkey); [reflexivity | |].
  - intros a b. apply file_key_quadkey_inj.
  - intros a _. rewrite len_quadkey. lia.
Qed.

(* ------------------------------------------------------------------ finding F4: the full statements are false *)
(* arcgis / quadkey: two addresses that differ only in a dimension value share the path *)
Lemma arcgis_dimensions_refuted :
  exists a b, file_valid [s2t "time"] a /\ file_valid [s2t "time"] b /\ a <> b /\
              file_key tile_location_arcgiscache "png" a = file_key tile_location_arcgiscache "png" b.
Proof.
  exists (A 1 1 1 [("time", "a")]), (A 1 1 1 [("time", "b")]).
  repeat split; try (cbn; lia); try discriminate.
Qed.

Lemma quadkey_dimensions_refuted :
  exists a b, file_valid [s2t "time"] a /\ file_valid [s2t "time"] b /\ a <> b /\
              file_key tile_location_quadkey "png" a = file_key tile_location_quadkey "png" b.
Proof.
  exists (A 1 1 1 [("time", "a")]), (A 1 1 1 [("time", "b")]).
  repeat split; try (cbn; lia); try discriminate.
Qed.

(* quadkey: non-negative coordinates outside the quad range collide even without dimensions *)
Lemma quadkey_range_refuted :
  exists a b, nodim_valid [] a /\ nodim_valid [] b /\ a <> b /\
              file_key tile_location_quadkey "png" a = file_key tile_location_quadkey "png" b.
Proof.
  exists (A 0 0 0 []), (A 1 0 0 []). repeat split; try (cbn; lia); try discriminate.
Qed.

(* and the histories: a store under TIME=b changes what TIME=a returns *)
Definition f4_history : list op :=
  [Store (A 1 1 1 [("time", "a")]) [3; 1; 2; 3; 4]; Store (A 1 1 1 [("time", "b")]) [3; 5; 6; 7; 8]; Load (A 1 1 1 [("time", "a")])].

Lemma arcgis_refines_map_refuted :
  exists ops, Forall (fop_ok (file_valid [s2t "time"]) 4) ops /\ model_outs (BFile "arcgis" LNone) ops <> spec_outs ops.
Proof.
  exists f4_history. split.
  - unfold f4_history, fop_ok, op_ok, payload_ok, file_valid, coords_ok, colour.
    repeat constructor; cbn; try lia.
  - intros E. vm_compute in E. discriminate.
Qed.

Lemma quadkey_refines_map_refuted :
  exists ops, Forall (fop_ok (nodim_valid []) 4) ops /\ model_outs (BFile "quadkey" LNone) ops <> spec_outs ops.
Proof.
  exists [Store (A 0 0 0 []) [3; 1; 2; 3; 4]; Store (A 1 0 0 []) [3; 5; 6; 7; 8]; Load (A 0 0 0 [])]. split.
  - unfold fop_ok, op_ok, payload_ok, nodim_valid, coords_ok, colour. repeat constructor; cbn; try lia.
  - intros E. vm_compute in E. discriminate.
Qed.

(* ------------------------------------------------------------------ compact caches *)
Lemma compact_key_eqb_eq : forall x y, compact_key_eqb x y = true <-> x = y.
Proof.
  intros [p1 o1] [p2 o2]. unfold compact_key_eqb. cbn [fst snd]. rewrite andb_true_iff, path_eqb_eq, Z.eqb_eq.
  split; [intros [-> ->]; reflexivity | intros E; injection E as -> ->; split; reflexivity].
Qed.

Theorem compact_refines : forall v2 d0 ops, ops_ok (compact_valid d0) ops ->
  model_outs (BCompact v2) ops = spec_outs ops.
Proof.
  intros v2 d0 ops Hok. unfold model_outs, spec_outs.
  apply (kv_refines_spec compact_key_eqb (compact_key v2) (compact_valid d0)); [|exact Hok].
  apply key_inj_on_intro; [apply compact_key_eqb_eq|]. intros a b. apply compact_key_inj.
Qed.

(* ------------------------------------------------------------------ sqlite back-ends *)
Definition sql_valid (d0 : dims) (a : addr) : Prop := adims a = d0.

Lemma coord_of_inj : forall d0 a b, sql_valid d0 a -> sql_valid d0 b -> coord_of a = coord_of b -> a = b.
Proof.
  intros d0 [x y z d] [x' y' z' d'] Ha Hb E. unfold sql_valid, coord_of in *. cbn [ax ay az adims] in *.
  injection E as -> -> ->. subst. reflexivity.
Qed.

(* the one-database back-ends are the keyed store over (x, y, level): the bulk load returns what the per-tile
   loads return (SqlCache_proofs.bulk_load_correct), also for requests that repeat a coordinate *)
Lemma sql_run_kv : forall p, good_params p -> forall ops d, db_wf d ->
  sql_run p d ops = kv_run Z3_eqb coord_of d ops.
Proof.
  intros p G. induction ops as [|o r IH]; intros d Hw; [reflexivity|].
  cbn [sql_run kv_run].
  assert (E : sql_step p d o = kv_step Z3_eqb coord_of d o).
  { destruct o; try reflexivity. cbn [sql_step kv_step]. rewrite (bulk_load_correct p d _ G Hw).
    rewrite map_map. reflexivity. }
  assert (W : db_wf (fst (kv_step Z3_eqb coord_of d o))).
  { destruct o; cbn [kv_step fst]; try exact Hw.
    - apply db_wf_put. exact Hw.
    - apply db_wf_fold_put. exact Hw.
    - apply db_wf_del. exact Hw. }
  rewrite E. destruct (kv_step Z3_eqb coord_of d o) as [d' x]. cbn [fst] in W. rewrite IH by exact W. reflexivity.
Qed.

Theorem sql_refines : forall d0 ops, ops_ok (sql_valid d0) ops ->
  model_outs BMbtiles ops = spec_outs ops /\ model_outs BGpkg ops = spec_outs ops.
Proof.
  intros d0 ops Hok. unfold model_outs, spec_outs.
  rewrite (sql_run_kv _ mbtiles_params_good), (sql_run_kv _ gpkg_params_good) by constructor.
  split; apply (kv_refines_spec Z3_eqb coord_of (sql_valid d0)); try exact Hok;
    (apply key_inj_on_intro; [apply Z3_eqb_eq | intros a b; apply coord_of_inj]).
Qed.

(* ------------------------------------------------------------------ non-vacuity *)
Example tc_history_example :
  let ops := [Store (A 999 0 0 [("time", "a")]) [3; 7; 7; 7; 7]; Store (A 1000 0 0 [("time", "a")]) [3; 7; 7; 7; 7];
              Store (A 999 0 0 [("time", "b")]) [3; 1; 2; 3; 4]; Remove (A 1000 0 0 [("time", "a")]);
              LoadMany [A 999 0 0 [("time", "a")]; A 1000 0 0 [("time", "a")]; A 999 0 0 [("time", "b")]]] in
  Forall (fop_ok (file_valid [s2t "time"]) 4) ops /\
  model_outs (BFile "tc" LSym) ops = [ODone; ODone; ODone; ODone; OLoadMany false [Some [3; 7; 7; 7; 7]; None; Some [3; 1; 2; 3; 4]]].
Proof.
  split.
  - unfold fop_ok, op_ok, payload_ok, file_valid, coords_ok, colour. repeat constructor; cbn; try lia.
  - vm_compute. reflexivity.
Qed.

Example quad_valid_example : quad_valid [] (A 5 2 3 []) /\ compact_valid [] (A 127 128 0 []).
Proof. unfold quad_valid, compact_valid, coords_ok. cbn. repeat split; lia. Qed.
(* ------------------------------------------------------------------ one database per level *)
Section LevelRefine.
  Variable p : bparams.
  Hypothesis Gp : good_params p.
  Variable d0 : dims.

  Notation V := (sql_valid d0).
  Let Hinj : @key_inj_on (Z * Z * Z) V Z3_eqb coord_of.
  Proof. apply key_inj_on_intro; [apply Z3_eqb_eq | intros a b; apply coord_of_inj]. Qed.

  Notation dimg := (img coord_of V).

  Definition linv (s : ldb) : Prop := forall l, dimg (ldb_get s l) /\ db_wf (ldb_get s l).
  Definition lrel (s : ldb) (m : smap) : Prop := forall a, V a -> db_get (ldb_get s (az a)) (coord_of a) = m a.

  Lemma ldb_get_set : forall s l d l', ldb_get (ldb_set s l d) l' = if Z.eqb l l' then d else ldb_get s l'.
  Proof.
    induction s as [|[k e] s IH]; intros l d l'; cbn [ldb_set ldb_get].
    - destruct (Z.eqb l l'); reflexivity.
    - destruct (Z.eqb_spec k l) as [->|N]; cbn [ldb_get].
      + destruct (Z.eqb l l'); reflexivity.
      + rewrite IH. destruct (Z.eqb_spec k l') as [->|N2]; [|reflexivity].
        destruct (Z.eqb_spec l l'); [congruence | reflexivity].
  Qed.

  Lemma db_get_put : forall D a b v, dimg D -> V a -> V b ->
    db_get (db_put D (coord_of a) v) (coord_of b) = if addr_eqb b a then Some v else db_get D (coord_of b).
  Proof.
    intros D a b v Hi Va Vb. unfold db_get, db_put, kv_put. cbn [kv_get].
    rewrite (Hinj a b Va Vb), (addr_eqb_sym a b). destruct (addr_eqb b a) eqn:E; [reflexivity|].
    rewrite (kv_get_del Z3_eqb coord_of V Hinj) by assumption. rewrite E. reflexivity.
  Qed.

  Lemma lput_ok : forall s m a b, linv s -> V a -> lrel s m ->
    linv (lput s a b) /\ lrel (lput s a b) (supd m a (Some b)).
  Proof.
    intros s m a b Hi Va Hr. unfold lput. split.
    - intros l. rewrite ldb_get_set. destruct (Z.eqb (az a) l); [|apply Hi]. split.
      + apply (img_put Z3_eqb coord_of V); [apply Hi | exact Va].
      + apply db_wf_put. apply Hi.
    - intros a' Va'. rewrite ldb_get_set. unfold supd. destruct (Z.eqb_spec (az a) (az a')) as [E|N].
      + rewrite db_get_put; try assumption; [|apply Hi].
        destruct (addr_eqb a' a); [reflexivity|]. rewrite E. apply Hr. exact Va'.
      + destruct (addr_eqb a' a) eqn:E2; [apply addr_eqb_eq in E2; subst; contradiction|]. apply Hr. exact Va'.
  Qed.

  Lemma lput_fold_ok : forall (l : list (addr * bytes)) s m, Forall V (map fst l) -> linv s -> lrel s m ->
    linv (fold_left (fun s ab => lput s (fst ab) (snd ab)) l s) /\
    lrel (fold_left (fun s ab => lput s (fst ab) (snd ab)) l s) (fold_left (fun m ab => supd m (fst ab) (Some (snd ab))) l m).
  Proof.
    induction l as [|[a v] l IH]; intros s m Hv Hi Hr; cbn [fold_left]; [split; assumption|].
    cbn [map fst snd] in *. inversion Hv; subst. destruct (lput_ok s m a v) as [Hi' Hr']; try assumption.
    apply IH; assumption.
  Qed.

  Lemma lremove_ok : forall s m a, linv s -> V a -> lrel s m ->
    linv (ldb_set s (az a) (db_del (ldb_get s (az a)) (coord_of a))) /\
    lrel (ldb_set s (az a) (db_del (ldb_get s (az a)) (coord_of a))) (supd m a None).
  Proof.
    intros s m a Hi Va Hr. split.
    - intros l. rewrite ldb_get_set. destruct (Z.eqb (az a) l); [|apply Hi]. split.
      + apply (img_del Z3_eqb coord_of V). apply Hi.
      + apply db_wf_del. apply Hi.
    - intros a' Va'. rewrite ldb_get_set. unfold supd. destruct (Z.eqb_spec (az a) (az a')) as [E|N].
      + unfold db_get, db_del. rewrite (kv_get_del Z3_eqb coord_of V Hinj); try assumption; [|apply Hi].
        destruct (addr_eqb a' a); [reflexivity|]. rewrite E. apply Hr. exact Va'.
      + destruct (addr_eqb a' a) eqn:E2; [apply addr_eqb_eq in E2; subst; contradiction|]. apply Hr. exact Va'.
  Qed.

  Lemma lsql_run_refines : forall ops s m, ops_ok V ops -> linv s -> lrel s m ->
    snd (lsql_run p s ops) = snd (spec_run m ops).
  Proof.
    induction ops as [|o r IH]; intros s m Hok Hi Hr; [reflexivity|].
    inversion Hok as [|? ? Ho Hrest]; subst. cbn [lsql_run spec_run].
    assert (S : snd (lsql_step p s o) = snd (spec_step m o) /\
                linv (fst (lsql_step p s o)) /\ lrel (fst (lsql_step p s o)) (fst (spec_step m o))).
    { unfold op_ok in Ho. destruct o as [a b|l|a|l|a|a]; cbn [lsql_step spec_step fst snd op_addrs] in *.
      - inversion Ho; subst. split; [reflexivity|]. apply lput_ok; assumption.
      - split; [reflexivity|]. apply lput_fold_ok; assumption.
      - inversion Ho; subst. rewrite (Hr a) by assumption. split; [reflexivity|]. split; assumption.
      - split; [|split; assumption].
        rewrite (level_bulk_load_correct p Gp s (fun l0 => proj2 (Hi l0))). f_equal.
        rewrite map_map. apply map_ext_in. intros a Ha. unfold lg, coord_of at 1. cbn [snd].
        apply Hr. rewrite Forall_forall in Ho. apply Ho. exact Ha.
      - inversion Ho; subst. rewrite (Hr a) by assumption. split; [reflexivity|]. split; assumption.
      - inversion Ho; subst. split; [reflexivity|]. apply lremove_ok; assumption. }
    destruct S as [E1 [Hi' Hr']].
    destruct (lsql_step p s o) as [s' x]. destruct (spec_step m o) as [m' x']. cbn [fst snd] in *. subst x'.
    specialize (IH s' m' Hrest Hi' Hr').
    destruct (lsql_run p s' r) as [s'' xs]. destruct (spec_run m' r) as [m'' xs']. cbn [snd] in *. subst. reflexivity.
  Qed.
End LevelRefine.

Theorem level_sql_refines : forall d0 ops, ops_ok (sql_valid d0) ops ->
  model_outs BSqlite ops = spec_outs ops /\ model_outs BGpkgLevel ops = spec_outs ops.
Proof.
  intros d0 ops Hok. unfold model_outs, spec_outs.
  split; [apply (lsql_run_refines _ mbtiles_params_good d0) | apply (lsql_run_refines _ gpkg_params_good d0)];
    try assumption; try (intros l; cbn [ldb_get]; split; constructor); intros a _; reflexivity.
Qed.

(* a bulk load that names a coordinate twice fills both tile objects (the repaired defect C05-dup) *)
Example repeated_address_example :
  model_outs BMbtiles [Store (A 1 2 3 []) [7]; LoadMany [A 1 2 3 []; A 1 2 3 []; A 0 0 0 []]] =
  [ODone; OLoadMany false [Some [7]; Some [7]; None]].
Proof. vm_compute. reflexivity. Qed.

Example level_history_example :
  let ops := [Store (A 1 1 2 []) [1]; Store (A 1 1 3 []) [2]; Store (A 0 0 0 []) [3]; Remove (A 1 1 2 []);
              Load (A 1 1 3 []); Load (A 1 1 2 []); IsCached (A 0 0 0 [])] in
  ops_ok (sql_valid []) ops /\
  model_outs BSqlite ops = [ODone; ODone; ODone; ODone; OLoad (Some [2]); OLoad None; OCached true].
Proof. repeat split; try (repeat constructor). Qed.
