(* Model of layer composition (C14):
     mapproxy/image/merge.py   LayerMerger.merge (fast path, opacity, bgcolor/transparent, clipping)
     mapproxy/image/opts.py    create_image
     mapproxy/image/mask.py    mask_image (the rasterised mask is an input)
     mapproxy/image/__init__.py ImageSource.as_image (P -> RGBA), make_transparent
     mapproxy/service/wms.py   WMSServer.map layer selection, is_opaque pruning, combined_layers, LayerRenderer
     mapproxy/source/wms.py    WMSSource.is_opaque / get_map (blank cases) / _is_compatible / combined_layer
     mapproxy/client/wms.py    WMSClient.combined_client
   Pillow 12.3 operators as integer formulas (validated bit for bit by the correspondence check).
   No proofs here: the model must stay executable when a proof breaks. *)
From Coq Require Import ZArith List Bool.
Import ListNotations.
From MP Require Import Base.
Local Open Scope Z_scope.

(* ------------------------------------------------------------------ pixels *)

Definition px := (Z * Z * Z * Z)%type.          (* r, g, b, a  each in 0..255 *)
Definition rgb := (Z * Z * Z)%type.

Definition px_a (p : px) : Z := let '(_, _, _, a) := p in a.
Definition px_rgb (p : px) : rgb := let '(r, g, b, _) := p in (r, g, b).
Definition set_a (p : px) (a : Z) : px := let '(r, g, b, _) := p in (r, g, b, a).
Definition px_eqb : px -> px -> bool := Z4_eqb.

(* Pillow: DIV255(a) = (a + (a >> 8)) >> 8 *)
Definition div255 (t : Z) : Z := Z.shiftr (t + Z.shiftr t 8) 8.

(* Pillow paste with an 8 bit mask, BLEND8(mask, dst, src) *)
Definition blend8 (m d s : Z) : Z := div255 (s * m + d * (255 - m) + 128).

(* ImageChops.multiply(a, constant f) = a * f / 255 *)
Definition chop_mul (a f : Z) : Z := (a * f) / 255.

(* Image.alpha_composite(dst, src), one pixel (AlphaComposite.c) *)
Definition ac_px (d s : px) : px :=
  let '(dr, dg, db, da) := d in
  let '(sr, sg, sb, sa) := s in
  if sa =? 0 then d
  else
    let outa255 := sa * 255 + da * (255 - sa) in
    let coef1 := (sa * 255 * 255 * 128) / outa255 in
    let coef2 := 255 * 128 - coef1 in
    let ch := fun (s0 d0 : Z) => Z.shiftr (div255 (s0 * coef1 + d0 * coef2 + 16384)) 7 in
    (ch sr dr, ch sg dg, ch sb db, div255 (outa255 + 128)).

(* dst.paste(src, (0,0), src) with src RGBA: every band of dst blended with the alpha of src.
   (an RGB destination is kept with a = 255 in this model) *)
Definition paste_mask_px (dst_rgba : bool) (d s : px) : px :=
  let '(dr, dg, db, da) := d in
  let '(sr, sg, sb, sa) := s in
  (blend8 sa dr sr, blend8 sa dg sg, blend8 sa db sb, if dst_rgba then blend8 sa da sa else 255).

(* dst.paste(src, (0,0), mask) with an RGB destination and an 8 bit mask value m *)
Definition mask_paste_px (m : Z) (d s : px) : px :=
  let '(dr, dg, db, da) := d in
  let '(sr, sg, sb, sa) := s in
  (blend8 m dr sr, blend8 m dg sg, blend8 m db sb, 255).

(* dst.paste(src, (0,0)) with an RGB / L source: full replacement, alpha 255 *)
Definition paste_px (s : px) : px := set_a s 255.

(* ------------------------------------------------------------------ IEEE numbers as m * 2^e *)

Definition fl := (Z * Z)%type.

Definition fl_of_Z (n : Z) : fl := (n, 0).

(* round to nearest, ties to even, to a significand of prec bits (no exponent range) *)
Definition fl_round (prec : Z) (x : fl) : fl :=
  let '(m, e) := x in
  let a := Z.abs m in
  let bl := if a =? 0 then 0 else Z.log2 a + 1 in
  if bl <=? prec then x
  else
    let sh := bl - prec in
    let q := Z.shiftr a sh in
    let r := a - Z.shiftl q sh in
    let half := Z.shiftl 1 (sh - 1) in
    let q' := if (half <? r) || ((half =? r) && Z.odd q) then q + 1 else q in
    (Z.sgn m * q', e + sh).

Definition fl_align (x y : fl) : Z * Z :=
  let e := Z.min (snd x) (snd y) in
  (fst x * 2 ^ (snd x - e), fst y * 2 ^ (snd y - e)).

Definition fl_ltb (x y : fl) : bool := let '(a, b) := fl_align x y in a <? b.
Definition fl_leb (x y : fl) : bool := let '(a, b) := fl_align x y in a <=? b.
Definition fl_mul (prec : Z) (x y : fl) : fl := fl_round prec (fst x * fst y, snd x + snd y).
Definition fl_add (prec : Z) (x y : fl) : fl :=
  let '(a, b) := fl_align x y in fl_round prec (a + b, Z.min (snd x) (snd y)).
(* C cast / Python int(): truncation toward zero *)
Definition fl_trunc (x : fl) : Z :=
  let '(m, e) := x in if 0 <=? e then m * 2 ^ e else Z.quot m (2 ^ (- e)).

Definition fl_one : fl := (1, 0).
Definition fl_zero : fl := (0, 0).

(* int(255 * opacity) in Python doubles *)
Definition fade_factor (op : fl) : Z := fl_trunc (fl_mul 53 (fl_of_Z 255) op).

(* `opacity is not None and opacity < 1.0` *)
Definition op_lt1 (o : option fl) : bool :=
  match o with None => false | Some x => fl_ltb x fl_one end.

(* Image.blend(im1, im2, alpha), one band (Blend.c): alpha is a C float,
   out = (UINT8)(in1 + alpha * (in2 - in1)), clipped when extrapolating *)
Definition blend_band (op : fl) (a b : Z) : Z :=
  let al := fl_round 24 op in
  let t := fl_add 24 (fl_of_Z a) (fl_mul 24 al (fl_of_Z (b - a))) in
  if fl_leb t fl_zero then 0
  else if fl_leb (fl_of_Z 255) t then 255
  else fl_trunc t.

Definition blend_px (op : fl) (d s : px) : px :=
  let '(dr, dg, db, da) := d in
  let '(sr, sg, sb, sa) := s in
  (blend_band op dr sr, blend_band op dg sg, blend_band op db sb, 255).

(* ------------------------------------------------------------------ images *)

Inductive imode := M_RGB | M_RGBA | M_P | M_L.

Definition imode_eqb (a b : imode) : bool :=
  match a, b with
  | M_RGB, M_RGB | M_RGBA, M_RGBA | M_P, M_P | M_L, M_L => true
  | _, _ => false
  end.

(* `'transparency' in img.info`:  a colour key of an RGB image, or the transparency table of a
   paletted image.  The pixels of a P image are given with the palette already applied
   (r, g, b from the palette, a from the transparency table or 255); RGB and L pixels have a = 255. *)
Inductive trns := T_none | T_key (k : rgb) | T_pal.

Record image := mk_image { im_mode : imode; im_trns : trns; im_px : list px }.

Definition has_trns (i : image) : bool :=
  match im_trns i with T_none => false | _ => true end.

Definition rgb_eqb (a b : rgb) : bool := Z3_eqb a b.

(* img.convert('RGBA') *)
Definition convert_rgba (i : image) : image :=
  match im_mode i with
  | M_RGBA => mk_image M_RGBA T_none (im_px i)
  | M_P => mk_image M_RGBA T_none (im_px i)
  | M_L => mk_image M_RGBA T_none (map (fun p => set_a p 255) (im_px i))
  | M_RGB =>
    match im_trns i with
    | T_key k => mk_image M_RGBA T_none
                   (map (fun p => if rgb_eqb (px_rgb p) k then set_a p 0 else set_a p 255) (im_px i))
    | _ => mk_image M_RGBA T_none (map (fun p => set_a p 255) (im_px i))
    end
  end.

(* img.convert('RGB'): alpha dropped *)
Definition convert_rgb (i : image) : image :=
  mk_image M_RGB T_none (map (fun p => set_a p 255) (im_px i)).

Fixpoint map2 {A B C} (f : A -> B -> C) (a : list A) (b : list B) : list C :=
  match a, b with
  | x :: a', y :: b' => f x y :: map2 f a' b'
  | _, _ => []
  end.

(* mask.py mask_image: convert to RGBA and clear everything outside the coverage
   (mask entry true = pixel outside the rasterised coverage polygon) *)
Definition clear_px : px := (255, 255, 255, 0).
Definition mask_image (i : image) (outside : list bool) : image :=
  mk_image M_RGBA T_none
           (map2 (fun (o : bool) p => if o then clear_px else p) outside (im_px (convert_rgba i))).

(* ------------------------------------------------------------------ options *)

(* ImageOptions of a layer image: transparent (None / False / True), opacity *)
Record lopts := mk_lopts { lo_transparent : option bool; lo_opacity : option fl }.

(* one entry of LayerMerger.layers: (ImageSource, coverage) *)
Record layer := mk_layer {
  l_img : image;
  l_opts : option lopts;             (* layer_img.image_opts, may be None *)
  l_clip : option (list bool)        (* Some mask iff `layer_coverage and layer_coverage.clip` *)
}.

(* image_opts of the request: mode (None, 'P', 'RGB', 'RGBA'), transparent, bgcolor *)
Record ropts := mk_ropts { ro_mode : option imode; ro_transparent : option bool; ro_bgcolor : option rgb }.

Definition truthy (b : option bool) : bool := match b with Some true => true | _ => false end.

(* opts.py create_image: mode and the colour every pixel starts with *)
Definition create_mode (o : ropts) : imode :=
  match ro_mode o with
  | None | Some M_P => if truthy (ro_transparent o) then M_RGBA else M_RGB
  | Some m => m
  end.

Definition create_px (o : ropts) : px :=
  let '(r, g, b) := match ro_bgcolor o with Some c => c | None => (255, 255, 255) end in
  match create_mode o with
  | M_RGBA => (r, g, b, if truthy (ro_transparent o) then 0 else 255)
  | _ => (r, g, b, 255)
  end.

Definition create_image (n : nat) (o : ropts) : image :=
  mk_image (create_mode o) T_none (repeat (create_px o) n).

(* ImageSource.as_image: a paletted image of a source declared transparent is converted *)
Definition as_image (l : layer) : image :=
  match l_opts l with
  | Some o => if truthy (lo_transparent o) && imode_eqb (im_mode (l_img l)) M_P
              then convert_rgba (l_img l) else l_img l
  | None => l_img l
  end.

Definition layer_opacity (l : layer) : option fl :=
  match l_opts l with Some o => lo_opacity o | None => None end.

(* ------------------------------------------------------------------ LayerMerger.merge *)

Definition is_alpha_mode (m : imode) : bool :=
  match m with M_RGBA | M_P => true | _ => false end.

(* alpha band multiplied with the constant int(255*opacity) *)
Definition fade (i : image) (f : Z) : image :=
  mk_image (im_mode i) (im_trns i) (map (fun p => set_a p (chop_mul (px_a p) f)) (im_px i)).

(* the image a layer contributes: as_image(), then mask_image for a clipping coverage, then
   `if 'transparency' in img.info: img = img.convert('RGBA')` *)
Definition norm_image (l : layer) : image :=
  let img := as_image l in
  let img := match l_clip l with Some m => mask_image img m | None => img end in
  if has_trns img then convert_rgba img else img.

(* body of the loop `for layer_img, layer_coverage in self.layers` *)
Definition merge_layer (result : image) (l : layer) : image :=
  let opacity := layer_opacity l in
  let composite := imode_eqb (im_mode result) M_RGBA in
  let img := norm_image l in
  if composite then
    let img := match opacity with
               | Some op => if fl_ltb op fl_one then fade (convert_rgba img) (fade_factor op) else img
               | None => img
               end in
    if is_alpha_mode (im_mode img) then
      let img := if imode_eqb (im_mode img) M_P then convert_rgba img else img in
      mk_image M_RGBA T_none (map2 ac_px (im_px result) (im_px img))
    else
      mk_image M_RGBA T_none (map2 (fun _ s => paste_px s) (im_px result) (im_px img))
  else
    match opacity with
    | Some op =>
      if fl_ltb op fl_one then
        (* blended = Image.blend(result, img.convert(result.mode), opacity);
           RGBA layer: result.paste(blended, (0,0), alpha band of img), otherwise result = blended *)
        if imode_eqb (im_mode img) M_RGBA then
          mk_image (im_mode result) T_none
                   (map2 (fun d s => mask_paste_px (px_a s) d (blend_px op d (set_a s 255))) (im_px result) (im_px img))
        else
          mk_image (im_mode result) T_none (map2 (blend_px op) (im_px result) (im_px (convert_rgb img)))
      else if is_alpha_mode (im_mode img) then
        mk_image (im_mode result) T_none (map2 (paste_mask_px false) (im_px result) (im_px (convert_rgba img)))
      else
        mk_image (im_mode result) T_none (map2 (fun _ s => paste_px s) (im_px result) (im_px img))
    | None =>
      if is_alpha_mode (im_mode img) then
        mk_image (im_mode result) T_none (map2 (paste_mask_px false) (im_px result) (im_px (convert_rgba img)))
      else
        mk_image (im_mode result) T_none (map2 (fun _ s => paste_px s) (im_px result) (im_px img))
    end.

(* global clip coverage: result.paste(bg, (0,0), outside) with the rasterised coverage mask
   (true = pixel outside the coverage): outside pixels become the background, inside pixels are kept *)
Definition global_clip (o : ropts) (result : image) (outside : list bool) : image :=
  mk_image (im_mode result) T_none
           (map2 (fun (out : bool) (s : px) => if out then create_px o else s) outside (im_px result)).

(* condition of the single-layer shortcut (size given and equal to the layer's size) *)
Definition fast_path_ok (o : ropts) (l : layer) (global_cov : bool) : bool :=
  ((match l_opts l with Some lo => negb (truthy (lo_transparent lo)) | None => false end)
   || truthy (ro_transparent o))
  && (match l_opts l with
      | None => true
      | Some lo => match lo_opacity lo with None => true | Some op => fl_leb fl_one op end
      end)
  && (match l_clip l with None => true | Some _ => false end)
  && negb global_cov.

Inductive mresult :=
| R_blank (i : image)        (* BlankImageSource *)
| R_same (i : image)         (* the single layer image itself *)
| R_merged (i : image).

Definition merge_loop (n : nat) (o : ropts) (layers : list layer) : image :=
  fold_left merge_layer layers (create_image n o).

Definition merge (n : nat) (o : ropts) (layers : list layer) (cov : option (list bool)) : mresult :=
  match layers with
  | [] => R_blank (create_image n o)
  | _ =>
    match layers with
    | [l] =>
      if fast_path_ok o l (match cov with Some _ => true | None => false end)
      then R_same (as_image l)
      else
        let r := merge_loop n o layers in
        R_merged (match cov with Some m => global_clip o r m | None => r end)
    | _ =>
      let r := merge_loop n o layers in
      R_merged (match cov with Some m => global_clip o r m | None => r end)
    end
  end.

Definition result_image (r : mresult) : image :=
  match r with R_blank i | R_same i | R_merged i => i end.

(* the picture a client sees: RGBA view of an image *)
Definition view (i : image) : list px := im_px (convert_rgba i).

(* per pixel reading of the loop, used by merge_is_fold_over: the image a layer contributes
   (after as_image, clipping and the conversion of colour keys / palette transparency) and what one
   layer does to one pixel of the result *)
Definition px_step (composite alpha_mode rgba : bool) (opacity : option fl) (d s : px) : px :=
  if composite then
    match opacity with
    | Some op =>
      if fl_ltb op fl_one
      then ac_px d (let s' := if alpha_mode then s else set_a s 255 in set_a s' (chop_mul (px_a s') (fade_factor op)))
      else if alpha_mode then ac_px d s else paste_px s
    | None => if alpha_mode then ac_px d s else paste_px s
    end
  else
    match opacity with
    | Some op =>
      if fl_ltb op fl_one
      then (if rgba then mask_paste_px (px_a s) d (blend_px op d (set_a s 255)) else blend_px op d (set_a s 255))
      else if alpha_mode then paste_mask_px false d s else paste_px s
    | None => if alpha_mode then paste_mask_px false d s else paste_px s
    end.

Definition layer_step (composite : bool) (l : layer) : px -> px -> px :=
  px_step composite (is_alpha_mode (im_mode (norm_image l))) (imode_eqb (im_mode (norm_image l)) M_RGBA)
          (layer_opacity l).

(* comparison helpers for the correspondence check *)
Definition image_eqb (a b : image) : bool :=
  imode_eqb (im_mode a) (im_mode b) && list_eqb px_eqb (im_px a) (im_px b).

Definition mresult_tag (r : mresult) : Z :=
  match r with R_blank _ => 0 | R_same _ => 1 | R_merged _ => 2 end.

(* ------------------------------------------------------------------ WMS sources and layer selection *)

(* a map source as WMSServer.map sees it for one fixed query *)
Record src := mk_src {
  s_ids : list Z;            (* identities of the configured sources this one stands for *)
  s_wms : bool;              (* isinstance(_, WMSSource) *)
  s_res_ok : bool;           (* res_range is None or contains the query *)
  s_transparent : option bool; (* image_opts.transparent: None / False / True *)
  s_opacity : option fl;
  s_cov : Z;                 (* 0 no coverage, 1 contains the query bbox, 2 intersects, 3 disjoint,
                                4 intersects (touches) but the sub-image inside the extent has no pixel *)
  s_url : Z;                 (* request_template.url *)
  s_lnames : list Z;         (* request_template.params.layers *)
  s_srs : Z; s_fmts : Z;     (* supported_srs, supported_formats (equality classes) *)
  s_tcolor : option rgb; s_ttol : option Z;
  s_covid : Z;               (* equality class of (coverage object, its clip flag), 0 = None: _is_compatible
                                compares the coverages and their clip flags *)
  s_dims : Z                 (* query.dimensions_for_params(fwd_req_params), equality class *)
}.

(* WMSSource.is_opaque *)
Definition src_is_opaque (s : src) : bool :=
  if negb (s_wms s) then false               (* MapLayer.is_opaque *)
  else if negb (s_res_ok s) then false
  else if truthy (s_transparent s) then false
  else if op_lt1 (s_opacity s) then false
  else if s_cov s =? 0 then true
  else if s_cov s =? 1 then true
  else false.

(* WMSSource.get_map: BlankImage outside the resolution range / coverage *)
Definition src_blank (s : src) : bool :=
  negb (s_res_ok s) || (s_cov s =? 3)
  || (s_cov s =? 4).        (* _get_sub_query: `if size[0] == 0 or size[1] == 0: raise BlankImage()` *)

Definition opt_rgb_eqb (a b : option rgb) : bool := opt_eqb rgb_eqb a b.

(* WMSSource._is_compatible + WMSClient.combined_client *)
Definition src_compatible (a b : src) : bool :=
  s_wms a && s_wms b
  && (match s_opacity a, s_opacity b with None, None => true | _, _ => false end)
  && s_res_ok a && s_res_ok b                       (* the combined source has no res_range *)
  && (match s_transparent b with Some false => false | _ => true end)  (* an opaque upper source is not combined *)
  && (s_srs a =? s_srs b) && (s_fmts a =? s_fmts b)
  && opt_rgb_eqb (s_tcolor a) (s_tcolor b)
  && opt_eqb Z.eqb (s_ttol a) (s_ttol b)
  && (s_covid a =? s_covid b)
  && (s_dims a =? s_dims b)
  && (s_url a =? s_url b).

(* WMSSource.combined_layer: attributes of self, layers concatenated, res_range=None *)
Definition src_combine (a b : src) : src :=
  mk_src (s_ids a ++ s_ids b) true true (s_transparent a) None (s_cov a) (s_url a)
         (s_lnames a ++ s_lnames b) (s_srs a) (s_fmts a) (s_tcolor a) (s_ttol a) (s_covid a) (s_dims a).

(* service/wms.py combined_layers: `done` is combined_layers[:-1] reversed, `cur` is combined_layers[-1] *)
Fixpoint combine_from (cur : src) (rest : list src) : list src :=
  match rest with
  | [] => [cur]
  | x :: r => if src_compatible cur x then combine_from (src_combine cur x) r
              else cur :: combine_from x r
  end.

Definition combined_layers (l : list src) : list src :=
  match l with [] => [] | x :: r => combine_from x r end.

(* WMS layer tree *)
Inductive wlayer :=
| WLeaf (name : Z) (res_ok : bool) (srcs : list src)
| WGroup (name : Z) (res_ok : bool) (this : option (Z * list src)) (children : list wlayer).

Definition w_renders (w : wlayer) : bool :=
  match w with WLeaf _ r _ => r | WGroup _ r _ _ => r end.

Fixpoint w_is_opaque (w : wlayer) : bool :=
  match w with
  | WLeaf _ _ srcs => existsb src_is_opaque srcs
  | WGroup _ _ (Some (_, srcs)) _ => existsb src_is_opaque srcs
  | WGroup _ _ None ch => existsb (fun c => w_renders c && w_is_opaque c) ch   (* only sub layers that are drawn *)
  end.

Fixpoint w_map_layers (w : wlayer) : list (Z * list src) :=
  match w with
  | WLeaf n _ srcs => match srcs with [] => [] | _ => [(n, srcs)] end
  | WGroup _ _ (Some (n, srcs)) _ => match srcs with [] => [] | _ => [(n, srcs)] end
  | WGroup _ _ None ch => flat_map (fun c => if w_renders c then w_map_layers c else []) ch
  end.

(* resolution range of a WMS layer / group (layer.py merge_layer_res_ranges, grid.py merge_resolution_range):
   the configured range if there is one, else the ranges of the members (sources / sub layers) merged pairwise,
   where merging with a member that has no range gives no range (= unlimited).
   members: (member has a range, member renders the query);  hull_ok: the merged range (largest min_res, smallest
   max_res) contains the query - only consulted when every member has a range.  renders_query = result. *)
Definition merged_res_ok (members : list (bool * bool)) (hull_ok : bool) : bool :=
  match members with
  | [] => true                                   (* `if ranges:` - an empty list is no range *)
  | _ => if forallb fst members then hull_ok else true
  end.

Definition layer_res_ok (explicit : option bool) (members : list (bool * bool)) (hull_ok : bool) : bool :=
  match explicit with Some b => b | None => merged_res_ok members hull_ok end.

(* odict: assignment to an existing key keeps its position *)
Definition odict := list (Z * list src).

Fixpoint od_set (d : odict) (k : Z) (v : list src) : odict :=
  match d with
  | [] => [(k, v)]
  | (k', v') :: r => if k' =? k then (k, v) :: r else (k', v') :: od_set r k v
  end.

Definition od_update (d : odict) (kvs : list (Z * list src)) : odict :=
  fold_left (fun a kv => od_set a (fst kv) (snd kv)) kvs d.

(* loop of WMSServer.map; prune = the is_opaque optimisation is active *)
Fixpoint select_layers (prune : bool) (req : list wlayer) (acc : odict) : odict :=
  match req with
  | [] => acc
  | w :: r =>
    if w_renders w then
      let acc := if prune && w_is_opaque w then [] else acc in
      select_layers prune r (od_update acc (w_map_layers w))
    else select_layers prune r acc
  end.

Definition render_layers (prune : bool) (req : list wlayer) : list src :=
  flat_map snd (select_layers prune req []).

(* ---- WMSServer.map with authorisation: all rendering layers are collected, the authorize callback decides
   per layer name (0 permitted, 1 removed - an implicit member of a group that is denied, 2 limited_to an area),
   and only then the is_opaque optimisation drops what lies below an opaque layer of which nothing was removed
   or limited.  A limited source is wrapped in a LimitedLayer: it is clipped to the area and never combined. *)
Fixpoint od_get (d : odict) (k : Z) : option (list src) :=
  match d with [] => None | (k', v) :: r => if k' =? k then Some v else od_get r k end.

Definition src_limited (s : src) : src :=
  mk_src (s_ids s) false (s_res_ok s) (s_transparent s) (s_opacity s) (s_cov s) (s_url s) (s_lnames s)
         (s_srs s) (s_fmts s) (s_tcolor s) (s_ttol s) (s_covid s) (s_dims s).

(* filter_actual_layers *)
Definition filter_auth (auth : Z -> Z) (d : odict) : odict :=
  flat_map (fun kv => if auth (fst kv) =? 1 then []
                      else if auth (fst kv) =? 2 then [(fst kv, map src_limited (snd kv))]
                      else [kv]) d.

Fixpoint prune_pass (prune : bool) (auth : Z -> Z) (all : odict) (req : list wlayer) (acc : odict) : odict :=
  match req with
  | [] => acc
  | w :: r =>
    if w_renders w then
      let names := map fst (w_map_layers w) in
      let permitted := filter (fun n => match od_get all n with Some _ => true | None => false end) names in
      let restricted := negb (Nat.eqb (length permitted) (length names))
                        || existsb (fun n => auth n =? 2) permitted in
      let acc := if prune && negb restricted && w_is_opaque w then [] else acc in
      prune_pass prune auth all r
                 (fold_left (fun a n => match od_get all n with Some v => od_set a n v | None => a end) permitted acc)
    else prune_pass prune auth all r acc
  end.

Definition select_layers_auth (prune : bool) (auth : Z -> Z) (req : list wlayer) : odict :=
  prune_pass prune auth (filter_auth auth (select_layers false req [])) req [].

(* LayerRenderer.render + merger.add: sources that answer (fetch gives Some) in order *)
Fixpoint rendered (fetch : src -> option layer) (l : list src) : list layer :=
  match l with
  | [] => []
  | s :: r =>
    if src_blank s then rendered fetch r
    else match fetch s with Some x => x :: rendered fetch r | None => rendered fetch r end
  end.

(* WMSServer.map without authorisation, attribution and srs_extents *)
Definition wms_map_auth (prune combine : bool) (auth : Z -> Z) (fetch : src -> option layer)
           (n : nat) (o : ropts) (req : list wlayer) : mresult :=
  let rl := flat_map snd (select_layers_auth prune auth req) in
  let rl := if combine then combined_layers rl else rl in
  merge n o (rendered fetch rl) None.

Definition wms_map (prune combine : bool) (fetch : src -> option layer)
           (n : nat) (o : ropts) (req : list wlayer) : mresult :=
  let rl := render_layers prune req in
  let rl := if combine then combined_layers rl else rl in
  merge n o (rendered fetch rl) None.

(* ------------------------------------------------------------------ request beyond the SRS extent of the service *)

(* WMSServer.map with srs_extents: when the requested bbox is not inside the extent configured for the SRS, the
   layers are selected, rendered and merged for the part inside the extent (sub bbox, sub size - all geometric inputs
   of the model, clip masks included, are those of the sub query) and
     SubImageSource(result, size=orig_query.size, offset=offset, image_opts=img_opts)
   pastes the merged image into a transparent image (create_image with transparent forced to True) of the
   requested size.  placement: for every pixel of the requested image the index of the pixel of the merged
   sub image that lands there, None outside the extent. *)
Definition sub_image_source (o : ropts) (sub : image) (placement : list (option nat)) : image :=
  let o' := mk_ropts (ro_mode o) (Some true) (ro_bgcolor o) in
  mk_image (create_mode o') T_none
           (map (fun p => match p with
                          | Some k => nth k (view sub) (create_px o')
                          | None => create_px o'
                          end) placement).

(* ------------------------------------------------------------------ make_transparent (transparent_color) *)

(* image/__init__.py _make_transparent on an RGB / RGBA / P(resolved) image *)
Definition make_transparent_px (four_bands : bool) (color : rgb) (tol : Z) (p : px) : px :=
  let '(r, g, b, a) := p in
  let '(cr, cg, cb) := color in
  let hit := fun (x c : Z) => (c - tol <=? x) && (x <=? c + tol) in
  let m := if hit r cr && hit g cg && hit b cb then 255 else 0 in
  let alpha := 255 - m in
  (r, g, b, if four_bands then chop_mul alpha a else alpha).

(* make_transparent on an image: P is converted to RGBA first, the alpha of a 4 band image is multiplied *)
Definition make_transparent_img (c : rgb) (tol : Z) (i : image) : image :=
  mk_image M_RGBA T_none
           (map (make_transparent_px (is_alpha_mode (im_mode i)) c tol) (im_px i)).

(* WMSSource.get_map for a source that answers: _get_map - the upstream image itself, or, when the request is not
   inside the extent of the source's coverage, _get_sub_query: the upstream image of the part inside pasted into a
   transparent image of the requested size (SubImageSource with the source's image options: no mode, no bgcolor) -
   and then make_transparent when the source has a transparent_color.
   placement: as for sub_image_source, None when the request is inside the extent. *)
Definition source_image (tcolor : option rgb) (tol : Z) (placement : option (list (option nat))) (raw : image) : image :=
  let img := match placement with
             | Some pl => sub_image_source (mk_ropts None None None) raw pl
             | None => raw
             end in
  match tcolor with
  | Some c => make_transparent_img c tol img
  | None => img
  end.

