(* The hand-written integer helpers of Grid.v are equal to the definitions generated from mapproxy/grid.py by
   translator/specs/grid_int.py (coq/gen/Gen_grid_int.v, rewritten from the source on every run): if
   flip_tile_coord, limit_tile or _create_tile_list change, these proofs are re-checked against the new text. *)
From Coq Require Import ZArith List Bool Lia ZifyBool.
Import ListNotations.
From MP Require Import Grid Gen_grid_int.
Local Open Scope Z_scope.

Lemma flip_tile_coord_generated g x y l :
  gen_flip_tile_coord (levels g) (grid_size g) x y l = flip_tile_coord g x y l.
Proof. reflexivity. Qed.

Lemma limit_tile_generated g x y l :
  gen_limit_tile (levels g) (grid_size g) x y l = limit_tile g x y l.
Proof.
  unfold gen_limit_tile, limit_tile, valid_level. cbv zeta.
  destruct (l <? 0) eqn:E1; destruct (levels g <=? l) eqn:E2; cbn [orb];
    replace (0 <=? l) with (negb (l <? 0)) by lia; replace (l <? levels g) with (negb (levels g <=? l)) by lia;
    rewrite E1, E2; cbn [negb andb]; try reflexivity.
  all: destruct (grid_size g l) as [nx ny]; reflexivity.
Qed.

Lemma flat_map_singleton {A B} (f : A -> B) (l : list A) : flat_map (fun a => [f a]) l = map f l.
Proof. induction l as [|a l IH]; [reflexivity|]. cbn [flat_map map app]. rewrite IH. reflexivity. Qed.

Lemma create_tile_list_generated xs ys l gs :
  gen_create_tile_list xs ys l gs = create_tile_list xs ys l gs.
Proof.
  unfold gen_create_tile_list, create_tile_list. cbv zeta. apply flat_map_ext. intros y.
  rewrite <- flat_map_singleton. apply flat_map_ext. intros x. unfold tile_or_none.
  destruct ((x <? 0) || (y <? 0) || (fst gs <=? x) || (snd gs <=? y)); reflexivity.
Qed.
