(* Proofs about the request-limit model (C16). *)
From Coq Require Import ZArith List Bool Lia ZifyBool.
Import ListNotations.
From MP Require Import Grid Grid_proofs Limits Gen_wmts_parse.
Local Open Scope Z_scope.

(* ---- vocabulary of the statements *)

(* a tile address of the grid: limit_tile accepts it *)
Definition valid_coord (g : grid) (c : coord) : Prop := let '(x, y, l) := c in limit_tile g x y l = Some c.

(* how the service reads the public level: TMS numbers the levels of a global profile from the second internal
   level; WMTS addresses every level of the grid; TMS, /tiles, KML see every second level of a sqrt2 grid *)
Definition svc_profiles (s : svc) : level_mode :=
  match s with TMS => mode_tms | Tiles | KML => mode_plain | _ => mode_wmts end.
Definition is_fi (s : svc) : bool := match s with WmtsKvpFI | WmtsRestFI => true | _ => false end.
Definition is_wmts (s : svc) : bool := match s with TMS | Tiles | KML => false | _ => true end.

(* the public address (x, y, z) lies in the matrix the service advertises for the layer *)
Definition in_matrix (ly : layer) (use_profiles : level_mode) (x y z : Z) : Prop :=
  0 <= z /\ valid_coord (lg ly) (x, y, internal_level ly use_profiles z).

(* origin and dimensions a service hands to TileLayer *)
Definition origin_of (q : treq) : option bool :=
  match rsvc q with
  | TMS | KML => Some false
  | Tiles => rorigin q
  | _ => Some true
  end.
Definition dims_of (q : treq) : list (Z * Z) := if is_wmts (rsvc q) then rdims q else [].

Definition layer_wf (ly : layer) : Prop := 1 <= lmx ly /\ 1 <= lmy ly.

(* what "inside the grid" means for each kind of effect *)
Definition effect_inside (ly : layer) (e : effect) : Prop :=
  match e with
  | ERead c | EProbe c | EStore c => valid_coord (lg ly) c
  | EUp b w h =>
    (* the meta tile of a tile of the grid, or (minimize_meta_requests) the block spanned by two tiles of the grid
    (the request up_request = the block plus meta_buffer pixels cut to the grid bbox, its size in pixels of the level) *)
    exists l ub, EUp b w h = up_request ly l ub /\
      ((exists m, valid_coord (lg ly) m /\ cl m = l /\ ub = meta_bbox ly m) \/
       (exists x0 y0 x1 y1, valid_coord (lg ly) (x0, y0, l) /\ valid_coord (lg ly) (x1, y1, l) /\
          ub = merge_bbox (tile_bbox (lg ly) x0 y0 l) (tile_bbox (lg ly) x1 y1 l)))
  | EInfo b _ _ => exists x y l, valid_coord (lg ly) (x, y, l) /\ b = tile_bbox (lg ly) x y l
  end.

(* ---- addresses *)
Lemma valid_coord_iff g x y l :
  valid_coord g (x, y, l) <->
  valid_level g l = true /\ 0 <= x < fst (grid_size g l) /\ 0 <= y < snd (grid_size g l).
Proof.
  unfold valid_coord. split.
  - intros H. apply limit_tile_some in H. tauto.
  - intros (Hv & Hx & Hy). apply limit_tile_valid; assumption.
Qed.

Lemma internal_some ly up x y z c :
  internal_tile_coord ly up x y z = Some c -> c = (x, y, internal_level ly up z) /\ in_matrix ly up x y z.
Proof.
  unfold internal_tile_coord, in_matrix. destruct (z <? 0) eqn:Ez; [discriminate|]. intros H.
  pose proof (limit_tile_some _ _ _ _ _ H) as (-> & _). split; [reflexivity|]. split; [lia|exact H].
Qed.

Lemma internal_in_matrix ly up x y z :
  in_matrix ly up x y z -> internal_tile_coord ly up x y z = Some (x, y, internal_level ly up z).
Proof.
  intros [Hz Hv]. unfold internal_tile_coord. destruct (z <? 0) eqn:Ez; [lia|]. exact Hv.
Qed.

Lemma internal_none ly up x y z :
  ~ in_matrix ly up x y z -> internal_tile_coord ly up x y z = None.
Proof.
  intros Hn. destruct (internal_tile_coord ly up x y z) eqn:E; [|reflexivity].
  apply internal_some in E. tauto.
Qed.

Lemma request_none ly up o x y z :
  ~ in_matrix ly up x y z -> request_tile_coord ly up o x y z = None.
Proof. intros H. unfold request_tile_coord. rewrite (internal_none _ _ _ _ _ H). reflexivity. Qed.

Lemma flip_valid g x y l : valid_coord g (x, y, l) -> valid_coord g (flip_tile_coord g x y l).
Proof.
  intros H. pose proof (flip_preserves_validity g x y l H) as F.
  destruct (flip_tile_coord g x y l) as [[x' y'] l']. exact F.
Qed.

Lemma request_some ly up o x y z :
  in_matrix ly up x y z -> exists c, request_tile_coord ly up o x y z = Some c /\ valid_coord (lg ly) c.
Proof.
  intros H. unfold request_tile_coord. rewrite (internal_in_matrix _ _ _ _ _ H). destruct H as [_ Hv].
  destruct o as [[|]|].
  - destruct (negb (ul (lg ly))); eexists; split; try reflexivity; [apply flip_valid|]; exact Hv.
  - destruct (ul (lg ly)); eexists; split; try reflexivity; [apply flip_valid|]; exact Hv.
  - eexists; split; [reflexivity|exact Hv].
Qed.

Lemma request_some_inv ly up o x y z c :
  request_tile_coord ly up o x y z = Some c -> in_matrix ly up x y z.
Proof.
  unfold request_tile_coord. destruct (internal_tile_coord ly up x y z) eqn:E; [|discriminate].
  intros _. apply internal_some in E. tauto.
Qed.

(* ---- render / featureinfo *)
Lemma render_refused_free ly cached up o f d x y z e :
  fst (render ly cached up o f d x y z) = Err e -> snd (render ly cached up o f d x y z) = [].
Proof.
  unfold render. destruct (negb (f =? offered_format ly)); [reflexivity|].
  destruct (request_tile_coord ly up o x y z); [|reflexivity].
  destruct (negb (dimensions_ok ly d)); [reflexivity|]. cbn [fst]. discriminate.
Qed.

Lemma render_is_refusal ly cached up o f d x y z :
  fst (render ly cached up o f d x y z) <> Ok -> exists e, render ly cached up o f d x y z = (Err e, []).
Proof.
  intros H. destruct (render ly cached up o f d x y z) as [a es] eqn:E. cbn [fst] in H.
  destruct a as [|e]; [congruence|]. exists e. f_equal.
  change es with (snd (Err e, es)). rewrite <- E. apply (render_refused_free _ _ _ _ _ _ _ _ _ e). rewrite E. reflexivity.
Qed.

Lemma render_invalid_format ly cached up o f d x y z :
  f <> offered_format ly -> render ly cached up o f d x y z = (Err InvalidFormat, []).
Proof. intros H. unfold render. destruct (f =? offered_format ly) eqn:E; [lia|reflexivity]. Qed.

Lemma render_outside ly cached up o f d x y z :
  ~ in_matrix ly up x y z -> exists e, render ly cached up o f d x y z = (Err e, []).
Proof.
  intros H. unfold render. destruct (negb (f =? offered_format ly)); [eauto|].
  rewrite (request_none _ _ o _ _ _ H). eauto.
Qed.

Lemma render_invalid_dimension ly cached up o f d x y z :
  dimensions_ok ly d = false -> exists e, render ly cached up o f d x y z = (Err e, []).
Proof.
  intros H. unfold render. destruct (negb (f =? offered_format ly)); [eauto|].
  destruct (request_tile_coord ly up o x y z); [|eauto]. rewrite H. cbn [negb]. eauto.
Qed.

Lemma render_accepts ly cached up o d x y z :
  dimensions_ok ly d = true ->
  (fst (render ly cached up o (offered_format ly) d x y z) = Ok <-> in_matrix ly up x y z).
Proof.
  intros Hd. unfold render. rewrite Z.eqb_refl. cbn [negb]. rewrite Hd. cbn [negb]. split.
  - destruct (request_tile_coord ly up o x y z) eqn:E; [|cbn [fst]; discriminate].
    intros _. eapply request_some_inv; exact E.
  - intros H. destruct (request_some ly up o x y z H) as (c & -> & _). reflexivity.
Qed.

Lemma featureinfo_refused_free ly o q x y z e :
  fst (featureinfo ly o q x y z) = Err e -> snd (featureinfo ly o q x y z) = [].
Proof.
  unfold featureinfo. destruct (request_tile_coord ly mode_wmts o x y z) as [[[x' y'] l]|]; [|reflexivity].
  destruct (negb (dimensions_ok ly (rdims q))); [reflexivity|].
  destruct (negb (lqueryable ly)); [reflexivity|]. cbn [fst]. discriminate.
Qed.

Lemma featureinfo_outside ly o q x y z :
  ~ in_matrix ly mode_wmts x y z -> featureinfo ly o q x y z = (Err OutOfRange, []).
Proof. intros H. unfold featureinfo. rewrite (request_none _ _ o _ _ _ H). reflexivity. Qed.

Lemma featureinfo_invalid_dimension ly o q x y z :
  dimensions_ok ly (rdims q) = false -> exists e, featureinfo ly o q x y z = (Err e, []).
Proof.
  intros H. unfold featureinfo. destruct (request_tile_coord ly mode_wmts o x y z) as [[[x' y'] l]|]; [|eauto].
  rewrite H. cbn [negb]. eauto.
Qed.

(* ---- the shape of serve_tile: an immediate refusal, or TileLayer.render, or the feature info path *)
Lemma serve_tile_shape ly cached q :
  (exists e, serve_tile ly cached q = (Err e, [])) \/
  (exists x y z f, rx q = Some x /\ ry q = Some y /\ rz q = Some z /\ is_fi (rsvc q) = false /\
     (rfmt q = Some f \/ rfmt q = None /\ f = offered_format ly) /\
     serve_tile ly cached q = render ly cached (svc_profiles (rsvc q)) (origin_of q) f (dims_of q) x y z) \/
  (exists x y z, rx q = Some x /\ ry q = Some y /\ rz q = Some z /\ is_fi (rsvc q) = true /\
     serve_tile ly cached q = featureinfo ly (origin_of q) q x y z).
Proof.
  unfold serve_tile, origin_of, dims_of.
  destruct (rsvc q) eqn:Es; cbn [svc_profiles is_fi is_wmts];
    destruct (rx q) as [x|]; destruct (ry q) as [y|]; destruct (rz q) as [z|]; destruct (rfmt q) as [f|];
    try (left; eexists; reflexivity);
    repeat match goal with
           | |- context [if ?b then _ else _] => destruct b; try (left; eexists; reflexivity)
           end;
    try (right; left; exists x, y, z, f; repeat split; auto; fail);
    try (right; left; exists x, y, z, (offered_format ly); repeat split; auto; fail);
    try (right; right; exists x, y, z; repeat split; auto; fail).
Qed.

Lemma serve_tile_refused_free ly cached q e :
  fst (serve_tile ly cached q) = Err e -> snd (serve_tile ly cached q) = [].
Proof.
  destruct (serve_tile_shape ly cached q) as [[e' ->]|[(x & y & z & f & _ & _ & _ & _ & _ & ->)|(x & y & z & _ & _ & _ & _ & ->)]].
  - reflexivity.
  - apply render_refused_free.
  - apply featureinfo_refused_free.
Qed.

Lemma serve_tile_invalid_address ly cached q :
  (forall x y z, rx q = Some x -> ry q = Some y -> rz q = Some z -> ~ in_matrix ly (svc_profiles (rsvc q)) x y z) ->
  exists e, serve_tile ly cached q = (Err e, []).
Proof.
  intros H.
  destruct (serve_tile_shape ly cached q) as [He|[(x & y & z & f & Hx & Hy & Hz & _ & _ & ->)|(x & y & z & Hx & Hy & Hz & Hfi & ->)]].
  - exact He.
  - apply render_outside. apply H; assumption.
  - exists OutOfRange. apply featureinfo_outside. specialize (H x y z Hx Hy Hz).
    destruct (rsvc q); cbn [is_fi] in Hfi; try discriminate; exact H.
Qed.

Lemma serve_tile_invalid_format ly cached q f :
  is_fi (rsvc q) = false -> rfmt q = Some f -> f <> offered_format ly -> exists e, serve_tile ly cached q = (Err e, []).
Proof.
  intros Hfi Hf Hne.
  destruct (serve_tile_shape ly cached q) as [He|[(x & y & z & f' & _ & _ & _ & _ & Hf' & ->)|(x & y & z & _ & _ & _ & Hfi' & _)]].
  - exact He.
  - destruct Hf' as [Hf'|[Hf' _]]; [|congruence]. assert (f' = f) by congruence. subst f'.
    eexists. apply render_invalid_format. exact Hne.
  - congruence.
Qed.

Lemma serve_tile_invalid_dimension ly cached q :
  dimensions_ok ly (dims_of q) = false -> exists e, serve_tile ly cached q = (Err e, []).
Proof.
  intros Hd.
  destruct (serve_tile_shape ly cached q) as [He|[(x & y & z & f' & _ & _ & _ & _ & _ & ->)|(x & y & z & _ & _ & _ & Hfi' & ->)]].
  - exact He.
  - apply render_invalid_dimension. exact Hd.
  - apply featureinfo_invalid_dimension. unfold dims_of in Hd.
    destruct (rsvc q); cbn [is_fi is_wmts] in *; try discriminate; exact Hd.
Qed.

(* GetFeatureInfo with an InfoFormat the service does not offer (rinfo_ok = false; a service without
   featureinfo_formats offers none) is refused without effects *)
Lemma serve_tile_unknown_infoformat ly cached q :
  is_fi (rsvc q) = true -> rinfo_ok q = false -> exists e, serve_tile ly cached q = (Err e, []).
Proof.
  intros Hfi Hi. unfold serve_tile. rewrite Hi. destruct (rsvc q); cbn [is_fi] in Hfi; try discriminate;
    destruct (rfmt q); destruct (rx q); destruct (ry q); destruct (rz q); cbn [negb];
    repeat match goal with |- context [if ?b then _ else _] => destruct b end; eauto.
Qed.

(* a request whose other parameters are in order reaches TileLayer.render *)
Lemma serve_tile_wellformed ly cached s o d io i j x y z f :
  is_fi s = false -> (is_wmts s = true -> wmts_layer_ok ly = true) -> 0 <= z ->
  let q := mkReq s (Some x) (Some y) (Some z) (Some f) o d true true io i j in
  serve_tile ly cached q = render ly cached (svc_profiles s) (origin_of q) f (dims_of q) x y z.
Proof.
  intros Hfi Hw Hz q. unfold serve_tile, origin_of, dims_of, q. cbn [rsvc rx ry rz rfmt rorigin rdims rlayer_ok rset_ok].
  destruct s; cbn [is_fi is_wmts svc_profiles] in *; try discriminate; cbn [andb negb]; try reflexivity.
  - rewrite Hw by reflexivity. reflexivity.
  - rewrite Hw by reflexivity. destruct (z <? 0) eqn:E; [lia|]. reflexivity.
Qed.

(* ---- the tile manager only touches tiles of the grid *)
Lemma somes_In {A} (l : list (option A)) a : In a (somes l) <-> In (Some a) l.
Proof.
  induction l as [|[b|] r IH]; cbn [somes In].
  - tauto.
  - rewrite IH. split; intros [H|H]; auto; left; congruence.
  - rewrite IH. split; [auto|]. intros [H|H]; [discriminate|exact H].
Qed.

Lemma dedup_In l c : In c (dedup_coords l) -> In c l.
Proof.
  induction l as [|a r IH]; cbn [dedup_coords In]; [tauto|].
  destruct (coord_in a r); [auto|]. cbn [In]. intros [H|H]; auto.
Qed.

Lemma axis_tiles_pos e r t : 1 <= axis_tiles e r t.
Proof. unfold axis_tiles. lia. Qed.

Lemma main_tile_valid ly c : layer_wf ly -> valid_coord (lg ly) c -> valid_coord (lg ly) (main_tile ly c).
Proof.
  intros [Hmx Hmy] Hv. destruct c as [[x y] l]. apply valid_coord_iff in Hv. destruct Hv as (Hl & Hx & Hy).
  unfold main_tile, meta_size. destruct (grid_size (lg ly) l) as [nx ny] eqn:Eg. cbn [fst snd] in *.
  apply valid_coord_iff. rewrite Eg. cbn [fst snd]. split; [exact Hl|].
  assert (H1 : 0 < Z.min (lmx ly) nx) by lia. assert (H2 : 0 < Z.min (lmy ly) ny) by lia.
  pose proof (div_bounds x _ H1). pose proof (div_bounds y _ H2).
  assert (0 <= x / Z.min (lmx ly) nx) by (apply Z.div_pos; lia).
  assert (0 <= y / Z.min (lmy ly) ny) by (apply Z.div_pos; lia).
  split; nia.
Qed.

Lemma meta_members_valid ly m c :
  valid_coord (lg ly) m -> In (Some c) (meta_members ly m) -> valid_coord (lg ly) c.
Proof.
  intros Hv Hin. destruct m as [[x0 y0] l]. apply valid_coord_iff in Hv. destruct Hv as (Hl & _ & _).
  unfold meta_members in Hin. destruct (meta_size ly l) as [mx my].
  apply create_tile_list_In in Hin. destruct Hin as (x & y & _ & _ & He).
  rewrite tile_or_none_limit in He by exact Hl. symmetry in He.
  pose proof (limit_tile_some _ _ _ _ _ He) as (-> & _). exact He.
Qed.

Lemma up_request_inside ly l ub :
  (exists l' ub', up_request ly l ub = up_request ly l' ub' /\
     ((exists m, valid_coord (lg ly) m /\ cl m = l' /\ ub' = meta_bbox ly m) \/
      (exists x0 y0 x1 y1, valid_coord (lg ly) (x0, y0, l') /\ valid_coord (lg ly) (x1, y1, l') /\
         ub' = merge_bbox (tile_bbox (lg ly) x0 y0 l') (tile_bbox (lg ly) x1 y1 l')))) ->
  effect_inside ly (up_request ly l ub).
Proof.
  intros H. unfold up_request at 1. destruct (bbox_px ly l (buffered_bbox ly l ub)) as [w h] eqn:E.
  cbn [effect_inside]. destruct H as (l' & ub' & Heq & H). exists l', ub'. split; [|exact H].
  rewrite <- Heq. unfold up_request. rewrite E. reflexivity.
Qed.

(* with a meta_buffer the upstream request never reaches over the grid bbox *)
Lemma buffered_bbox_in_grid_bbox ly l ub :
  0 < lbuf ly ->
  let '(x0, y0, x1, y1) := buffered_bbox ly l ub in
  gx0 (lg ly) <= x0 /\ gy0 (lg ly) <= y0 /\ x1 <= gx1 (lg ly) /\ y1 <= gy1 (lg ly).
Proof.
  intros H. unfold buffered_bbox. destruct (lbuf ly <=? 0) eqn:E; [lia|].
  destruct ub as [[[x0 y0] x1] y1]. lia.
Qed.

Lemma create_meta_inside ly m e :
  valid_coord (lg ly) m -> In e (create_meta ly m) -> effect_inside ly e.
Proof.
  intros Hv. unfold create_meta.
  rewrite !in_app_iff. intros [H|[H|H]].
  - apply in_map_iff in H. destruct H as (c & <- & Hc). apply somes_In in Hc. eapply meta_members_valid; eauto.
  - destruct H as [<-|[]]. apply up_request_inside. exists (cl m), (meta_bbox ly m). split; [reflexivity|].
    left. exists m. auto.
  - apply in_map_iff in H. destruct H as (c & <- & Hc). apply somes_In in Hc. eapply meta_members_valid; eauto.
Qed.

Lemma fold_min_range a l lo hi :
  lo <= a <= hi -> (forall v, In v l -> lo <= v <= hi) -> lo <= fold_right Z.min a l <= hi.
Proof.
  intros Ha. induction l as [|v r IH]; intros H; cbn [fold_right]; [exact Ha|].
  assert (lo <= v <= hi) by (apply H; left; reflexivity).
  assert (lo <= fold_right Z.min a r <= hi) by (apply IH; intros; apply H; right; assumption). lia.
Qed.
Lemma fold_max_range a l lo hi :
  lo <= a <= hi -> (forall v, In v l -> lo <= v <= hi) -> lo <= fold_right Z.max a l <= hi.
Proof.
  intros Ha. induction l as [|v r IH]; intros H; cbn [fold_right]; [exact Ha|].
  assert (lo <= v <= hi) by (apply H; left; reflexivity).
  assert (lo <= fold_right Z.max a r <= hi) by (apply IH; intros; apply H; right; assumption). lia.
Qed.
Lemma fold_min_le_max a l : fold_right Z.min a l <= a <= fold_right Z.max a l.
Proof. induction l as [|v r IH]; cbn [fold_right]; lia. Qed.

(* minimize_meta_requests: the block spanned by missing tiles of one level of the grid lies inside the grid *)
Lemma minimal_meta_inside ly missing l e :
  (forall c, In c missing -> valid_coord (lg ly) c /\ cl c = l) ->
  In e (minimal_meta ly missing) -> effect_inside ly e.
Proof.
  intros Hm. unfold minimal_meta. destruct (rev missing) as [|c0 r] eqn:Er; [intros []|].
  assert (Hc0 : In c0 missing) by (apply in_rev; rewrite Er; left; reflexivity).
  destruct (Hm c0 Hc0) as [Hv0 Hl0]. rewrite Hl0.
  set (nx := fst (grid_size (lg ly) l)). set (ny := snd (grid_size (lg ly) l)).
  assert (Hall : forall c, In c missing -> valid_level (lg ly) l = true /\ 0 <= cx c < nx /\ 0 <= cy c < ny).
  { intros [[x y] l'] Hc. destruct (Hm _ Hc) as [Hv Hl]. cbn [cl snd] in Hl. subst l'.
    apply valid_coord_iff in Hv. exact Hv. }
  destruct (Hall c0 Hc0) as (Hlv & Hx0 & Hy0).
  set (minx := fold_right Z.min (cx c0) (map cx missing)). set (maxx := fold_right Z.max (cx c0) (map cx missing)).
  set (miny := fold_right Z.min (cy c0) (map cy missing)). set (maxy := fold_right Z.max (cy c0) (map cy missing)).
  assert (Hxs : forall v, In v (map cx missing) -> 0 <= v <= nx - 1).
  { intros v Hv. apply in_map_iff in Hv. destruct Hv as (c & <- & Hc). destruct (Hall c Hc) as (_ & ? & _). lia. }
  assert (Hys : forall v, In v (map cy missing) -> 0 <= v <= ny - 1).
  { intros v Hv. apply in_map_iff in Hv. destruct Hv as (c & <- & Hc). destruct (Hall c Hc) as (_ & _ & ?). lia. }
  assert (Hminx : 0 <= minx <= nx - 1) by (apply fold_min_range; [lia|exact Hxs]).
  assert (Hmaxx : 0 <= maxx <= nx - 1) by (apply fold_max_range; [lia|exact Hxs]).
  assert (Hminy : 0 <= miny <= ny - 1) by (apply fold_min_range; [lia|exact Hys]).
  assert (Hmaxy : 0 <= maxy <= ny - 1) by (apply fold_max_range; [lia|exact Hys]).
  assert (Hmem : forall c, In (Some c)
            (create_tile_list (zrange minx maxx) (if ul (lg ly) then zrange miny maxy else rev (zrange miny maxy)) l
                              (maxx + 1, maxy + 1)) -> valid_coord (lg ly) c).
  { intros c Hc. apply create_tile_list_In in Hc. destruct Hc as (x & y & Hx & Hy & He). cbn [fst snd] in He.
    apply zrange_In in Hx.
    assert (Hy' : miny <= y <= maxy).
    { destruct (ul (lg ly)); [apply zrange_In in Hy; exact Hy|apply in_rev in Hy; apply zrange_In in Hy; exact Hy]. }
    unfold tile_or_none in He. destruct ((x <? 0) || (y <? 0) || (maxx + 1 <=? x) || (maxy + 1 <=? y)); [discriminate|].
    inversion He; subst c. apply valid_coord_iff. fold nx ny. repeat split; try exact Hlv; lia. }
  rewrite !in_app_iff. intros [H|[H|H]].
  - apply in_map_iff in H. destruct H as (c & <- & Hc). apply somes_In in Hc. apply Hmem. exact Hc.
  - destruct H as [<-|[]]. apply up_request_inside. eexists l, _. split; [reflexivity|].
    right. exists minx, miny, maxx, maxy. repeat split; try reflexivity;
      apply valid_coord_iff; fold nx ny; repeat split; try exact Hlv; lia.
  - apply in_map_iff in H. destruct H as (c & <- & Hc). apply somes_In in Hc. apply Hmem. exact Hc.
Qed.

Lemma load_inside ly cached cs l e :
  layer_wf ly -> (forall c, In (Some c) cs -> valid_coord (lg ly) c /\ cl c = l) ->
  In e (load_tile_coords ly cached cs) -> effect_inside ly e.
Proof.
  intros Hwf Hcs. unfold load_tile_coords. rewrite !in_app_iff. intros [H|[H|H]].
  - apply in_map_iff in H. destruct H as (c & <- & Hc). apply Hcs. apply somes_In. exact Hc.
  - apply in_map_iff in H. destruct H as (c & <- & Hc). apply Hcs. apply somes_In. exact Hc.
  - destruct (has_meta_grid ly && lminimize ly && (1 <? Z.of_nat (length (filter _ (somes cs))))).
    + eapply (minimal_meta_inside ly _ l); [|exact H]. intros c Hc. apply filter_In in Hc. destruct Hc as [Hc _].
      apply Hcs. apply somes_In. exact Hc.
    + apply in_flat_map in H. destruct H as (m & Hm & He). apply dedup_In in Hm.
      apply in_map_iff in Hm. destruct Hm as (c & <- & Hc). apply filter_In in Hc. destruct Hc as [Hc _].
      eapply create_meta_inside; [|exact He]. apply main_tile_valid; [exact Hwf|]. apply Hcs. apply somes_In. exact Hc.
Qed.

Lemma render_inside ly cached up o f d x y z e :
  layer_wf ly -> In e (snd (render ly cached up o f d x y z)) -> effect_inside ly e.
Proof.
  intros Hwf. unfold render. destruct (negb (f =? offered_format ly)); [intros []|].
  destruct (request_tile_coord ly up o x y z) as [c|] eqn:E; [|intros []].
  destruct (negb (dimensions_ok ly d)); [intros []|]. cbn [snd]. apply (load_inside ly cached _ (cl c)); [exact Hwf|].
  intros c' [Hc|[]]. inversion Hc; subst c'. split; [|reflexivity].
  pose proof (request_some_inv _ _ _ _ _ _ _ E) as Him.
  destruct (request_some ly up o x y z Him) as (c2 & E2 & Hv). assert (c2 = c) by congruence. subst c2. exact Hv.
Qed.

Lemma featureinfo_inside ly o q x y z e :
  In e (snd (featureinfo ly o q x y z)) -> effect_inside ly e.
Proof.
  unfold featureinfo. destruct (request_tile_coord ly mode_wmts o x y z) as [[[x' y'] l]|] eqn:E; [|intros []].
  destruct (negb (dimensions_ok ly (rdims q))); [intros []|].
  destruct (negb (lqueryable ly)); [intros []|]. cbn [snd]. intros [<-|[]].
  pose proof (request_some_inv _ _ _ _ _ _ _ E) as Him.
  destruct (request_some ly mode_wmts o x y z Him) as (c2 & E2 & Hv).
  exists x', y', l. split; [|reflexivity]. assert (c2 = (x', y', l)) by congruence. subst c2. exact Hv.
Qed.

Lemma serve_tile_inside ly cached q e :
  layer_wf ly -> In e (snd (serve_tile ly cached q)) -> effect_inside ly e.
Proof.
  intros Hwf.
  destruct (serve_tile_shape ly cached q) as [[e' ->]|[(x & y & z & f & _ & _ & _ & _ & _ & ->)|(x & y & z & _ & _ & _ & _ & ->)]].
  - intros [].
  - apply render_inside. exact Hwf.
  - apply featureinfo_inside.
Qed.

(* ---- map requests *)
Lemma loop_range g rn rd : forall rs level tr last,
  0 <= level -> (forall t, tr = Some t -> 0 <= t < level) -> -1 <= last < level -> (rs = [] -> 0 <= last) ->
  0 <= closest_level_loop g rn rd rs level tr last < level + Z.of_nat (length rs).
Proof.
  induction rs as [|r rest IH]; intros level tr last Hl Ht Hlast Hnil; cbn [closest_level_loop length].
  - specialize (Hnil eq_refl). lia.
  - destruct tr as [t|].
    + destruct (r * rd <? rn).
      * specialize (Ht t eq_refl). lia.
      * assert (H : 0 <= closest_level_loop g rn rd rest (level + 1)
                           (if r * rd * sf_d g <=? rn * sf_n g then Some level else Some t) level
                     < level + 1 + Z.of_nat (length rest)).
        { apply IH; try lia. intros t'. destruct (r * rd * sf_d g <=? rn * sf_n g); intros E; inversion E; subst.
          - lia. - specialize (Ht t' eq_refl). lia. }
        lia.
    + assert (H : 0 <= closest_level_loop g rn rd rest (level + 1)
                         (if r * rd * sf_d g <=? rn * sf_n g then Some level else None) level
                   < level + 1 + Z.of_nat (length rest)).
      { apply IH; try lia. intros t'. destruct (r * rd * sf_d g <=? rn * sf_n g); intros E; inversion E; subst. lia. }
      lia.
Qed.

Lemma closest_level_valid g rn rd : ress g <> [] -> valid_level g (closest_level g rn rd) = true.
Proof.
  intros Hne. unfold closest_level, valid_level, levels.
  pose proof (loop_range g rn rd (ress g) 0 None (-1) ltac:(lia) ltac:(discriminate) ltac:(lia) ltac:(intros; contradiction)) as H.
  lia.
Qed.

Lemma affected_level_valid g b w h l : ress g <> [] -> affected_level g b w h = Some l -> valid_level g l = true.
Proof.
  intros Hne. unfold affected_level. destruct (negb (bbox_intersects (gx0 g, gy0 g, gx1 g, gy1 g) b)); [discriminate|].
  destruct (get_resolution b w h) as [rn rd]. destruct (res_at g 0 * shr_n g * rd <? rn * shr_d g); [discriminate|].
  intros E. inversion E. apply closest_level_valid. exact Hne.
Qed.

Lemma cache_image_refused_free ly cached q e :
  fst (cache_image ly cached q) = Err e -> snd (cache_image ly cached q) = [].
Proof.
  unfold cache_image. destruct (negb (bbox_intersects _ (mb q))); [reflexivity|].
  destruct ((mw q =? 0) || (mh q =? 0)); [reflexivity|].
  destruct (affected_level (lg ly) (mb q) (mw q) (mh q)); [|reflexivity].
  destruct (affected_level_tiles (lg ly) (mb q) z) as [src nx ny tiles|]; [|reflexivity].
  destruct (over_tile_limit ly (nx * ny)); [reflexivity|].
  destruct (mtiled q && (1 <? nx * ny)); [reflexivity|].
  destruct (mtiled q && negb (tiled_aligned q src)); [reflexivity|]. cbn [fst]. discriminate.
Qed.

Lemma cache_image_inside ly cached q e :
  layer_wf ly -> ress (lg ly) <> [] -> In e (snd (cache_image ly cached q)) -> effect_inside ly e.
Proof.
  intros Hwf Hne. unfold cache_image. destruct (negb (bbox_intersects _ (mb q))); [intros []|].
  destruct ((mw q =? 0) || (mh q =? 0)); [intros []|].
  destruct (affected_level (lg ly) (mb q) (mw q) (mh q)) as [l|] eqn:El; [|intros []].
  destruct (affected_level_tiles (lg ly) (mb q) l) as [src nx ny tiles|] eqn:Ea; [|intros []].
  destruct (over_tile_limit ly (nx * ny)); [intros []|].
  destruct (mtiled q && (1 <? nx * ny)); [intros []|].
  destruct (mtiled q && negb (tiled_aligned q src)); [intros []|]. cbn [snd].
  apply (load_inside ly cached _ l); [exact Hwf|]. intros c Hc.
  pose proof (affected_level_valid _ _ _ _ _ Hne El) as Hv.
  destruct (affected_tiles_valid _ _ _ _ _ _ _ Hv Ea) as [H1 H2]. specialize (H2 c Hc).
  destruct (H1 _ Hc) as (x0 & y0 & _ & _ & He). symmetry in He. apply limit_tile_some in He. destruct He as (-> & _).
  split; [exact H2|reflexivity].
Qed.

Lemma cache_image_over_limit ly cached q n m :
  tile_count ly q = Some n -> lmax_tiles ly = Some m -> 0 < m <= n ->
  cache_image ly cached q = (Err TooManyTiles, []).
Proof.
  unfold tile_count, cache_image. destruct ((mw q =? 0) || (mh q =? 0)); [discriminate|].
  destruct (affected_level (lg ly) (mb q) (mw q) (mh q)) as [l|] eqn:El; [|discriminate].
  assert (Hi : negb (bbox_intersects (gx0 (lg ly), gy0 (lg ly), gx1 (lg ly), gy1 (lg ly)) (mb q)) = false).
  { unfold affected_level in El. destruct (negb (bbox_intersects _ (mb q))); [discriminate|reflexivity]. }
  rewrite Hi.
  destruct (affected_level_tiles (lg ly) (mb q) l) as [src nx ny tiles|]; [|discriminate].
  intros E Hm Hn. inversion E; subst n. unfold over_tile_limit. rewrite Hm.
  replace (negb (m =? 0) && (m <=? nx * ny)) with true by (symmetry; lia). reflexivity.
Qed.

Lemma layer_map_refused_free ly cached q e :
  fst (layer_map ly cached q) = Err e -> snd (layer_map ly cached q) = [].
Proof.
  unfold layer_map. destruct (mtiled q && negb (mfmt q =? lfmt ly)); [reflexivity|].
  destruct (mtiled q && negb ((mw q =? tw (lg ly)) && (mh q =? th (lg ly)))); [reflexivity|].
  destruct (effective_query ly q); [|reflexivity]. apply cache_image_refused_free.
Qed.

Lemma serve_map_refused_free mp se ly cached q e :
  fst (serve_map mp se ly cached q) = Err e -> snd (serve_map mp se ly cached q) = [].
Proof.
  unfold serve_map. destruct (over_pixel_limit mp q); [reflexivity|].
  destruct (srs_limited se q); [|reflexivity]. apply layer_map_refused_free.
Qed.

Lemma serve_map_inside mp se ly cached q e :
  layer_wf ly -> ress (lg ly) <> [] -> In e (snd (serve_map mp se ly cached q)) -> effect_inside ly e.
Proof.
  intros Hwf Hne. unfold serve_map. destruct (over_pixel_limit mp q); [intros []|].
  destruct (srs_limited se q) as [q1|]; [|intros []]. unfold layer_map.
  destruct (mtiled q1 && negb (mfmt q1 =? lfmt ly)); [intros []|].
  destruct (mtiled q1 && negb ((mw q1 =? tw (lg ly)) && (mh q1 =? th (lg ly)))); [intros []|].
  destruct (effective_query ly q1); [|intros []]. apply cache_image_inside; assumption.
Qed.

Lemma serve_map_pixel_limit se ly cached q m :
  0 < m < mw q * mh q -> serve_map (Some m) se ly cached q = (Err TooLarge, []).
Proof.
  intros H. unfold serve_map, over_pixel_limit.
  replace (negb (m =? 0) && (m <? mw q * mh q)) with true by (symmetry; lia). reflexivity.
Qed.

Lemma serve_map_tile_limit mp se ly cached q q1 q' n m :
  srs_limited se q = Some q1 -> effective_query ly q1 = Some q' -> tile_count ly q' = Some n ->
  lmax_tiles ly = Some m -> 0 < m <= n ->
  exists e, serve_map mp se ly cached q = (Err e, []).
Proof.
  intros Hs Hq Hn Hm Hle. unfold serve_map. destruct (over_pixel_limit mp q); [eauto|]. rewrite Hs. unfold layer_map.
  destruct (mtiled q1 && negb (mfmt q1 =? lfmt ly)); [eauto|].
  destruct (mtiled q1 && negb ((mw q1 =? tw (lg ly)) && (mh q1 =? th (lg ly)))); [eauto|].
  rewrite Hq. rewrite (cache_image_over_limit ly cached q' n m Hn Hm Hle). eauto.
Qed.

(* WMS-C: a tiled=true query whose bbox is not within 1/10 pixel of the rectangle of the affected tile *)
Lemma cache_image_unaligned ly cached q src :
  mtiled q = true -> tile_source ly q = Some src -> tiled_aligned q src = false ->
  exists e, cache_image ly cached q = (Err e, []).
Proof.
  unfold tile_source, cache_image. intros Ht. destruct ((mw q =? 0) || (mh q =? 0)); [discriminate|].
  destruct (affected_level (lg ly) (mb q) (mw q) (mh q)) as [l|] eqn:El; [|discriminate].
  assert (Hi : negb (bbox_intersects (gx0 (lg ly), gy0 (lg ly), gx1 (lg ly), gy1 (lg ly)) (mb q)) = false).
  { unfold affected_level in El. destruct (negb (bbox_intersects _ (mb q))); [discriminate|reflexivity]. }
  rewrite Hi.
  destruct (affected_level_tiles (lg ly) (mb q) l) as [s nx ny tiles|]; [|discriminate].
  intros E Ha. inversion E; subst s. rewrite Ht, Ha. simpl.
  destruct (over_tile_limit ly (nx * ny)); [eauto|]. destruct (1 <? nx * ny); eauto.
Qed.

Lemma serve_map_tiled_unaligned mp se ly cached q q1 src :
  srs_limited se q = Some q1 -> mtiled q1 = true -> tile_source ly q1 = Some src -> tiled_aligned q1 src = false ->
  exists e, serve_map mp se ly cached q = (Err e, []).
Proof.
  intros Hs Ht Hsrc Ha. unfold serve_map. destruct (over_pixel_limit mp q); [eauto|]. rewrite Hs. unfold layer_map.
  destruct (mtiled q1 && negb (mfmt q1 =? lfmt ly)); [eauto|].
  destruct (mtiled q1 && negb ((mw q1 =? tw (lg ly)) && (mh q1 =? th (lg ly)))); [eauto|].
  unfold effective_query. rewrite Ht. apply (cache_image_unaligned ly cached q1 src); assumption.
Qed.

(* what "aligned" means: every border of the request bbox is closer than 1/10 of a request pixel to the border of the
   tile (x pixel for the first two values, y pixel for the last two, as bbox_equals applies its deltas) *)
Lemma tiled_aligned_spec q s0 s1 s2 s3 :
  tiled_aligned q (s0, s1, s2, s3) = true <->
  let '(b0, b1, b2, b3) := mb q in
  Z.abs (b0 - s0) * (mw q * 10) < Z.abs (b2 - b0) /\ Z.abs (b1 - s1) * (mw q * 10) < Z.abs (b2 - b0) /\
  Z.abs (b2 - s2) * (mh q * 10) < Z.abs (b3 - b1) /\ Z.abs (b3 - s3) * (mh q * 10) < Z.abs (b3 - b1).
Proof.
  unfold tiled_aligned. destruct (mb q) as [[[b0 b1] b2] b3]. cbv beta iota.
  rewrite !Bool.andb_true_iff, !Z.ltb_lt. tauto.
Qed.

(* a tiled request that has any effect was aligned with the affected tile *)
Lemma serve_map_tiled_effects_aligned mp se ly cached q q1 src :
  srs_limited se q = Some q1 -> mtiled q1 = true -> tile_source ly q1 = Some src ->
  snd (serve_map mp se ly cached q) <> [] -> tiled_aligned q1 src = true.
Proof.
  intros Hs Ht Hsrc Hne. destruct (tiled_aligned q1 src) eqn:Ha; [reflexivity|].
  destruct (serve_map_tiled_unaligned mp se ly cached q q1 src Hs Ht Hsrc Ha) as [e He].
  rewrite He in Hne. exfalso. apply Hne. reflexivity.
Qed.

Lemma serve_map_tiled_effects_addressed mp se ly cached q q1 s0 s1 s2 s3 :
  srs_limited se q = Some q1 -> mtiled q1 = true -> tile_source ly q1 = Some (s0, s1, s2, s3) ->
  snd (serve_map mp se ly cached q) <> [] ->
  let '(b0, b1, b2, b3) := mb q1 in
  Z.abs (b0 - s0) * (mw q1 * 10) < Z.abs (b2 - b0) /\ Z.abs (b1 - s1) * (mw q1 * 10) < Z.abs (b2 - b0) /\
  Z.abs (b2 - s2) * (mh q1 * 10) < Z.abs (b3 - b1) /\ Z.abs (b3 - s3) * (mh q1 * 10) < Z.abs (b3 - b1).
Proof.
  intros Hs Ht Hsrc Hne. apply tiled_aligned_spec.
  exact (serve_map_tiled_effects_aligned mp se ly cached q q1 _ Hs Ht Hsrc Hne).
Qed.

Lemma serve_direct_pixel_limit se q m :
  0 < m < mw q * mh q -> serve_direct (Some m) se q = (Err TooLarge, []).
Proof.
  intros H. unfold serve_direct, over_pixel_limit.
  replace (negb (m =? 0) && (m <? mw q * mh q)) with true by (symmetry; lia). reflexivity.
Qed.

(* a layer on a mixed cache offers png only *)
Lemma serve_tile_invalid_format_mixed ly cached q f :
  lmixed ly = true -> is_fi (rsvc q) = false -> rfmt q = Some f -> f <> fmt_png ->
  exists e, serve_tile ly cached q = (Err e, []).
Proof.
  intros Hm Hfi Hf Hne. apply (serve_tile_invalid_format ly cached q f Hfi Hf).
  unfold offered_format. rewrite Hm. exact Hne.
Qed.

(* ---- boundary: the last valid row / column is accepted, the first invalid one refused *)
Lemma boundary ly cached s o d io i j z x y :
  is_fi s = false -> (is_wmts s = true -> wmts_layer_ok ly = true) -> 0 <= z ->
  dimensions_ok ly (if is_wmts s then d else []) = true ->
  valid_level (lg ly) (internal_level ly (svc_profiles s) z) = true ->
  let nx := fst (grid_size (lg ly) (internal_level ly (svc_profiles s) z)) in
  let ny := snd (grid_size (lg ly) (internal_level ly (svc_profiles s) z)) in
  let ask := fun x y => serve_tile ly cached (mkReq s (Some x) (Some y) (Some z) (Some (offered_format ly)) o d true true io i j) in
  0 <= x < nx -> 0 <= y < ny ->
  fst (ask x (ny - 1)) = Ok /\ fst (ask (nx - 1) y) = Ok /\ fst (ask x 0) = Ok /\ fst (ask 0 y) = Ok /\
  (exists e, ask x ny = (Err e, [])) /\ (exists e, ask nx y = (Err e, [])) /\
  (exists e, ask x (-1) = (Err e, [])) /\ (exists e, ask (-1) y = (Err e, [])).
Proof.
  intros Hfi Hw Hz Hd Hv nx ny ask Hx Hy.
  assert (Hin : forall a b, 0 <= a < nx -> 0 <= b < ny -> fst (ask a b) = Ok).
  { intros a b Ha Hb. unfold ask. rewrite serve_tile_wellformed by assumption.
    unfold dims_of. cbn [rsvc rdims]. apply render_accepts; [exact Hd|].
    split; [exact Hz|]. apply valid_coord_iff. auto. }
  assert (Hout : forall a b, ~ (0 <= a < nx /\ 0 <= b < ny) -> exists e, ask a b = (Err e, [])).
  { intros a b Hn. unfold ask. rewrite serve_tile_wellformed by assumption. apply render_outside.
    intros [_ Hc]. apply valid_coord_iff in Hc. apply Hn. tauto. }
  repeat split; try (apply Hin; lia); apply Hout; lia.
Qed.

(* ---- how the code parses the address components (Gen_wmts_parse.v is extracted from request/wmts.py and
   request/tile.py on every run) is what serve_tile assumes:
   KVP: Python int() of TILECOL / TILEROW / TILEMATRIX - a component that is not a decimal integer (None in the
        model) ends in the uncaught ValueError (Err Internal), nothing else can become a level;
   REST: TileMatrix matches [0-9]+ only (a negative or non-numeric level never reaches the service: Err BadRequest),
        TileRow / TileCol match -?[0-9]+;  TMS / tiles / KML: z, x, y match -?[0-9]+ (else Err BadRequest) *)
Lemma address_parsers :
  kvp_level_parser = PyInt /\ kvp_row_parser = PyInt /\ kvp_col_parser = PyInt /\
  rest_level_parser = Digits /\ rest_row_parser = SignedDigits /\ rest_col_parser = SignedDigits /\
  tms_level_parser = SignedDigits /\ tms_row_parser = SignedDigits /\ tms_col_parser = SignedDigits.
Proof. repeat split; reflexivity. Qed.

(* the model's side of it: a KVP request with a non-numeric component is the internal error without effects, a REST
   request with a negative or non-numeric level and a TMS request with a non-numeric component are bad requests *)
Lemma non_numeric_component_refused ly cached q :
  rx q = None \/ ry q = None \/ rz q = None \/ (is_wmts (rsvc q) = true /\ rsvc q <> WmtsKvp /\ rsvc q <> WmtsKvpFI /\ exists z, rz q = Some z /\ z < 0) ->
  exists e, serve_tile ly cached q = (Err e, []).
Proof.
  intros H. apply serve_tile_invalid_address. intros x y z Hx Hy Hz.
  destruct H as [H|[H|[H|(Hw & Hk & Hkf & z' & Hz' & Hneg)]]]; try congruence.
  assert (z' = z) by congruence. subst z'. intros [Hz0 _]. lia.
Qed.

(* ---- non-vacuity: a concrete layer (3 levels, 5 x 3 tiles at the finest level, 2 x 2 meta tiles, one dimension) *)
Definition ex_grid : grid := mkGrid 0 0 5120 2560 64 64 [40; 20; 10] false 23 20 4 1.
Definition ex_layer : layer := mkLayer ex_grid 1 [(1, ([2; 3], 2))] 2 2 false false true (Some 4) false false 0.
Definition ex_req (s : svc) (x y z : Z) : treq := mkReq s (Some x) (Some y) (Some z) (Some 1) None [] true true true 3 4.

Example ex_layer_wf : layer_wf ex_layer /\ ress (lg ex_layer) <> [].
Proof. split; [unfold layer_wf, ex_layer; cbn; lia|discriminate]. Qed.

(* grid sizes: level 0 is 2 x 1, level 2 is 8 x 4 *)
Example ex_sizes : grid_sizes ex_grid = [(2, 1); (4, 2); (8, 4)].
Proof. vm_compute. reflexivity. Qed.

(* last valid row accepted with effects inside the grid, first invalid row refused without effects *)
Example ex_boundary_accept :
  serve_tile ex_layer [] (ex_req TMS 7 3 2) =
  (Ok, [ERead (7, 3, 2); EProbe (7, 3, 2); EProbe (6, 3, 2); EProbe (7, 3, 2); EProbe (6, 2, 2); EProbe (7, 2, 2);
        EUp (3840, 1280, 5120, 2560) 128 128; EStore (6, 3, 2); EStore (7, 3, 2); EStore (6, 2, 2); EStore (7, 2, 2)]).
Proof. vm_compute. reflexivity. Qed.
Example ex_boundary_refuse : serve_tile ex_layer [] (ex_req TMS 7 4 2) = (Err OutOfRange, []).
Proof. vm_compute. reflexivity. Qed.
Example ex_in_matrix : in_matrix ex_layer mode_tms 7 3 2 /\ ~ in_matrix ex_layer mode_tms 7 4 2 /\ ~ in_matrix ex_layer mode_tms 0 0 3.
Proof.
  unfold in_matrix. repeat split; try lia; try (vm_compute; reflexivity);
    intros [_ H]; vm_compute in H; discriminate.
Qed.
(* WMTS numbers rows from the top: the same address is the flipped tile *)
Example ex_wmts_flip :
  fst (serve_tile ex_layer [(0, 3, 2); (1, 3, 2); (0, 2, 2); (1, 2, 2)] (ex_req WmtsRest 0 0 2)) = Ok /\
  snd (serve_tile ex_layer [(0, 3, 2); (1, 3, 2); (0, 2, 2); (1, 2, 2)] (ex_req WmtsRest 0 0 2)) = [ERead (0, 3, 2); EProbe (0, 3, 2)].
Proof. vm_compute. split; reflexivity. Qed.
(* wrong format / dimension value *)
Example ex_format : serve_tile ex_layer [] (mkReq WmtsKvp (Some 0) (Some 0) (Some 0) (Some 2) None [] true true true 0 0) = (Err InvalidFormat, []).
Proof. vm_compute. reflexivity. Qed.
Example ex_dimension :
  dimensions_ok ex_layer [(1, 9)] = false /\
  serve_tile ex_layer [] (mkReq WmtsKvp (Some 0) (Some 0) (Some 0) (Some 1) None [(1, 9)] true true true 0 0) = (Err InvalidDimension, []) /\
  fst (serve_tile ex_layer [] (mkReq WmtsKvp (Some 0) (Some 0) (Some 0) (Some 1) None [(1, 3)] true true true 0 0)) = Ok.
Proof. vm_compute. repeat split; reflexivity. Qed.
(* non-numeric level *)
Example ex_nonnumeric : serve_tile ex_layer [] (mkReq WmtsKvp (Some 0) (Some 0) None (Some 1) None [] true true true 0 0) = (Err Internal, []).
Proof. vm_compute. reflexivity. Qed.

(* a grid whose levels shrink by sqrt2 (every second level hidden from TMS / KML): WMTS TileMatrix 3 is level 3 of
   the grid (4 x 2 tiles: column 3 is the last one), TMS level 1 is level 2 (3 x 2 tiles), TMS level 2 does not exist *)
Definition ex_sqrt2_grid : grid := mkGrid 0 0 5120 2560 64 64 [40; 28; 20; 14] true 23 20 4 1.
Definition ex_sqrt2_layer : layer := mkLayer ex_sqrt2_grid 1 [] 1 1 false true true None false false 0.
Example ex_sqrt2_levels :
  grid_sizes ex_sqrt2_grid = [(2, 1); (3, 2); (4, 2); (6, 3)] /\
  serve_tile ex_sqrt2_layer [] (ex_req WmtsRest 5 2 3) =
    (Ok, [ERead (5, 2, 3); EProbe (5, 2, 3); EProbe (5, 2, 3); EUp (4480, -128, 5376, 768) 64 64; EStore (5, 2, 3)]) /\
  serve_tile ex_sqrt2_layer [] (ex_req WmtsKvp 6 2 3) = (Err OutOfRange, []) /\
  serve_tile ex_sqrt2_layer [] (ex_req WmtsKvpFI 2 1 1) = (Ok, [EInfo (3584, -1024, 5376, 768) 3 4]) /\
  fst (serve_tile ex_sqrt2_layer [] (ex_req TMS 3 1 1)) = Ok /\
  serve_tile ex_sqrt2_layer [] (ex_req TMS 4 1 1) = (Err OutOfRange, []) /\
  serve_tile ex_sqrt2_layer [] (ex_req KML 0 0 2) = (Err OutOfRange, []).
Proof. vm_compute. repeat split; reflexivity. Qed.
Example ex_sqrt2_matrix : in_matrix ex_sqrt2_layer mode_wmts 5 2 3 /\ ~ in_matrix ex_sqrt2_layer mode_plain 0 0 2.
Proof.
  split.
  - split; [lia|vm_compute; reflexivity].
  - intros [_ H]. vm_compute in H. discriminate.
Qed.

(* map requests at level 2 (res 10): 2 x 2 tiles = the tile limit 4 -> refused; 3 tiles -> served *)
Definition ex_map4 : mreq := mkMap (0, 0, 1280, 1280) 128 128 1 false.
Definition ex_map3 : mreq := mkMap (0, 0, 1920, 640) 192 64 1 false.
Example ex_tile_limit :
  effective_query ex_layer ex_map4 = Some ex_map4 /\ tile_count ex_layer ex_map4 = Some 4 /\
  serve_map None None ex_layer [] ex_map4 = (Err TooManyTiles, []) /\
  tile_count ex_layer ex_map3 = Some 3 /\ fst (serve_map None None ex_layer [] ex_map3) = Ok /\
  length (snd (serve_map None None ex_layer [] ex_map3)) = 24%nat.
Proof. vm_compute. repeat split; reflexivity. Qed.
(* WMS-C: the tile (0, 0, 2) of ex_grid is (0, 0, 640, 640); a tiled request 2 pixels short of its east and north border
   is refused, the tile itself is served *)
Example ex_tiled_short :
  let q := mkMap (0, 0, 620, 620) 64 64 1 true in
  tile_source ex_layer q = Some (0, 0, 640, 640) /\ tiled_aligned q (0, 0, 640, 640) = false /\
  serve_map None None ex_layer [] q = (Err NotAligned, []) /\
  fst (serve_map None None ex_layer [] (mkMap (0, 0, 640, 640) 64 64 1 true)) = Ok /\
  snd (serve_map None None ex_layer [] (mkMap (0, 0, 640, 640) 64 64 1 true)) <> [].
Proof. vm_compute. repeat split; discriminate. Qed.

Example ex_pixel_limit :
  serve_map (Some 12287) None ex_layer [] ex_map3 = (Err TooLarge, []) /\ fst (serve_map (Some 12288) None ex_layer [] ex_map3) = Ok.
Proof. vm_compute. split; reflexivity. Qed.
(* a request reaching over the layer extent is cut down to the extent before tiles are counted *)
Example ex_clip :
  effective_query ex_layer (mkMap (-640, -640, 640, 640) 128 128 1 false) = Some (mkMap (0, 0, 640, 640) 64 64 1 false).
Proof. vm_compute. reflexivity. Qed.

(* a layer on a mixed cache (cache format id 3): png is served, jpeg and "mixed" itself are refused *)
Definition ex_mixed_layer : layer := mkLayer ex_grid 3 [] 1 1 false false true None true false 0.
Example ex_mixed :
  fst (serve_tile ex_mixed_layer [] (ex_req KML 0 0 0)) = Ok /\
  serve_tile ex_mixed_layer [] (mkReq KML (Some 0) (Some 0) (Some 0) (Some 2) None [] true true true 0 0) = (Err InvalidFormat, []) /\
  serve_tile ex_mixed_layer [] (mkReq WmtsRest (Some 0) (Some 0) (Some 0) (Some 3) None [] true true true 0 0) = (Err InvalidFormat, []).
Proof. vm_compute. repeat split; reflexivity. Qed.

(* an SRS extent (1000, 500, 3000, 2000): an oversized request is refused on its requested size although only a small
   part lies inside the extent; a request inside the limit is cut down to the extent (and is no longer tiled);
   a request that keeps less than one pixel inside ends in the uncaught division by zero (answered 500) *)
Example ex_srs_extent :
  serve_map (Some 10000) (Some (1000, 500, 3000, 2000)) ex_layer [] (mkMap (-9000, -9500, 1100, 600) 101 100 1 false) = (Err TooLarge, []) /\
  srs_limited (Some (1000, 500, 3000, 2000)) (mkMap (0, 0, 2000, 1000) 100 50 1 true) = Some (mkMap (1000, 500, 2000, 1000) 50 25 1 false) /\
  srs_limited (Some (1000, 500, 3000, 2000)) (mkMap (4000, 0, 5000, 1000) 100 50 1 false) = None /\
  serve_map (Some 10000) (Some (1000, 500, 3000, 2000)) ex_layer [] (mkMap (-9000, -9500, 1100, 600) 100 100 1 false) = (Err Internal, []).
Proof. vm_compute. repeat split; reflexivity. Qed.

(* minimize_meta_requests: the three missing tiles of a 3 x 1 request are fetched with one upstream request for
   the block they span (192 x 64 pixels) and all three are stored; with the tile limit 3 the request is refused *)
Definition ex_min_layer (limit : option Z) : layer := mkLayer ex_grid 1 [] 2 2 false false true limit false true 0.
Example ex_minimize :
  serve_map None None (ex_min_layer None) [] ex_map3 =
    (Ok, [ERead (0, 0, 2); ERead (1, 0, 2); ERead (2, 0, 2); EProbe (0, 0, 2); EProbe (1, 0, 2); EProbe (2, 0, 2);
          EProbe (0, 0, 2); EProbe (1, 0, 2); EProbe (2, 0, 2); EUp (0, 0, 1920, 640) 192 64;
          EStore (0, 0, 2); EStore (1, 0, 2); EStore (2, 0, 2)]) /\
  serve_map None None (ex_min_layer (Some 3)) [] ex_map3 = (Err TooManyTiles, []) /\
  serve_direct (Some 10000) None (mkMap (0, 0, 3000, 3000) 101 100 1 true) = (Err TooLarge, []) /\
  serve_direct (Some 10000) None (mkMap (0, 0, 3000, 3000) 100 100 1 true) = (Ok, [EUp (0, 0, 3000, 3000) 100 100]).
Proof. vm_compute. repeat split; reflexivity. Qed.

Example ex_infoformat :
  serve_tile ex_layer [] (mkReq WmtsRestFI (Some 0) (Some 0) (Some 0) None None [] true true false 3 4) = (Err UnknownInfoFormat, []) /\
  fst (serve_tile ex_layer [] (mkReq WmtsRestFI (Some 0) (Some 0) (Some 0) None None [] true true true 3 4)) = Ok.
Proof. vm_compute. split; reflexivity. Qed.

(* meta_buffer 10 px on 2 x 2 meta tiles: the request for the south-west meta tile of level 2 is grown by 100 units to
   the north and east and cut at the grid bbox in the south and west: 1380 / 10 = 138 pixels *)
Definition ex_buf_layer : layer := mkLayer ex_grid 1 [] 2 2 false false true None false false 10.
Example ex_meta_buffer :
  serve_tile ex_buf_layer [] (ex_req KML 1 1 2) =
    (Ok, [ERead (1, 1, 2); EProbe (1, 1, 2); EProbe (0, 1, 2); EProbe (1, 1, 2); EProbe (0, 0, 2); EProbe (1, 0, 2);
          EUp (0, 0, 1380, 1380) 138 138; EStore (0, 1, 2); EStore (1, 1, 2); EStore (0, 0, 2); EStore (1, 0, 2)]) /\
  round_half_even 25 10 = 2 /\ round_half_even 35 10 = 4 /\ round_half_even 26 10 = 3.
Proof. vm_compute. repeat split; reflexivity. Qed.

(* WMTS GetFeatureInfo does not compare FORMAT with the layer format (behaviour pinned by the test-suite of mapproxy):
   an upstream request is made.  Dimension values are validated like GetTile does. *)
Lemma featureinfo_format_unchecked_witness :
  exists ly cached q f, is_fi (rsvc q) = true /\ rfmt q = Some f /\ f <> offered_format ly /\
    fst (serve_tile ly cached q) = Ok /\ snd (serve_tile ly cached q) <> [].
Proof.
  exists ex_layer, [], (mkReq WmtsKvpFI (Some 0) (Some 0) (Some 0) (Some 2) None [(1, 3)] true true true 3 4), 2.
  vm_compute. repeat split; try reflexivity; discriminate.
Qed.
Example ex_featureinfo_dimension :
  serve_tile ex_layer [] (mkReq WmtsKvpFI (Some 0) (Some 0) (Some 0) (Some 1) None [(1, 9)] true true true 3 4) = (Err InvalidDimension, []) /\
  serve_tile ex_layer [] (mkReq WmtsKvpFI (Some 0) (Some 0) (Some 0) (Some 1) None [(1, 3)] true true true 3 4) =
    (Ok, [EInfo (0, 0, 2560, 2560) 3 4]).
Proof. vm_compute. split; reflexivity. Qed.

(* ---- how many upstream requests TileManager.load_tile_coords makes (meta tiles, meta_buffer, minimize_meta_requests) *)

Definition is_up (e : effect) : bool := match e with EUp _ _ _ => true | _ => false end.
(* number of upstream GetMap requests in an effect list *)
Definition upstream_requests (l : list effect) : nat := length (filter is_up l).
Definition is_store (e : effect) : bool := match e with EStore _ => true | _ => false end.
Definition missing_tiles (cached : list coord) (cs : list (option coord)) : list coord :=
  filter (fun c => negb (coord_in c cached)) (somes cs).

Lemma ups_app a b : upstream_requests (a ++ b) = (upstream_requests a + upstream_requests b)%nat.
Proof. unfold upstream_requests. rewrite filter_app, app_length. reflexivity. Qed.

Lemma ups_map_no (f : coord -> effect) l : (forall c, is_up (f c) = false) -> upstream_requests (map f l) = 0%nat.
Proof.
  intros H. unfold upstream_requests. induction l as [|a r IH]; [reflexivity|].
  cbn [map filter]. rewrite H. exact IH.
Qed.

Lemma ups_up_request ly l b : upstream_requests [up_request ly l b] = 1%nat.
Proof. unfold up_request. destruct (bbox_px ly l (buffered_bbox ly l b)). reflexivity. Qed.

Lemma ups_create_meta ly m : upstream_requests (create_meta ly m) = 1%nat.
Proof.
  unfold create_meta. rewrite !ups_app, ups_up_request.
  rewrite !ups_map_no by (intros; reflexivity). reflexivity.
Qed.

Lemma ups_flat_create ly ms : upstream_requests (flat_map (create_meta ly) ms) = length ms.
Proof.
  induction ms as [|m r IH]; [reflexivity|].
  cbn [flat_map length]. rewrite ups_app, ups_create_meta, IH. reflexivity.
Qed.

Lemma ups_minimal_meta ly missing : (upstream_requests (minimal_meta ly missing) <= 1)%nat.
Proof.
  unfold minimal_meta. destruct (rev missing) as [|c0 r]; [cbn; lia|].
  rewrite !ups_app, ups_up_request. rewrite !ups_map_no by (intros; reflexivity). lia.
Qed.

Lemma dedup_coords_length l : (length (dedup_coords l) <= length l)%nat.
Proof.
  induction l as [|c r IH]; [cbn; lia|].
  cbn [dedup_coords length]. destruct (coord_in c r); cbn [length]; lia.
Qed.

(* a request whose tiles are all in the cache reads them and does nothing else: no upstream request, no store *)
Lemma load_all_cached ly cached cs :
  missing_tiles cached cs = [] ->
  load_tile_coords ly cached cs = map ERead (somes cs) ++ map EProbe (somes cs).
Proof.
  unfold missing_tiles, load_tile_coords. intros H. rewrite H. cbn [map dedup_coords flat_map length].
  rewrite andb_false_r. rewrite !app_nil_r. reflexivity.
Qed.

(* never more upstream requests than missing tiles (meta tiles only ever merge requests) *)
Lemma load_upstream_at_most_missing ly cached cs :
  (upstream_requests (load_tile_coords ly cached cs) <= length (missing_tiles cached cs))%nat.
Proof.
  unfold load_tile_coords. fold (missing_tiles cached cs). set (ms := missing_tiles cached cs).
  rewrite !ups_app. rewrite !ups_map_no by (intros; reflexivity).
  destruct (has_meta_grid ly && lminimize ly && (1 <? Z.of_nat (length ms))) eqn:E.
  - pose proof (ups_minimal_meta ly ms). apply andb_prop in E. destruct E as [_ E].
    apply Z.ltb_lt in E. lia.
  - rewrite ups_flat_create. pose proof (dedup_coords_length (map (main_tile ly) ms)).
    rewrite map_length in H. lia.
Qed.

(* minimize_meta_requests on a cache with a meta grid (meta_size > 1x1 or a meta_buffer): at most one upstream
   request per load_tile_coords call, however many tiles are missing *)
Lemma load_minimize_one_request ly cached cs :
  has_meta_grid ly = true -> lminimize ly = true ->
  (upstream_requests (load_tile_coords ly cached cs) <= 1)%nat.
Proof.
  intros Hg Hm. unfold load_tile_coords. fold (missing_tiles cached cs). set (ms := missing_tiles cached cs).
  rewrite !ups_app. rewrite !ups_map_no by (intros; reflexivity).
  rewrite Hg, Hm. cbn [andb].
  destruct (1 <? Z.of_nat (length ms)) eqn:E.
  - pose proof (ups_minimal_meta ly ms). lia.
  - apply Z.ltb_ge in E. rewrite ups_flat_create.
    pose proof (dedup_coords_length (map (main_tile ly) ms)). rewrite map_length in H. lia.
Qed.

(* without minimize_meta_requests: exactly one upstream request per distinct meta tile with a missing tile *)
Lemma load_one_request_per_meta_tile ly cached cs :
  lminimize ly = false ->
  upstream_requests (load_tile_coords ly cached cs) =
    length (dedup_coords (map (main_tile ly) (missing_tiles cached cs))).
Proof.
  intros Hm. unfold load_tile_coords. fold (missing_tiles cached cs).
  rewrite !ups_app. rewrite !ups_map_no by (intros; reflexivity).
  rewrite Hm, andb_false_r. cbn [andb]. rewrite ups_flat_create. reflexivity.
Qed.

(* non-vacuity: 3 missing tiles of a 2 x 2 meta grid with a 10 px meta_buffer - two meta tiles, two requests;
   with minimize_meta_requests one request; everything cached: none *)
Definition ex_minbuf_layer : layer := mkLayer ex_grid 1 [] 2 2 false false true None false true 10.
Example ex_upstream_counts :
  upstream_requests (load_tile_coords ex_buf_layer [] [Some (0, 0, 2); Some (1, 0, 2); Some (2, 0, 2)]) = 2%nat /\
  upstream_requests (load_tile_coords ex_minbuf_layer [] [Some (0, 0, 2); Some (1, 0, 2); Some (2, 0, 2)]) = 1%nat /\
  has_meta_grid ex_minbuf_layer = true /\
  missing_tiles [(0, 0, 2); (1, 0, 2)] [Some (0, 0, 2); None; Some (1, 0, 2)] = [] /\
  length (missing_tiles [] [Some (0, 0, 2); Some (1, 0, 2); Some (2, 0, 2)]) = 3%nat.
Proof. vm_compute. repeat split; reflexivity. Qed.
