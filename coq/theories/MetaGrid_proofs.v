(* Proofs about the meta tile model (C04). *)
From Coq Require Import ZArith List Bool Lia ZifyBool FinFun.
Import ListNotations.
From MP Require Import Base Grid Grid_proofs MetaGrid.
Local Open Scope Z_scope.
Ltac Zify.zify_post_hook ::= Z.to_euclidean_division_equations.

(* well-formed meta grid: what the configuration loader guarantees *)
Definition mwf (m : mgrid) : Prop := wf (mg_grid m) /\ 1 <= msx m /\ 1 <= msy m /\ 0 <= mbuf m.

Lemma grid_size_pos g l : 1 <= fst (grid_size g l) /\ 1 <= snd (grid_size g l).
Proof. unfold grid_size, axis_tiles. cbn [fst snd]. lia. Qed.

Lemma meta_size_pos m l : mwf m -> 1 <= fst (meta_size m l) /\ 1 <= snd (meta_size m l).
Proof.
  intros (_ & Hx & Hy & _). unfold meta_size. pose proof (grid_size_pos (mg_grid m) l) as [H1 H2].
  destruct (grid_size (mg_grid m) l) as [nx ny]. cbn [fst snd] in *. lia.
Qed.

Lemma meta_size_le_grid m l :
  fst (meta_size m l) <= fst (grid_size (mg_grid m) l) /\ snd (meta_size m l) <= snd (grid_size (mg_grid m) l).
Proof. unfold meta_size. destruct (grid_size (mg_grid m) l) as [nx ny]. cbn [fst snd]. lia. Qed.

(* ---------------------------------------------------------------- main tile *)

Lemma main_tile_eq m x y z :
  main_tile m x y z = (x / fst (meta_size m z) * fst (meta_size m z), y / snd (meta_size m z) * snd (meta_size m z), z).
Proof. unfold main_tile. destruct (meta_size m z). reflexivity. Qed.

(* the block of a main tile contains the tile, and the main tile is aligned to the meta size *)
Lemma main_tile_contains m x y z :
  mwf m ->
  let '(x0, y0, z0) := main_tile m x y z in
  let '(sx, sy) := meta_size m z in
  z0 = z /\ x0 <= x < x0 + sx /\ y0 <= y < y0 + sy /\ x0 mod sx = 0 /\ y0 mod sy = 0.
Proof.
  intros Hm. pose proof (meta_size_pos m z Hm) as [Hx Hy]. rewrite main_tile_eq.
  destruct (meta_size m z) as [sx sy]. cbn [fst snd] in *.
  split; [reflexivity|]. repeat split; try nia.
  - rewrite Z.mod_mul; lia.
  - rewrite Z.mod_mul; lia.
Qed.

Lemma main_tile_idem m x y z :
  mwf m -> let '(x0, y0, z0) := main_tile m x y z in main_tile m x0 y0 z0 = (x0, y0, z0).
Proof.
  intros Hm. pose proof (meta_size_pos m z Hm) as [Hx Hy]. rewrite main_tile_eq. rewrite main_tile_eq.
  destruct (meta_size m z) as [sx sy]. cbn [fst snd] in *.
  rewrite !Z.div_mul by lia. reflexivity.
Qed.

(* two tiles of a level have the same main tile iff the second lies in the block of the first's main tile *)
Lemma main_tile_same_iff m x y x' y' z :
  mwf m ->
  let '(x0, y0, _) := main_tile m x y z in
  let '(sx, sy) := meta_size m z in
  main_tile m x' y' z = main_tile m x y z <-> (x0 <= x' < x0 + sx /\ y0 <= y' < y0 + sy).
Proof.
  intros Hm. pose proof (meta_size_pos m z Hm) as [Hx Hy]. rewrite !main_tile_eq.
  destruct (meta_size m z) as [sx sy]. cbn [fst snd] in *. split.
  - intros H. injection H as H1 H2. nia.
  - intros [H1 H2].
    assert (Ex : x' / sx = x / sx) by (apply div_unique_bounds; nia).
    assert (Ey : y' / sy = y / sy) by (apply div_unique_bounds; nia).
    rewrite Ex, Ey. reflexivity.
Qed.

Example main_tile_example :
  let m := mkMG (mkGrid 0 0 20480 20480 256 256 [80; 40; 20; 10] false 115 100 4 1) 2 2 10 in
  mwf m /\ main_tile m 5 3 3 = (4, 2, 3) /\ main_tile m 4 2 3 = (4, 2, 3) /\ main_tile m 3 3 3 = (2, 2, 3) /\
  meta_size m 0 = (1, 1) /\ meta_size m 3 = (2, 2).
Proof.
  cbv zeta. split; [|vm_compute; repeat split; reflexivity].
  unfold mwf, wf, pos_res. cbn. repeat split; try lia. all: intros r Hr; intuition lia.
Qed.

(* ---------------------------------------------------------------- lists of integers *)

Lemma zrange_length a b : length (zrange a b) = Z.to_nat (b + 1 - a).
Proof. unfold zrange. rewrite map_length, seq_length. reflexivity. Qed.

Lemma zrange_In a b k : In k (zrange a b) <-> a <= k <= b.
Proof.
  unfold zrange. rewrite in_map_iff. split.
  - intros (i & <- & Hi). apply in_seq in Hi. lia.
  - intros H. exists (Z.to_nat (k - a)). split; [lia|]. apply in_seq. lia.
Qed.

Lemma zrange_nth a b i d : (i < length (zrange a b))%nat -> nth i (zrange a b) d = a + Z.of_nat i.
Proof.
  intros Hi. rewrite zrange_length in Hi. unfold zrange.
  rewrite nth_indep with (d' := a + Z.of_nat 0) by (rewrite map_length, seq_length; exact Hi).
  rewrite (map_nth (fun k => a + Z.of_nat k)). rewrite seq_nth by exact Hi. reflexivity.
Qed.

Lemma zrange_NoDup a b : NoDup (zrange a b).
Proof.
  unfold zrange. apply FinFun.Injective_map_NoDup; [|apply seq_NoDup].
  intros i j H. lia.
Qed.

Lemma rows_from_top_In g a b k : In k (rows_from_top g a b) <-> a <= k <= b.
Proof. unfold rows_from_top. destruct (ul g); [|rewrite <- in_rev]; apply zrange_In. Qed.

Lemma rows_from_top_length g a b : length (rows_from_top g a b) = Z.to_nat (b + 1 - a).
Proof. unfold rows_from_top. destruct (ul g); [|rewrite rev_length]; apply zrange_length. Qed.

Lemma rows_from_top_nth g a b i d :
  (i < Z.to_nat (b + 1 - a))%nat ->
  nth i (rows_from_top g a b) d = if ul g then a + Z.of_nat i else b - Z.of_nat i.
Proof.
  intros Hi. unfold rows_from_top. destruct (ul g).
  - apply zrange_nth. rewrite zrange_length. exact Hi.
  - rewrite rev_nth by (rewrite zrange_length; exact Hi). rewrite zrange_length.
    rewrite zrange_nth by (rewrite zrange_length; lia). lia.
Qed.

(* element j + i * n of a row-major double loop *)
Lemma nth_rows {A B C} (f : B -> A -> C) (xs : list A) (ys : list B) i j d dx dy :
  (j < length xs)%nat -> (i < length ys)%nat ->
  nth (j + i * length xs) (flat_map (fun y => map (f y) xs) ys) d = f (nth i ys dy) (nth j xs dx).
Proof.
  revert i. induction ys as [|y ys IH]; intros i Hj Hi; [cbn in Hi; lia|].
  cbn [flat_map]. destruct i as [|i].
  - cbn [Nat.mul Nat.add nth]. rewrite Nat.add_0_r. rewrite app_nth1 by (rewrite map_length; exact Hj).
    rewrite nth_indep with (d' := f y dx) by (rewrite map_length; exact Hj). apply (map_nth (f y)).
  - rewrite app_nth2 by (rewrite map_length; lia). rewrite map_length.
    replace (j + S i * length xs - length xs)%nat with (j + i * length xs)%nat by lia.
    cbn [nth]. apply IH; [exact Hj|cbn in Hi; lia].
Qed.

(* ---------------------------------------------------------------- the crop pattern *)

Lemma tiles_pattern_In g gsx gsy b0 b1 b2 b3 tiles p :
  In p (tiles_pattern g (gsx, gsy) (b0, b1, b2, b3) tiles) <->
  exists i j, 0 <= i < gsy /\ 0 <= j < gsx /\
              p = (nth (Z.to_nat (j + i * gsx)) tiles None, (j * tw g + b0, i * th g + b3)).
Proof.
  unfold tiles_pattern. cbn [fst snd]. rewrite in_flat_map. split.
  - intros (i & Hi & Hp). apply in_map_iff in Hp. destruct Hp as (j & <- & Hj).
    apply zrange_In in Hi. apply zrange_In in Hj. exists i, j. repeat split; lia.
  - intros (i & j & Hi & Hj & ->). exists i. split; [apply zrange_In; lia|].
    apply in_map_iff. exists j. split; [reflexivity|apply zrange_In; lia].
Qed.

Lemma create_tile_list_nth xs ys l gs i j :
  0 <= i < Z.of_nat (length ys) -> 0 <= j < Z.of_nat (length xs) ->
  nth (Z.to_nat (j + i * Z.of_nat (length xs))) (create_tile_list xs ys l gs) None =
  tile_or_none (fst gs) (snd gs) l (nth (Z.to_nat j) xs 0) (nth (Z.to_nat i) ys 0).
Proof.
  intros Hi Hj. unfold create_tile_list.
  replace (Z.to_nat (j + i * Z.of_nat (length xs))) with (Z.to_nat j + Z.to_nat i * length xs)%nat by nia.
  apply (nth_rows (fun y x => tile_or_none (fst gs) (snd gs) l x y)); lia.
Qed.

(* row i (counted from the top of the picture) of a block of sy rows starting at row index y0 *)
Definition block_row (g : grid) (y0 sy i : Z) : Z := if ul g then y0 + i else y0 + sy - 1 - i.

Lemma meta_tile_unfold m x y z x0 y0 sx sy bb bufs :
  mwf m -> main_tile m x y z = (x0, y0, z) -> meta_size m z = (sx, sy) ->
  buffered_bbox m (unbuffered_meta_bbox m x0 y0 z) z true = (bb, bufs) ->
  meta_tile m x y z =
  mkMT bb (size_from_bbox m bb z)
       (tiles_pattern (mg_grid m) (sx, sy) bufs
          (create_tile_list (zrange x0 (x0 + sx - 1)) (rows_from_top (mg_grid m) y0 (y0 + sy - 1)) z (grid_size (mg_grid m) z)))
       (sx, sy).
Proof.
  intros Hm Hmain Hms Hb. unfold meta_tile. rewrite Hmain, Hb, Hms.
  unfold meta_tile_list. pose proof (main_tile_idem m x y z Hm) as Hid. rewrite Hmain in Hid. rewrite Hid.
  cbn [fst snd]. reflexivity.
Qed.

(* the pattern of a meta tile, element by element: row i from the top, column j from the left *)
Lemma meta_tile_pattern_In m x y z x0 y0 sx sy bb b0 b1 b2 b3 p :
  mwf m -> main_tile m x y z = (x0, y0, z) -> meta_size m z = (sx, sy) ->
  buffered_bbox m (unbuffered_meta_bbox m x0 y0 z) z true = (bb, (b0, b1, b2, b3)) ->
  (In p (mt_pattern (meta_tile m x y z)) <->
   exists i j, 0 <= i < sy /\ 0 <= j < sx /\
     p = (tile_or_none (fst (grid_size (mg_grid m) z)) (snd (grid_size (mg_grid m) z)) z (x0 + j) (block_row (mg_grid m) y0 sy i),
          (j * tw (mg_grid m) + b0, i * th (mg_grid m) + b3))).
Proof.
  intros Hm Hmain Hms Hb. rewrite (meta_tile_unfold m x y z x0 y0 sx sy bb _ Hm Hmain Hms Hb). cbn [mt_pattern].
  pose proof (meta_size_pos m z Hm) as [Hsx Hsy]. rewrite Hms in Hsx, Hsy. cbn [fst snd] in Hsx, Hsy.
  rewrite tiles_pattern_In.
  assert (Hlx : Z.of_nat (length (zrange x0 (x0 + sx - 1))) = sx) by (rewrite zrange_length; lia).
  assert (Hly : Z.of_nat (length (rows_from_top (mg_grid m) y0 (y0 + sy - 1))) = sy) by (rewrite rows_from_top_length; lia).
  assert (Hn : forall i j, 0 <= i < sy -> 0 <= j < sx ->
    nth (Z.to_nat (j + i * sx)) (create_tile_list (zrange x0 (x0 + sx - 1)) (rows_from_top (mg_grid m) y0 (y0 + sy - 1)) z (grid_size (mg_grid m) z)) None =
    tile_or_none (fst (grid_size (mg_grid m) z)) (snd (grid_size (mg_grid m) z)) z (x0 + j) (block_row (mg_grid m) y0 sy i)).
  { intros i j Hi Hj. rewrite <- Hlx at 1. rewrite create_tile_list_nth by lia. f_equal.
    - rewrite zrange_nth by (rewrite zrange_length; lia). lia.
    - rewrite rows_from_top_nth by lia. unfold block_row. destruct (ul (mg_grid m)); lia. }
  split; intros (i & j & Hi & Hj & ->); exists i, j; (split; [exact Hi|split; [exact Hj|]]); rewrite Hn by assumption; reflexivity.
Qed.

(* ---------------------------------------------------------------- geometry of a block of tiles *)

(* closed form of the rectangle of the block of sx x sy tiles whose lowest indices are x0, y0 *)
Definition block_bbox (g : grid) (x0 y0 sx sy z : Z) : bbox :=
  let r := res_at g z in
  if ul g then (gx0 g + x0 * r * tw g, gy1 g - (y0 + sy) * r * th g, gx0 g + (x0 + sx) * r * tw g, gy1 g - y0 * r * th g)
  else (gx0 g + x0 * r * tw g, gy0 g + y0 * r * th g, gx0 g + (x0 + sx) * r * tw g, gy0 g + (y0 + sy) * r * th g).

Lemma tiles_bbox_block g x0 y0 sx sy z :
  wf g -> valid_level g z = true -> 1 <= sx -> 1 <= sy ->
  tiles_bbox g (x0, y0, z) (x0 + sx - 1, y0 + sy - 1, z) = block_bbox g x0 y0 sx sy z.
Proof.
  intros Hwf Hv Hsx Hsy. pose proof (res_at_pos g z Hwf Hv) as Hr.
  destruct Hwf as (_ & _ & Htw & Hth & _).
  unfold tiles_bbox, block_bbox, tile_bbox, merge_bbox. set (r := res_at g z) in *.
  assert (0 < r * tw g) by nia. assert (0 < r * th g) by nia.
  destruct (ul g); repeat (f_equal; try nia).
Qed.

Lemma unbuffered_meta_bbox_eq m x0 y0 z sx sy :
  mwf m -> valid_level (mg_grid m) z = true -> meta_size m z = (sx, sy) ->
  unbuffered_meta_bbox m x0 y0 z = block_bbox (mg_grid m) x0 y0 sx sy z.
Proof.
  intros Hm Hv Hms. pose proof (meta_size_pos m z Hm) as [Hsx Hsy]. unfold unbuffered_meta_bbox.
  rewrite Hms in *. cbn [fst snd] in *. apply tiles_bbox_block; try assumption. apply Hm.
Qed.

Lemma buffered_false_eq m a b c d l :
  0 <= mbuf m ->
  buffered_bbox m (a, b, c, d) l false =
  ((a - mbuf m * res_at (mg_grid m) l, b - mbuf m * res_at (mg_grid m) l,
    c + mbuf m * res_at (mg_grid m) l, d + mbuf m * res_at (mg_grid m) l), (mbuf m, mbuf m, mbuf m, mbuf m)).
Proof.
  intros Hb. unfold buffered_bbox. destruct (mbuf m <=? 0) eqn:E; cbn [negb].
  - assert (mbuf m = 0) as -> by lia. repeat f_equal; lia.
  - reflexivity.
Qed.

(* limiting the buffered bbox to the grid bbox changes nothing: no buffer is cut off at the grid border *)
Definition no_buffer_cut (m : mgrid) (x y z : Z) : Prop :=
  let '(x0, y0, z0) := main_tile m x y z in
  buffered_bbox m (unbuffered_meta_bbox m x0 y0 z0) z0 true = buffered_bbox m (unbuffered_meta_bbox m x0 y0 z0) z0 false.

Lemma round_half_even_exact k d : 0 < d -> round_half_even (k * d) d = k.
Proof.
  intros Hd. unfold round_half_even. rewrite Z.div_mul by lia. rewrite Z.mod_mul by lia.
  destruct (2 * 0 <? d) eqn:E; [reflexivity|lia].
Qed.

Lemma tile_or_none_Some nx ny l x y c :
  tile_or_none nx ny l x y = Some c -> c = (x, y, l) /\ 0 <= x < nx /\ 0 <= y < ny.
Proof.
  unfold tile_or_none. destruct ((x <? 0) || (y <? 0) || (nx <=? x) || (ny <=? y)) eqn:E; [discriminate|].
  intros H. injection H as <-. split; [reflexivity|lia].
Qed.

Lemma tile_or_none_valid nx ny l x y :
  0 <= x < nx -> 0 <= y < ny -> tile_or_none nx ny l x y = Some (x, y, l).
Proof.
  intros Hx Hy. unfold tile_or_none.
  destruct ((x <? 0) || (y <? 0) || (nx <=? x) || (ny <=? y)) eqn:E; [lia|reflexivity].
Qed.

(* pattern_pixel_aligned: when no buffer is cut off, the image size is the extent of the meta tile divided
   by the resolution exactly, and the crop offset of every tile is its exact pixel distance from the upper
   left corner of the meta tile *)
Lemma pattern_pixel_aligned_lemma m x y z :
  mwf m -> valid_level (mg_grid m) z = true -> no_buffer_cut m x y z ->
  let mt := meta_tile m x y z in
  let r := res_at (mg_grid m) z in
  let '(minx, miny, maxx, maxy) := mt_bbox mt in
  (fst (mt_size mt) * r = maxx - minx /\ snd (mt_size mt) * r = maxy - miny) /\
  forall cx cy cz px py, In (Some (cx, cy, cz), (px, py)) (mt_pattern mt) ->
    let '(tx0, ty0, tx1, ty1) := tile_bbox (mg_grid m) cx cy cz in
    px * r = tx0 - minx /\ py * r = maxy - ty1 /\ 0 <= px /\ 0 <= py /\
    px + tw (mg_grid m) <= fst (mt_size mt) /\ py + th (mg_grid m) <= snd (mt_size mt).
Proof.
  intros Hm Hv Hcut. cbv zeta.
  pose proof (main_tile_contains m x y z Hm) as Hc. unfold no_buffer_cut in Hcut.
  destruct (main_tile m x y z) as [[x0 y0] z0] eqn:Hmain.
  destruct (meta_size m z) as [sx sy] eqn:Hms. destruct Hc as (-> & Hc).
  pose proof (meta_size_pos m z Hm) as [Hsx Hsy]. rewrite Hms in Hsx, Hsy. cbn [fst snd] in Hsx, Hsy.
  rewrite (unbuffered_meta_bbox_eq m x0 y0 z sx sy Hm Hv Hms) in Hcut.
  destruct (block_bbox (mg_grid m) x0 y0 sx sy z) as [[[ba bb_] bc] bd] eqn:Hblock.
  assert (Hbuf : 0 <= mbuf m) by apply Hm.
  rewrite (buffered_false_eq m ba bb_ bc bd z Hbuf) in Hcut.
  pose proof (fun p => meta_tile_pattern_In m x y z x0 y0 sx sy _ _ _ _ _ p Hm Hmain Hms
                (eq_trans (f_equal (fun b => buffered_bbox m b z true) (unbuffered_meta_bbox_eq m x0 y0 z sx sy Hm Hv Hms))
                          (eq_trans (f_equal (fun b => buffered_bbox m b z true) Hblock) Hcut))) as Hpat.
  rewrite (meta_tile_unfold m x y z x0 y0 sx sy _ _ Hm Hmain Hms
             (eq_trans (f_equal (fun b => buffered_bbox m b z true) (unbuffered_meta_bbox_eq m x0 y0 z sx sy Hm Hv Hms))
                       (eq_trans (f_equal (fun b => buffered_bbox m b z true) Hblock) Hcut))) in *.
  cbn [mt_bbox mt_size mt_pattern] in *.
  pose proof (res_at_pos (mg_grid m) z (proj1 Hm) Hv) as Hr.
  destruct Hm as ((_ & _ & Htw & Hth & _) & _).
  set (g := mg_grid m) in *. set (r := res_at g z) in *. set (B := mbuf m) in *.
  unfold block_bbox in Hblock. fold r in Hblock.
  assert (Hsize : size_from_bbox m (ba - B * r, bb_ - B * r, bc + B * r, bd + B * r) z
                  = (sx * tw g + 2 * B, sy * th g + 2 * B)).
  { unfold size_from_bbox. fold g. fold r.
    destruct (ul g); injection Hblock as <- <- <- <-; f_equal.
    all: match goal with |- round_half_even ?n ?rr = ?k => replace n with (k * rr) by nia end.
    all: apply round_half_even_exact; exact Hr. }
  rewrite Hsize. cbn [fst snd]. split.
  - destruct (ul g); injection Hblock as <- <- <- <-; nia.
  - intros cx cy cz px py Hin. apply Hpat in Hin. destruct Hin as (i & j & Hi & Hj & Heq).
    injection Heq as Ht -> ->. symmetry in Ht. apply tile_or_none_Some in Ht. destruct Ht as (Ht & _).
    injection Ht as -> -> ->. unfold tile_bbox, block_row. fold g. fold r.
    destruct (ul g); injection Hblock as <- <- <- <-; nia.
Qed.

(* ---------------------------------------------------------------- cutting tiles out of the meta image *)

Lemma tile_pixel_src_inside px py tw_ th_ W H j k :
  0 <= px -> 0 <= py -> px + tw_ <= W -> py + th_ <= H -> 0 <= j < tw_ -> 0 <= k < th_ ->
  tile_pixel_src (px, py) (tw_, th_) (W, H) j k = Some (px + j, py + k).
Proof.
  intros. unfold tile_pixel_src, get_tile_rect. cbn [fst snd].
  destruct ((px <? 0) || (py <? 0) || (W <? px + tw_) || (H <? py + th_)) eqn:E; [lia|].
  replace (px + (j - 0)) with (px + j) by lia. replace (py + (k - 0)) with (py + k) by lia.
  destruct ((px <=? px + j) && (px + j <? px + tw_) && (py <=? py + k) && (py + k <? py + th_)) eqn:E2; [reflexivity|lia].
Qed.

Lemma div_cancel_l a b c : 0 < c -> b <> 0 -> (c * a) / (c * b) = a / b.
Proof. intros. apply Z.div_mul_cancel_l; lia. Qed.

Lemma sample_x_aligned g q r minx miny maxx maxy W H px tx0 ty0 ty1 tw_ th_ j :
  0 < q -> 0 < W -> 0 < tw_ -> W * r = maxx - minx -> px * r = tx0 - minx ->
  sample_x g q (minx, miny, maxx, maxy) (W, H) (px + j) = sample_x g q (tx0, ty0, tx0 + r * tw_, ty1) (tw_, th_) j.
Proof.
  intros Hq HW Ht HWr Hpx. unfold sample_x. cbn [fst snd]. f_equal.
  replace ((2 * (px + j) + 1) * (maxx - minx) + 2 * W * (minx - gx0 g))
    with (W * ((2 * (px + j) + 1) * r + 2 * (minx - gx0 g))) by nia.
  replace (2 * W * q) with (W * (2 * q)) by lia. rewrite div_cancel_l by lia.
  replace ((2 * j + 1) * (tx0 + r * tw_ - tx0) + 2 * tw_ * (tx0 - gx0 g))
    with (tw_ * ((2 * (px + j) + 1) * r + 2 * (minx - gx0 g))) by nia.
  replace (2 * tw_ * q) with (tw_ * (2 * q)) by lia. rewrite div_cancel_l by lia. reflexivity.
Qed.

Lemma sample_y_aligned g q r minx miny maxx maxy W H py tx0 tx1 ty1 tw_ th_ k :
  0 < q -> 0 < H -> 0 < th_ -> H * r = maxy - miny -> py * r = maxy - ty1 ->
  sample_y g q (minx, miny, maxx, maxy) (W, H) (py + k) = sample_y g q (tx0, ty1 - r * th_, tx1, ty1) (tw_, th_) k.
Proof.
  intros Hq HH Ht HHr Hpy. unfold sample_y. cbn [fst snd]. f_equal.
  replace (2 * H * (maxy - gy0 g) - (2 * (py + k) + 1) * (maxy - miny))
    with (H * (2 * (maxy - gy0 g) - (2 * (py + k) + 1) * r)) by nia.
  replace (2 * H * q) with (H * (2 * q)) by lia. rewrite div_cancel_l by lia.
  replace (2 * th_ * (ty1 - gy0 g) - (2 * k + 1) * (ty1 - (ty1 - r * th_)))
    with (th_ * (2 * (maxy - gy0 g) - (2 * (py + k) + 1) * r)) by nia.
  replace (2 * th_ * q) with (th_ * (2 * q)) by lia. rewrite div_cancel_l by lia. reflexivity.
Qed.

Lemma tile_bbox_shape g x y l :
  let '(x0, y0, x1, y1) := tile_bbox g x y l in
  x1 = x0 + res_at g l * tw g /\ y0 = y1 - res_at g l * th g.
Proof. unfold tile_bbox. destruct (ul g); lia. Qed.

(* the image cut out of an untruncated meta tile equals the image of the tile requested alone, pixel by pixel,
   for the position-only picture sampled with any cell size q *)
Lemma cut_equals_single m q x y z cx cy cz px py j k :
  mwf m -> valid_level (mg_grid m) z = true -> 0 < q -> no_buffer_cut m x y z ->
  In (Some (cx, cy, cz), (px, py)) (mt_pattern (meta_tile m x y z)) ->
  0 <= j < tw (mg_grid m) -> 0 <= k < th (mg_grid m) ->
  stored_pixel (mg_grid m) q (mt_bbox (meta_tile m x y z)) (mt_size (meta_tile m x y z)) (px, py) j k =
  stored_pixel (mg_grid m) q (tile_bbox (mg_grid m) cx cy cz) (tw (mg_grid m), th (mg_grid m)) (0, 0) j k.
Proof.
  intros Hm Hv Hq Hcut Hin Hj Hk.
  pose proof (pattern_pixel_aligned_lemma m x y z Hm Hv Hcut) as Hal. cbv zeta in Hal.
  assert (Hcz : cz = z).
  { pose proof (main_tile_contains m x y z Hm) as Hc.
    destruct (main_tile m x y z) as [[x0 y0] z0] eqn:Hmain. destruct (meta_size m z) as [sx sy] eqn:Hms.
    destruct Hc as (-> & _).
    destruct (buffered_bbox m (unbuffered_meta_bbox m x0 y0 z) z true) as [bb [[[b0 b1] b2] b3]] eqn:Hb.
    apply (meta_tile_pattern_In m x y z x0 y0 sx sy bb b0 b1 b2 b3 _ Hm Hmain Hms Hb) in Hin.
    destruct Hin as (i & j' & _ & _ & Heq). injection Heq as Ht _ _. symmetry in Ht.
    apply tile_or_none_Some in Ht. destruct Ht as (Ht & _). injection Ht as _ _ ->. reflexivity. }
  subst cz.
  destruct (mt_bbox (meta_tile m x y z)) as [[[minx miny] maxx] maxy].
  destruct (mt_size (meta_tile m x y z)) as [W H]. cbn [fst snd] in Hal.
  destruct Hal as ((HW & HH) & Hal). specialize (Hal cx cy z px py Hin).
  pose proof (tile_bbox_shape (mg_grid m) cx cy z) as Hshape.
  destruct (tile_bbox (mg_grid m) cx cy z) as [[[tx0 ty0] tx1] ty1].
  destruct Hal as (Hpx & Hpy & Hpx0 & Hpy0 & HpxW & HpyH). destruct Hshape as (-> & ->).
  pose proof (res_at_pos (mg_grid m) z (proj1 Hm) Hv) as Hr.
  destruct Hm as ((_ & _ & Htw & Hth & _) & _).
  unfold stored_pixel.
  rewrite (tile_pixel_src_inside px py _ _ W H j k) by lia.
  rewrite (tile_pixel_src_inside 0 0 _ _ (tw (mg_grid m)) (th (mg_grid m)) j k) by lia.
  cbn [Z.add]. f_equal. f_equal.
  - apply (sample_x_aligned (mg_grid m) q (res_at (mg_grid m) z)); lia.
  - apply (sample_y_aligned (mg_grid m) q (res_at (mg_grid m) z)); lia.
Qed.

(* ---------------------------------------------------------------- which tiles a meta tile holds *)

Lemma coord_eqb_eq a b : coord_eqb a b = true <-> a = b.
Proof.
  destruct a as [[a1 a2] a3], b as [[b1 b2] b3]. unfold coord_eqb. split.
  - intros H. f_equal; [f_equal|]; lia.
  - intros H. injection H as -> -> ->. lia.
Qed.

Lemma find_crop_In c p crop : find_crop c p = Some crop -> In (Some c, crop) p.
Proof.
  induction p as [|[[c'|] cr] p IH]; cbn [find_crop]; [discriminate| |].
  - destruct (coord_eqb c c') eqn:E.
    + intros H. injection H as <-. apply coord_eqb_eq in E. subst. left. reflexivity.
    + intros H. right. apply IH. exact H.
  - intros H. right. apply IH. exact H.
Qed.

Lemma find_crop_complete c p crop : In (Some c, crop) p -> exists crop', find_crop c p = Some crop'.
Proof.
  induction p as [|[[c'|] cr] p IH]; cbn [find_crop In]; [tauto| |].
  - intros [H|H].
    + injection H as -> ->. assert (coord_eqb c c = true) as -> by (apply coord_eqb_eq; reflexivity). eauto.
    + destruct (coord_eqb c c'); eauto.
  - intros [H|H]; [discriminate|]. eauto.
Qed.

Lemma mt_tiles_In t c : In c (mt_tiles t) <-> exists crop, In (Some c, crop) (mt_pattern t).
Proof.
  unfold mt_tiles. rewrite in_flat_map. split.
  - intros ([[c'|] crop] & Hin & Hc); cbn [fst] in Hc; [|destruct Hc].
    destruct Hc as [<-|[]]. exists crop. exact Hin.
  - intros (crop & Hin). exists (Some c, crop). split; [exact Hin|left; reflexivity].
Qed.

(* pattern_complete: the tiles of the pattern are exactly the valid tiles of the block of the main tile *)
Lemma pattern_complete_lemma m x y z c :
  mwf m ->
  let '(x0, y0, _) := main_tile m x y z in
  let '(sx, sy) := meta_size m z in
  let '(nx, ny) := grid_size (mg_grid m) z in
  In c (mt_tiles (meta_tile m x y z)) <->
  exists cx cy, c = (cx, cy, z) /\ x0 <= cx < x0 + sx /\ y0 <= cy < y0 + sy /\ 0 <= cx < nx /\ 0 <= cy < ny.
Proof.
  intros Hm. pose proof (main_tile_contains m x y z Hm) as Hc.
  destruct (main_tile m x y z) as [[x0 y0] z0] eqn:Hmain. destruct (meta_size m z) as [sx sy] eqn:Hms.
  destruct Hc as (-> & _). destruct (grid_size (mg_grid m) z) as [nx ny] eqn:Hgs.
  destruct (buffered_bbox m (unbuffered_meta_bbox m x0 y0 z) z true) as [bb [[[b0 b1] b2] b3]] eqn:Hb.
  assert (Hnx : fst (grid_size (mg_grid m) z) = nx) by (rewrite Hgs; reflexivity).
  assert (Hny : snd (grid_size (mg_grid m) z) = ny) by (rewrite Hgs; reflexivity).
  unfold grid_size in Hnx, Hny. cbn [fst snd] in Hnx, Hny.
  rewrite mt_tiles_In. split.
  - intros (crop & Hin).
    apply (meta_tile_pattern_In m x y z x0 y0 sx sy bb b0 b1 b2 b3 _ Hm Hmain Hms Hb) in Hin.
    destruct Hin as (i & j & Hi & Hj & Heq). injection Heq as Ht _. symmetry in Ht.
    apply tile_or_none_Some in Ht. destruct Ht as (-> & Hx & Hy).
    exists (x0 + j), (block_row (mg_grid m) y0 sy i). split; [reflexivity|].
    unfold block_row in *. destruct (ul (mg_grid m)); lia.
  - intros (cx & cy & -> & Hx & Hy & Hvx & Hvy).
    set (i := if ul (mg_grid m) then cy - y0 else y0 + sy - 1 - cy).
    exists ((cx - x0) * tw (mg_grid m) + b0, i * th (mg_grid m) + b3).
    apply (meta_tile_pattern_In m x y z x0 y0 sx sy bb b0 b1 b2 b3 _ Hm Hmain Hms Hb).
    exists i, (cx - x0). split; [unfold i; destruct (ul (mg_grid m)); lia|]. split; [lia|].
    f_equal. rewrite Hgs. cbn [fst snd].
    replace (x0 + (cx - x0)) with cx by lia.
    replace (block_row (mg_grid m) y0 sy i) with cy by (unfold block_row, i; destruct (ul (mg_grid m)); lia).
    symmetry. apply tile_or_none_valid; lia.
Qed.

(* a valid tile is part of its own meta tile *)
Lemma own_tile_in_meta m cx cy z :
  mwf m -> 0 <= cx < fst (grid_size (mg_grid m) z) -> 0 <= cy < snd (grid_size (mg_grid m) z) ->
  In (cx, cy, z) (mt_tiles (meta_tile m cx cy z)).
Proof.
  intros Hm Hx Hy. pose proof (pattern_complete_lemma m cx cy z (cx, cy, z) Hm) as H.
  pose proof (main_tile_contains m cx cy z Hm) as Hc.
  destruct (main_tile m cx cy z) as [[x0 y0] z0]. destruct (meta_size m z) as [sx sy].
  destruct (grid_size (mg_grid m) z) as [nx ny]. cbn [fst snd] in *.
  apply H. exists cx, cy. split; [reflexivity|]. lia.
Qed.

(* THE property in the model: for every picture that depends on ground position only (any cell size q), the
   image stored for a valid tile when it is cut out of its meta tile equals the image stored when the tile is
   requested alone, at every pixel, provided no buffer is cut off at the grid border *)
Lemma meta_equals_single_lemma m q cx cy z j k :
  mwf m -> valid_level (mg_grid m) z = true -> 0 < q ->
  0 <= cx < fst (grid_size (mg_grid m) z) -> 0 <= cy < snd (grid_size (mg_grid m) z) ->
  no_buffer_cut m cx cy z ->
  0 <= j < tw (mg_grid m) -> 0 <= k < th (mg_grid m) ->
  model_pixel m q HowMeta (cx, cy, z) j k = model_pixel m q HowSingle (cx, cy, z) j k.
Proof.
  intros Hm Hv Hq Hx Hy Hcut Hj Hk. unfold model_pixel, pixel_of_metatile.
  pose proof (own_tile_in_meta m cx cy z Hm Hx Hy) as Hown. apply mt_tiles_In in Hown.
  destruct Hown as (crop0 & Hin0). destruct (find_crop_complete _ _ _ Hin0) as ([px py] & Hf).
  rewrite Hf. f_equal. apply find_crop_In in Hf.
  apply (cut_equals_single m q cx cy z cx cy z px py j k); assumption.
Qed.

(* ---------------------------------------------------------------- every tile once *)

Lemma NoDup_app_intro {A} (l1 l2 : list A) :
  NoDup l1 -> NoDup l2 -> (forall x, In x l1 -> ~ In x l2) -> NoDup (l1 ++ l2).
Proof.
  induction l1 as [|a l1 IH]; intros H1 H2 Hd; [exact H2|].
  cbn [app]. inversion H1 as [|a' l' Ha Hl]; subst. constructor.
  - rewrite in_app_iff. intros [H|H]; [exact (Ha H)|]. apply (Hd a); [left; reflexivity|exact H].
  - apply IH; [exact Hl|exact H2|]. intros x Hx. apply Hd. right. exact Hx.
Qed.

Lemma NoDup_flat_map_intro {A B} (f : A -> list B) (l : list A) :
  NoDup l -> (forall a, In a l -> NoDup (f a)) ->
  (forall a b x, In a l -> In b l -> In x (f a) -> In x (f b) -> a = b) ->
  NoDup (flat_map f l).
Proof.
  induction l as [|a l IH]; intros Hl Hf Hd; [constructor|].
  cbn [flat_map]. inversion Hl as [|a' l' Ha Hl']; subst. apply NoDup_app_intro.
  - apply Hf. left. reflexivity.
  - apply IH; [exact Hl'| |].
    + intros b Hb. apply Hf. right. exact Hb.
    + intros b c x Hb Hc. apply Hd; right; assumption.
  - intros x Hx Hx'. apply in_flat_map in Hx'. destruct Hx' as (b & Hb & Hxb).
    assert (a = b) by (apply (Hd a b x); [left; reflexivity|right; exact Hb|exact Hx|exact Hxb]).
    subst b. exact (Ha Hb).
Qed.

Lemma flat_map_flat_map {A B C} (f : B -> list C) (g : A -> list B) (l : list A) :
  flat_map f (flat_map g l) = flat_map (fun x => flat_map f (g x)) l.
Proof. induction l as [|a l IH]; [reflexivity|]. cbn [flat_map]. rewrite flat_map_app, IH. reflexivity. Qed.

Lemma flat_map_map {A B C} (f : B -> list C) (g : A -> B) (l : list A) :
  flat_map f (map g l) = flat_map (fun x => f (g x)) l.
Proof. induction l as [|a l IH]; [reflexivity|]. cbn [flat_map map]. rewrite IH. reflexivity. Qed.

Definition sel_tile (p : option coord * (Z * Z)) : list coord := match fst p with Some c => [c] | None => [] end.

Lemma sel_tile_In p x : In x (sel_tile p) -> fst p = Some x.
Proof. unfold sel_tile. destruct (fst p); cbn; intuition congruence. Qed.

Lemma sel_tile_NoDup p : NoDup (sel_tile p).
Proof. unfold sel_tile. destruct (fst p); repeat constructor. cbn. tauto. Qed.

Lemma pattern_tiles_NoDup g sx sy bufs tiles (T : Z -> Z -> option coord) :
  (forall i j, 0 <= i < sy -> 0 <= j < sx -> nth (Z.to_nat (j + i * sx)) tiles None = T i j) ->
  (forall i j i' j' c, 0 <= i < sy -> 0 <= j < sx -> 0 <= i' < sy -> 0 <= j' < sx ->
                       T i j = Some c -> T i' j' = Some c -> i = i' /\ j = j') ->
  NoDup (flat_map sel_tile (tiles_pattern g (sx, sy) bufs tiles)).
Proof.
  intros Hn Hinj. destruct bufs as [[[b0 b1] b2] b3]. unfold tiles_pattern. cbn [fst snd].
  rewrite flat_map_flat_map.
  apply NoDup_flat_map_intro; [apply zrange_NoDup| |].
  - intros i Hi. apply zrange_In in Hi. rewrite flat_map_map.
    apply NoDup_flat_map_intro; [apply zrange_NoDup| |].
    + intros j _. apply sel_tile_NoDup.
    + intros j j' x Hj Hj' Hx Hx'. apply zrange_In in Hj. apply zrange_In in Hj'.
      apply sel_tile_In in Hx. apply sel_tile_In in Hx'. cbn [fst] in Hx, Hx'.
      rewrite Hn in Hx, Hx' by lia. apply (Hinj i j i j' x); lia || assumption.
  - intros i i' x Hi Hi' Hx Hx'. apply zrange_In in Hi. apply zrange_In in Hi'.
    rewrite flat_map_map in Hx, Hx'. apply in_flat_map in Hx. apply in_flat_map in Hx'.
    destruct Hx as (j & Hj & Hx). destruct Hx' as (j' & Hj' & Hx').
    apply zrange_In in Hj. apply zrange_In in Hj'.
    apply sel_tile_In in Hx. apply sel_tile_In in Hx'. cbn [fst] in Hx, Hx'.
    rewrite Hn in Hx, Hx' by lia. apply (Hinj i j i' j' x); lia || assumption.
Qed.

(* pattern_unique: no tile occurs twice in the pattern of a meta tile *)
Lemma pattern_unique_lemma m x y z : mwf m -> NoDup (mt_tiles (meta_tile m x y z)).
Proof.
  intros Hm. pose proof (main_tile_contains m x y z Hm) as Hc.
  destruct (main_tile m x y z) as [[x0 y0] z0] eqn:Hmain. destruct (meta_size m z) as [sx sy] eqn:Hms.
  destruct Hc as (-> & _).
  destruct (buffered_bbox m (unbuffered_meta_bbox m x0 y0 z) z true) as [bb bufs] eqn:Hb.
  rewrite (meta_tile_unfold m x y z x0 y0 sx sy bb bufs Hm Hmain Hms Hb). unfold mt_tiles. cbn [mt_pattern].
  pose proof (meta_size_pos m z Hm) as [Hsx Hsy]. rewrite Hms in Hsx, Hsy. cbn [fst snd] in Hsx, Hsy.
  assert (Hlx : Z.of_nat (length (zrange x0 (x0 + sx - 1))) = sx) by (rewrite zrange_length; lia).
  assert (Hly : Z.of_nat (length (rows_from_top (mg_grid m) y0 (y0 + sy - 1))) = sy) by (rewrite rows_from_top_length; lia).
  apply (pattern_tiles_NoDup (mg_grid m) sx sy bufs _
           (fun i j => tile_or_none (fst (grid_size (mg_grid m) z)) (snd (grid_size (mg_grid m) z)) z (x0 + j) (block_row (mg_grid m) y0 sy i))).
  - intros i j Hi Hj. rewrite <- Hlx at 1. rewrite create_tile_list_nth by lia. f_equal.
    + rewrite zrange_nth by (rewrite zrange_length; lia). lia.
    + rewrite rows_from_top_nth by lia. unfold block_row. destruct (ul (mg_grid m)); lia.
  - intros i j i' j' c Hi Hj Hi' Hj' H1 H2. apply tile_or_none_Some in H1. apply tile_or_none_Some in H2.
    destruct H1 as (-> & _). destruct H2 as (H2 & _). injection H2 as H2x H2y.
    unfold block_row in H2y. destruct (ul (mg_grid m)); lia.
Qed.

(* ---------------------------------------------------------------- buffers cut off at the grid border *)

Lemma trunc_px_bounds delta r :
  0 < r -> 200000 * trunc_px delta r * r <= 200000 * delta + r < 200000 * (trunc_px delta r + 1) * r.
Proof.
  intros Hr. unfold trunc_px. pose proof (div_bounds (200000 * delta + r) (200000 * r) ltac:(lia)). nia.
Qed.

Lemma trunc_px_multiple k r : 0 < r -> trunc_px (k * r) r = k.
Proof.
  intros Hr. pose proof (trunc_px_bounds (k * r) r Hr). nia.
Qed.

Lemma round_half_even_bound n d : 0 < d -> - d <= 2 * (round_half_even n d * d - n) <= d.
Proof.
  intros Hd. unfold round_half_even. pose proof (Z.div_mod n d ltac:(lia)). pose proof (Z.mod_pos_bound n d Hd).
  destruct (2 * (n mod d) <? d) eqn:E1; [nia|]. destruct (d <? 2 * (n mod d)) eqn:E2; [nia|].
  destruct (Z.even (n / d)); nia.
Qed.

Lemma buffered_components m a b c d l minx miny maxx maxy b0 b1 b2 b3 :
  0 < mbuf m ->
  buffered_bbox m (a, b, c, d) l true = ((minx, miny, maxx, maxy), (b0, b1, b2, b3)) ->
  let g := mg_grid m in let r := res_at g l in let B := mbuf m in
  (minx, b0) = (if a - B * r <? gx0 g then (gx0 g, B - trunc_px (gx0 g - (a - B * r)) r) else (a - B * r, B)) /\
  (maxy, b3) = (if gy1 g <? d + B * r then (gy1 g, B - trunc_px (d + B * r - gy1 g) r) else (d + B * r, B)) /\
  (miny = gy0 g \/ miny = b - B * r) /\ (maxx = gx1 g \/ maxx = c + B * r).
Proof.
  intros HB. unfold buffered_bbox. destruct (mbuf m <=? 0) eqn:E; [lia|]. cbn [negb].
  destruct (a - mbuf m * res_at (mg_grid m) l <? gx0 (mg_grid m));
  destruct (b - mbuf m * res_at (mg_grid m) l <? gy0 (mg_grid m));
  destruct (gx1 (mg_grid m) <? c + mbuf m * res_at (mg_grid m) l);
  destruct (gy1 (mg_grid m) <? d + mbuf m * res_at (mg_grid m) l);
  intros H; injection H as <- <- <- <- <- <- <- <-; cbv zeta; auto.
Qed.

(* pattern_truncated_within_one_pixel: whatever is cut off at the grid border, the horizontal crop offset of
   every tile is its exact pixel distance from the left edge of the requested bbox, the vertical one is within
   (strictly less than) one pixel of the exact distance from the top edge, and the requested image size is within
   half a pixel of extent / resolution *)
Lemma pattern_truncated_lemma m x y z :
  mwf m -> valid_level (mg_grid m) z = true ->
  let mt := meta_tile m x y z in
  let r := res_at (mg_grid m) z in
  let '(minx, miny, maxx, maxy) := mt_bbox mt in
  (- r <= 2 * (fst (mt_size mt) * r - (maxx - minx)) <= r /\ - r <= 2 * (snd (mt_size mt) * r - (maxy - miny)) <= r) /\
  forall cx cy cz px py, In (Some (cx, cy, cz), (px, py)) (mt_pattern mt) ->
    let '(tx0, ty0, tx1, ty1) := tile_bbox (mg_grid m) cx cy cz in
    px * r = tx0 - minx /\ - r < py * r - (maxy - ty1) < r.
Proof.
  intros Hm Hv. cbv zeta.
  pose proof (main_tile_contains m x y z Hm) as Hc.
  destruct (main_tile m x y z) as [[x0 y0] z0] eqn:Hmain.
  destruct (meta_size m z) as [sx sy] eqn:Hms. destruct Hc as (-> & Hc).
  pose proof (meta_size_pos m z Hm) as [Hsx Hsy]. rewrite Hms in Hsx, Hsy. cbn [fst snd] in Hsx, Hsy.
  destruct (buffered_bbox m (unbuffered_meta_bbox m x0 y0 z) z true) as [[[[minx miny] maxx] maxy] [[[b0 b1] b2] b3]] eqn:Hb.
  pose proof (meta_tile_unfold m x y z x0 y0 sx sy _ _ Hm Hmain Hms Hb) as Hunf.
  assert (Hpat : forall p, In p (mt_pattern (mkMT (minx, miny, maxx, maxy) (size_from_bbox m (minx, miny, maxx, maxy) z)
       (tiles_pattern (mg_grid m) (sx, sy) (b0, b1, b2, b3)
          (create_tile_list (zrange x0 (x0 + sx - 1)) (rows_from_top (mg_grid m) y0 (y0 + sy - 1)) z (grid_size (mg_grid m) z)))
       (sx, sy))) <->
   exists i j, 0 <= i < sy /\ 0 <= j < sx /\
     p = (tile_or_none (fst (grid_size (mg_grid m) z)) (snd (grid_size (mg_grid m) z)) z (x0 + j) (block_row (mg_grid m) y0 sy i),
          (j * tw (mg_grid m) + b0, i * th (mg_grid m) + b3))).
  { intros p. pose proof (meta_tile_pattern_In m x y z x0 y0 sx sy _ b0 b1 b2 b3 p Hm Hmain Hms Hb) as H.
    rewrite Hunf in H. exact H. }
  rewrite Hunf. cbn [mt_bbox mt_size mt_pattern] in *.
  rewrite (unbuffered_meta_bbox_eq m x0 y0 z sx sy Hm Hv Hms) in Hb.
  pose proof (res_at_pos (mg_grid m) z (proj1 Hm) Hv) as Hr.
  assert (HB : 0 <= mbuf m) by apply Hm.
  destruct Hm as ((_ & _ & Htw & Hth & _) & _).
  split.
  - unfold size_from_bbox. cbn [fst snd].
    split; apply round_half_even_bound; exact Hr.
  - intros cx cy cz px py Hin. apply Hpat in Hin. destruct Hin as (i & j & Hi & Hj & Heq).
    injection Heq as Ht -> ->. symmetry in Ht. apply tile_or_none_Some in Ht. destruct Ht as (Ht & _).
    injection Ht as -> -> ->.
    destruct (block_bbox (mg_grid m) x0 y0 sx sy z) as [[[ba bb_] bc] bd] eqn:Hblock.
    set (g := mg_grid m) in *. set (r := res_at g z) in *.
    destruct (Z.eq_dec (mbuf m) 0) as [HB0|HB0].
    + (* no buffer: nothing is cut *)
      unfold buffered_bbox in Hb. fold g in Hb. rewrite HB0 in Hb. cbn in Hb.
      injection Hb as <- <- <- <- <- <- <- <-.
      unfold block_bbox in Hblock. fold g r in Hblock. unfold tile_bbox, block_row. fold g r.
      destruct (ul g); injection Hblock as <- <- <- <-; nia.
    + pose proof (buffered_components m ba bb_ bc bd z _ _ _ _ _ _ _ _ ltac:(lia) Hb) as (Hx & Hy & _ & _).
      cbv zeta in Hx, Hy. fold g r in Hx, Hy. set (B := mbuf m) in *.
      unfold block_bbox in Hblock. fold g r in Hblock. unfold tile_bbox, block_row. fold g r.
      assert (Hx0 : ba = gx0 g + x0 * r * tw g) by (destruct (ul g); injection Hblock as <- _ _ _; reflexivity).
      assert (HX : (j * tw g + b0) * r = gx0 g + (x0 + j) * r * tw g - minx).
      { destruct (ba - B * r <? gx0 g) eqn:E.
        - injection Hx as -> ->. replace (gx0 g - (ba - B * r)) with ((B - x0 * tw g) * r) by nia.
          rewrite trunc_px_multiple by exact Hr. nia.
        - injection Hx as -> ->. nia. }
      destruct (ul g) eqn:Hul.
      * injection Hblock as _ _ _ Hd. split; [nia|].
        destruct (gy1 g <? bd + B * r) eqn:E.
        -- injection Hy as -> ->. replace (bd + B * r - gy1 g) with ((B - y0 * th g) * r) by nia.
           rewrite trunc_px_multiple by exact Hr. nia.
        -- injection Hy as -> ->. nia.
      * injection Hblock as _ _ _ Hd. split; [nia|].
        destruct (gy1 g <? bd + B * r) eqn:E.
        -- injection Hy as -> ->. pose proof (trunc_px_bounds (bd + B * r - gy1 g) r Hr). nia.
        -- injection Hy as -> ->. nia.
Qed.

(* ---------------------------------------------------------------- non-vacuity *)

Definition ex_grid : grid := mkGrid 0 0 23043 23047 256 256 [80; 40; 20; 10] false 115 100 4 1.
Definition ex_m : mgrid := mkMG ex_grid 2 2 10.

Lemma ex_m_wf : mwf ex_m.
Proof.
  unfold mwf, wf, pos_res. cbn. repeat split; try lia. all: intros r Hr; intuition lia.
Qed.

(* hypotheses of pattern_pixel_aligned / meta_tile_equals_tile_fetched_alone hold for an inner tile ... *)
Example ex_no_cut : no_buffer_cut ex_m 3 3 3 /\ valid_level ex_grid 3 = true /\
  grid_size ex_grid 3 = (9, 9) /\
  mt_bbox (meta_tile ex_m 3 3 3) = (5020, 5020, 10340, 10340) /\ mt_size (meta_tile ex_m 3 3 3) = (532, 532) /\
  mt_pattern (meta_tile ex_m 3 3 3) =
    [(Some (2, 3, 3), (10, 10)); (Some (3, 3, 3), (266, 10)); (Some (2, 2, 3), (10, 266)); (Some (3, 2, 3), (266, 266))].
Proof. unfold no_buffer_cut. vm_compute. repeat split; reflexivity. Qed.

(* ... and fail for a border tile, where the buffer is cut at a fractional pixel position (extent 2304.3 x 2304.7 px,
   the block of the main tile (8,8) reaches beyond the grid): the crop offset at the top is 1 although the exact
   distance is 0.7 px, the sizes are rounded from 266.3 and 266.7, tiles outside the grid are None *)
Example ex_cut : ~ no_buffer_cut ex_m 8 8 3 /\
  mt_bbox (meta_tile ex_m 8 8 3) = (20380, 20380, 23043, 23047) /\ mt_size (meta_tile ex_m 8 8 3) = (266, 267) /\
  mt_pattern (meta_tile ex_m 8 8 3) = [(None, (10, -255)); (None, (266, -255)); (Some (8, 8, 3), (10, 1)); (None, (266, 1))] /\
  meta_size (mkMG ex_grid 4 4 10) 0 = (2, 2).
Proof. unfold no_buffer_cut. vm_compute. repeat split; try reflexivity. intros H. discriminate H. Qed.

(* tiles with the same main tile have the same meta tile (used by the de-duplication of create_tiles) *)
Lemma same_main_tile_same_meta_tile m x y x' y' z :
  main_tile m x' y' z = main_tile m x y z -> meta_tile m x' y' z = meta_tile m x y z.
Proof. intros H. unfold meta_tile. rewrite H. reflexivity. Qed.

(* ---------------------------------------------------------------- the request-minimising meta tile *)

Definition minmax_step (acc : Z * Z * Z * Z) (t : coord) : Z * Z * Z * Z :=
  let '(minx, maxx, miny, maxy) := acc in
  let '(x, y, _) := t in (Z.min minx x, Z.max maxx x, Z.min miny y, Z.max maxy y).

Lemma fold_minmax_bounds l : forall a b c d,
  let '(minx, maxx, miny, maxy) := fold_left minmax_step l (a, b, c, d) in
  minx <= a /\ b <= maxx /\ miny <= c /\ d <= maxy /\
  (forall x y z, In (x, y, z) l -> minx <= x <= maxx /\ miny <= y <= maxy) /\
  ((forall x y z, In (x, y, z) l -> 0 <= x /\ 0 <= y) -> 0 <= a -> 0 <= c -> 0 <= minx /\ 0 <= miny).
Proof.
  induction l as [|[[tx ty] tz] l IH]; intros a b c d; cbn [fold_left].
  - repeat split; try lia. all: intros; try contradiction; lia.
  - unfold minmax_step at 2. specialize (IH (Z.min a tx) (Z.max b tx) (Z.min c ty) (Z.max d ty)).
    destruct (fold_left minmax_step l (Z.min a tx, Z.max b tx, Z.min c ty, Z.max d ty)) as [[[minx maxx] miny] maxy].
    destruct IH as (H1 & H2 & H3 & H4 & H5 & H6). repeat split; try lia.
    + destruct H as [H|H]; [injection H as <- <- <-; lia|]. apply (H5 x y z H).
    + destruct H as [H|H]; [injection H as <- <- <-; lia|]. apply (H5 x y z H).
    + destruct H as [H|H]; [injection H as <- <- <-; lia|]. apply (H5 x y z H).
    + destruct H as [H|H]; [injection H as <- <- <-; lia|]. apply (H5 x y z H).
    + apply H6; [intros x y z Hin; apply (H x y z); right; exact Hin| |]; pose proof (H tx ty tz (or_introl eq_refl)); lia.
    + apply H6; [intros x y z Hin; apply (H x y z); right; exact Hin| |]; pose proof (H tx ty tz (or_introl eq_refl)); lia.
Qed.

Lemma fold_minmax_bounds_eq l a b c d minx maxx miny maxy :
  fold_left minmax_step l (a, b, c, d) = (minx, maxx, miny, maxy) ->
  minx <= a /\ b <= maxx /\ miny <= c /\ d <= maxy /\
  (forall x y z, In (x, y, z) l -> minx <= x <= maxx /\ miny <= y <= maxy) /\
  ((forall x y z, In (x, y, z) l -> 0 <= x /\ 0 <= y) -> 0 <= a -> 0 <= c -> 0 <= minx /\ 0 <= miny).
Proof. intros H. pose proof (fold_minmax_bounds l a b c d) as Hb. rewrite H in Hb. exact Hb. Qed.

(* minimal_meta_contains_requested: for a non-empty list of tiles of one level with non-negative indices, the
   request-minimising meta tile exists and its pattern contains every requested tile *)
Lemma minimal_meta_contains_lemma m (tiles : list coord) z :
  mwf m -> tiles <> [] -> (forall x y l, In (x, y, l) tiles -> l = z /\ 0 <= x /\ 0 <= y) ->
  exists mt, minimal_meta_tile m tiles = Some mt /\ forall c, In c tiles -> In c (mt_tiles mt).
Proof.
  intros Hm Hne Hall. unfold minimal_meta_tile, full_tile_list.
  destruct (rev tiles) as [|[[lx ly] lz] rest] eqn:Erev.
  { exfalso. apply Hne. rewrite <- (rev_involutive tiles), Erev. reflexivity. }
  assert (Hrev : forall x y l, In (x, y, l) ((lx, ly, lz) :: rest) -> l = z /\ 0 <= x /\ 0 <= y)
    by (intros x y l H; apply (Hall x y l); apply (proj2 (@in_rev coord tiles (x, y, l))); rewrite Erev; exact H).
  assert (Hmem : forall c, In c tiles -> In c ((lx, ly, lz) :: rest))
    by (intros c H; apply (proj1 (@in_rev coord tiles c)) in H; rewrite Erev in H; exact H).
  destruct (Hrev lx ly lz (or_introl eq_refl)) as (-> & Hlx & Hly).
  change (fun acc t => let '(minx, maxx, miny, maxy) := acc in let '(x, y, _) := t in
                       (Z.min minx x, Z.max maxx x, Z.min miny y, Z.max maxy y)) with minmax_step.
  match goal with |- context [@fold_left ?A ?B minmax_step ?l ?a] =>
    destruct (@fold_left A B minmax_step l a) as [[[minx maxx] miny] maxy] eqn:Efold end.
  pose proof (fold_minmax_bounds_eq _ _ _ _ _ _ _ _ _ Efold) as (H1 & H2 & H3 & H4 & H5 & H6). cbv beta iota.
  assert (Hpos : 0 <= minx /\ 0 <= miny).
  { apply H6; [|lia|lia]. intros x y l Hin. apply in_rev in Hin.
    destruct (Hrev x y l (or_intror Hin)) as (_ & ? & ?). lia. }
  assert (Hin_all : forall x y l, In (x, y, l) tiles -> l = z /\ minx <= x <= maxx /\ miny <= y <= maxy).
  { intros x y l Hin. destruct (Hall x y l Hin) as (-> & _). split; [reflexivity|].
    apply Hmem in Hin. destruct Hin as [Hin|Hin]; [injection Hin as <- <-; lia|].
    apply (H5 x y z). apply in_rev. rewrite rev_involutive. exact Hin. }
  set (g := mg_grid m) in *.
  set (xs := zrange minx maxx). set (ys := rows_from_top g miny maxy).
  assert (Hlx' : Z.of_nat (length xs) = 1 + maxx - minx) by (unfold xs; rewrite zrange_length; lia).
  assert (Hly' : Z.of_nat (length ys) = 1 + maxy - miny) by (unfold ys; rewrite rows_from_top_length; lia).
  assert (Hn : forall i j, 0 <= i < 1 + maxy - miny -> 0 <= j < 1 + maxx - minx ->
    nth (Z.to_nat (j + i * (1 + maxx - minx))) (create_tile_list xs ys z (maxx + 1, maxy + 1)) None =
    Some (minx + j, (if ul g then miny + i else maxy - i), z)).
  { intros i j Hi Hj. rewrite <- Hlx' at 1. rewrite create_tile_list_nth by lia. cbn [fst snd].
    unfold xs, ys. rewrite zrange_nth by (rewrite zrange_length; lia). rewrite rows_from_top_nth by lia.
    replace (minx + Z.of_nat (Z.to_nat j)) with (minx + j) by lia.
    replace (Z.of_nat (Z.to_nat i)) with i by lia.
    apply tile_or_none_valid; destruct (ul g); lia. }
  destruct (create_tile_list xs ys z (maxx + 1, maxy + 1)) as [|first full'] eqn:Efull.
  { exfalso. specialize (Hn 0 0 ltac:(lia) ltac:(lia)). cbn in Hn. discriminate Hn. }
  assert (Hfirst : first = Some (minx, (if ul g then miny else maxy), z)).
  { specialize (Hn 0 0 ltac:(lia) ltac:(lia)). cbn in Hn. rewrite Hn. destruct (ul g); repeat f_equal; lia. }
  rewrite Hfirst. cbn [snd].
  destruct (buffered_bbox m (tiles_bbox g (minx, miny, z) (maxx, maxy, z)) z true) as [bb [[[b0 b1] b2] b3]] eqn:Hbuf.
  eexists. split; [reflexivity|].
  intros [[cx cy] cl] Hc. destruct (Hin_all cx cy cl Hc) as (-> & Hcx & Hcy).
  apply mt_tiles_In. cbn [mt_pattern]. rewrite <- Hfirst.
  set (i := if ul g then cy - miny else maxy - cy).
  exists ((cx - minx) * tw g + b0, i * th g + b3).
  apply tiles_pattern_In. exists i, (cx - minx).
  split; [unfold i; destruct (ul g); lia|]. split; [lia|].
  f_equal. rewrite Hn by (unfold i; destruct (ul g); lia).
  unfold i. destruct (ul g); repeat f_equal; lia.
Qed.

Example minimal_meta_example :
  exists mt, minimal_meta_tile ex_m [(1, 1, 3); (3, 2, 3)] = Some mt /\
    mt_bbox mt = (2460, 2460, 10340, 7780) /\ mt_size mt = (788, 532) /\ mt_grid_size mt = (3, 2) /\
    mt_tiles mt = [(1, 2, 3); (2, 2, 3); (3, 2, 3); (1, 1, 3); (2, 1, 3); (3, 1, 3)].
Proof. eexists. split; [vm_compute; reflexivity|]. vm_compute. repeat split; reflexivity. Qed.

(* ---------------------------------------------------------------- padding only outside the extent *)

Lemma buffered_sides m a b c d l minx miny maxx maxy bufs :
  0 <= mbuf m ->
  buffered_bbox m (a, b, c, d) l true = ((minx, miny, maxx, maxy), bufs) ->
  let g := mg_grid m in let r := res_at g l in let B := mbuf m in
  (minx = gx0 g \/ minx = a - B * r) /\ (miny = gy0 g \/ miny = b - B * r) /\
  (maxx = gx1 g \/ maxx = c + B * r) /\ (maxy = gy1 g \/ maxy = d + B * r).
Proof.
  intros HB. unfold buffered_bbox. destruct (mbuf m <=? 0) eqn:E.
  - intros H. injection H as <- <- <- <- _. cbv zeta. replace (mbuf m) with 0 by lia. lia.
  - cbn [negb].
    destruct (a - mbuf m * res_at (mg_grid m) l <? gx0 (mg_grid m));
    destruct (b - mbuf m * res_at (mg_grid m) l <? gy0 (mg_grid m));
    destruct (gx1 (mg_grid m) <? c + mbuf m * res_at (mg_grid m) l);
    destruct (gy1 (mg_grid m) <? d + mbuf m * res_at (mg_grid m) l);
    intros H; injection H as <- <- <- <- _; cbv zeta; auto.
Qed.

(* a tile of the pattern lies inside the block of its meta tile; each side of the requested bbox is either the
   grid border or lies beyond the tile *)
Lemma requested_bbox_sides m x y z :
  mwf m -> valid_level (mg_grid m) z = true ->
  let mt := meta_tile m x y z in
  let g := mg_grid m in
  let '(minx, miny, maxx, maxy) := mt_bbox mt in
  forall cx cy cz crop, In (Some (cx, cy, cz), crop) (mt_pattern mt) ->
    let '(tx0, ty0, tx1, ty1) := tile_bbox g cx cy cz in
    (minx = gx0 g \/ minx + mbuf m * res_at g z <= tx0) /\ (miny = gy0 g \/ miny + mbuf m * res_at g z <= ty0) /\
    (maxx = gx1 g \/ tx1 + mbuf m * res_at g z <= maxx) /\ (maxy = gy1 g \/ ty1 + mbuf m * res_at g z <= maxy).
Proof.
  intros Hm Hv. cbv zeta.
  pose proof (main_tile_contains m x y z Hm) as Hc.
  destruct (main_tile m x y z) as [[x0 y0] z0] eqn:Hmain.
  destruct (meta_size m z) as [sx sy] eqn:Hms. destruct Hc as (-> & Hc).
  pose proof (meta_size_pos m z Hm) as [Hsx Hsy]. rewrite Hms in Hsx, Hsy. cbn [fst snd] in Hsx, Hsy.
  destruct (buffered_bbox m (unbuffered_meta_bbox m x0 y0 z) z true) as [[[[minx miny] maxx] maxy] [[[b0 b1] b2] b3]] eqn:Hb.
  pose proof (meta_tile_unfold m x y z x0 y0 sx sy _ _ Hm Hmain Hms Hb) as Hunf.
  destruct (mt_bbox (meta_tile m x y z)) as [[[qa qb] qc] qd] eqn:Ebb.
  intros cx cy cz crop Hin.
  apply (meta_tile_pattern_In m x y z x0 y0 sx sy _ b0 b1 b2 b3 _ Hm Hmain Hms Hb) in Hin.
  rewrite Hunf in Ebb. cbn [mt_bbox] in Ebb. injection Ebb as <- <- <- <-.
  destruct Hin as (i & j & Hi & Hj & Heq).
  injection Heq as Ht _. symmetry in Ht. apply tile_or_none_Some in Ht. destruct Ht as (Ht & _).
  injection Ht as -> -> ->.
  rewrite (unbuffered_meta_bbox_eq m x0 y0 z sx sy Hm Hv Hms) in Hb.
  destruct (block_bbox (mg_grid m) x0 y0 sx sy z) as [[[ba bb_] bc] bd] eqn:Hblock.
  assert (HB : 0 <= mbuf m) by apply Hm.
  pose proof (buffered_sides m ba bb_ bc bd z _ _ _ _ _ HB Hb) as (S1 & S2 & S3 & S4). cbv zeta in S1, S2, S3, S4.
  pose proof (res_at_pos (mg_grid m) z (proj1 Hm) Hv) as Hr.
  destruct Hm as ((_ & _ & Htw & Hth & _) & _).
  set (g := mg_grid m) in *. set (r := res_at g z) in *. set (B := mbuf m) in *.
  unfold block_bbox in Hblock. fold g r in Hblock. unfold tile_bbox, block_row. fold g r.
  assert (0 <= B * r) by nia. assert (0 < r * tw g) by nia. assert (0 < r * th g) by nia.
  destruct (ul g); injection Hblock as <- <- <- <-.
  all: (split; [destruct S1; [left; lia|right; nia]|]); (split; [destruct S2; [left; lia|right; nia]|]);
       (split; [destruct S3; [left; lia|right; nia]|destruct S4; [left; lia|right; nia]]).
Qed.

Lemma tile_pixel_src_None px py tw_ th_ W H j k :
  tile_pixel_src (px, py) (tw_, th_) (W, H) j k = None ->
  px + j < 0 \/ W <= px + j \/ py + k < 0 \/ H <= py + k \/ (tw_ <= j \/ j < 0) \/ (th_ <= k \/ k < 0).
Proof.
  unfold tile_pixel_src, get_tile_rect. cbn [fst snd].
  destruct ((px <? 0) || (py <? 0) || (W <? px + tw_) || (H <? py + th_)) eqn:E.
  - match goal with |- (if ?c then _ else _) = None -> _ => destruct c eqn:E2; [discriminate|] end. intros _. lia.
  - match goal with |- (if ?c then _ else _) = None -> _ => destruct c eqn:E2; [discriminate|] end. intros _. lia.
Qed.

(* no_background_inside_extent: a pixel of a stored tile that is left as background (padding of TileSplitter) does not
   lie one pixel or more inside the grid extent *)
Lemma no_background_lemma m x y z cx cy cz px py j k :
  mwf m -> valid_level (mg_grid m) z = true ->
  In (Some (cx, cy, cz), (px, py)) (mt_pattern (meta_tile m x y z)) ->
  0 <= j < tw (mg_grid m) -> 0 <= k < th (mg_grid m) ->
  tile_pixel_src (px, py) (tw (mg_grid m), th (mg_grid m)) (mt_size (meta_tile m x y z)) j k = None ->
  let g := mg_grid m in let r := res_at g z in
  let '(tx0, ty0, tx1, ty1) := tile_bbox g cx cy cz in
  ~ (gx0 g + r <= tx0 + j * r /\ tx0 + (j + 1) * r <= gx1 g - r /\
     gy0 g + r <= ty1 - (k + 1) * r /\ ty1 - k * r <= gy1 g - r).
Proof.
  intros Hm Hv Hin Hj Hk Hnone. cbv zeta.
  destruct (Z.eq_dec (mbuf m) 0) as [HB0|HB0].
  { (* no buffer: nothing is cut, nothing is padded *)
    exfalso.
    assert (Hcut : no_buffer_cut m x y z).
    { unfold no_buffer_cut. destruct (main_tile m x y z) as [[x0 y0] z0]. unfold buffered_bbox.
      destruct (unbuffered_meta_bbox m x0 y0 z0) as [[[a b] c] d]. rewrite HB0. reflexivity. }
    pose proof (pattern_pixel_aligned_lemma m x y z Hm Hv Hcut) as Hal. cbv zeta in Hal.
    destruct (mt_bbox (meta_tile m x y z)) as [[[minx miny] maxx] maxy].
    destruct (mt_size (meta_tile m x y z)) as [W H]. cbn [fst snd] in Hal.
    destruct Hal as (_ & Hal). specialize (Hal cx cy cz px py Hin).
    destruct (tile_bbox (mg_grid m) cx cy cz) as [[[tx0 ty0] tx1] ty1].
    destruct Hal as (_ & _ & P1 & P2 & P3 & P4).
    rewrite (tile_pixel_src_inside px py _ _ W H j k) in Hnone by lia. discriminate Hnone. }
  pose proof (pattern_truncated_lemma m x y z Hm Hv) as Ht. cbv zeta in Ht.
  pose proof (requested_bbox_sides m x y z Hm Hv) as Hs. cbv zeta in Hs.
  destruct (mt_bbox (meta_tile m x y z)) as [[[minx miny] maxx] maxy].
  destruct (mt_size (meta_tile m x y z)) as [W H]. cbn [fst snd] in Ht.
  destruct Ht as ((HW & HH) & Ht). specialize (Ht cx cy cz px py Hin). specialize (Hs cx cy cz (px, py) Hin).
  pose proof (tile_bbox_shape (mg_grid m) cx cy cz) as Hshape.
  assert (Hcz : cz = z).
  { pose proof (main_tile_contains m x y z Hm) as Hc.
    destruct (main_tile m x y z) as [[x0 y0] z0] eqn:Hmain. destruct (meta_size m z) as [sx sy] eqn:Hms.
    destruct Hc as (-> & _).
    destruct (buffered_bbox m (unbuffered_meta_bbox m x0 y0 z) z true) as [bb [[[b0 b1] b2] b3]] eqn:Hb.
    apply (meta_tile_pattern_In m x y z x0 y0 sx sy bb b0 b1 b2 b3 _ Hm Hmain Hms Hb) in Hin.
    destruct Hin as (i & j' & _ & _ & Heq). injection Heq as Ht' _ _. symmetry in Ht'.
    apply tile_or_none_Some in Ht'. destruct Ht' as (Ht' & _). injection Ht' as _ _ ->. reflexivity. }
  subst cz.
  destruct (tile_bbox (mg_grid m) cx cy z) as [[[tx0 ty0] tx1] ty1].
  destruct Ht as (Hpx & Hpy). destruct Hs as (S1 & S2 & S3 & S4). destruct Hshape as (Hx1 & Hy0).
  pose proof (res_at_pos (mg_grid m) z (proj1 Hm) Hv) as Hr.
  assert (HB : 0 <= mbuf m) by apply Hm.
  destruct Hm as ((_ & _ & Htw & Hth & _) & _).
  set (g := mg_grid m) in *. set (r := res_at g z) in *. set (B := mbuf m) in *.
  apply tile_pixel_src_None in Hnone. clear Hin Hv.
  intros (A1 & A2 & A3 & A4). clearbody r B.
  assert (0 <= B * r) by nia.
  destruct Hnone as [N|[N|[N|[N|[N|N]]]]]; try lia.
  all: assert ((j + 1) * r <= tw g * r) by nia; assert ((k + 1) * r <= th g * r) by nia;
       assert (0 <= j * r) by nia; assert (0 <= k * r) by nia.
  - assert ((px + j + 1) * r <= 0) by nia. destruct S1; lia.
  - assert (W * r <= (px + j) * r) by nia. destruct S3; lia.
  - assert ((py + k + 1) * r <= 0) by nia. destruct S4; lia.
  - assert (H * r <= (py + k) * r) by nia. assert (r <= B * r) by nia. destruct S2; lia.
Qed.

(* non-vacuity: the last column of this grid (20.3 px wide, 8-px tiles) is only partly inside the extent; the tile
   (2,0,0) cut out of its meta tile has background from column 4 on, whose ground rectangle [200,210] is not
   one pixel inside the extent [0,203] *)
Definition bg_m : mgrid := mkMG (mkGrid 0 0 203 87 8 8 [10] false 115 100 4 1) 2 1 2.
Example background_example :
  mt_pattern (meta_tile bg_m 2 0 0) = [(Some (2, 0, 0), (2, 1)); (None, (10, 1))] /\
  mt_size (meta_tile bg_m 2 0 0) = (6, 9) /\
  tile_pixel_src (2, 1) (8, 8) (6, 9) 3 0 = Some (5, 1) /\ tile_pixel_src (2, 1) (8, 8) (6, 9) 4 0 = None.
Proof. vm_compute. repeat split; reflexivity. Qed.

(* ---------------------------------------------------------------- every requested tile is produced *)

Definition valid_tile (m : mgrid) (c : coord) : Prop :=
  let '(x, y, z) := c in
  0 <= x < fst (grid_size (mg_grid m) z) /\ 0 <= y < snd (grid_size (mg_grid m) z).

Lemma coord_mem_In c l : coord_mem c l = true <-> In c l.
Proof.
  induction l as [|a l IH]; cbn [coord_mem In]; [split; [discriminate|tauto]|].
  rewrite orb_true_iff, IH, coord_eqb_eq. split; intros [H|H]; auto.
Qed.

(* the loop over the requested tiles: a valid tile whose main tile was not seen before is stored by one of
   the meta tiles that the loop collects *)
Lemma dedup_meta_covers m tiles : forall seen c,
  mwf m -> In c tiles -> valid_tile m c ->
  (let '(x, y, z) := c in ~ In (main_tile m x y z) seen) ->
  In c (flat_map mt_tiles (dedup_meta m tiles seen)).
Proof.
  induction tiles as [|[[tx ty] tz] tiles IH]; intros seen [[cx cy] cz] Hm Hin Hv Hns; [destruct Hin|].
  cbn [dedup_meta]. destruct (coord_mem (main_tile m tx ty tz) seen) eqn:E.
  - apply coord_mem_In in E. destruct Hin as [Hin|Hin].
    + injection Hin as -> -> ->. contradiction.
    + apply (IH seen (cx, cy, cz)); assumption.
  - cbn [flat_map]. apply in_or_app.
    destruct (coord_eqb (main_tile m cx cy cz) (main_tile m tx ty tz)) eqn:E2.
    + left. apply coord_eqb_eq in E2.
      assert (cz = tz) by (rewrite !main_tile_eq in E2; injection E2 as _ _ ->; reflexivity). subst tz.
      rewrite <- (same_main_tile_same_meta_tile m tx ty cx cy cz E2).
      apply own_tile_in_meta; [exact Hm|apply Hv|apply Hv].
    + right. destruct Hin as [Hin|Hin].
      * injection Hin as -> -> ->.
        assert (coord_eqb (main_tile m cx cy cz) (main_tile m cx cy cz) = true) by (apply coord_eqb_eq; reflexivity).
        congruence.
      * apply (IH (main_tile m tx ty tz :: seen) (cx, cy, cz)); try assumption.
        intros [H|H]; [|exact (Hns H)].
        assert (coord_eqb (main_tile m cx cy cz) (main_tile m tx ty tz) = true) by (apply coord_eqb_eq; symmetry; exact H).
        congruence.
Qed.

Lemma flat_map_snd_map {A} (f : A -> step) (l : list A) :
  flat_map snd (map f l) = flat_map (fun a => snd (f a)) l.
Proof. apply flat_map_map. Qed.

(* every_requested_tile_is_produced: whatever the strategy (single tiles, request-minimising meta tile, one meta
   tile per main tile, bulk), every requested valid tile is handed to a store call of the creation plan *)
Lemma every_requested_tile_is_produced_lemma m has_meta minimize bulk (tiles : list coord) z plan :
  mwf m -> (forall c, In c tiles -> valid_tile m c /\ snd c = z) ->
  create_plan m has_meta minimize bulk tiles = Some plan ->
  forall c, In c tiles -> In c (flat_map snd plan).
Proof.
  intros Hm Hall Hplan c Hc. unfold create_plan in Hplan.
  destruct (negb has_meta).
  - injection Hplan as <-. rewrite flat_map_snd_map. cbn [snd]. apply in_flat_map. exists c. split; [exact Hc|left; reflexivity].
  - destruct (minimize && (1 <? Z.of_nat (length tiles))) eqn:Emin.
    + assert (Hne : tiles <> []) by (intros ->; cbn in Emin; rewrite andb_false_r in Emin; discriminate).
      destruct (minimal_meta_contains_lemma m tiles z Hm Hne) as (mt & Hmt & Hcov).
      { intros x y l Hin. destruct (Hall (x, y, l) Hin) as (Hv & Hz). cbn in Hz, Hv. lia. }
      rewrite Hmt in Hplan. injection Hplan as <-. cbn [flat_map snd]. rewrite app_nil_r. apply Hcov. exact Hc.
    + injection Hplan as <-. rewrite flat_map_snd_map.
      assert (Hcov : In c (flat_map mt_tiles (dedup_meta m tiles []))).
      { apply dedup_meta_covers; [exact Hm|exact Hc|apply (Hall c Hc)|]. destruct c as [[cx cy] cz]. intros []. }
      apply in_flat_map in Hcov. destruct Hcov as (mt & Hmt & Hin). apply in_flat_map. exists mt. split; [exact Hmt|].
      destruct bulk; exact Hin.
Qed.

(* non-vacuity, and the regression witness of finding meta-dedup-by-bbox-drops-tile: on a level that is two meta
   tiles wide with a buffer of one meta tile both requested bboxes are the grid bbox; both tiles are produced *)
Definition dd_m : mgrid := mkMG (mkGrid 0 0 160 80 8 8 [10] false 115 100 4 1) 1 1 8.
Example every_requested_tile_is_produced_example :
  mwf dd_m /\ (forall c, In c [(0, 0, 0); (1, 0, 0)] -> valid_tile dd_m c /\ snd c = 0) /\
  create_plan dd_m true false false [(0, 0, 0); (1, 0, 0)] =
    Some [([((0, 0, 160, 80), (16, 8))], [(0, 0, 0)]); ([((0, 0, 160, 80), (16, 8))], [(1, 0, 0)])].
Proof.
  split; [|split].
  - unfold mwf, wf, pos_res. cbn. repeat split; try lia. all: intros r Hr; intuition lia.
  - intros c [<-|[<-|[]]]; vm_compute; repeat split; discriminate.
  - vm_compute. reflexivity.
Qed.

(* ---------------------------------------------------------------- requests on a cache that already holds tiles *)

(* whatever the cache holds when a request starts (partially cached meta tiles, with or without their main tile,
   left behind by other configurations or by removals), every requested valid tile is either already cached or is
   handed to a store call: the re-check under the lock looks at ALL tiles of the meta tile *)
Lemma plan_with_caches_produces m has_meta minimize bulk cached locked (tiles : list coord) z plan :
  mwf m -> (forall c, In c tiles -> valid_tile m c /\ snd c = z) ->
  plan_with_caches m has_meta minimize bulk cached locked tiles = Some plan ->
  forall c, In c tiles -> In c cached \/ In c locked \/ In c (flat_map snd plan).
Proof.
  intros Hm Hall Hplan c Hc. unfold plan_with_caches in Hplan.
  destruct (coord_mem c cached) eqn:Ec; [left; apply coord_mem_In; exact Ec|right].
  destruct (coord_mem c locked) eqn:El; [left; apply coord_mem_In; exact El|right].
  set (unc := filter (fun c => negb (coord_mem c cached)) tiles) in *.
  assert (Hcu : In c unc) by (apply filter_In; split; [exact Hc|rewrite Ec; reflexivity]).
  assert (Hallu : forall c', In c' unc -> valid_tile m c' /\ snd c' = z)
    by (intros c' H; apply filter_In in H; apply Hall; apply H).
  destruct unc as [|u0 unc'] eqn:Eu; [destruct Hcu|]. rewrite <- Eu in *.
  destruct (create_plan m has_meta minimize bulk unc) as [plan0|] eqn:E0; [|discriminate].
  injection Hplan as <-.
  pose proof (every_requested_tile_is_produced_lemma m has_meta minimize bulk unc z plan0 Hm Hallu E0 c Hcu) as Hin.
  apply in_flat_map in Hin. destruct Hin as (st & Hst & Hcst).
  apply in_flat_map. exists st. split; [|exact Hcst].
  apply filter_In. split; [exact Hst|].
  unfold all_cached. destruct (forallb (fun c0 => coord_mem c0 locked) (snd st)) eqn:Ef; [|reflexivity].
  rewrite forallb_forall in Ef. specialize (Ef c Hcst). congruence.
Qed.

Lemma plan_with_cache_produces m has_meta minimize bulk cached (tiles : list coord) z plan :
  mwf m -> (forall c, In c tiles -> valid_tile m c /\ snd c = z) ->
  plan_with_cache m has_meta minimize bulk cached tiles = Some plan ->
  forall c, In c tiles -> In c cached \/ In c (flat_map snd plan).
Proof.
  intros Hm Hall Hplan c Hc.
  destruct (plan_with_caches_produces m has_meta minimize bulk cached cached tiles z plan Hm Hall Hplan c Hc) as [H|[H|H]]; auto.
Qed.

Lemma dedup_meta_In m tiles : forall seen mt,
  In mt (dedup_meta m tiles seen) -> exists x y z, In (x, y, z) tiles /\ mt = meta_tile m x y z.
Proof.
  induction tiles as [|[[tx ty] tz] tiles IH]; intros seen mt Hin; [destruct Hin|].
  cbn [dedup_meta] in Hin. destruct (coord_mem (main_tile m tx ty tz) seen).
  - destruct (IH _ _ Hin) as (x & y & z & H1 & H2). exists x, y, z. split; [right; exact H1|exact H2].
  - destruct Hin as [<-|Hin]; [exists tx, ty, tz; split; [left; reflexivity|reflexivity]|].
    destruct (IH _ _ Hin) as (x & y & z & H1 & H2). exists x, y, z. split; [right; exact H1|exact H2].
Qed.

(* meta_stores_all: in the meta tile strategy every creation step makes exactly one upstream request, that of the
   meta tile of one of the requested tiles, and its store call receives all tiles of that meta tile's pattern
   (by pattern_complete / pattern_unique: exactly the valid tiles of the block, once each) *)
Lemma meta_stores_all_lemma m minimize (tiles : list coord) plan st :
  minimize && (1 <? Z.of_nat (length tiles)) = false ->
  create_plan m true minimize false tiles = Some plan -> In st plan ->
  exists x y z, In (x, y, z) tiles /\
    st = ([(mt_bbox (meta_tile m x y z), mt_size (meta_tile m x y z))], mt_tiles (meta_tile m x y z)).
Proof.
  intros Hmin Hplan Hst. unfold create_plan in Hplan. cbn [negb] in Hplan. rewrite Hmin in Hplan.
  injection Hplan as <-. apply in_map_iff in Hst. destruct Hst as (mt & <- & Hmt).
  destruct (dedup_meta_In m tiles [] mt Hmt) as (x & y & z & Hin & ->). exists x, y, z. split; [exact Hin|reflexivity].
Qed.

(* the same for all four bands of a colour picture: what is stored is a copy of the upstream pixel or the background *)
Lemma meta_colour_equals_single m q tr cx cy z j k :
  mwf m -> valid_level (mg_grid m) z = true -> 0 < q ->
  0 <= cx < fst (grid_size (mg_grid m) z) -> 0 <= cy < snd (grid_size (mg_grid m) z) ->
  no_buffer_cut m cx cy z ->
  0 <= j < tw (mg_grid m) -> 0 <= k < th (mg_grid m) ->
  model_colour m q HowMeta tr (cx, cy, z) j k = model_colour m q HowSingle tr (cx, cy, z) j k.
Proof.
  intros. unfold model_colour. rewrite (meta_equals_single_lemma m q cx cy z j k) by assumption. reflexivity.
Qed.

Example plan_with_cache_example :
  (* the block of main tile (0,0) is cached except (1,0,0): one request for the whole meta tile, all four tiles stored *)
  let m := mkMG (mkGrid 0 0 320 160 8 8 [10] false 115 100 4 1) 2 2 0 in
  plan_with_cache m true false false [(0, 1, 0); (1, 1, 0); (0, 0, 0)] [(1, 0, 0); (0, 1, 0)] =
    Some [([((0, 0, 160, 160), (16, 16))], [(0, 1, 0); (1, 1, 0); (0, 0, 0); (1, 0, 0)])].
Proof. vm_compute. reflexivity. Qed.

(* ---------------------------------------------------------------- where a stored pixel samples the picture *)

(* the top or the bottom edge of the requested bbox is a whole number of pixels away from the top edge of every tile
   of the pattern (the tile lattice starts at the bottom of the grid bbox for 'll' grids, at the top for 'ul' grids) *)
Lemma vertical_lattice m x y z :
  mwf m -> valid_level (mg_grid m) z = true ->
  let mt := meta_tile m x y z in
  let g := mg_grid m in
  let '(minx, miny, maxx, maxy) := mt_bbox mt in
  forall cx cy cz crop, In (Some (cx, cy, cz), crop) (mt_pattern mt) ->
    let '(tx0, ty0, tx1, ty1) := tile_bbox g cx cy cz in
    (exists N, ty1 - miny = N * res_at g z) \/ (exists N, maxy - ty1 = N * res_at g z).
Proof.
  intros Hm Hv. cbv zeta.
  pose proof (main_tile_contains m x y z Hm) as Hc.
  destruct (main_tile m x y z) as [[x0 y0] z0] eqn:Hmain.
  destruct (meta_size m z) as [sx sy] eqn:Hms. destruct Hc as (-> & Hc).
  destruct (buffered_bbox m (unbuffered_meta_bbox m x0 y0 z) z true) as [[[[minx miny] maxx] maxy] [[[b0 b1] b2] b3]] eqn:Hb.
  pose proof (meta_tile_unfold m x y z x0 y0 sx sy _ _ Hm Hmain Hms Hb) as Hunf.
  destruct (mt_bbox (meta_tile m x y z)) as [[[qa qb] qc] qd] eqn:Ebb.
  intros cx cy cz crop Hin.
  apply (meta_tile_pattern_In m x y z x0 y0 sx sy _ b0 b1 b2 b3 _ Hm Hmain Hms Hb) in Hin.
  rewrite Hunf in Ebb. cbn [mt_bbox] in Ebb. injection Ebb as <- <- <- <-.
  destruct Hin as (i & j & Hi & Hj & Heq).
  injection Heq as Ht _. symmetry in Ht. apply tile_or_none_Some in Ht. destruct Ht as (Ht & _).
  injection Ht as -> -> ->.
  rewrite (unbuffered_meta_bbox_eq m x0 y0 z sx sy Hm Hv Hms) in Hb.
  destruct (block_bbox (mg_grid m) x0 y0 sx sy z) as [[[ba bb_] bc] bd] eqn:Hblock.
  assert (HB : 0 <= mbuf m) by apply Hm.
  pose proof (buffered_sides m ba bb_ bc bd z _ _ _ _ _ HB Hb) as (_ & S2 & _ & S4). cbv zeta in S2, S4.
  set (g := mg_grid m) in *. set (r := res_at g z) in *. set (B := mbuf m) in *.
  unfold block_bbox in Hblock. fold g r in Hblock. unfold tile_bbox, block_row. fold g r.
  destruct (ul g); injection Hblock as <- <- <- <-.
  - right. destruct S4 as [->| ->].
    + exists ((y0 + i) * th g). lia.
    + exists (i * th g + B). lia.
  - left. destruct S2 as [->| ->].
    + exists ((y0 + sy - 1 - i + 1) * th g). lia.
    + exists ((sy - 1 - i + 1) * th g + B). lia.
Qed.

Lemma tile_pixel_src_Some px py tw_ th_ W H j k c rr :
  tile_pixel_src (px, py) (tw_, th_) (W, H) j k = Some (c, rr) ->
  c = px + j /\ rr = py + k /\ 0 <= c < W /\ 0 <= rr < H.
Proof.
  unfold tile_pixel_src, get_tile_rect. cbn [fst snd].
  destruct ((px <? 0) || (py <? 0) || (W <? px + tw_) || (H <? py + th_)) eqn:E.
  - match goal with |- (if ?b then _ else _) = _ -> _ => destruct b eqn:E2; [|discriminate] end.
    intros Hs. injection Hs as <- <-. lia.
  - match goal with |- (if ?b then _ else _) = _ -> _ => destruct b eqn:E2; [|discriminate] end.
    intros Hs. injection Hs as <- <-. lia.
Qed.

(* stored_pixel_within_one_pixel: a pixel of a tile cut out of a meta tile - whatever is cut off at the grid border -
   that is not padding shows the upstream picture at a ground position that differs from the position the same
   pixel of the tile fetched alone samples (the centre of the pixel) by at most half a pixel horizontally and at
   most one pixel vertically.  Positions scaled by 2W resp. 2H:
   X_meta = minx + (2c+1)(maxx-minx)/(2W),  X_alone = tx0 + (2j+1) r/2,
   Y_meta = maxy - (2rr+1)(maxy-miny)/(2H), Y_alone = ty1 - (2k+1) r/2 *)
Lemma stored_pixel_within_one_pixel_lemma m x y z cx cy cz px py j k c rr :
  mwf m -> valid_level (mg_grid m) z = true ->
  In (Some (cx, cy, cz), (px, py)) (mt_pattern (meta_tile m x y z)) ->
  tile_pixel_src (px, py) (tw (mg_grid m), th (mg_grid m)) (mt_size (meta_tile m x y z)) j k = Some (c, rr) ->
  let r := res_at (mg_grid m) z in
  let '(minx, miny, maxx, maxy) := mt_bbox (meta_tile m x y z) in
  let '(W, H) := mt_size (meta_tile m x y z) in
  let '(tx0, ty0, tx1, ty1) := tile_bbox (mg_grid m) cx cy cz in
  - (W * r) <= (2 * c + 1) * (maxx - minx) + 2 * W * minx - W * (2 * tx0 + (2 * j + 1) * r) <= W * r /\
  - (2 * H * r) <= 2 * H * maxy - (2 * rr + 1) * (maxy - miny) - H * (2 * ty1 - (2 * k + 1) * r) <= 2 * H * r.
Proof.
  intros Hm Hv Hin Hsrc. cbv zeta.
  pose proof (pattern_truncated_lemma m x y z Hm Hv) as Ht. cbv zeta in Ht.
  pose proof (vertical_lattice m x y z Hm Hv) as Hl. cbv zeta in Hl.
  destruct (mt_bbox (meta_tile m x y z)) as [[[minx miny] maxx] maxy].
  destruct (mt_size (meta_tile m x y z)) as [W H]. cbn [fst snd] in Ht.
  destruct Ht as ((HW & HH) & Ht). specialize (Ht cx cy cz px py Hin). specialize (Hl cx cy cz (px, py) Hin).
  assert (Hcz : cz = z).
  { pose proof (main_tile_contains m x y z Hm) as Hc.
    destruct (main_tile m x y z) as [[x0 y0] z0] eqn:Hmain. destruct (meta_size m z) as [sx sy] eqn:Hms.
    destruct Hc as (-> & _).
    destruct (buffered_bbox m (unbuffered_meta_bbox m x0 y0 z) z true) as [bb [[[b0 b1] b2] b3]] eqn:Hb.
    apply (meta_tile_pattern_In m x y z x0 y0 sx sy bb b0 b1 b2 b3 _ Hm Hmain Hms Hb) in Hin.
    destruct Hin as (i & j' & _ & _ & Heq). injection Heq as Ht' _ _. symmetry in Ht'.
    apply tile_or_none_Some in Ht'. destruct Ht' as (Ht' & _). injection Ht' as _ _ ->. reflexivity. }
  subst cz.
  destruct (tile_bbox (mg_grid m) cx cy z) as [[[tx0 ty0] tx1] ty1].
  destruct Ht as (Hpx & Hpy).
  pose proof (res_at_pos (mg_grid m) z (proj1 Hm) Hv) as Hr.
  apply tile_pixel_src_Some in Hsrc. destruct Hsrc as (-> & -> & Hc & Hrr).
  clear Hin Hv Hm. set (r := res_at (mg_grid m) z) in *. clearbody r.
  split.
  - set (Dx := maxx - minx - W * r) in *.
    assert (E : (2 * (px + j) + 1) * (maxx - minx) + 2 * W * minx - W * (2 * tx0 + (2 * j + 1) * r)
                = (2 * (px + j) + 1) * Dx) by (unfold Dx; nia).
    rewrite E. assert (HDx : - r <= 2 * Dx <= r) by (unfold Dx; lia). clearbody Dx.
    set (a := 2 * (px + j) + 1) in *. assert (Ha : 1 <= a <= 2 * W - 1) by (unfold a; lia). clearbody a.
    assert (P : - (a * r) <= 2 * (a * Dx) <= a * r) by (clear - HDx Ha Hr; nia).
    assert (Q : a * r <= 2 * W * r - r) by (clear - Ha Hr; nia). lia.
  - set (e := py * r - (maxy - ty1)) in *. set (Dy := maxy - miny - H * r) in *.
    assert (F : 2 * H * maxy - (2 * (py + k) + 1) * (maxy - miny) - H * (2 * ty1 - (2 * k + 1) * r)
                = - ((2 * (py + k) + 1) * Dy) - 2 * H * e) by (unfold Dy, e; nia).
    rewrite F. assert (HD : - r <= 2 * Dy <= r) by (unfold Dy; lia).
    set (a := 2 * (py + k) + 1) in *. assert (Ha : 1 <= a <= 2 * H - 1) by (unfold a; lia).
    destruct Hl as [(N & HN)|(N & HN)].
    + (* the bottom edge is on the lattice: Dy = t * r - e for an integer t *)
      set (t := py + N - H). assert (HDy : Dy = t * r - e) by (unfold Dy, t, e; nia).
      clearbody t a e Dy.
      assert (Hb1 : 2 * (t * r) < 4 * r /\ - (4 * r) < 2 * (t * r)) by lia.
      assert (Ht2 : -2 < t < 2) by (clear - Hb1 Hr; nia).
      assert (Ht3 : t = -1 \/ t = 0 \/ t = 1) by lia.
      assert (Q : 0 <= (2 * H - a) * r <= 2 * H * r - r) by (clear - Ha Hr; nia).
      destruct Ht3 as [Et|[Et|Et]]; subst t.
      * assert (He2 : - r < e /\ 2 * e <= - r) by lia.
        assert (P : - ((2 * H - a) * r) <= (2 * H - a) * e <= 0) by (clear - He2 Ha Hr; nia).
        rewrite HDy. lia.
      * assert (He2 : - r <= 2 * e <= r) by lia.
        assert (P : - ((2 * H - a) * r) <= 2 * ((2 * H - a) * e) <= (2 * H - a) * r) by (clear - He2 Ha Hr; nia).
        rewrite HDy. lia.
      * assert (He2 : r <= 2 * e /\ e < r) by lia.
        assert (P : 0 <= (2 * H - a) * e <= (2 * H - a) * r) by (clear - He2 Ha Hr; nia).
        rewrite HDy. lia.
    + (* the top edge is on the lattice: e = 0 *)
      assert (He0 : e = 0).
      { assert (Hn : - r < (py - N) * r < r) by (unfold e in Hpy; lia).
        assert (Hpn : py - N = 0) by (clear - Hn Hr; nia). unfold e. replace py with N by lia. lia. }
      rewrite He0. clearbody a Dy.
      assert (P : - (a * r) <= 2 * (a * Dy) <= a * r) by (clear - HD Ha Hr; nia).
      assert (Q : a * r <= 2 * H * r - r) by (clear - Ha Hr; nia). lia.
Qed.

(* non-vacuity: the border meta tile of ex_cut (buffer cut at 0.7 px at the top, sizes rounded from 266.3 / 266.7) *)
Example stored_pixel_example :
  In (Some (8, 8, 3), (10, 1)) (mt_pattern (meta_tile ex_m 8 8 3)) /\
  tile_pixel_src (10, 1) (256, 256) (mt_size (meta_tile ex_m 8 8 3)) 255 255 = Some (265, 256).
Proof. vm_compute. split; [right; right; left; reflexivity|reflexivity]. Qed.

(* ---------------------------------------------------------------- pixel alignment of the request-minimising meta tile *)

(* the request-minimising meta tile, spelled out: the block is the bounding range of the requested tiles *)
Lemma minimal_meta_structure m (tiles : list coord) z :
  mwf m -> tiles <> [] -> (forall x y l, In (x, y, l) tiles -> l = z /\ 0 <= x /\ 0 <= y) ->
  exists minx maxx miny maxy bb b0 b1 b2 b3 pat,
    0 <= minx <= maxx /\ 0 <= miny <= maxy /\
    (forall x y l, In (x, y, l) tiles -> minx <= x <= maxx /\ miny <= y <= maxy) /\
    buffered_bbox m (tiles_bbox (mg_grid m) (minx, miny, z) (maxx, maxy, z)) z true = (bb, (b0, b1, b2, b3)) /\
    minimal_meta_tile m tiles = Some (mkMT bb (size_from_bbox m bb z) pat (1 + maxx - minx, 1 + maxy - miny)) /\
    (exists full gs, full_tile_list m tiles = Some (full, gs, ((minx, miny, z), (maxx, maxy, z)))) /\
    forall p, In p pat <->
      exists i j, 0 <= i < 1 + maxy - miny /\ 0 <= j < 1 + maxx - minx /\
        p = (Some (minx + j, (if ul (mg_grid m) then miny + i else maxy - i), z),
             (j * tw (mg_grid m) + b0, i * th (mg_grid m) + b3)).
Proof.
  intros Hm Hne Hall. unfold minimal_meta_tile, full_tile_list.
  destruct (rev tiles) as [|[[lx ly] lz] rest] eqn:Erev.
  { exfalso. apply Hne. rewrite <- (rev_involutive tiles), Erev. reflexivity. }
  assert (Hrev : forall x y l, In (x, y, l) ((lx, ly, lz) :: rest) -> l = z /\ 0 <= x /\ 0 <= y)
    by (intros x y l H; apply (Hall x y l); apply (proj2 (@in_rev coord tiles (x, y, l))); rewrite Erev; exact H).
  assert (Hmem : forall c, In c tiles -> In c ((lx, ly, lz) :: rest))
    by (intros c H; apply (proj1 (@in_rev coord tiles c)) in H; rewrite Erev in H; exact H).
  destruct (Hrev lx ly lz (or_introl eq_refl)) as (-> & Hlx & Hly).
  change (fun acc t => let '(minx, maxx, miny, maxy) := acc in let '(x, y, _) := t in
                       (Z.min minx x, Z.max maxx x, Z.min miny y, Z.max maxy y)) with minmax_step.
  match goal with |- context [@fold_left ?A ?B minmax_step ?l ?a] =>
    destruct (@fold_left A B minmax_step l a) as [[[minx maxx] miny] maxy] eqn:Efold end.
  pose proof (fold_minmax_bounds_eq _ _ _ _ _ _ _ _ _ Efold) as (H1 & H2 & H3 & H4 & H5 & H6). cbv beta iota.
  assert (Hpos : 0 <= minx /\ 0 <= miny).
  { apply H6; [|lia|lia]. intros x y l Hin. apply in_rev in Hin.
    destruct (Hrev x y l (or_intror Hin)) as (_ & ? & ?). lia. }
  assert (Hin_all : forall x y l, In (x, y, l) tiles -> minx <= x <= maxx /\ miny <= y <= maxy).
  { intros x y l Hin. destruct (Hall x y l Hin) as (-> & _).
    apply Hmem in Hin. destruct Hin as [Hin|Hin]; [injection Hin as <- <-; lia|].
    apply (H5 x y z). apply in_rev. rewrite rev_involutive. exact Hin. }
  set (g := mg_grid m) in *.
  set (xs := zrange minx maxx). set (ys := rows_from_top g miny maxy).
  assert (Hlx' : Z.of_nat (length xs) = 1 + maxx - minx) by (unfold xs; rewrite zrange_length; lia).
  assert (Hly' : Z.of_nat (length ys) = 1 + maxy - miny) by (unfold ys; rewrite rows_from_top_length; lia).
  assert (Hn : forall i j, 0 <= i < 1 + maxy - miny -> 0 <= j < 1 + maxx - minx ->
    nth (Z.to_nat (j + i * (1 + maxx - minx))) (create_tile_list xs ys z (maxx + 1, maxy + 1)) None =
    Some (minx + j, (if ul g then miny + i else maxy - i), z)).
  { intros i j Hi Hj. rewrite <- Hlx' at 1. rewrite create_tile_list_nth by lia. cbn [fst snd].
    unfold xs, ys. rewrite zrange_nth by (rewrite zrange_length; lia). rewrite rows_from_top_nth by lia.
    replace (minx + Z.of_nat (Z.to_nat j)) with (minx + j) by lia.
    replace (Z.of_nat (Z.to_nat i)) with i by lia.
    apply tile_or_none_valid; destruct (ul g); lia. }
  destruct (create_tile_list xs ys z (maxx + 1, maxy + 1)) as [|first full'] eqn:Efull.
  { exfalso. specialize (Hn 0 0 ltac:(lia) ltac:(lia)). cbn in Hn. discriminate Hn. }
  assert (Hfirst : first = Some (minx, (if ul g then miny else maxy), z)).
  { specialize (Hn 0 0 ltac:(lia) ltac:(lia)). cbn in Hn. rewrite Hn. destruct (ul g); repeat f_equal; lia. }
  rewrite Hfirst. cbn [snd].
  destruct (buffered_bbox m (tiles_bbox g (minx, miny, z) (maxx, maxy, z)) z true) as [bb [[[b0 b1] b2] b3]] eqn:Hbuf.
  exists minx, maxx, miny, maxy, bb, b0, b1, b2, b3.
  eexists. split; [lia|]. split; [lia|]. split; [exact Hin_all|]. split; [exact Hbuf|]. split; [reflexivity|]. split; [eexists; eexists; reflexivity|].
  intros p. rewrite <- Hfirst. rewrite tiles_pattern_In.
  split; intros (i & j & Hi & Hj & ->); exists i, j; (split; [exact Hi|split; [exact Hj|]]); rewrite Hn by assumption; reflexivity.
Qed.

(* limiting the buffered bbox of the request-minimising meta tile to the grid bbox changes nothing *)
Definition no_buffer_cut_minimal (m : mgrid) (lo hi : coord) : Prop :=
  buffered_bbox m (tiles_bbox (mg_grid m) lo hi) (snd lo) true = buffered_bbox m (tiles_bbox (mg_grid m) lo hi) (snd lo) false.

(* minimal_pattern_pixel_aligned: pattern_pixel_aligned for the request-minimising meta tile.  When no buffer is
   cut off, the requested size is exactly extent / resolution, every crop offset is the exact pixel distance of the
   tile from the upper left corner of the requested bbox and the crop rectangle lies inside the image *)
Lemma minimal_pattern_pixel_aligned_lemma m (tiles : list coord) z :
  mwf m -> valid_level (mg_grid m) z = true ->
  tiles <> [] -> (forall x y l, In (x, y, l) tiles -> l = z /\ 0 <= x /\ 0 <= y) ->
  exists mt minx maxx miny maxy,
    minimal_meta_tile m tiles = Some mt /\
    (exists full gs, full_tile_list m tiles = Some (full, gs, ((minx, miny, z), (maxx, maxy, z)))) /\
    (forall x y l, In (x, y, l) tiles -> minx <= x <= maxx /\ miny <= y <= maxy) /\
    (forall x y l, In (x, y, l) tiles -> exists crop, In (Some (x, y, l), crop) (mt_pattern mt)) /\
    (no_buffer_cut_minimal m (minx, miny, z) (maxx, maxy, z) ->
     let r := res_at (mg_grid m) z in
     let '(bx0, by0, bx1, by1) := mt_bbox mt in
     (fst (mt_size mt) * r = bx1 - bx0 /\ snd (mt_size mt) * r = by1 - by0) /\
     forall cx cy cz px py, In (Some (cx, cy, cz), (px, py)) (mt_pattern mt) ->
       let '(tx0, ty0, tx1, ty1) := tile_bbox (mg_grid m) cx cy cz in
       cz = z /\ px * r = tx0 - bx0 /\ py * r = by1 - ty1 /\ 0 <= px /\ 0 <= py /\
       px + tw (mg_grid m) <= fst (mt_size mt) /\ py + th (mg_grid m) <= snd (mt_size mt)).
Proof.
  intros Hm Hv Hne Hall.
  destruct (minimal_meta_structure m tiles z Hm Hne Hall)
    as (minx & maxx & miny & maxy & bb & b0 & b1 & b2 & b3 & pat & Hx & Hy & Hin_all & Hbuf & Hmt & (full & gs & Hfull) & Hpat).
  exists (mkMT bb (size_from_bbox m bb z) pat (1 + maxx - minx, 1 + maxy - miny)), minx, maxx, miny, maxy.
  split; [exact Hmt|]. split; [exists full, gs; exact Hfull|]. split; [exact Hin_all|].
  split.
  { intros x y l Hin. destruct (Hall x y l Hin) as (-> & _). destruct (Hin_all x y z Hin) as (Hxx & Hyy).
    cbn [mt_pattern]. set (i := if ul (mg_grid m) then y - miny else maxy - y).
    exists ((x - minx) * tw (mg_grid m) + b0, i * th (mg_grid m) + b3). apply Hpat. exists i, (x - minx).
    split; [unfold i; destruct (ul (mg_grid m)); lia|]. split; [lia|].
    unfold i. destruct (ul (mg_grid m)); repeat f_equal; lia. }
  intros Hcut. cbv zeta. cbn [mt_bbox mt_size mt_pattern].
  unfold no_buffer_cut_minimal in Hcut. cbn [snd] in Hcut. rewrite Hbuf in Hcut.
  set (sx := 1 + maxx - minx) in *. set (sy := 1 + maxy - miny) in *.
  assert (Hblock : tiles_bbox (mg_grid m) (minx, miny, z) (maxx, maxy, z) = block_bbox (mg_grid m) minx miny sx sy z).
  { replace maxx with (minx + sx - 1) by (unfold sx; lia). replace maxy with (miny + sy - 1) by (unfold sy; lia).
    replace (1 + (minx + sx - 1) - minx) with sx by lia. replace (1 + (miny + sy - 1) - miny) with sy by lia.
    apply tiles_bbox_block; [apply Hm|exact Hv|unfold sx; lia|unfold sy; lia]. }
  rewrite Hblock in Hcut.
  destruct (block_bbox (mg_grid m) minx miny sx sy z) as [[[ba bb_] bc] bd] eqn:Eblock.
  assert (HB : 0 <= mbuf m) by apply Hm.
  rewrite (buffered_false_eq m ba bb_ bc bd z HB) in Hcut. injection Hcut as -> -> -> -> ->.
  pose proof (res_at_pos (mg_grid m) z (proj1 Hm) Hv) as Hr.
  destruct Hm as ((_ & _ & Htw & Hth & _) & _).
  set (g := mg_grid m) in *. set (r := res_at g z) in *. set (B := mbuf m) in *.
  unfold block_bbox in Eblock. fold g r in Eblock.
  assert (Hsx : 1 <= sx) by (unfold sx; lia). assert (Hsy : 1 <= sy) by (unfold sy; lia).
  assert (Hsize : size_from_bbox m (ba - B * r, bb_ - B * r, bc + B * r, bd + B * r) z
                  = (sx * tw g + 2 * B, sy * th g + 2 * B)).
  { unfold size_from_bbox. fold g. fold r.
    destruct (ul g); injection Eblock as <- <- <- <-; f_equal.
    all: match goal with |- round_half_even ?n ?rr = ?k => replace n with (k * rr) by nia end.
    all: apply round_half_even_exact; exact Hr. }
  rewrite Hsize. cbn [fst snd]. split.
  - destruct (ul g); injection Eblock as <- <- <- <-; nia.
  - intros cx cy cz px py Hin. apply Hpat in Hin. destruct Hin as (i & j & Hi & Hj & Heq).
    injection Heq as -> -> -> -> ->. unfold tile_bbox. fold g r.
    fold sx in Hj. fold sy in Hi.
    destruct (ul g); injection Eblock as <- <- <- <-; (split; [reflexivity|nia]).
Qed.

(* no buffer of the request-minimising meta tile of `tiles` is cut off at the grid border *)
Definition minimal_no_cut (m : mgrid) (tiles : list coord) : Prop :=
  match full_tile_list m tiles with
  | Some (_, _, (lo, hi)) => no_buffer_cut_minimal m lo hi
  | None => True
  end.

(* the property for minimize_meta_requests: the image stored for a requested tile cut out of the request-minimising
   meta tile equals, pixel by pixel, the image of the tile fetched alone when no buffer is cut off *)
Lemma minimal_equals_single_lemma m q (tiles : list coord) z cx cy j k :
  mwf m -> valid_level (mg_grid m) z = true -> 0 < q ->
  (forall x y l, In (x, y, l) tiles -> l = z /\ 0 <= x /\ 0 <= y) ->
  In (cx, cy, z) tiles -> minimal_no_cut m tiles ->
  0 <= j < tw (mg_grid m) -> 0 <= k < th (mg_grid m) ->
  model_pixel m q (HowMinimal tiles) (cx, cy, z) j k = model_pixel m q HowSingle (cx, cy, z) j k.
Proof.
  intros Hm Hv Hq Hall Hc Hcut Hj Hk.
  assert (Hne : tiles <> []) by (intros ->; destruct Hc).
  destruct (minimal_pattern_pixel_aligned_lemma m tiles z Hm Hv Hne Hall)
    as (mt & minx & maxx & miny & maxy & Hmt & (full & gs & Hfull) & _ & Hcov & Hal).
  unfold minimal_no_cut in Hcut. rewrite Hfull in Hcut. specialize (Hal Hcut). cbv zeta in Hal.
  unfold model_pixel. rewrite Hmt. unfold pixel_of_metatile.
  destruct (Hcov cx cy z Hc) as (crop0 & Hin0). destruct (find_crop_complete _ _ _ Hin0) as ([px py] & Hf).
  rewrite Hf. f_equal. apply find_crop_In in Hf.
  destruct (mt_bbox mt) as [[[bx0 by0] bx1] by1]. destruct (mt_size mt) as [W H]. cbn [fst snd] in Hal.
  destruct Hal as ((HW & HH) & Hal). specialize (Hal cx cy z px py Hf).
  pose proof (tile_bbox_shape (mg_grid m) cx cy z) as Hshape.
  destruct (tile_bbox (mg_grid m) cx cy z) as [[[tx0 ty0] tx1] ty1].
  destruct Hal as (_ & Hpx & Hpy & Hpx0 & Hpy0 & HpxW & HpyH). destruct Hshape as (-> & ->).
  pose proof (res_at_pos (mg_grid m) z (proj1 Hm) Hv) as Hr.
  destruct Hm as ((_ & _ & Htw & Hth & _) & _).
  unfold stored_pixel.
  rewrite (tile_pixel_src_inside px py _ _ W H j k) by lia.
  rewrite (tile_pixel_src_inside 0 0 _ _ (tw (mg_grid m)) (th (mg_grid m)) j k) by lia.
  cbn [Z.add]. f_equal. f_equal.
  - apply (sample_x_aligned (mg_grid m) q (res_at (mg_grid m) z)); lia.
  - apply (sample_y_aligned (mg_grid m) q (res_at (mg_grid m) z)); lia.
Qed.

Example minimal_no_cut_example :
  minimal_no_cut ex_m [(1, 1, 3); (3, 2, 3)] /\ ~ minimal_no_cut ex_m [(1, 1, 3); (8, 8, 3)].
Proof. unfold minimal_no_cut, no_buffer_cut_minimal. vm_compute. split; [reflexivity|intros H; discriminate H]. Qed.

(* ---------------------------------------------------------------- upstream faults *)

Lemma existsb_orb {A} (f g : A -> bool) (l : list A) :
  existsb (fun x => f x || g x) l = existsb f l || existsb g l.
Proof.
  induction l as [|a l IH]; [reflexivity|]. cbn [existsb]. rewrite IH.
  destruct (f a), (g a), (existsb f l), (existsb g l); reflexivity.
Qed.

Lemma existsb_orb3 {A} (f g h : A -> bool) (l : list A) :
  existsb (fun x => f x || g x || h x) l = existsb f l || existsb g l || existsb h l.
Proof.
  induction l as [|a l IH]; [reflexivity|]. cbn [existsb]. rewrite IH.
  destruct (f a), (g a), (h a), (existsb f l), (existsb g l), (existsb h l); reflexivity.
Qed.

(* every strategy: a creation step one of whose upstream requests raises stores nothing; meta tile and single tile
   strategies: neither does a step one of whose responses must not be cached or ends in the middle of the image data *)
Lemma faulted_step_stores_nothing g bad cut errs plan : forall steps failed,
  run_plan_faults g false bad cut errs plan = (steps, failed) ->
  forall st, In st steps ->
    existsb (fun rq => bbox_mem (fst rq) bad || bbox_mem (fst rq) cut || bbox_mem (fst rq) errs) (fst st) = true -> snd st = [].
Proof.
  induction plan as [|st0 plan IH]; intros steps failed Hrun st Hin Hf; cbn [run_plan_faults negb andb] in Hrun.
  - injection Hrun as <- _. destruct Hin.
  - destruct (existsb (fun rq => bbox_mem (fst rq) errs) (fst st0)) eqn:Eerr.
    { injection Hrun as <- _. destruct Hin as [<-|[]]. reflexivity. }
    destruct (existsb (fun rq => bbox_mem (fst rq) cut) (fst st0)) eqn:Ecut.
    + injection Hrun as <- _. destruct Hin as [<-|[]]. reflexivity.
    + destruct (run_plan_faults g false bad cut errs plan) as [r f] eqn:Er. injection Hrun as <- _.
      destruct Hin as [<-|Hin]; [|exact (IH r f eq_refl st Hin Hf)].
      unfold step_with_faults in *.
      destruct (existsb (fun rq => bbox_mem (fst rq) bad) (fst st0)) eqn:Ebad; [reflexivity|].
      rewrite existsb_orb3, Ebad, Ecut, Eerr in Hf. discriminate Hf.
Qed.

(* an upstream request that raises makes the whole request fail, whatever the strategy (bulk included): the tile is
   never answered without image while the request looks successful *)
Lemma upstream_error_fails g bulk bad cut errs plan steps failed :
  run_plan_faults g bulk bad cut errs plan = (steps, failed) ->
  existsb (fun st => existsb (fun rq : bbox * (Z * Z) => bbox_mem (fst rq) errs) (fst st)) plan = true ->
  failed = true.
Proof.
  revert steps failed. induction plan as [|st0 plan IH]; intros steps failed Hrun Hex; [discriminate Hex|].
  cbn [run_plan_faults] in Hrun. cbn [existsb] in Hex.
  destruct (existsb (fun rq => bbox_mem (fst rq) errs) (fst st0)) eqn:Eerr.
  - injection Hrun as _ <-. reflexivity.
  - apply orb_true_iff in Hex. destruct Hex as [Hex|Hex]; [exfalso; exact (eq_true_false_abs _ Hex Eerr)|].
    destruct (negb bulk && existsb (fun rq => bbox_mem (fst rq) cut) (fst st0)).
    + injection Hrun as _ <-. reflexivity.
    + destruct (run_plan_faults g bulk bad cut errs plan) as [r f] eqn:Er. injection Hrun as _ <-.
      exact (IH r f eq_refl Hex).
Qed.

(* bulk strategy: a tile whose own response must not be cached is not among the stored tiles *)
Lemma bulk_uncacheable_not_stored g bad st c :
  In c (snd (step_with_faults g true bad st)) -> bbox_mem (fst (tile_request g c)) bad = false.
Proof.
  unfold step_with_faults. cbn [snd]. intros H. apply filter_In in H. destruct H as (_ & H).
  destruct (bbox_mem (fst (tile_request g c)) bad); [discriminate H|reflexivity].
Qed.

(* a response that ends in the middle of the image data makes the request fail *)
Lemma cut_response_fails g bad cut errs (st : step) plan :
  existsb (fun rq : bbox * (Z * Z) => bbox_mem (fst rq) errs) (fst st) = false ->
  existsb (fun rq : bbox * (Z * Z) => bbox_mem (fst rq) cut) (fst st) = true ->
  run_plan_faults g false bad cut errs (st :: plan) = ([(fst st, [])], true).
Proof. intros He H. cbn [run_plan_faults negb andb]. rewrite He, H. reflexivity. Qed.

Example faults_example :
  let m := mkMG (mkGrid 0 0 320 160 8 8 [10] false 115 100 4 1) 2 2 0 in
  (* bulk: the response for tile (1,1,0) must not be cached *)
  request_with_faults m true false true [] [(80, 80, 160, 160)] [] [] [(0, 0, 0)] =
    Some ([((0, 80, 80, 160), (8, 8)); ((80, 80, 160, 160), (8, 8)); ((0, 0, 80, 80), (8, 8)); ((80, 0, 160, 80), (8, 8))],
          [(0, 1, 0); (0, 0, 0); (1, 0, 0)], false) /\
  (* meta tiles: the second response is cut off *)
  request_with_faults m true false false [] [] [(160, 0, 320, 160)] [] [(0, 0, 0); (2, 1, 0)] =
    Some ([((0, 0, 160, 160), (16, 16)); ((160, 0, 320, 160), (16, 16))], [(0, 1, 0); (1, 1, 0); (0, 0, 0); (1, 0, 0)], true).
Proof. vm_compute. split; reflexivity. Qed.

(* a source with alpha and a clipping coverage in front of an opaque cache: the same equality (clip and background are
   applied by merge_images on both ways; the shortcut of _query_sources is never taken for a query that intersects
   the coverage) *)
Lemma meta_clip_colour_equals_single m q inside cx cy z j k :
  mwf m -> valid_level (mg_grid m) z = true -> 0 < q ->
  0 <= cx < fst (grid_size (mg_grid m) z) -> 0 <= cy < snd (grid_size (mg_grid m) z) ->
  no_buffer_cut m cx cy z ->
  0 <= j < tw (mg_grid m) -> 0 <= k < th (mg_grid m) ->
  model_clip_colour m q HowMeta inside (cx, cy, z) j k = model_clip_colour m q HowSingle inside (cx, cy, z) j k.
Proof.
  intros. unfold model_clip_colour. rewrite (meta_equals_single_lemma m q cx cy z j k) by assumption. reflexivity.
Qed.

Lemma contained_query_takes_merge_path c q :
  bbox_intersects c q = true -> takes_merge_path true (Some c) q = true.
Proof. intros H. unfold takes_merge_path. rewrite H. reflexivity. Qed.

(* ---- encoding of a stored tile under a base configuration (img_to_buf) *)

(* globals.image.paletted false and image options that name no number of colours: no tile is quantised, whatever the
   format - the PNG stored is the true colour image (lossless). *)
Lemma true_colour_configuration_not_quantised png mixed has_alpha :
  stored_with_palette None false png mixed has_alpha = false.
Proof. unfold stored_with_palette, encode_colors. cbn [andb]. destruct (mixed && negb has_alpha); reflexivity. Qed.

(* globals.image.paletted true (the default), PNG cache, no number of colours in the image options: 255 colours. *)
Lemma paletted_configuration_quantises has_alpha :
  encode_colors None true true false has_alpha = Some 255 /\ stored_with_palette None true true false has_alpha = true.
Proof. split; reflexivity. Qed.

(* image options that name a number of colours decide alone: the base configuration is not consulted. *)
Lemma explicit_colors_ignore_base_configuration c p1 p2 png mixed has_alpha :
  encode_colors (Some c) p1 png mixed has_alpha = encode_colors (Some c) p2 png mixed has_alpha.
Proof. reflexivity. Qed.

(* the two base configurations differ exactly on PNG caches without explicit colours: the case in which a creator
   that encodes under another base configuration than the request's stores a different image. *)
Lemma base_configuration_matters_iff colors png mixed has_alpha :
  stored_with_palette colors true png mixed has_alpha <> stored_with_palette colors false png mixed has_alpha <->
  colors = None /\ png = true /\ (mixed = false \/ has_alpha = true).
Proof.
  unfold stored_with_palette, encode_colors.
  destruct colors as [c|], png, mixed, has_alpha; cbn; split; intros H;
    try (exfalso; apply H; reflexivity); try discriminate;
    try (destruct H as (H1 & H2 & [H3|H3]); discriminate);
    try (repeat split; auto; fail).
Qed.

Example encode_colors_example :
  stored_with_palette None true true false false = true /\ stored_with_palette None false true false false = false /\
  stored_with_palette (Some 0) true true false false = false /\ stored_with_palette None true false true false = false.
Proof. repeat split; reflexivity. Qed.
