(* Proofs about the upstream request model (C17). *)
From Coq Require Import ZArith List Bool Lia ZifyBool.
Import ListNotations.
From MP Require Import Base Grid Grid_proofs Upstream.
Local Open Scope Z_scope.

(* ------------------------------------------------------------------ format choice *)
Lemma choose_format_supported src q :
  w_fmts src <> [] ->
  exists e, In e (w_fmts src) /\
            (choose_format src q = e \/ fmt_match (choose_format src q) e = true).
Proof.
  intros Hne. unfold choose_format.
  destruct (w_fmts src) as [|e0 rest] eqn:E; [congruence|].
  set (f := match w_imgfmt src with Some f => f | None => q_fmt q end).
  destruct (fmt_in f (e0 :: rest)) eqn:Hin.
  - unfold fmt_in in Hin. apply existsb_exists in Hin. destruct Hin as (e & He & Hm).
    exists e. split; [exact He|]. right. exact Hm.
  - exists e0. split; [left; reflexivity|]. left. reflexivity.
Qed.

(* ------------------------------------------------------------------ geometry of the sub query *)
(* inner lies inside outer, coordinate by coordinate *)
Definition inside (outer inner : bbox) : Prop :=
  let '(o0, o1, o2, o3) := outer in
  let '(i0, i1, i2, i3) := inner in
  o0 <= i0 /\ i2 <= o2 /\ o1 <= i1 /\ i3 <= o3.

Lemma bpi_inside b sx sy e sz off sub :
  bbox_position_in_image b sx sy e = (sz, off, sub) -> inside e sub /\ inside b sub.
Proof.
  destruct b as [[[b0 b1] b2] b3]. destruct e as [[[s0 s1] s2] s3].
  unfold bbox_position_in_image.
  destruct (b0 <? s0) eqn:E0; destruct (b1 <? s1) eqn:E1; destruct (s2 <? b2) eqn:E2; destruct (s3 <? b3) eqn:E3;
    intros H; inversion H; subst; unfold inside; lia.
Qed.

(* the sub bbox is the intersection: when the two rectangles overlap it is a proper rectangle *)
Lemma bpi_proper b sx sy e sz off sub :
  bbox_position_in_image b sx sy e = (sz, off, sub) ->
  proper b = true -> proper e = true -> bbox_intersects e b = true -> proper sub = true.
Proof.
  destruct b as [[[b0 b1] b2] b3]. destruct e as [[[s0 s1] s2] s3].
  unfold bbox_position_in_image, proper, bbox_intersects.
  destruct (b0 <? s0) eqn:E0; destruct (b1 <? s1) eqn:E1; destruct (s2 <? b2) eqn:E2; destruct (s3 <? b3) eqn:E3;
    intros H; inversion H; subst; lia.
Qed.

(* ------------------------------------------------------------------ inversion of the request construction *)
Section Inv.
  Variable T : srs -> srs -> bbox -> option bbox.
  Variable kn kd : Z.
  Variable GI GC : Z -> bbox -> bool.

  (* the bounds of a geometry contain whatever the geometry contains (extent is a superset of the coverage) *)
  Definition geom_contains_sound (src : wms_source) : Prop :=
    forall g cb cs b, w_geom src = Some g -> w_cov src = Some (cb, cs) -> GC g b = true -> bbox_contains cb b = true.

  (* the request bbox lies in the coverage extent: either its image in the coverage SRS is contained in the
     coverage bbox (bbox_contains, with its 1e-13 relative tolerance), or it lies inside the image of the
     coverage bbox in the SRS of the request (sub query = clipped to the extent) *)
  Definition within_extent (cb : bbox) (cs : srs) (r : request) : Prop :=
    (exists b, to_srs T (r_srs r) cs (r_bbox r) = Some b /\ bbox_contains cb b = true) \/
    (exists e, to_srs T cs (r_srs r) cb = Some e /\ inside e (r_bbox r)).

  Definition cov_ok (src : wms_source) (r : request) : Prop :=
    match w_cov src with
    | None => True
    | Some (cb, cs) => within_extent cb cs r
    end.

  Lemma sub_query_inv src cb cs q f r :
    sub_query T src cb cs q f = Request r ->
    r_fmt r = f /\ r_fwd r = dims_for_params (w_fwd src) (q_dims q) /\ r_srs r = q_srs q /\
    (exists e, to_srs T cs (q_srs q) cb = Some e /\ inside e (r_bbox r)) /\ inside (q_bbox q) (r_bbox r).
  Proof.
    unfold sub_query. destruct (to_srs T cs (q_srs q) cb) as [e|] eqn:Et; [|discriminate].
    destruct (bbox_position_in_image (q_bbox q) (q_w q) (q_h q) e) as [[sz off] sub] eqn:B.
    destruct ((fst sz =? 0) || (snd sz =? 0)); [discriminate|].
    intros H. inversion H; subst; clear H. cbn.
    apply bpi_inside in B. destruct B as [B1 B2].
    repeat split; try reflexivity; try assumption. exists e. split; [reflexivity|assumption].
  Qed.

  Lemma after_srs_inv src q f r :
    after_srs T src q f = Request r ->
    r_fmt r = f /\ r_fwd r = dims_for_params (w_fwd src) (q_dims q) /\ r_srs r = q_srs q /\ cov_ok src r /\
    inside (q_bbox q) (r_bbox r).
  Proof.
    unfold after_srs, cov_ok. destruct (w_cov src) as [[cb cs]|] eqn:Ec.
    - destruct (to_srs T (q_srs q) cs (q_bbox q)) as [b|] eqn:Et; [|discriminate].
      destruct (bbox_contains cb b) eqn:Eb.
      + intros H. inversion H; subst; clear H. cbn. repeat split; try reflexivity.
        * left. exists b. cbn. split; assumption.
        * destruct (q_bbox q) as [[[a0 a1] a2] a3]. cbn. lia.
      + intros H. apply sub_query_inv in H. destruct H as (H1 & H2 & H3 & (e & He & Hi) & Hq).
        repeat split; try assumption. right. exists e. rewrite H3. split; assumption.
    - intros H. inversion H; subst; clear H. cbn. repeat split; try reflexivity.
      destruct (q_bbox q) as [[[a0 a1] a2] a3]. cbn. lia.
  Qed.

  Lemma get_transformed_inv src q f r :
    get_transformed T GC src q f = Request r ->
    r_fmt r = f /\ r_fwd r = dims_for_params (w_fwd src) (q_dims q) /\
    preferred_src (w_pref src) (q_srs q) (w_srs src) = Some (r_srs r) /\ (geom_contains_sound src -> cov_ok src r).
  Proof.
    unfold get_transformed, cov_ok.
    destruct (preferred_src (w_pref src) (q_srs q) (w_srs src)) as [s|] eqn:Ep; [|discriminate].
    destruct (T (q_srs q) s (q_bbox q)) as [sb|] eqn:Et; [|discriminate].
    destruct (negb (proper sb)); [discriminate|].
    destruct sb as [[[x0 y0] x1] y1].
    destruct (if (x1 - x0) * q_h q <? (y1 - y0) * q_w q
              then (q_w q, (2 * q_w q * (y1 - y0) + (x1 - x0)) / (2 * (x1 - x0)))
              else ((2 * q_h q * (x1 - x0) + (y1 - y0)) / (2 * (y1 - y0)), q_h q)) as [sw sh].
    destruct (w_cov src) as [[cb cs]|] eqn:Ec.
    - destruct (to_srs T s cs (x0, y0, x1, y1)) as [b|] eqn:Eb; [|discriminate].
      destruct (negb (cov_contains GC (w_geom src) cb b)) eqn:En.
      + intros H. apply sub_query_inv in H. cbn in H. destruct H as (H1 & H2 & H3 & (e & He & Hi) & _).
        repeat split; try assumption.
        * rewrite H3. reflexivity.
        * intros _. right. exists e. rewrite H3. split; assumption.
      + intros H. inversion H; subst; clear H. cbn. repeat split; try reflexivity.
        intros Hs. left. exists b. cbn. split; [assumption|].
        unfold cov_contains in En. destruct (w_geom src) as [g|] eqn:Eg.
        * apply (Hs g cb cs b Eg Ec). destruct (GC g b); [reflexivity|discriminate].
        * destruct (bbox_contains cb b); [reflexivity|discriminate].
    - intros H. inversion H; subst; clear H. cbn. repeat split; try reflexivity.
  Qed.

  (* where the SRS of the request comes from *)
  Definition srs_origin (src : wms_source) (q : query) (r : request) : Prop :=
    (w_srs src = [] /\ r_srs r = q_srs q) \/
    (exists s, find (fun s => srs_eq (q_srs q) s) (w_srs src) = Some s /\
               ((code_eq (q_srs q) s = true /\ r_srs r = q_srs q) \/ r_srs r = s)) \/
    (w_srs src <> [] /\ find (fun s => srs_eq (q_srs q) s) (w_srs src) = None /\
     preferred_src (w_pref src) (q_srs q) (w_srs src) = Some (r_srs r)).

  Lemma get_map_inner_inv src q r :
    get_map_inner T GC src q = Request r ->
    r_fmt r = choose_format src q /\ r_fwd r = dims_for_params (w_fwd src) (q_dims q) /\
    srs_origin src q r /\ (geom_contains_sound src -> cov_ok src r).
  Proof.
    unfold get_map_inner, srs_origin.
    destruct (w_srs src) as [|a0 rest] eqn:Es.
    - intros H. apply after_srs_inv in H. destruct H as (H1 & H2 & H3 & H4 & _).
      repeat split; try assumption; [|intros _; exact H4]. left. split; [reflexivity|assumption].
    - destruct (find (fun s => srs_eq (q_srs q) s) (a0 :: rest)) as [s|] eqn:Ef.
      + destruct (code_eq (q_srs q) s) eqn:Ece; intros H; apply after_srs_inv in H;
          destruct H as (H1 & H2 & H3 & H4 & _); repeat split; try assumption; try (intros _; exact H4).
        * right. left. exists s. split; [reflexivity|]. left. split; [exact Ece|exact H3].
        * right. left. exists s. split; [reflexivity|]. right. exact H3.
      + intros H. apply get_transformed_inv in H. destruct H as (H1 & H2 & H3 & H4).
        repeat split; try assumption. right. right. split; [discriminate|]. split; [reflexivity|].
        rewrite <- Es. exact H3.
  Qed.

  Lemma wms_request_inv src q r :
    wms_get_map T kn kd GI GC src q = Request r ->
    q_ok q = true /\ rr_blocks kn kd (w_rr src) q = false /\
    r_fmt r = choose_format src q /\ r_fwd r = dims_for_params (w_fwd src) (q_dims q) /\
    srs_origin src q r /\ (geom_contains_sound src -> cov_ok src r) /\
    match w_cov src with
    | Some (cb, cs) => exists b, to_srs T (q_srs q) cs (q_bbox q) = Some b /\ cov_intersects GI (w_geom src) cb b = true
    | None => True
    end.
  Proof.
    unfold wms_get_map. destruct (q_ok q) eqn:Eq; [|discriminate]. cbn [negb].
    destruct (rr_blocks kn kd (w_rr src) q) eqn:Er; [discriminate|].
    destruct (w_cov src) as [[cb cs]|] eqn:Ec.
    - destruct (to_srs T (q_srs q) cs (q_bbox q)) as [b|] eqn:Et; [|discriminate].
      destruct (cov_intersects GI (w_geom src) cb b) eqn:Ei; cbn [negb]; [|discriminate].
      intros H. apply get_map_inner_inv in H. destruct H as (H1 & H2 & H3 & H4).
      repeat split; try assumption. exists b. split; [reflexivity|exact Ei].
    - intros H. apply get_map_inner_inv in H. destruct H as (H1 & H2 & H3 & H4).
      repeat split; assumption.
  Qed.

  (* ---------------------------------------------------------------- SRS negotiation *)
  Lemma find_some_in {A} (p : A -> bool) l x : find p l = Some x -> In x l /\ p x = true.
  Proof. apply find_some. Qed.

  Lemma find_none_mem t l : find (fun s => srs_eq t s) l = None -> mem_srs t l = false.
  Proof.
    intros H. unfold mem_srs. destruct (existsb (fun a => srs_eq t a) l) eqn:E; [|reflexivity].
    apply existsb_exists in E. destruct E as (x & Hx & Hp).
    pose proof (find_none _ _ H x Hx) as Hn. cbn in Hn. congruence.
  Qed.

  Lemma mem_srs_in t l : mem_srs t l = true -> exists a, In a l /\ srs_eq t a = true.
  Proof. unfold mem_srs. intros H. apply existsb_exists in H. exact H. Qed.

  Lemma first_avail_in prefs avail a : first_avail prefs avail = Some a -> In a avail.
  Proof.
    induction prefs as [|p r IH]; cbn; [discriminate|].
    destruct (find (fun a0 => srs_eq a0 p) avail) as [x|] eqn:E.
    - intros H. injection H as <-. apply find_some in E. tauto.
    - exact IH.
  Qed.

  (* preferred_src always returns an element of the available list *)
  Lemma preferred_src_in d t avail s : preferred_src d t avail = Some s -> In s avail.
  Proof.
    unfold preferred_src. destruct avail as [|a0 rest]; [discriminate|].
    destruct (find (fun a => srs_eq a t) (a0 :: rest)) as [x|] eqn:E0.
    - intros H. injection H as <-. apply find_some in E0. tauto.
    - destruct (match dict_get t d with Some prefs => first_avail prefs (a0 :: rest) | None => None end) as [x|] eqn:E1.
      + intros H. injection H as <-. destruct (dict_get t d) as [prefs|]; [|discriminate].
        eapply first_avail_in. exact E1.
      + destruct (find (fun a => Bool.eqb (s_latlong a) (s_latlong t)) (a0 :: rest)) as [a|] eqn:Ea.
        * intros H. injection H as <-. apply find_some in Ea. tauto.
        * intros H. injection H as <-. left. reflexivity.
  Qed.

  (* the SRS object of the request is an element of supported_srs, or - only when the query already uses a
     configured code - the query's own object with that code *)
  Lemma request_srs_code_supported src q r :
    wms_get_map T kn kd GI GC src q = Request r -> w_srs src <> [] ->
    In (s_code (r_srs r)) (map s_code (w_srs src)).
  Proof.
    intros H Hne. apply wms_request_inv in H. destruct H as (_ & _ & _ & _ & Ho & _).
    destruct Ho as [[He _]|[(s & Hf & Hc)|(_ & Hf & Hp)]]; [congruence| |].
    - apply find_some in Hf. destruct Hf as [Hin _].
      destruct Hc as [[Hce Hr]|Hr]; rewrite Hr.
      + unfold code_eq in Hce. replace (s_code (q_srs q)) with (s_code s) by lia. apply in_map. exact Hin.
      + apply in_map. exact Hin.
    - apply in_map. eapply preferred_src_in. exact Hp.
  Qed.

  (* class level: the SRS of the request is equal (as _SRS.__eq__ sees it) to a configured one *)
  Lemma request_srs_equivalent src q r :
    wms_get_map T kn kd GI GC src q = Request r -> w_srs src <> [] ->
    exists s, In s (w_srs src) /\ srs_eq (r_srs r) s = true.
  Proof.
    intros H Hne. apply wms_request_inv in H. destruct H as (_ & _ & _ & _ & Ho & _).
    destruct Ho as [[He _]|[(s & Hf & Hc)|(_ & Hf & Hp)]]; [congruence| |].
    - apply find_some in Hf. destruct Hf as [Hin Heq]. exists s. split; [exact Hin|].
      destruct Hc as [[_ Hr]|Hr]; rewrite Hr; [exact Heq|]. unfold srs_eq. lia.
    - exists (r_srs r). split; [eapply preferred_src_in; exact Hp|]. unfold srs_eq. lia.
  Qed.

  (* ---------------------------------------------------------------- gates *)
  Lemma no_request_outside_coverage src q cb cs :
    w_cov src = Some (cb, cs) ->
    (forall b, to_srs T (q_srs q) cs (q_bbox q) = Some b -> cov_intersects GI (w_geom src) cb b = false) ->
    forall r, wms_get_map T kn kd GI GC src q <> Request r.
  Proof.
    intros Hc Hb r H. apply wms_request_inv in H. destruct H as (_ & _ & _ & _ & _ & _ & Hi).
    rewrite Hc in Hi. destruct Hi as (b & Hb1 & Hb2). rewrite (Hb b Hb1) in Hb2. discriminate.
  Qed.

  Lemma no_request_outside_res_range src q rr :
    w_rr src = Some rr ->
    rr_contains kn kd rr (q_bbox q) (q_w q) (q_h q) (s_latlong (q_srs q)) = false ->
    forall r, wms_get_map T kn kd GI GC src q <> Request r.
  Proof.
    intros Hr Hc r H. apply wms_request_inv in H. destruct H as (_ & Hb & _).
    unfold rr_blocks in Hb. rewrite Hr, Hc in Hb. discriminate.
  Qed.

  (* ---------------------------------------------------------------- bbox *)
  Lemma request_bbox_within_extent src q r cb cs :
    wms_get_map T kn kd GI GC src q = Request r -> w_cov src = Some (cb, cs) -> geom_contains_sound src ->
    within_extent cb cs r.
  Proof.
    intros H Hc Hs. apply wms_request_inv in H. destruct H as (_ & _ & _ & _ & _ & Hk & _).
    specialize (Hk Hs). unfold cov_ok in Hk. rewrite Hc in Hk. exact Hk.
  Qed.

  (* same SRS as the coverage: no transformation is involved *)
  Lemma request_bbox_within_extent_same_srs src q r cb cs :
    wms_get_map T kn kd GI GC src q = Request r -> w_cov src = Some (cb, cs) -> geom_contains_sound src ->
    srs_eq (r_srs r) cs = true ->
    bbox_contains cb (r_bbox r) = true \/ inside cb (r_bbox r).
  Proof.
    intros H Hc Hs He. pose proof (request_bbox_within_extent _ _ _ _ _ H Hc Hs) as Hw.
    assert (He' : srs_eq cs (r_srs r) = true) by (unfold srs_eq in *; lia).
    destruct Hw as [(b & Hb & Hcn)|(e & Hb & Hi)]; unfold to_srs in Hb.
    - rewrite He in Hb. inversion Hb; subst. left. exact Hcn.
    - rewrite He' in Hb. inversion Hb; subst. right. exact Hi.
  Qed.
End Inv.

(* ------------------------------------------------------------------ resolution range, readable form *)
(* not (lo <= x_res or lo <= y_res) and not (hi > x_res or hi > y_res), for x_res = w / sx, y_res = h / sy *)
Lemma rr_contains_spec kn kd ln ld hn hd x0 y0 x1 y1 sx sy :
  0 < sx -> 0 < sy -> 0 < ld -> 0 < hd ->
  rr_contains kn kd (mkRR (Some (ln, ld)) (Some (hn, hd))) (x0, y0, x1, y1) sx sy false = true <->
  ((x1 - x0) * ld < ln * sx /\ (y1 - y0) * ld < ln * sy) /\
  (hn * sx <= (x1 - x0) * hd /\ hn * sy <= (y1 - y0) * hd).
Proof.
  intros. unfold rr_contains. cbn [rr_min rr_max].
  destruct (negb ((ln * sx <=? (x1 - x0) * ld) || (ln * sy <=? (y1 - y0) * ld))) eqn:E1;
    destruct (negb (((x1 - x0) * hd <? hn * sx) || ((y1 - y0) * hd <? hn * sy))) eqn:E2; split; intros; try discriminate; lia.
Qed.

(* ------------------------------------------------------------------ URL parameters *)
Definition keys (m : params) : list Z := map fst m.

Lemma pset_keys k vs m x : In x (keys (pset k vs m)) -> x = k \/ In x (keys m).
Proof.
  induction m as [|[k' vs'] r IH]; cbn.
  - intros [H|[]]. left. congruence.
  - destruct (k' =? k) eqn:E; cbn.
    + intros [H|H]; [left; congruence|right; right; exact H].
    + intros [H|H]; [right; left; exact H|]. apply IH in H. tauto.
Qed.

Lemma pget_pset_same k vs m : pget k (pset k vs m) = Some vs.
Proof.
  induction m as [|[k' vs'] r IH]; cbn.
  - rewrite Z.eqb_refl. reflexivity.
  - destruct (k' =? k) eqn:E; cbn; [rewrite Z.eqb_refl; reflexivity|]. rewrite E. exact IH.
Qed.

Lemma pget_pset_other k k' vs m : k <> k' -> pget k (pset k' vs m) = pget k m.
Proof.
  intros Hne. induction m as [|[k2 vs2] r IH]; cbn.
  - destruct (k' =? k) eqn:E; [lia|reflexivity].
  - destruct (k2 =? k') eqn:E; cbn.
    + destruct (k' =? k) eqn:E1; [lia|]. destruct (k2 =? k) eqn:E2; [lia|]. reflexivity.
    + destruct (k2 =? k); [reflexivity|exact IH].
Qed.

Lemma group_add_keys k v g x : In x (keys (group_add k v g)) -> x = k \/ In x (keys g).
Proof.
  induction g as [|[k' vs] r IH]; cbn.
  - intros [H|[]]. left. congruence.
  - destruct (k' =? k) eqn:E; cbn.
    + intros [H|H]; [right; left; exact H|right; right; exact H].
    + intros [H|H]; [right; left; exact H|]. apply IH in H. tauto.
Qed.

Lemma group_keys_gen l g x :
  In x (keys (fold_left (fun g kv => group_add (fst kv) (snd kv) g) l g)) -> In x (keys g) \/ In x (map fst l).
Proof.
  revert g. induction l as [|[k v] r IH]; cbn; intros g H; [left; exact H|].
  apply IH in H. destruct H as [H|H]; [|right; right; exact H].
  apply group_add_keys in H. cbn in H. destruct H as [H|H]; [right; left; congruence|left; exact H].
Qed.

Lemma group_keys l x : In x (keys (group l)) -> In x (map fst l).
Proof. intros H. apply group_keys_gen in H. destruct H as [[]|H]. exact H. Qed.

Lemma fold_pset_keys (l : params) m x :
  In x (keys (fold_left (fun m' kvs => pset (fst kvs) (snd kvs) m') l m)) -> In x (keys m) \/ In x (keys l).
Proof.
  revert m. induction l as [|[k vs] r IH]; cbn; intros m H; [left; exact H|].
  apply IH in H. destruct H as [H|H]; [|right; right; exact H].
  apply pset_keys in H. cbn in H. destruct H as [H|H]; [right; left; congruence|left; exact H].
Qed.

Lemma pupdate_keys m l x : In x (keys (pupdate m l)) -> In x (keys m) \/ In x (map fst l).
Proof.
  unfold pupdate. intros H. apply fold_pset_keys in H. destruct H as [H|H]; [left; exact H|].
  right. apply group_keys. exact H.
Qed.

Lemma fold_fixed_keys (fixed : list (Z * Z)) m x :
  In x (keys (fold_left (fun m kv => pset (fst kv) [VStr (snd kv)] m) fixed m)) -> In x (keys m) \/ In x (map fst fixed).
Proof.
  revert m. induction fixed as [|[k v] r IH]; cbn; intros m H; [left; exact H|].
  apply IH in H. destruct H as [H|H]; [|right; right; exact H].
  apply pset_keys in H. cbn in H. destruct H as [H|H]; [right; left; congruence|left; exact H].
Qed.

(* every parameter of the URL is a template parameter, one of bbox/width/height/srs/format, a fixed parameter of
   the request class, styles, or the (lower-cased) name of a forwarded dimension *)
Lemma url_params_keys tmpl fixed r x :
  In x (keys (url_params tmpl fixed r)) ->
  In x (keys tmpl) \/ reserved x = true \/ In x (map fst fixed) \/ x = K_STYLES \/
  In x (map d_lower (r_fwd r)).
Proof.
  unfold url_params.
  set (m0 := pupdate tmpl _).
  set (m4 := pset K_FORMAT _ _).
  set (m6 := fold_left _ fixed m4).
  intros H.
  assert (H6 : In x (keys m6) \/ x = K_STYLES).
  { destruct (pget K_STYLES m6); [left; exact H|]. apply pset_keys in H. tauto. }
  destruct H6 as [H6|H6]; [|tauto].
  apply fold_fixed_keys in H6. destruct H6 as [H4|H4]; [|tauto].
  unfold m4 in H4.
  apply pset_keys in H4. destruct H4 as [H4|H4]; [subst; right; left; reflexivity|].
  apply pset_keys in H4. destruct H4 as [H4|H4]; [subst; right; left; reflexivity|].
  apply pset_keys in H4. destruct H4 as [H4|H4]; [subst; right; left; reflexivity|].
  apply pset_keys in H4. destruct H4 as [H4|H4]; [subst; right; left; reflexivity|].
  apply pset_keys in H4. destruct H4 as [H4|H4]; [subst; right; left; reflexivity|].
  unfold m0 in H4. apply pupdate_keys in H4. destruct H4 as [H4|H4]; [left; exact H4|].
  right. right. right. right. rewrite map_map in H4. cbn in H4. exact H4.
Qed.

Lemma dims_for_params_in fwd ds d :
  In d (dims_for_params fwd ds) -> In d ds /\ In (d_lower d) fwd.
Proof.
  unfold dims_for_params. intros H. apply filter_In in H. destruct H as [H1 H2]. split; [exact H1|].
  apply existsb_exists in H2. destruct H2 as (k & Hk & He). replace (d_lower d) with k by lia. exact Hk.
Qed.

(* the negotiated values are what the URL carries, whatever is forwarded *)
Lemma fold_fixed_pget_other (fixed : list (Z * Z)) m k :
  ~ In k (map fst fixed) -> pget k (fold_left (fun m kv => pset (fst kv) [VStr (snd kv)] m) fixed m) = pget k m.
Proof.
  revert m. induction fixed as [|[k' v] r IH]; cbn; intros m Hn; [reflexivity|].
  rewrite IH by tauto. apply pget_pset_other. intros E. apply Hn. left. congruence.
Qed.

Lemma url_params_negotiated tmpl fixed r k :
  reserved k = true -> ~ In k (map fst fixed) ->
  pget k (url_params tmpl fixed r) =
  pget k (pset K_FORMAT [VStr (f_mime (r_fmt r))] (pset K_SRS [VStr (s_code (r_srs r))]
         (pset K_HEIGHT [VInt (r_h r)] (pset K_WIDTH [VInt (r_w r)] (pset K_BBOX [VBox (r_bbox r)]
         (pupdate tmpl (map (fun d => (d_lower d, VStr (d_val d))) (r_fwd r)))))))).
Proof.
  intros Hr Hx. unfold url_params.
  set (m4 := pset K_FORMAT _ _).
  set (m6 := fold_left _ fixed m4).
  assert (Hk : k <> K_STYLES) by (unfold reserved, K_BBOX, K_WIDTH, K_HEIGHT, K_SRS, K_FORMAT, K_STYLES in *; lia).
  assert (H6 : pget k m6 = pget k m4) by (unfold m6; apply fold_fixed_pget_other; exact Hx).
  destruct (pget K_STYLES m6); [exact H6|]. rewrite pget_pset_other by exact Hk. exact H6.
Qed.

Lemma url_srs tmpl fixed r :
  ~ In K_SRS (map fst fixed) ->
  pget K_SRS (url_params tmpl fixed r) = Some [VStr (s_code (r_srs r))].
Proof.
  intros H2. rewrite url_params_negotiated by (try reflexivity; assumption).
  rewrite pget_pset_other by (unfold K_SRS, K_FORMAT; lia). apply pget_pset_same.
Qed.

Lemma url_format tmpl fixed r :
  ~ In K_FORMAT (map fst fixed) ->
  pget K_FORMAT (url_params tmpl fixed r) = Some [VStr (f_mime (r_fmt r))].
Proof.
  intros H2. rewrite url_params_negotiated by (try reflexivity; assumption). apply pget_pset_same.
Qed.

Lemma url_bbox tmpl fixed r :
  ~ In K_BBOX (map fst fixed) ->
  pget K_BBOX (url_params tmpl fixed r) = Some [VBox (r_bbox r)].
Proof.
  intros H2. rewrite url_params_negotiated by (try reflexivity; assumption).
  rewrite !pget_pset_other by (unfold K_BBOX, K_WIDTH, K_HEIGHT, K_SRS, K_FORMAT; lia). apply pget_pset_same.
Qed.

Lemma url_size tmpl fixed r :
  ~ In K_WIDTH (map fst fixed) -> ~ In K_HEIGHT (map fst fixed) ->
  pget K_WIDTH (url_params tmpl fixed r) = Some [VInt (r_w r)] /\
  pget K_HEIGHT (url_params tmpl fixed r) = Some [VInt (r_h r)].
Proof.
  intros H1 H2. split; rewrite url_params_negotiated by (try reflexivity; assumption).
  - rewrite !pget_pset_other by (unfold K_BBOX, K_WIDTH, K_HEIGHT, K_SRS, K_FORMAT; lia). apply pget_pset_same.
  - rewrite !pget_pset_other by (unfold K_BBOX, K_WIDTH, K_HEIGHT, K_SRS, K_FORMAT; lia). apply pget_pset_same.
Qed.

(* ------------------------------------------------------------------ tile sources *)
Lemma closest_level_loop_range g rn rd rs level tr last :
  0 <= level ->
  (match tr with Some t => 0 <= t < level | None => True end) ->
  let r := closest_level_loop g rn rd rs level tr last in
  r = last \/ (level <= r < level + Z.of_nat (length rs)) \/ (exists t, tr = Some t /\ r = t).
Proof.
  revert level tr last. induction rs as [|l_res rest IH]; intros level tr last Hl Htr; cbn [closest_level_loop length].
  - left. reflexivity.
  - assert (Hl1 : 0 <= level + 1) by lia.
    destruct tr as [t|].
    + destruct (l_res * rd <? rn).
      * right. right. exists t. split; reflexivity.
      * destruct (l_res * rd * sf_d g <=? rn * sf_n g).
        -- assert (Htr' : match Some level with Some t' => 0 <= t' < level + 1 | None => True end) by lia.
           specialize (IH (level + 1) (Some level) level Hl1 Htr'). cbv zeta in IH.
           destruct IH as [H|[H|(t' & Ht' & H)]].
           ++ right. left. rewrite H. lia.
           ++ right. left. lia.
           ++ injection Ht' as <-. right. left. rewrite H. lia.
        -- assert (Htr' : match Some t with Some t' => 0 <= t' < level + 1 | None => True end) by lia.
           specialize (IH (level + 1) (Some t) level Hl1 Htr'). cbv zeta in IH.
           destruct IH as [H|[H|(t' & Ht' & H)]].
           ++ right. left. rewrite H. lia.
           ++ right. left. lia.
           ++ injection Ht' as <-. right. right. exists t. split; [reflexivity|exact H].
    + destruct (l_res * rd * sf_d g <=? rn * sf_n g).
      * assert (Htr' : match Some level with Some t' => 0 <= t' < level + 1 | None => True end) by lia.
        specialize (IH (level + 1) (Some level) level Hl1 Htr'). cbv zeta in IH.
        destruct IH as [H|[H|(t' & Ht' & H)]].
        -- right. left. rewrite H. lia.
        -- right. left. lia.
        -- injection Ht' as <-. right. left. rewrite H. lia.
      * specialize (IH (level + 1) None level Hl1 I). cbv zeta in IH.
        destruct IH as [H|[H|(t' & Ht' & H)]].
        -- right. left. rewrite H. lia.
        -- right. left. lia.
        -- discriminate.
Qed.

Lemma closest_level_valid g rn rd : ress g <> [] -> valid_level g (closest_level g rn rd) = true.
Proof.
  intros Hne. unfold closest_level, valid_level, levels.
  destruct (ress g) as [|r0 rest] eqn:E; [congruence|]. cbn [closest_level_loop length].
  set (tr' := if r0 * rd * sf_d g <=? rn * sf_n g then Some 0 else None).
  assert (Htr' : match tr' with Some t' => 0 <= t' < 0 + 1 | None => True end).
  { unfold tr'. destruct (r0 * rd * sf_d g <=? rn * sf_n g); [lia|exact I]. }
  pose proof (closest_level_loop_range g rn rd rest (0 + 1) tr' 0 ltac:(lia) Htr') as H. cbv zeta in H.
  destruct H as [H|[H|(t & Ht & H)]].
  - rewrite H. lia.
  - lia.
  - unfold tr' in Ht. destruct (r0 * rd * sf_d g <=? rn * sf_n g); [|discriminate].
    injection Ht as <-. rewrite H. lia.
Qed.

Lemma affected_level_valid g b sx sy l :
  ress g <> [] -> affected_level g b sx sy = Some l -> valid_level g l = true.
Proof.
  intros Hne. unfold affected_level.
  destruct (negb (bbox_intersects (gx0 g, gy0 g, gx1 g, gy1 g) b)); [discriminate|].
  destruct (get_resolution b sx sy) as [rn rd].
  destruct (res_at g 0 * shr_n g * rd <? rn * shr_d g); [discriminate|].
  intros H. injection H as <-. apply closest_level_valid. exact Hne.
Qed.

Lemma first_tile_in_grid g b l ab nx ny c rest :
  affected_level_tiles g b l = Affected ab nx ny (Some c :: rest) ->
  valid_level g l = true ->
  let '(x, y, l') := c in limit_tile g x y l' = Some c.
Proof.
  unfold affected_level_tiles. destruct b as [[[bx0 by0] bx1] by1].
  destruct (tile g (bx0 + res_at g l / 10) (by0 + res_at g l / 10) l) as [tx0 ty0].
  destruct (tile g (bx1 - res_at g l / 10) (by1 - res_at g l / 10) l) as [tx1 ty1].
  destruct (zrange tx0 tx1) as [|xf xs]; [discriminate|].
  destruct (if ul g then zrange ty1 ty0 else rev (zrange ty0 ty1)) as [|yf ys]; [discriminate|].
  destruct (grid_size g l) as [gnx gny] eqn:Eg.
  intros H Hv. unfold create_tile_list in H. cbn [flat_map map app fst snd] in H. injection H as _ _ _ Ht _.
  unfold tile_or_none in Ht.
  destruct ((xf <? 0) || (yf <? 0) || (gnx <=? xf) || (gny <=? yf)) eqn:Ec; [discriminate|].
  injection Ht as <-. unfold limit_tile. rewrite Hv. cbn [negb]. rewrite Eg, Ec. reflexivity.
Qed.

Section TileInv.
  Variable T : srs -> srs -> bbox -> option bbox.
  Variable kn kd : Z.
  Variable GI : Z -> bbox -> bool.

  Definition tile_go (g : grid) (q : query) : tile_outcome :=
    match affected_level g (q_bbox q) (q_w q) (q_h q) with
    | None => TErr 3
    | Some l =>
      match affected_level_tiles g (q_bbox q) l with
      | InvalidBBOX => TErr 4
      | Affected _ nx ny tiles =>
        if negb ((nx =? 1) && (ny =? 1)) then TErr 5
        else match tiles with
             | Some c :: _ => TRequest c
             | _ => TErr 6
             end
      end
    end.

  Lemma tile_go_inv g q c :
    tile_go g q = TRequest c -> ress g <> [] -> let '(x, y, l) := c in limit_tile g x y l = Some c.
  Proof.
    unfold tile_go. intros H Hne.
    destruct (affected_level g (q_bbox q) (q_w q) (q_h q)) as [l|] eqn:Ea; [|discriminate].
    destruct (affected_level_tiles g (q_bbox q) l) as [ab nx ny tiles|] eqn:Et; [|discriminate].
    destruct (negb ((nx =? 1) && (ny =? 1))); [discriminate|].
    destruct tiles as [|[c'|] rest]; try discriminate.
    injection H as <-. eapply first_tile_in_grid; [exact Et|].
    eapply affected_level_valid; eassumption.
  Qed.

  Lemma tiled_request_inv ts q c :
    tiled_get_map T kn kd GI ts q = TRequest c ->
    tile_go (t_grid ts) q = TRequest c /\
    (tw (t_grid ts) = q_w q /\ th (t_grid ts) = q_h q) /\ srs_eq (t_srs ts) (q_srs q) = true /\
    rr_blocks kn kd (t_rr ts) q = false /\
    match t_cov ts with
    | Some (cb, cs) => exists b, to_srs T (q_srs q) cs (q_bbox q) = Some b /\ cov_intersects GI (t_geom ts) cb b = true
    | None => True
    end.
  Proof.
    unfold tiled_get_map. fold (tile_go (t_grid ts) q).
    destruct (negb (q_ok q)); [discriminate|].
    destruct ((tw (t_grid ts) =? q_w q) && (th (t_grid ts) =? q_h q)) eqn:Es; cbn [negb]; [|discriminate].
    destruct (srs_eq (t_srs ts) (q_srs q)) eqn:Ee; cbn [negb]; [|discriminate].
    destruct (rr_blocks kn kd (t_rr ts) q) eqn:Er; [discriminate|].
    destruct (t_cov ts) as [[cb cs]|].
    - destruct (to_srs T (q_srs q) cs (q_bbox q)) as [b|] eqn:Et; [|discriminate].
      destruct (cov_intersects GI (t_geom ts) cb b) eqn:Ei; cbn [negb]; [|discriminate].
      intros H. repeat split; try assumption; try lia. exists b. split; [reflexivity|exact Ei].
    - intros H. repeat split; try assumption; lia.
  Qed.

  Lemma tile_request_in_grid ts q x y l :
    tiled_get_map T kn kd GI ts q = TRequest (x, y, l) -> ress (t_grid ts) <> [] ->
    limit_tile (t_grid ts) x y l = Some (x, y, l).
  Proof.
    intros H Hne. apply tiled_request_inv in H. destruct H as (H & _).
    apply (tile_go_inv _ _ _ H Hne).
  Qed.

  Lemma tile_no_request_outside_coverage ts q cb cs :
    t_cov ts = Some (cb, cs) ->
    (forall b, to_srs T (q_srs q) cs (q_bbox q) = Some b -> cov_intersects GI (t_geom ts) cb b = false) ->
    forall c, tiled_get_map T kn kd GI ts q <> TRequest c.
  Proof.
    intros Hc Hb c H. apply tiled_request_inv in H. destruct H as (_ & _ & _ & _ & Hi).
    rewrite Hc in Hi. destruct Hi as (b & Hb1 & Hb2). rewrite (Hb b Hb1) in Hb2. discriminate.
  Qed.

  Lemma tile_no_request_outside_res_range ts q rr :
    t_rr ts = Some rr ->
    rr_contains kn kd rr (q_bbox q) (q_w q) (q_h q) (s_latlong (q_srs q)) = false ->
    forall c, tiled_get_map T kn kd GI ts q <> TRequest c.
  Proof.
    intros Hr Hc c H. apply tiled_request_inv in H. destruct H as (_ & _ & _ & Hb & _).
    unfold rr_blocks in Hb. rewrite Hr, Hc in Hb. discriminate.
  Qed.
End TileInv.

(* ------------------------------------------------------------------ non-vacuity and refutation witnesses *)
Module Examples.
  Definition s3857 := mkSrs 10 1 false.
  Definition s25832 := mkSrs 11 2 false.
  Definition s900913 := mkSrs 12 1 false.     (* equal to s3857 for _SRS.__eq__, different srs_code *)
  Definition s4326 := mkSrs 13 3 true.
  Definition png := mkFmt 50 50 false 51.
  Definition png_typed := mkFmt 51 50 true 51.
  Definition gif_typed := mkFmt 52 53 true 52.
  (* toy transformation: identity on coordinates *)
  Definition Tid (a b : srs) (x : bbox) : option bbox := Some x.
  Definition Gx (g : Z) (b : bbox) : bool := true.

  Definition src1 : wms_source :=
    mkWms [s3857; s25832] [(s4326, [s3857])] [png] None (Some ((0, 0, 1000, 1000), s3857)) None
          (Some (mkRR (Some (100, 1)) (Some (1, 2)))) [20].
  Definition dims1 : list dim := [(30, 20, 40); (31, 21, 41)].
  (* inside the coverage, supported SRS: direct request, only dimension 20 is forwarded *)
  Definition q_direct := mkQuery (100, 100, 356, 356) 256 256 s3857 gif_typed dims1.
  Example ex_direct :
    wms_get_map Tid 1 1 Gx Gx src1 q_direct = Request (mkReq (100, 100, 356, 356) 256 256 s3857 png [(30, 20, 40)]).
  Proof. vm_compute. reflexivity. Qed.
  (* alias code: the configured code is used *)
  Definition q_alias := mkQuery (100, 100, 356, 356) 256 256 s900913 png_typed dims1.
  Example ex_alias :
    wms_get_map Tid 1 1 Gx Gx src1 q_alias = Request (mkReq (100, 100, 356, 356) 256 256 s3857 png_typed [(30, 20, 40)]).
  Proof. vm_compute. reflexivity. Qed.
  (* overlapping the coverage: clipped sub query *)
  Definition q_sub := mkQuery (900, 900, 1156, 1156) 256 256 s3857 png_typed [].
  Example ex_sub :
    wms_get_map Tid 1 1 Gx Gx src1 q_sub = Request (mkReq (900, 900, 1000, 1000) 100 100 s3857 png_typed []).
  Proof. vm_compute. reflexivity. Qed.
  (* unsupported SRS: transformed to the preferred one, then clipped *)
  Definition q_trans := mkQuery (900, 900, 1156, 1156) 256 256 s4326 png_typed [].
  Example ex_trans :
    wms_get_map Tid 1 1 Gx Gx src1 q_trans = Request (mkReq (900, 900, 1000, 1000) 100 100 s3857 png_typed []).
  Proof. vm_compute. reflexivity. Qed.
  (* gates *)
  Example ex_outside : wms_get_map Tid 1 1 Gx Gx src1 (mkQuery (1000, 0, 1256, 256) 256 256 s3857 png_typed []) = Blank.
  Proof. vm_compute. reflexivity. Qed.
  Example ex_too_coarse : wms_get_map Tid 1 1 Gx Gx src1 (mkQuery (0, 0, 25600, 25600) 256 256 s3857 png_typed []) = Blank.
  Proof. vm_compute. reflexivity. Qed.
  (* preferred_src_proj spells the SRS with an alias code (12): the supported code (10) is sent *)
  Example ex_pref_alias :
    wms_get_map Tid 1 1 Gx Gx (mkWms [s3857] [(s4326, [s900913])] [] None None None None [])
                (mkQuery (0, 0, 256, 256) 256 256 s4326 png []) =
    Request (mkReq (0, 0, 256, 256) 256 256 s3857 png []).
  Proof. vm_compute. reflexivity. Qed.
  (* forward_req_params [srs]: the negotiated code (10) wins over the client's value (13) *)
  Example ex_fwd_srs :
    pget K_SRS (url_params [] [] (mkReq (0, 0, 256, 256) 256 256 s3857 png [(90, K_SRS, 13)])) = Some [VStr 10].
  Proof. vm_compute. reflexivity. Qed.
  Example ex_url :
    url_params [(60, [VStr 61])] [(70, 71)] (mkReq (100, 100, 356, 356) 256 256 s3857 png [(30, 20, 40)]) =
    [(60, [VStr 61]); (20, [VStr 40]); (K_BBOX, [VBox (100, 100, 356, 356)]); (K_WIDTH, [VInt 256]); (K_HEIGHT, [VInt 256]);
     (K_SRS, [VStr 10]); (K_FORMAT, [VStr 51]); (70, [VStr 71]); (K_STYLES, [VStr V_EMPTY])].
  Proof. vm_compute. reflexivity. Qed.

  (* tile source: 10 px tiles, resolutions 10 and 5 *)
  Definition g1 : grid := mkGrid 0 0 1000 1000 10 10 [10; 5] false 23 20 4 1.
  Definition ts1 : tile_source := mkTile g1 s3857 (Some ((0, 0, 500, 1000), s3857)) None None.
  Example ex_tile :
    tiled_get_map Tid 1 1 Gx ts1 (mkQuery (200, 300, 300, 400) 10 10 s900913 png []) = TRequest (2, 3, 0).
  Proof. vm_compute. reflexivity. Qed.
  Example ex_tile_outside_grid :
    tiled_get_map Tid 1 1 Gx (mkTile g1 s3857 None None None) (mkQuery (950, 300, 1050, 400) 10 10 s3857 png []) = TErr 5.
  Proof. vm_compute. reflexivity. Qed.
  (* the < 1 px strip of _calc_grids: the query intersects the grid bbox but its tile does not exist: no request *)
  Example ex_tile_none :
    tiled_get_map Tid 1 1 Gx (mkTile (mkGrid 0 0 1001 1000 10 10 [10; 5] false 23 20 4 1) s3857 None None None)
                  (mkQuery (1000, 300, 1100, 400) 10 10 s3857 png []) = TErr 6.
  Proof. vm_compute. reflexivity. Qed.
  Example ex_tile_blank :
    tiled_get_map Tid 1 1 Gx ts1 (mkQuery (500, 300, 600, 400) 10 10 s3857 png []) = TBlank.
  Proof. vm_compute. reflexivity. Qed.
End Examples.

(* ------------------------------------------------------------------ statements about emitted requests *)
Lemma request_format_supported T kn kd GI GC src q r :
  wms_get_map T kn kd GI GC src q = Request r -> w_fmts src <> [] ->
  exists e, In e (w_fmts src) /\ (r_fmt r = e \/ fmt_match (r_fmt r) e = true).
Proof.
  intros H Hne. apply wms_request_inv in H. destruct H as (_ & _ & Hf & _). rewrite Hf.
  apply choose_format_supported. exact Hne.
Qed.

Lemma request_dims_configured T kn kd GI GC src q r d :
  wms_get_map T kn kd GI GC src q = Request r -> In d (r_fwd r) -> In d (q_dims q) /\ In (d_lower d) (w_fwd src).
Proof.
  intros H Hin. apply wms_request_inv in H. destruct H as (_ & _ & _ & Hd & _). rewrite Hd in Hin.
  apply dims_for_params_in. exact Hin.
Qed.

Lemma request_url_srs T kn kd GI GC src q r tmpl fixed :
  wms_get_map T kn kd GI GC src q = Request r -> ~ In K_SRS (map fst fixed) ->
  pget K_SRS (url_params tmpl fixed r) = Some [VStr (s_code (r_srs r))].
Proof. intros _ Hx. apply url_srs. exact Hx. Qed.

Lemma request_url_format T kn kd GI GC src q r tmpl fixed :
  wms_get_map T kn kd GI GC src q = Request r -> ~ In K_FORMAT (map fst fixed) ->
  pget K_FORMAT (url_params tmpl fixed r) = Some [VStr (f_mime (r_fmt r))].
Proof. intros _ Hx. apply url_format. exact Hx. Qed.

Lemma request_url_bbox T kn kd GI GC src q r tmpl fixed :
  wms_get_map T kn kd GI GC src q = Request r -> ~ In K_BBOX (map fst fixed) ->
  pget K_BBOX (url_params tmpl fixed r) = Some [VBox (r_bbox r)].
Proof. intros _ Hx. apply url_bbox. exact Hx. Qed.

Lemma request_url_size T kn kd GI GC src q r tmpl fixed :
  wms_get_map T kn kd GI GC src q = Request r -> ~ In K_WIDTH (map fst fixed) -> ~ In K_HEIGHT (map fst fixed) ->
  pget K_WIDTH (url_params tmpl fixed r) = Some [VInt (r_w r)] /\
  pget K_HEIGHT (url_params tmpl fixed r) = Some [VInt (r_h r)].
Proof. intros _ H1 H2. apply url_size; assumption. Qed.

(* ------------------------------------------------------------------ combined sources (WMSSource.combined_layer) *)
Lemma bbox_eqb_eq a b : bbox_eqb a b = true -> a = b.
Proof.
  destruct a as [[[a0 a1] a2] a3]. destruct b as [[[b0 b1] b2] b3]. unfold bbox_eqb. intros H.
  assert (a0 = b0 /\ a1 = b1 /\ a2 = b2 /\ a3 = b3) as (-> & -> & -> & ->) by lia. reflexivity.
Qed.

Lemma list_eqb_dim_eq (la lb : list dim) : list_eqb dim_eqb la lb = true -> la = lb.
Proof.
  revert lb. induction la as [|x la IH]; intros [|y lb] H; try discriminate; [reflexivity|].
  cbn in H. apply andb_prop in H. destruct H as [Hxy H]. f_equal; [|apply IH; exact H].
  destruct x as [[x1 x2] x3]. destruct y as [[y1 y2] y3]. unfold dim_eqb, d_key, d_lower, d_val in Hxy. cbn in Hxy.
  assert (x1 = y1 /\ x2 = y2 /\ x3 = y3) as (-> & -> & ->) by lia. reflexivity.
Qed.

Section Combined.
  Variable T : srs -> srs -> bbox -> option bbox.
  Variable kn kd : Z.
  Variable GI GC : Z -> bbox -> bool.

  Lemma compatible_inv ok a b q :
    compatible kn kd ok a b q = true ->
    rr_blocks kn kd (w_rr a) q = false /\ rr_blocks kn kd (w_rr b) q = false /\ cov_eqb a b = true /\
    list_eqb dim_eqb (dims_for_params (w_fwd a) (q_dims q)) (dims_for_params (w_fwd b) (q_dims q)) = true.
  Proof.
    unfold compatible. intros H.
    apply andb_prop in H. destruct H as [H H7]. apply andb_prop in H. destruct H as [H H6].
    apply andb_prop in H. destruct H as [H H5]. apply andb_prop in H. destruct H as [H H4].
    apply andb_prop in H. destruct H as [H H3]. apply andb_prop in H. destruct H as [H1 H2].
    repeat split; try assumption.
    - destruct (rr_blocks kn kd (w_rr a) q); [discriminate|reflexivity].
    - destruct (rr_blocks kn kd (w_rr b) q); [discriminate|reflexivity].
  Qed.

  (* sources outside their resolution range are never combined: each is then asked (or not) on its own *)
  Lemma compatible_res_ranges ok a b q :
    compatible kn kd ok a b q = true ->
    rr_blocks kn kd (w_rr a) q = false /\ rr_blocks kn kd (w_rr b) q = false.
  Proof. intros H. apply compatible_inv in H. tauto. Qed.

  (* only sources with the same coverage are combined: same bbox, equal SRS, same kind and geometry *)
  Lemma compatible_coverage ok a b q cb cs :
    compatible kn kd ok a b q = true -> w_cov a = Some (cb, cs) ->
    exists cs', w_cov b = Some (cb, cs') /\ srs_eq cs cs' = true /\ w_geom a = w_geom b.
  Proof.
    intros H Ha. apply compatible_inv in H. destruct H as (_ & _ & Hc & _).
    unfold cov_eqb in Hc. rewrite Ha in Hc. destruct (w_cov b) as [[cb' cs']|]; [|discriminate].
    apply andb_prop in Hc. destruct Hc as [Hc Hg]. apply andb_prop in Hc. destruct Hc as [Es Eb].
    apply bbox_eqb_eq in Eb. subst cb'. exists cs'. split; [reflexivity|]. split; [exact Es|].
    destruct (w_geom a) as [g|]; destruct (w_geom b) as [g'|]; try discriminate; [|reflexivity].
    f_equal. lia.
  Qed.

  (* the combined source keeps coverage, SRS list, formats and forwarded names of the first source, so every
     statement about single sources applies to the combined request *)
  Lemma combined_request_contract ok a b q r :
    compatible kn kd ok a b q = true ->
    wms_get_map T kn kd GI GC (combined a) q = Request r ->
    (rr_blocks kn kd (w_rr a) q = false /\ rr_blocks kn kd (w_rr b) q = false) /\
    (forall cb cs, w_cov a = Some (cb, cs) ->
       (exists bb, to_srs T (q_srs q) cs (q_bbox q) = Some bb /\ cov_intersects GI (w_geom a) cb bb = true) /\
       (exists cs', w_cov b = Some (cb, cs') /\ srs_eq cs cs' = true /\ w_geom a = w_geom b) /\
       (geom_contains_sound GC a -> within_extent T cb cs r)) /\
    (w_srs a <> [] -> In (s_code (r_srs r)) (map s_code (w_srs a))) /\
    (w_fmts a <> [] -> exists e, In e (w_fmts a) /\ (r_fmt r = e \/ fmt_match (r_fmt r) e = true)) /\
    (forall d, In d (r_fwd r) -> In d (q_dims q) /\ In (d_lower d) (w_fwd a) /\ In (d_lower d) (w_fwd b)).
  Proof.
    intros Hc H. split; [eapply compatible_res_ranges; exact Hc|]. split; [|split; [|split]].
    - intros cb cs Ha. split; [|split].
      + pose proof (wms_request_inv _ _ _ _ _ _ _ _ H) as (_ & _ & _ & _ & _ & _ & Hi).
        cbn [combined w_cov w_geom] in Hi. rewrite Ha in Hi. exact Hi.
      + eapply compatible_coverage; eassumption.
      + intros Hs. eapply (request_bbox_within_extent T kn kd GI GC (combined a)); [exact H|exact Ha|exact Hs].
    - intros Hne. apply (request_srs_code_supported T kn kd GI GC (combined a) q r H Hne).
    - intros Hne. apply (request_format_supported T kn kd GI GC (combined a) q r H Hne).
    - intros d Hd. pose proof (request_dims_configured T kn kd GI GC (combined a) q r d H Hd) as [H1 H2].
      cbn [combined w_fwd] in H2. split; [exact H1|]. split; [exact H2|].
      (* the forwarded sets of both sources agree on this query *)
      apply compatible_inv in Hc. destruct Hc as (_ & _ & _ & He).
      apply list_eqb_dim_eq in He.
      assert (Hin : In d (dims_for_params (w_fwd a) (q_dims q))).
      { unfold dims_for_params. apply filter_In. split; [exact H1|]. apply existsb_exists. exists (d_lower d).
        split; [exact H2|]. apply Z.eqb_refl. }
      rewrite He in Hin. apply dims_for_params_in in Hin. tauto.
  Qed.
End Combined.

Module CombinedExamples.
  Import Examples.
  (* polygon coverage with bounds (0,0,1000,1000) and a hole (300,300)-(700,700); GIh / GCh are exact for rectangles *)
  Definition GIh (g : Z) (b : bbox) : bool :=
    let '(x0, y0, x1, y1) := b in
    (x0 <=? 1000) && (0 <=? x1) && (y0 <=? 1000) && (0 <=? y1) &&
    negb ((300 <? x0) && (x1 <? 700) && (300 <? y0) && (y1 <? 700)).
  Definition GCh (g : Z) (b : bbox) : bool :=
    let '(x0, y0, x1, y1) := b in
    (0 <=? x0) && (x1 <=? 1000) && (0 <=? y0) && (y1 <=? 1000) &&
    ((x1 <=? 300) || (700 <=? x0) || (y1 <=? 300) || (700 <=? y0)).
  Definition pa : wms_source := mkWms [s3857] [] [png] None (Some ((0, 0, 1000, 1000), s3857)) (Some 1) None [20].
  Definition pb : wms_source := mkWms [s3857] [] [png] None (Some ((0, 0, 1000, 1000), s900913)) (Some 1)
                                      (Some (mkRR (Some (100, 1)) None)) [20; 21].
  Definition qh (b : bbox) := mkQuery b 100 100 s3857 png_typed [(30, 20, 40)].
  Example ex_compatible : compatible 1 1 true pa pb (qh (900, 900, 1100, 1100)) = true.
  Proof. vm_compute. reflexivity. Qed.
  (* requested together, partly outside: one request, clipped to the common extent *)
  Example ex_pair_clipped :
    render_pair Tid 1 1 GIh GCh true pa pb (qh (900, 900, 1100, 1100)) =
    [Request (mkReq (900, 900, 1000, 1000) 50 50 s3857 png_typed [(30, 20, 40)])].
  Proof. vm_compute. reflexivity. Qed.
  (* inside the hole of the polygon (but inside its bounds): not contacted *)
  Example ex_pair_in_hole : render_pair Tid 1 1 GIh GCh true pa pb (qh (400, 400, 600, 600)) = [Blank].
  Proof. vm_compute. reflexivity. Qed.
  (* outside the resolution range of the second source: not combined; the first source is asked on its own
     (clipped to the extent), the second one is not contacted *)
  Example ex_pair_res :
    render_pair Tid 1 1 GIh GCh true pa pb (mkQuery (0, 0, 20000, 20000) 100 100 s3857 png_typed []) =
    [Request (mkReq (0, 0, 1000, 1000) 5 5 s3857 png_typed []); Blank].
  Proof. vm_compute. reflexivity. Qed.
  (* the same SRS spelled with another code: not combined, each source is asked with its own code *)
  Definition pb_alias : wms_source := mkWms [s900913] [] [png] None (Some ((0, 0, 1000, 1000), s900913)) (Some 1) None [20].
  Example ex_pair_alias :
    render_pair Tid 1 1 GIh GCh true pa pb_alias (qh (100, 100, 200, 200)) =
    [Request (mkReq (100, 100, 200, 200) 100 100 s3857 png_typed [(30, 20, 40)]);
     Request (mkReq (100, 100, 200, 200) 100 100 s900913 png_typed [(30, 20, 40)])].
  Proof. vm_compute. reflexivity. Qed.
  Example ex_geom_sound : geom_contains_sound GCh pa.
  Proof.
    unfold geom_contains_sound, pa. cbn [w_geom w_cov]. intros g cb cs b Hg Hc. inversion Hc; subst.
    destruct b as [[[x0 y0] x1] y1]. unfold GCh, bbox_contains, ten13. intros H.
    apply andb_prop in H. destruct H as [H _]. lia.
  Qed.
End CombinedExamples.

(* ------------------------------------------------------------------ any number of combined sources *)
Section CombineList.
  Variable kn kd : Z.

  (* the layer e can stand for the source m: same coverage, same SRS and format lists, and for this query the same
     forwarded dimensions *)
  Definition agrees (e m : wms_source) (q : query) : Prop :=
    cov_eqb e m = true /\
    dims_for_params (w_fwd e) (q_dims q) = dims_for_params (w_fwd m) (q_dims q) /\
    list_eqb code_eq (w_srs e) (w_srs m) = true /\
    list_eqb (fun x y => f_id x =? f_id y) (w_fmts e) (w_fmts m) = true.

  Definition group_ok (e : wms_source) (ms : list wms_source) (q : query) : Prop :=
    (forall m, In m ms -> agrees e m q) /\
    (ms = [e] \/ forall m, In m ms -> rr_blocks kn kd (w_rr m) q = false).

  Lemma bbox_eqb_refl b : bbox_eqb b b = true.
  Proof. destruct b as [[[a0 a1] a2] a3]. unfold bbox_eqb. lia. Qed.

  Lemma agrees_refl e q : agrees e e q.
  Proof.
    unfold agrees. repeat split.
    - unfold cov_eqb. destruct (w_cov e) as [[cb cs]|]; [|reflexivity].
      unfold srs_eq. rewrite Z.eqb_refl, bbox_eqb_refl. cbn. destruct (w_geom e); [apply Z.eqb_refl|reflexivity].
    - apply list_eqb_refl. intros x. unfold code_eq. apply Z.eqb_refl.
    - apply list_eqb_refl. intros x. apply Z.eqb_refl.
  Qed.

  Lemma agrees_combined e m q : agrees e m q -> agrees (combined e) m q.
  Proof. unfold agrees, combined, cov_eqb. cbn. tauto. Qed.

  Lemma compatible_agrees ok e n q : compatible kn kd ok e n q = true -> agrees e n q.
  Proof.
    unfold compatible, agrees. intros H.
    apply andb_prop in H. destruct H as [H H7]. apply andb_prop in H. destruct H as [H H6].
    apply andb_prop in H. destruct H as [H H5]. apply andb_prop in H. destruct H as [H H4].
    repeat split; try assumption. apply list_eqb_dim_eq. exact H7.
  Qed.

  Lemma combine_from_inv rest : forall cur members q,
    group_ok cur members q ->
    forall e ms, In (e, ms) (combine_from kn kd cur members rest q) -> group_ok e ms q.
  Proof.
    induction rest as [|[ok n] r IH]; intros cur members q Hg e ms Hin; cbn [combine_from] in Hin.
    - destruct Hin as [Hin|[]]. inversion Hin; subst. exact Hg.
    - destruct (compatible kn kd ok cur n q) eqn:Ec.
      + apply (IH (combined cur) (members ++ [n]) q); [|exact Hin].
        destruct Hg as [Ha Hr]. pose proof (compatible_inv kn kd ok cur n q Ec) as (Hrc & Hrn & _).
        split.
        * intros m Hm. apply in_app_or in Hm. destruct Hm as [Hm|[<-|[]]].
          -- apply agrees_combined. apply Ha. exact Hm.
          -- apply agrees_combined. eapply compatible_agrees. exact Ec.
        * right. intros m Hm. apply in_app_or in Hm. destruct Hm as [Hm|[<-|[]]]; [|exact Hrn].
          destruct Hr as [->|Hr]; [|apply Hr; exact Hm]. destruct Hm as [<-|[]]. exact Hrc.
      + destruct Hin as [Hin|Hin].
        * inversion Hin; subst. exact Hg.
        * apply (IH n [n] q); [|exact Hin]. split.
          -- intros m [<-|[]]. apply agrees_refl.
          -- left. reflexivity.
  Qed.

  (* every layer that combined_layers produces agrees with every source it stands for, and a layer that stands for
     more than one source only exists when none of their resolution ranges excludes the request *)
  Lemma combine_layers_group_ok first rest q e ms :
    In (e, ms) (combine_layers kn kd first rest q) -> group_ok e ms q.
  Proof.
    unfold combine_layers. apply combine_from_inv. split.
    - intros m [<-|[]]. apply agrees_refl.
    - left. reflexivity.
  Qed.

  Lemma render_pair_is_render_list T GI GC ok a b q :
    render_pair T kn kd GI GC ok a b q = render_list T kn kd GI GC a [(ok, b)] q.
  Proof.
    unfold render_pair, render_list, combine_layers. cbn [combine_from].
    destruct (compatible kn kd ok a b q); reflexivity.
  Qed.
End CombineList.

(* equal code lists: a code of one list is a code of the other *)
Lemma list_eqb_code_eq_map l l' : list_eqb code_eq l l' = true -> map s_code l = map s_code l'.
Proof.
  revert l'. induction l as [|x l IH]; intros [|y l'] H; try discriminate; [reflexivity|].
  cbn in H. apply andb_prop in H. destruct H as [Hxy H]. cbn. f_equal; [unfold code_eq in Hxy; lia|apply IH; exact H].
Qed.

(* the request of a layer that stands for several sources uses an srs_code that every one of them lists *)
Lemma combined_request_code_of_members T kn kd GI GC first rest q e ms r m :
  In (e, ms) (combine_layers kn kd first rest q) ->
  wms_get_map T kn kd GI GC e q = Request r -> w_srs e <> [] -> In m ms ->
  In (s_code (r_srs r)) (map s_code (w_srs m)).
Proof.
  intros Hin H Hne Hm. apply combine_layers_group_ok in Hin. destruct Hin as [Ha _].
  destruct (Ha m Hm) as (_ & _ & Hs & _). apply list_eqb_code_eq_map in Hs. rewrite <- Hs.
  eapply request_srs_code_supported; eassumption.
Qed.

(* a layer that agrees with a source has the same coverage extent and geometry *)
Lemma agrees_coverage e m q cb cs :
  agrees e m q -> w_cov e = Some (cb, cs) ->
  exists cs', w_cov m = Some (cb, cs') /\ srs_eq cs cs' = true /\ w_geom e = w_geom m.
Proof.
  intros (Hc & _) He. unfold cov_eqb in Hc. rewrite He in Hc. destruct (w_cov m) as [[cb' cs']|]; [|discriminate].
  apply andb_prop in Hc. destruct Hc as [Hc Hg]. apply andb_prop in Hc. destruct Hc as [Es Eb].
  apply bbox_eqb_eq in Eb. subst cb'. exists cs'. split; [reflexivity|]. split; [exact Es|].
  destruct (w_geom e) as [g|]; destruct (w_geom m) as [g'|]; try discriminate; [|reflexivity].
  f_equal. lia.
Qed.

(* format negotiation on the reprojection path: when no supported SRS equals the SRS of the query, the request
   is sent in an element of supported_srs and in the negotiated format *)
Lemma reprojected_request T kn kd GI GC src q r :
  wms_get_map T kn kd GI GC src q = Request r -> w_srs src <> [] ->
  find (fun s => srs_eq (q_srs q) s) (w_srs src) = None ->
  In (r_srs r) (w_srs src) /\ r_fmt r = choose_format src q /\
  (w_fmts src <> [] -> exists e, In e (w_fmts src) /\ (r_fmt r = e \/ fmt_match (r_fmt r) e = true)).
Proof.
  intros H Hne Hf. pose proof (wms_request_inv _ _ _ _ _ _ _ _ H) as (_ & _ & Hfmt & _ & Ho & _).
  split; [|split; [exact Hfmt|]].
  - destruct Ho as [[He _]|[(s & Hs & _)|(_ & _ & Hp)]]; [congruence|congruence|].
    apply (preferred_src_in T kn GI GC _ _ _ _ Hp).
  - intros Hn. rewrite Hfmt. apply choose_format_supported. exact Hn.
Qed.

(* ------------------------------------------------------------------ the request as the upstream sees it (URL level) *)
Section UrlLevel.
  Variable T : srs -> srs -> bbox -> option bbox.
  Variable kn kd : Z.
  Variable GI GC : Z -> bbox -> bool.

  Lemma url_srs_supported src q r tmpl fixed :
    wms_get_map T kn kd GI GC src q = Request r -> w_srs src <> [] -> ~ In K_SRS (map fst fixed) ->
    exists c, pget K_SRS (url_params tmpl fixed r) = Some [VStr c] /\ In c (map s_code (w_srs src)).
  Proof.
    intros H Hne Hx. exists (s_code (r_srs r)). split; [apply url_srs; exact Hx|].
    eapply request_srs_code_supported; eassumption.
  Qed.

  Lemma url_format_supported src q r tmpl fixed :
    wms_get_map T kn kd GI GC src q = Request r -> w_fmts src <> [] -> ~ In K_FORMAT (map fst fixed) ->
    exists f e, pget K_FORMAT (url_params tmpl fixed r) = Some [VStr (f_mime f)] /\
                In e (w_fmts src) /\ (f = e \/ fmt_match f e = true).
  Proof.
    intros H Hne Hx. destruct (request_format_supported T kn kd GI GC src q r H Hne) as (e & He & Hm).
    exists (r_fmt r), e. split; [apply url_format; exact Hx|]. split; assumption.
  Qed.

  Lemma url_bbox_in_extent src q r tmpl fixed cb cs :
    wms_get_map T kn kd GI GC src q = Request r -> w_cov src = Some (cb, cs) -> geom_contains_sound GC src ->
    ~ In K_BBOX (map fst fixed) ->
    pget K_BBOX (url_params tmpl fixed r) = Some [VBox (r_bbox r)] /\ within_extent T cb cs r.
  Proof.
    intros H Hc Hs Hx. split; [apply url_bbox; exact Hx|]. eapply request_bbox_within_extent; eassumption.
  Qed.

  (* a parameter of the URL that is neither a template parameter nor bbox/width/height/srs/format nor a fixed one
     nor styles is the lower-cased name of a dimension of the query, and that name is configured to be forwarded *)
  Lemma url_extra_key_is_configured_dimension src q r tmpl fixed k :
    wms_get_map T kn kd GI GC src q = Request r ->
    In k (keys (url_params tmpl fixed r)) ->
    ~ In k (keys tmpl) -> reserved k = false -> ~ In k (map fst fixed) -> k <> K_STYLES ->
    In k (w_fwd src) /\ exists d, In d (q_dims q) /\ d_lower d = k.
  Proof.
    intros H Hk H1 H2 H3 H4. apply url_params_keys in Hk.
    destruct Hk as [Hk|[Hk|[Hk|[Hk|Hk]]]]; try tauto; try congruence.
    apply in_map_iff in Hk. destruct Hk as (d & Hd & Hin).
    destruct (request_dims_configured T kn kd GI GC src q r d H Hin) as [Hq Hf].
    rewrite Hd in Hf. split; [exact Hf|]. exists d. split; assumption.
  Qed.

  (* ---- the clipped bbox is a proper rectangle when request and coverage are in the same SRS (bbox coverage,
     supported or unrestricted SRS: no transformation is involved) *)
  Lemma sub_query_proper src cb cs q f r :
    sub_query T src cb cs q f = Request r -> srs_eq cs (q_srs q) = true ->
    proper (q_bbox q) = true -> proper cb = true -> bbox_intersects cb (q_bbox q) = true ->
    proper (r_bbox r) = true.
  Proof.
    unfold sub_query, to_srs. intros H He Hq Hc Hi. rewrite He in H.
    destruct (bbox_position_in_image (q_bbox q) (q_w q) (q_h q) cb) as [[sz off] sub] eqn:B.
    destruct ((fst sz =? 0) || (snd sz =? 0)); [discriminate|].
    inversion H; subst; clear H. cbn. eapply bpi_proper; eassumption.
  Qed.

  Lemma after_srs_proper src q f r cb cs :
    after_srs T src q f = Request r -> w_cov src = Some (cb, cs) -> srs_eq (q_srs q) cs = true ->
    proper (q_bbox q) = true -> proper cb = true -> bbox_intersects cb (q_bbox q) = true ->
    proper (r_bbox r) = true.
  Proof.
    unfold after_srs. intros H Hc He Hq Hp Hi. rewrite Hc in H. unfold to_srs in H. rewrite He in H.
    destruct (bbox_contains cb (q_bbox q)).
    - inversion H; subst; clear H. cbn. exact Hq.
    - eapply sub_query_proper; try eassumption. unfold srs_eq in *. lia.
  Qed.

  Lemma request_bbox_proper_same_srs src q r cb cs :
    wms_get_map T kn kd GI GC src q = Request r ->
    w_cov src = Some (cb, cs) -> w_geom src = None -> proper cb = true -> srs_eq (q_srs q) cs = true ->
    (w_srs src = [] \/ find (fun s => srs_eq (q_srs q) s) (w_srs src) <> None) ->
    proper (r_bbox r) = true.
  Proof.
    unfold wms_get_map. intros H Hc Hg Hp He Hs.
    destruct (q_ok q) eqn:Eq; [|discriminate]. cbn [negb] in H.
    destruct (rr_blocks kn kd (w_rr src) q); [discriminate|].
    rewrite Hc in H. unfold to_srs in H. rewrite He in H. rewrite Hg in H. cbn [cov_intersects] in H.
    destruct (bbox_intersects cb (q_bbox q)) eqn:Ei; cbn [negb] in H; [|discriminate].
    assert (Hq : proper (q_bbox q) = true).
    { unfold q_ok in Eq. apply andb_prop in Eq. tauto. }
    unfold get_map_inner in H.
    destruct (w_srs src) as [|a0 rest] eqn:Ew.
    - eapply after_srs_proper; eassumption.
    - destruct Hs as [Hs|Hs]; [discriminate|].
      destruct (find (fun s => srs_eq (q_srs q) s) (a0 :: rest)) as [s|] eqn:Ef; [|congruence].
      apply find_some in Ef. destruct Ef as [_ Hqs].
      destruct (code_eq (q_srs q) s).
      + eapply after_srs_proper; eassumption.
      + eapply (after_srs_proper src (set_srs q s)); try eassumption; cbn; try assumption.
        unfold srs_eq in *. lia.
  Qed.
End UrlLevel.

(* ------------------------------------------------------------------ the values of the forwarded parameters *)
Definition kvals (k : Z) (l : list (Z * pval)) : list pval := map snd (filter (fun kv => fst kv =? k) l).

Lemma pget_not_in k m : ~ In k (keys m) -> pget k m = None.
Proof.
  induction m as [|[k' vs] r IH]; cbn; [reflexivity|]. intros Hn.
  destruct (k' =? k) eqn:E; [exfalso; apply Hn; left; lia|]. apply IH. tauto.
Qed.

Lemma pget_in_keys k m vs : pget k m = Some vs -> In k (keys m).
Proof.
  induction m as [|[k' vs'] r IH]; cbn; [discriminate|].
  destruct (k' =? k) eqn:E; [intros _; left; lia|]. intros H. right. apply IH. exact H.
Qed.

Lemma pget_group_add k k' v g :
  pget k (group_add k' v g) =
  if k' =? k then Some (match pget k g with Some vs => vs ++ [v] | None => [v] end) else pget k g.
Proof.
  induction g as [|[k2 vs2] r IH]; cbn.
  - destruct (k' =? k); reflexivity.
  - destruct (k2 =? k') eqn:E2; cbn.
    + destruct (k2 =? k) eqn:E3; destruct (k' =? k) eqn:E4; try reflexivity; lia.
    + destruct (k2 =? k) eqn:E3.
      * destruct (k' =? k) eqn:E4; [lia|reflexivity].
      * exact IH.
Qed.

Lemma group_add_keys_nodup k v g : NoDup (keys g) -> NoDup (keys (group_add k v g)).
Proof.
  induction g as [|[k' vs] r IH]; cbn; intros Hn.
  - constructor; [intros []|constructor].
  - destruct (k' =? k) eqn:E; cbn; [exact Hn|].
    inversion Hn as [|x l Hx Hl]; subst. constructor; [|apply IH; exact Hl].
    intros Hin. apply group_add_keys in Hin. destruct Hin as [Hin|Hin]; [lia|tauto].
Qed.

Lemma group_gen_nodup l : forall g, NoDup (keys g) ->
  NoDup (keys (fold_left (fun g kv => group_add (fst kv) (snd kv) g) l g)).
Proof.
  induction l as [|[k v] r IH]; cbn; intros g Hn; [exact Hn|]. apply IH. apply group_add_keys_nodup. exact Hn.
Qed.

Lemma pget_group_gen k l : forall g,
  pget k (fold_left (fun g kv => group_add (fst kv) (snd kv) g) l g) =
  match pget k g, kvals k l with
  | None, [] => None
  | None, vl => Some vl
  | Some vs, vl => Some (vs ++ vl)
  end.
Proof.
  unfold kvals. induction l as [|[k' v] r IH]; intros g; cbn [fold_left filter map fst snd].
  - destruct (pget k g); [rewrite app_nil_r|]; reflexivity.
  - rewrite IH. rewrite pget_group_add. cbn [fst snd]. destruct (k' =? k) eqn:E.
    + cbn [map snd]. destruct (pget k g) as [vs|].
      * rewrite <- app_assoc. reflexivity.
      * reflexivity.
    + reflexivity.
Qed.

Lemma pget_group k l : pget k (group l) = match kvals k l with [] => None | vl => Some vl end.
Proof. unfold group. rewrite pget_group_gen. cbn. reflexivity. Qed.

Lemma fold_pset_pget_nodup (g : params) : forall m k, NoDup (keys g) ->
  pget k (fold_left (fun m' kvs => pset (fst kvs) (snd kvs) m') g m) =
  match pget k g with Some v => Some v | None => pget k m end.
Proof.
  induction g as [|[k1 v1] r IH]; intros m k Hn; cbn [fold_left fst snd]; [reflexivity|].
  inversion Hn as [|x l Hx Hl]; subst. rewrite IH by exact Hl. cbn [pget].
  destruct (k1 =? k) eqn:E.
  - assert (k1 = k) by lia. subst k1. rewrite (pget_not_in k r Hx). apply pget_pset_same.
  - destruct (pget k r); [reflexivity|]. apply pget_pset_other. lia.
Qed.

Lemma pget_pupdate k m l :
  pget k (pupdate m l) = match kvals k l with [] => pget k m | vl => Some vl end.
Proof.
  unfold pupdate. rewrite fold_pset_pget_nodup.
  - rewrite pget_group. destruct (kvals k l); reflexivity.
  - unfold group. apply group_gen_nodup. constructor.
Qed.

(* every parameter of the URL other than bbox/width/height/srs/format, the fixed ones and styles has either the
   value of the request template or exactly the values of the forwarded dimensions of that (lower-cased) name *)
Lemma url_param_value tmpl fixed r k :
  reserved k = false -> ~ In k (map fst fixed) -> k <> K_STYLES ->
  pget k (url_params tmpl fixed r) =
  match kvals k (map (fun d => (d_lower d, VStr (d_val d))) (r_fwd r)) with
  | [] => pget k tmpl
  | vl => Some vl
  end.
Proof.
  intros Hr Hx Hs. unfold url_params.
  set (m0 := pupdate tmpl _).
  set (m4 := pset K_FORMAT _ _).
  set (m6 := fold_left _ fixed m4).
  assert (H6 : pget k m6 = pget k m0).
  { unfold m6. rewrite fold_fixed_pget_other by exact Hx. unfold m4.
    unfold reserved in Hr.
    rewrite !pget_pset_other by (unfold K_BBOX, K_WIDTH, K_HEIGHT, K_SRS, K_FORMAT in *; lia). reflexivity. }
  assert (H7 : pget k (match pget K_STYLES m6 with Some _ => m6 | None => pset K_STYLES [VStr V_EMPTY] m6 end) = pget k m6).
  { destruct (pget K_STYLES m6); [reflexivity|]. apply pget_pset_other. exact Hs. }
  rewrite H7, H6. unfold m0. apply pget_pupdate.
Qed.

(* ------------------------------------------------------------------ combined layers: the contract of every member *)
(* equal format lists (as lists of strings): an entry of one list has an entry with the same string in the other *)
Lemma list_eqb_fid_in (l l' : list fmt) e :
  list_eqb (fun x y => f_id x =? f_id y) l l' = true -> In e l -> exists e', In e' l' /\ f_id e = f_id e'.
Proof.
  revert l'. induction l as [|x l IH]; intros [|y l'] H Hin; try discriminate; [destruct Hin|].
  cbn in H. apply andb_prop in H. destruct H as [Hxy H]. destruct Hin as [<-|Hin].
  - exists y. split; [left; reflexivity|lia].
  - destruct (IH l' H Hin) as (e' & He' & Hid). exists e'. split; [right; exact He'|exact Hid].
Qed.

(* the request of a layer that stands for several sources: its format is (or compares equal to) an entry that every
   member lists under the same string, and it forwards only dimensions that every member is configured to forward *)
Lemma combined_request_format_of_members T kn kd GI GC first rest q e ms r m :
  In (e, ms) (combine_layers kn kd first rest q) ->
  wms_get_map T kn kd GI GC e q = Request r -> w_fmts e <> [] -> In m ms ->
  exists fe fm, In fe (w_fmts e) /\ In fm (w_fmts m) /\ f_id fe = f_id fm /\
                (r_fmt r = fe \/ fmt_match (r_fmt r) fe = true).
Proof.
  intros Hin H Hne Hm. apply combine_layers_group_ok in Hin. destruct Hin as [Ha _].
  destruct (Ha m Hm) as (_ & _ & _ & Hf).
  destruct (request_format_supported T kn kd GI GC e q r H Hne) as (fe & Hfe & Hmatch).
  destruct (list_eqb_fid_in _ _ fe Hf Hfe) as (fm & Hfm & Hid).
  exists fe, fm. repeat split; assumption.
Qed.

Lemma combined_request_dims_of_members T kn kd GI GC first rest q e ms r m d :
  In (e, ms) (combine_layers kn kd first rest q) ->
  wms_get_map T kn kd GI GC e q = Request r -> In m ms -> In d (r_fwd r) ->
  In d (q_dims q) /\ In (d_lower d) (w_fwd m).
Proof.
  intros Hin H Hm Hd. apply combine_layers_group_ok in Hin. destruct Hin as [Ha _].
  destruct (Ha m Hm) as (_ & Hdims & _).
  pose proof (wms_request_inv _ _ _ _ _ _ _ _ H) as (_ & _ & _ & Hfwd & _).
  rewrite Hfwd, Hdims in Hd. apply dims_for_params_in in Hd. exact Hd.
Qed.

(* a layer that stands for several sources is not requested when the (common) coverage does not intersect *)
Lemma combined_not_contacted_outside_member_coverage T kn kd GI GC first rest q e ms m cb cs :
  In (e, ms) (combine_layers kn kd first rest q) -> In m ms -> w_cov m = Some (cb, cs) ->
  exists cs', w_cov e = Some (cb, cs') /\ srs_eq cs' cs = true /\ w_geom e = w_geom m /\
    ((forall b, to_srs T (q_srs q) cs' (q_bbox q) = Some b -> cov_intersects GI (w_geom e) cb b = false) ->
     forall r, wms_get_map T kn kd GI GC e q <> Request r).
Proof.
  intros Hin Hm Hc. apply combine_layers_group_ok in Hin. destruct Hin as [Ha _].
  destruct (Ha m Hm) as (Hcov & _). unfold cov_eqb in Hcov. rewrite Hc in Hcov.
  destruct (w_cov e) as [[cb' cs']|] eqn:Ee; [|discriminate].
  apply andb_prop in Hcov. destruct Hcov as [Hcov Hg]. apply andb_prop in Hcov. destruct Hcov as [Es Eb].
  apply bbox_eqb_eq in Eb. subst cb'. exists cs'. split; [reflexivity|]. split; [exact Es|]. split.
  - destruct (w_geom e) as [g|]; destruct (w_geom m) as [g'|]; try discriminate; [|reflexivity]. f_equal. lia.
  - intros Hb. eapply no_request_outside_coverage; eassumption.
Qed.

Module ThreeExamples.
  Import Examples CombinedExamples.
  (* three sources requested together: the first two are combined, the third (same SRS, other code) stays alone *)
  Example ex_three_groups :
    combine_layers 1 1 pa [(true, pb); (true, pb_alias)] (qh (100, 100, 200, 200)) =
    [(combined pa, [pa; pb]); (pb_alias, [pb_alias])].
  Proof. vm_compute. reflexivity. Qed.
  Example ex_three_requests :
    render_list Tid 1 1 GIh GCh pa [(true, pb); (true, pb_alias)] (qh (100, 100, 200, 200)) =
    [Request (mkReq (100, 100, 200, 200) 100 100 s3857 png_typed [(30, 20, 40)]);
     Request (mkReq (100, 100, 200, 200) 100 100 s900913 png_typed [(30, 20, 40)])].
  Proof. vm_compute. reflexivity. Qed.
  (* all three compatible: one request *)
  Example ex_three_one :
    map (fun e => length (snd e)) (combine_layers 1 1 pa [(true, pb); (true, pa)] (qh (100, 100, 200, 200))) = [3%nat].
  Proof. vm_compute. reflexivity. Qed.
End ThreeExamples.

(* ------------------------------------------------------------------ WMS 1.3.0 upstreams: axis order and crs *)
Lemma swap_bbox_involutive b : swap_bbox (swap_bbox b) = b.
Proof. destruct b as [[[x0 y0] x1] y1]. reflexivity. Qed.

Lemma pget_premove_other k k' m : k <> k' -> pget k (premove k' m) = pget k m.
Proof.
  intros Hne. induction m as [|[k2 vs] r IH]; cbn; [reflexivity|].
  destruct (k2 =? k') eqn:E; cbn.
  - destruct (k2 =? k) eqn:E2; [lia|exact IH].
  - destruct (k2 =? k); [reflexivity|exact IH].
Qed.

Lemma pget_premove_same k m : pget k (premove k m) = None.
Proof.
  induction m as [|[k2 vs] r IH]; cbn; [reflexivity|].
  destruct (k2 =? k) eqn:E; cbn; [exact IH|]. rewrite E. exact IH.
Qed.

(* the BBOX of a request to a WMS 1.3.0 upstream, read in the axis order of its CRS (y/x for north/east CRSs), is the
   negotiated bbox; the code is sent as CRS and no SRS parameter remains *)
Lemma url_v130 ne tmpl fixed r :
  ~ In K_BBOX (map fst fixed) -> ~ In K_SRS (map fst fixed) ->
  let p := url_params_v true ne tmpl fixed r in
  pget K_BBOX p = Some [VBox (if ne (s_code (r_srs r)) then swap_bbox (r_bbox r) else r_bbox r)] /\
  pget K_CRS p = Some [VStr (s_code (r_srs r))] /\ pget K_SRS p = None.
Proof.
  intros Hb Hs. cbv zeta. unfold url_params_v.
  pose proof (url_bbox tmpl fixed r Hb) as Eb. pose proof (url_srs tmpl fixed r Hs) as Es.
  set (m := url_params tmpl fixed r) in *.
  set (m1 := if ne (s_code (r_srs r)) then pset K_BBOX [VBox (swap_bbox (r_bbox r))] m else m).
  assert (Es1 : pget K_SRS m1 = Some [VStr (s_code (r_srs r))]).
  { unfold m1. destruct (ne (s_code (r_srs r))); [|exact Es].
    rewrite pget_pset_other by (unfold K_SRS, K_BBOX; lia). exact Es. }
  assert (Eb1 : pget K_BBOX m1 = Some [VBox (if ne (s_code (r_srs r)) then swap_bbox (r_bbox r) else r_bbox r)]).
  { unfold m1. destruct (ne (s_code (r_srs r))); [apply pget_pset_same|exact Eb]. }
  rewrite Es1. repeat split.
  - rewrite pget_pset_other by (unfold K_BBOX, K_CRS; lia).
    rewrite pget_premove_other by (unfold K_BBOX, K_SRS; lia). exact Eb1.
  - apply pget_pset_same.
  - rewrite pget_pset_other by (unfold K_SRS, K_CRS; lia). apply pget_premove_same.
Qed.

Lemma url_v111 ne tmpl fixed r : url_params_v false ne tmpl fixed r = url_params tmpl fixed r.
Proof. reflexivity. Qed.
