(* C12  Model of mapproxy-seed cleanup: mapproxy/seed/cleanup.py (cleanup, has_level_location, simple_cleanup,
   cache_cleanup, tilewalker_cleanup), mapproxy/util/fs.py (cleanup_directory, remove_dir_if_empty), the
   remove_level_tiles_before methods of mbtiles.py / geopackage.py / compact.py, TileManager.is_stale of
   cache/tile.py, the path layouts of cache/path.py as far as they name level directories, and the guard of
   seed/config.py CleanupConfiguration.cleanup_tasks.

   Times are integers in ticks, q ticks per second (q > 0): every finite set of float times scales to that.
   No proofs in this file. *)
From Coq Require Import ZArith List Bool.
Import ListNotations.
From MP Require Import Base.
Open Scope Z_scope.

(* ------------------------------------------------------------------ the three "older" tests *)

(* fs.py cleanup_directory:  os.lstat(filename).st_mtime < before_timestamp *)
Definition older_dir (T t : Z) : bool := t <? T.

(* mbtiles.py remove_level_tiles_before:  last_modified < datetime(?, 'unixepoch', 'localtime');
   both sides are 'YYYY-MM-DD HH:MM:SS' strings, i.e. whole seconds (fraction dropped). *)
Definition older_sql (q T t : Z) : bool := (t / q) <? (T / q).

(* cache/tile.py is_cached:  stale = int(tile.timestamp) <= max_mtime   (int() truncates) *)
Definition stale_walk (q T t : Z) : bool := (Z.quot t q) * q <=? T.

(* ------------------------------------------------------------------ backends and layouts *)

Inductive layout := LTc | LMp | LTms | LRevTms | LQuadkey | LArcgis.

Inductive backend :=
| BFile (lay : layout)
| BMbtiles (with_ts : bool)   (* MBTilesCache(with_timestamps=...) *)
| BSqlite                     (* MBTilesLevelCache: one timestamped mbtiles file per level *)
| BGpkg                       (* GeopackageCache (with_timestamps False) *)
| BGpkgLevel                  (* GeopackageLevelCache *)
| BCompact.                   (* CompactCacheV1 / V2 *)

(* class attribute supports_timestamp as seed/config.py reads it (GeopackageLevelCache sets it to False: its
   level caches are built with with_timestamps=False). *)
Definition supports_timestamp (b : backend) : bool :=
  match b with
  | BFile _ => true | BMbtiles ts => ts | BSqlite => true
  | BGpkg => false | BGpkgLevel => false | BCompact => false
  end.

(* does load_tile_metadata report a stored time (otherwise it reports -1) *)
Definition stores_timestamp (b : backend) : bool :=
  match b with
  | BFile _ => true | BMbtiles ts => ts | BSqlite => true
  | BGpkg => false | BGpkgLevel => false | BCompact => false
  end.

(* tile.timestamp after load_tile_metadata, for a stored time t *)
Definition seen_ts (b : backend) (q t : Z) : Z :=
  match b with
  | BFile _ => t
  | _ => if stores_timestamp b then (t / q) * q else - q
  end.

(* names of the directories directly below cache_dir (or below a dimension directory) *)
Inductive dname :=
| DPad (l : Z)     (* "%02d" % l *)
| DPlain (l : Z)   (* str(l) *)
| DArc (l : Z)     (* "L%02d" % l *)
| DOther (k : Z).  (* any other name, numbered *)

(* equality of the strings: "%02d" % l = str(l) exactly when l has two digits or more *)
Definition dname_eqb (a b : dname) : bool :=
  match a, b with
  | DPad x, DPad y => x =? y
  | DPlain x, DPlain y => x =? y
  | DArc x, DArc y => x =? y
  | DOther x, DOther y => x =? y
  | DPad x, DPlain y => (x =? y) && (10 <=? x)
  | DPlain x, DPad y => (x =? y) && (10 <=? x)
  | _, _ => false
  end.

(* path.py: the top-level directory in which tile_location_* puts the tiles of level l (None: the layout has
   no directory per level) *)
Definition tile_dir (lay : layout) (l : Z) : option dname :=
  match lay with
  | LTc | LMp => Some (DPad l)
  | LTms => Some (DPlain l)          (* level_part(str(z)) *)
  | LArcgis => Some (DArc l)
  | LRevTms | LQuadkey => None
  end.

(* path.py location_funcs: the level_location function of the layout, applied to an int level
   ('tms' is paired with level_location_tms: str(level)). *)
Definition level_dir (lay : layout) (l : Z) : option dname :=
  match lay with
  | LTc | LMp => Some (DPad l)
  | LTms => Some (DPlain l)
  | LArcgis => Some (DArc l)
  | LRevTms => None        (* FileCache sets self.level_location = None *)
  | LQuadkey => None       (* no_level_location raises NotImplementedError *)
  end.

(* cleanup.py has_level_location *)
Definition has_level_location (b : backend) : bool :=
  match b with
  | BFile lay => match level_dir lay 0 with Some _ => true | None => false end
  | _ => false
  end.

(* callable(getattr(cache, 'remove_level_tiles_before', None)) *)
Definition has_remove_level (b : backend) : bool :=
  match b with BFile _ => false | _ => true end.

(* ------------------------------------------------------------------ contents *)

Inductive place :=
| PTile (dim l x y : Z)      (* a tile of the cache; dim = 0: stored without dimensions, dim > 0: stored below
                                dimension directory number dim (file cache layouts tc/mp/tms/reverse_tms) *)
| PInDir (dim : Z) (d : dname) (* not a tile: a file or empty directory inside top-level directory d *)
| PBeside (l : Z)            (* a file named "<level database of l>-<suffix>" next to that database *)
| POutside.                  (* anything else below the cache directory *)

(* e_mtime is the time of the directory entry itself (os.lstat): for a tile that is a symbolic link to a shared
   single-colour file (link_single_color_images) it is the time of the link; e_target is then the time of the file
   the link points to (None: a regular file).  No function of the model reads e_target. *)
Record entry := mkEntry { e_place : place; e_mtime : Z; e_isdir : bool; e_target : option Z }.

Definition is_tile (e : entry) : bool :=
  match e_place e with PTile _ _ _ _ => true | _ => false end.

(* top-level directory (with dimension number) an entry lives in, for directory based backends *)
Definition tile_top (b : backend) (l : Z) : option dname :=
  match b with
  | BFile lay => tile_dir lay l
  | BCompact => Some (DArc l)
  | _ => None
  end.

Definition top_dir (b : backend) (e : entry) : option (Z * dname) :=
  match e_place e with
  | PTile dim l _ _ => match tile_top b l with Some d => Some (dim, d) | None => None end
  | PInDir dim d => Some (dim, d)
  | _ => None
  end.

Definition in_top (b : backend) (dim : Z) (d : dname) (e : entry) : bool :=
  match top_dir b e with
  | Some (dim', d') => (dim' =? dim) && dname_eqb d d'
  | None => false
  end.

Definition memZ (l : Z) (ls : list Z) : bool := existsb (Z.eqb l) ls.

(* ------------------------------------------------------------------ tasks *)

Record task := mkTask {
  t_levels : list Z;
  t_T : Z;              (* remove_timestamp in ticks *)
  t_all : bool;         (* remove_all *)
  t_complete : bool;    (* complete_extent *)
  t_skip : bool         (* coverage is False *)
}.

Inductive strat := SSkip | SDir | SCache | SWalk.

(* cleanup.py cleanup(): the if/elif chain *)
Definition strategy (b : backend) (t : task) : strat :=
  if t_skip t then SSkip
  else if t_complete t then
    if has_level_location b then SDir
    else if has_remove_level b then SCache
    else SWalk
  else SWalk.

(* ------------------------------------------------------------------ directory strategy *)

(* fs.py cleanup_directory(directory, T, remove_all, remove_empty_dirs=True) on top-level directory d
   (called with the path level_location(level), i.e. without dimensions): remove_all -> rmtree; otherwise files
   with mtime < T are removed and every directory without remaining file is pruned bottom-up. *)
Definition dir_removes (b : backend) (d : dname) (T : Z) (all : bool) (e : entry) : bool :=
  in_top b 0 d e && ((negb (is_tile e) && e_isdir e) || all || older_dir T (e_mtime e)).

Definition cleanup_directory (b : backend) (d : dname) (T : Z) (all : bool) (c : list entry) : list entry :=
  filter (fun e => negb (dir_removes b d T all e)) c.

(* cleanup.py simple_cleanup: for level in task.levels *)
Definition simple_cleanup (b : backend) (t : task) (c : list entry) : list entry :=
  fold_left (fun c l =>
    match b with
    | BFile lay => match level_dir lay l with
                   | Some d => cleanup_directory b d (t_T t) (t_all t) c
                   | None => c
                   end
    | _ => c
    end) (t_levels t) c.

(* ------------------------------------------------------------------ backend strategy *)

Definition tile_level (e : entry) : option Z :=
  match e_place e with PTile _ l _ _ => Some l | _ => None end.

Definition is_level_tile (l : Z) (e : entry) : bool :=
  match tile_level e with Some l' => l' =? l | None => false end.

(* remove_level_tiles_before(level, timestamp, remove_all) per backend *)
Definition level_removes (b : backend) (q : Z) (l T : Z) (all : bool) (e : entry) : bool :=
  match b with
  | BFile _ => false
  | BMbtiles ts =>
      if all then is_level_tile l e                                   (* DELETE ... zoom_level = ? *)
      else if ts then is_level_tile l e && older_sql q T (e_mtime e)  (* ... AND last_modified < datetime(?) *)
      else false                                                      (* falls through, returns None *)
  | BSqlite =>
      if all then                                                      (* unlink level db and glob "<db>-*" *)
        is_level_tile l e || match e_place e with PBeside l' => l' =? l | _ => false end
      else is_level_tile l e && older_sql q T (e_mtime e)
  | BGpkg => if all then is_level_tile l e else false
  | BGpkgLevel => if all then is_level_tile l e else false            (* unlink level gpkg / GeopackageCache: only remove_all *)
  | BCompact => if all then in_top BCompact 0 (DArc l) e else false   (* rmtree(L%02d) / return False *)
  end.

(* cleanup.py cache_cleanup: for level in task.levels *)
Definition cache_cleanup (b : backend) (q : Z) (t : task) (c : list entry) : list entry :=
  fold_left (fun c l => filter (fun e => negb (level_removes b q l (t_T t) (t_all t) e)) c) (t_levels t) c.

(* ------------------------------------------------------------------ tile walk strategy *)

Definition coord := (Z * Z * Z)%type.   (* x, y, level *)

(* MetaGrid.main_tile with the per-level meta size msize l = min(meta_size, grid_size l) *)
Definition main_tile (msize : Z -> Z * Z) (c : coord) : coord :=
  let '(x, y, z) := c in
  let '(mx, my) := msize z in
  (x / mx * mx, y / my * my, z).

(* which stored tile does is_cached/remove_tile(Tile(coord)) without dimensions address?  File layouts build
   the path without dimension directory; the sqlite/bundle backends ignore dimensions altogether. *)
Definition dim_addressed (b : backend) (dim : Z) : bool :=
  match b with BFile _ => dim =? 0 | _ => true end.

(* TileManager.is_stale(tile) after tilewalker_cleanup set _expire_timestamp = T *)
Definition is_stale (b : backend) (q T : Z) (e : entry) : bool :=
  stale_walk q T (seen_ts b q (e_mtime e)).

(* is entry e removed while meta tile mt is processed: handle_tiles = tile_list(subtile) filtered by
   handle_all / is_stale, then TileCleanupWorker: remove_tile_coords(handle_tiles) *)
Definition handled (b : backend) (q : Z) (msize : Z -> Z * Z) (T : Z) (all : bool) (mt : coord) (e : entry) : bool :=
  match e_place e with
  | PTile dim l x y => dim_addressed b dim && Z3_eqb (main_tile msize (x, y, l)) mt
                       && (all || is_stale b q T e)
  | _ => false
  end.

Definition handle_meta (b : backend) (q : Z) (msize : Z -> Z * Z) (T : Z) (all : bool)
           (c : list entry) (mt : coord) : list entry :=
  filter (fun e => negb (handled b q msize T all mt e)) c.

(* tilewalker_cleanup: walked = the meta tiles (main tile coordinates) TileWalker._walk processes, in order *)
Definition tilewalker_cleanup (b : backend) (q : Z) (msize : Z -> Z * Z) (t : task)
           (walked : list coord) (c : list entry) : list entry :=
  fold_left (handle_meta b q msize (t_T t) (t_all t)) walked c.

(* ------------------------------------------------------------------ cleanup of one task / many tasks *)

Definition cleanup_task (b : backend) (q : Z) (msize : Z -> Z * Z) (t : task) (walked : list coord)
           (c : list entry) : list entry :=
  match strategy b t with
  | SSkip => c
  | SDir => simple_cleanup b t c
  | SCache => cache_cleanup b q t c
  | SWalk => tilewalker_cleanup b q msize t walked c
  end.

(* cleanup(tasks): for task in tasks *)
Fixpoint cleanup_tasks (b : backend) (q : Z) (msize : Z -> Z * Z) (ts : list (task * list coord))
         (c : list entry) : list entry :=
  match ts with
  | [] => c
  | (t, w) :: r => cleanup_tasks b q msize r (cleanup_task b q msize t w c)
  end.

(* ------------------------------------------------------------------ the specification *)

(* remove iff tile of a selected level, (remove_all or older), meta tile intersects the coverage *)
Definition spec_removed (older : Z -> bool) (levels : list Z) (all : bool) (cov : coord -> bool)
           (msize : Z -> Z * Z) (e : entry) : bool :=
  match e_place e with
  | PTile _ l x y => memZ l levels && (all || older (e_mtime e)) && cov (main_tile msize (x, y, l))
  | _ => false
  end.

Definition spec_remaining (older : Z -> bool) (levels : list Z) (all : bool) (cov : coord -> bool)
           (msize : Z -> Z * Z) (c : list entry) : list entry :=
  filter (fun e => negb (spec_removed older levels all cov msize e)) c.

Definition everywhere (c : coord) : bool := true.

(* the "older" test each strategy states *)
Definition older_of (s : strat) (b : backend) (q T : Z) (t : Z) : bool :=
  match s with
  | SDir => older_dir T t
  | SCache => older_sql q T t
  | SWalk => stale_walk q T (seen_ts b q t)
  | SSkip => false
  end.

(* ------------------------------------------------------------------ seed/config.py guard *)

Inductive when := WAll | WBefore (T : Z) | WDefault.   (* remove_all: true | remove_before | neither *)

(* CleanupConfiguration.__init__ + one iteration of cleanup_tasks for one cache: remove_all starts from the
   configured value for every cache.  Result: None = SeedConfigurationError, Some (remove_timestamp, remove_all). *)
Definition conf_step (init_time : Z) (w : when) (all : bool) (b : backend) : option (Z * bool) :=
  let ts := match w with WBefore T => T | _ => init_time end in
  if supports_timestamp b then Some (ts, all)
  else match w with
       | WBefore _ => None
       | _ => Some (ts, true)
       end.

Fixpoint conf_tasks (init_time : Z) (w : when) (all : bool) (bs : list backend)
  : list (option (Z * bool)) :=
  match bs with
  | [] => []
  | b :: r => match conf_step init_time w all b with
              | None => [None]                         (* the exception ends the generator *)
              | Some x => Some x :: conf_tasks init_time w all r
              end
  end.

Definition conf_all (w : when) : bool := match w with WAll => true | _ => false end.

(* ------------------------------------------------------------------ integer pyramid for the correspondence *)

Definition bbox := (Z * Z * Z * Z)%type.

Record pyramid := mkPyr {
  p_x0 : Z; p_y0 : Z;              (* lower-left corner of the grid *)
  p_spans : list Z;                (* width of one tile per level, same units *)
  p_sizes : list (Z * Z);          (* grid_sizes *)
  p_meta : Z * Z                   (* meta_size of the tile manager *)
}.

Definition p_span (p : pyramid) (l : Z) : Z := nth (Z.to_nat l) (p_spans p) 1.
Definition p_size (p : pyramid) (l : Z) : Z * Z := nth (Z.to_nat l) (p_sizes p) (1, 1).

(* MetaGrid._meta_size *)
Definition p_msize (p : pyramid) (l : Z) : Z * Z :=
  let '(nx, ny) := p_size p l in let '(mx, my) := p_meta p in (Z.min mx nx, Z.min my ny).

(* MetaGrid.unbuffered_meta_bbox of a main tile (origin 'll', buffer 0) *)
Definition meta_bbox (p : pyramid) (mt : coord) : bbox :=
  let '(x, y, l) := mt in
  let '(mx, my) := p_msize p l in
  let s := p_span p l in
  (p_x0 p + x * s, p_y0 p + y * s, p_x0 p + (x + mx) * s, p_y0 p + (y + my) * s).

(* grid.py bbox_intersects (strict) *)
Definition bbox_intersects (a b : bbox) : bool :=
  let '(ax0, ay0, ax1, ay1) := a in let '(bx0, by0, bx1, by1) := b in
  (ax0 <? bx1) && (ax1 >? bx0) && (ay0 <? by1) && (ay1 >? by0).

(* coverage = union of axis-parallel boxes (one box: BBOXCoverage, several: a polygon GeomCoverage) *)
Definition cov_of (p : pyramid) (cov : list bbox) (mt : coord) : bool :=
  existsb (fun c => bbox_intersects c (meta_bbox p mt)) cov.

Definition zseq (n : Z) : list Z := map Z.of_nat (seq 0 (Z.to_nat n)).
Definition cdivZ (a b : Z) : Z := - ((- a) / b).

(* all main tiles of level l *)
Definition all_meta (p : pyramid) (l : Z) : list coord :=
  let '(nx, ny) := p_size p l in let '(mx, my) := p_msize p l in
  flat_map (fun i => map (fun j => (i * mx, j * my, l)) (zseq (cdivZ ny my))) (zseq (cdivZ nx mx)).

Definition mem_coord (c : coord) (cs : list coord) : bool := existsb (Z3_eqb c) cs.

(* the walk visited exactly the meta tiles of the selected levels that intersect the coverage *)
Definition walk_exact_b (p : pyramid) (levels : list Z) (cov : list bbox) (walked : list coord) : bool :=
  forallb (fun mt => let '(_, _, l) := mt in
                     memZ l levels && mem_coord mt (all_meta p l) && cov_of p cov mt) walked
  && forallb (fun l => forallb (fun mt => implb (cov_of p cov mt) (mem_coord mt walked)) (all_meta p l)) levels.

(* ------------------------------------------------------------------ observations of the correspondence *)

Definition entry_eqb (a b : entry) : bool :=
  match e_place a, e_place b with
  | PTile d l x y, PTile d' l' x' y' => (d =? d') && (l =? l') && (x =? x') && (y =? y')
  | PInDir d n, PInDir d' n' => (d =? d') &&
      match n, n' with
      | DPad a, DPad b | DPlain a, DPlain b | DArc a, DArc b | DOther a, DOther b => a =? b
      | _, _ => false
      end
  | PBeside l, PBeside l' => l =? l'
  | POutside, POutside => true
  | _, _ => false
  end && (e_mtime a =? e_mtime b) && Bool.eqb (e_isdir a) (e_isdir b).

(* does top-level directory (0, tile_top b l) exist afterwards: directories exist through their entries;
   the directory and backend strategies prune what they emptied, the tile walk leaves directories behind *)
Definition level_dir_exists (b : backend) (s : strat) (before after : list entry) (l : Z) : bool :=
  match tile_top b l with
  | None => false
  | Some d => existsb (in_top b 0 d) (match s with SWalk | SSkip => before | _ => after end)
  end.

(* bundle caches create level directories while the tile walk looks tiles up: not observed there *)
Definition observe_dirs (b : backend) (s : strat) : bool :=
  match s, b with
  | SWalk, BFile _ => true
  | SWalk, _ => false
  | _, _ => true
  end.

(* one correspondence case: inputs, the walk the implementation performed, what it left behind *)
Definition corr_case :=
  (backend * pyramid * task * list bbox * list coord * list entry * list bool * list bool)%type.

Definition bools_eqb (a b : list bool) : bool := list_eqb Bool.eqb a b.

Definition check_case (q : Z) (c : corr_case) : bool :=
  let '(b, p, t, cov, walked, ents, surv, dirs) := c in
  let after := cleanup_task b q (p_msize p) t walked ents in
  bools_eqb (map (fun e => existsb (entry_eqb e) after) ents) surv
  && (if observe_dirs b (strategy b t)
      then bools_eqb (map (level_dir_exists b (strategy b t) ents after)
                          (zseq (Z.of_nat (length (p_spans p))))) dirs
      else true)
  && match strategy b t with
     | SWalk => walk_exact_b p (t_levels t) cov walked
     | _ => true
     end.

(* correspondence of the configuration guard: observed = per cache None (error) / Some (T, remove_all) *)
Definition check_conf (c : Z * when * list backend * list (option (Z * bool))) : bool :=
  let '(init, w, bs, obs) := c in
  list_eqb (opt_eqb (pair_eqb Z.eqb Bool.eqb)) (conf_tasks init w (conf_all w) bs) obs.

(* ------------------------------------------------------------------ side conditions of the theorems
   (dim_visible excludes the known finding F15, which the model reproduces) *)

(* F15: the tile is not stored below a dimension directory (backends that ignore dimensions: always true) *)
Definition dim_visible (b : backend) (e : entry) : bool :=
  match e_place e with
  | PTile dim _ _ _ => match b with BFile _ | BCompact => dim =? 0 | _ => true end
  | _ => true
  end.

(* the level containers (directory / database / bundle directory) of the selected levels *)
Definition level_container (b : backend) (l : Z) : option dname :=
  match b with
  | BFile lay => level_dir lay l
  | BCompact => Some (DArc l)
  | _ => None
  end.

Definition inside_selected (b : backend) (levels : list Z) (e : entry) : bool :=
  match e_place e with
  | PInDir dim d => (dim =? 0) && existsb (fun l => match level_container b l with
                                                    | Some d' => dname_eqb d' d
                                                    | None => false
                                                    end) levels
  | PBeside l => memZ l levels
  | _ => false
  end.

Definition coord_level (c : coord) : Z := let '(_, _, l) := c in l.

(* several tasks in one cleanup() call *)
Definition check_multi (q : Z)
           (c : backend * pyramid * list (task * list bbox * list coord) * list entry * list bool) : bool :=
  let '(b, p, ts, ents, surv) := c in
  let after := cleanup_tasks b q (p_msize p) (map (fun x => let '(t, _, w) := x in (t, w)) ts) ents in
  bools_eqb (map (fun e => existsb (entry_eqb e) after) ents) surv
  && forallb (fun x => let '(t, cov, w) := x in
                       match strategy b t with
                       | SWalk => walk_exact_b p (t_levels t) cov w
                       | _ => true
                       end) ts.

(* ------------------------------------------------------------------ levels of a task (seed/config.py) *)

(* LevelsRange.for_grid: from/to may be missing (None); 0 is a level like any other *)
Definition levels_range (from to : option Z) (nlevels : Z) : list Z :=
  let start := match from with Some a => a | None => 0 end in
  let stop := Z.min (match to with Some b => b | None => 999 end) (nlevels - 1) in
  map (fun k => start + k) (zseq (stop + 1 - start)).

Definition check_levels (c : option Z * option Z * Z * list Z) : bool :=
  let '(from, to, n, obs) := c in list_eqb Z.eqb (levels_range from to n) obs.

(* ------------------------------------------------------------------ interrupted and continued cleanup
   (directory strategy with a progress store: mapproxy-seed --cleanup --progress-file F, then --continue) *)

(* order of the names of level directories as DirectoryCleanupProgress.can_skip compares their last path
   component: two decimal numbers ("%02d" % l, str(l)) are compared as numbers, anything else as Python strings
   ("L%02d" % l: first digit, second digit, for levels 0..99).  Only names of one layout are ever compared. *)
Definition dname_key (d : dname) : Z * Z :=
  match d with
  | DPad l | DPlain l => (l, 0)
  | DArc l => (l / 10, l mod 10)
  | DOther k => (k, -1)
  end.

Definition key_ltb (a b : Z * Z) : bool :=
  (fst a <? fst b) || ((fst a =? fst b) && (snd a <? snd b)).

(* can_skip(old_dir, current_dir): True iff current sorts strictly before old *)
Definition can_skip (old : option dname) (cur : dname) : bool :=
  match old with
  | None => false
  | Some o => key_ltb (dname_key cur) (dname_key o)
  end.

(* simple_cleanup with a progress store holding `old`: levels that can be skipped are not cleaned *)
Definition simple_cleanup_from (b : backend) (t : task) (old : option dname) (c : list entry) : list entry :=
  fold_left (fun c l =>
    match b with
    | BFile lay => match level_dir lay l with
                   | Some d => if can_skip old d then c else cleanup_directory b d (t_T t) (t_all t) c
                   | None => c
                   end
    | _ => c
    end) (t_levels t) c.

(* state when the first run dies while it handles the k-th level of the task: the levels before it are done,
   the store names the k-th directory, of that directory an arbitrary part (keep = false) is already removed *)
Definition interrupted (b : backend) (t : task) (k : nat) (keep : entry -> bool) (c : list entry)
  : option dname * list entry :=
  let done := simple_cleanup b (mkTask (firstn k (t_levels t)) (t_T t) (t_all t) (t_complete t) (t_skip t)) c in
  match b, nth_error (t_levels t) k with
  | BFile lay, Some l =>
      match level_dir lay l with
      | Some d => (Some d, filter (fun e => keep e || negb (dir_removes b d (t_T t) (t_all t) e)) done)
      | None => (None, done)
      end
  | _, _ => (None, done)
  end.

Definition resumed (b : backend) (t : task) (k : nat) (keep : entry -> bool) (c : list entry) : list entry :=
  let '(old, c1) := interrupted b t k keep c in simple_cleanup_from b t old c1.

(* correspondence: first run interrupted before it cleans level number k (nothing of it removed), then continued *)
Definition check_resume (c : backend * task * nat * list entry * list bool) : bool :=
  let '(b, t, k, ents, surv) := c in
  let after := resumed b t k (fun _ => true) ents in
  bools_eqb (map (fun e => existsb (entry_eqb e) after) ents) surv.

(* seed/config.py ConfigurationBase._coverages: the named coverages of a task are loaded; if one of them is empty
   at run time (EmptyCoverageError) the coverage of the task is False and cleanup() skips the task (t_skip).
   empties: for each named coverage, is it empty *)
Definition conf_skip (empties : list bool) : bool := existsb (fun e => e) empties.

(* ------------------------------------------------------------------ remove_before given as a time delta
   seed/config.py before_timestamp_from_options: every unit of weeks/days/hours/minutes/seconds that is configured
   (missing = 0) goes into ONE timestamp_before call (all units as keyword arguments); util/times.py timestamp_before =
   mktime((datetime.now() - timedelta(weeks, days, hours, minutes, seconds)).timetuple()): the whole second of now
   minus the sum of all units.  Times in seconds here. *)
Definition delta_seconds (w d h m s : Z) : Z := (((w * 7 + d) * 24 + h) * 60 + m) * 60 + s.
Definition remove_time_of_delta (now w d h m s : Z) : Z := now - delta_seconds w d h m s.
Definition check_delta (c : Z * (Z * Z * Z * Z * Z) * Z) : bool :=
  let '(now, (w, d, h, m, s), got) := c in remove_time_of_delta now w d h m s =? got.

(* ------------------------------------------------------------------ names of the per-level database files
   (MBTilesLevelCache): which files does remove_level_tiles_before(level, remove_all=True) unlink *)
From Coq Require String Ascii Decimal DecimalString DecimalZ.
Section LevelFiles.
Import String Ascii.
Local Open Scope string_scope.

(* "%s" % level for an int level *)
Definition level_name (l : Z) : string := DecimalString.NilEmpty.string_of_int (Z.to_int l).
(* MBTilesLevelCache._get_level: os.path.join(cache_dir, '%s.mbtile' % level) *)
Definition level_file (l : Z) : string := level_name l ++ ".mbtile".
Fixpoint prefixb (p s : string) : bool :=
  match p, s with
  | EmptyString, _ => true
  | String a p', String b s' => Ascii.eqb a b && prefixb p' s'
  | _, _ => false
  end.

(* remove_level_tiles_before(remove_all): os.unlink(level file); glob "<level file>-*" *)
Definition unlinked_with_level (l : Z) (f : string) : bool :=
  String.eqb f (level_file l) || prefixb (level_file l ++ "-") f.

End LevelFiles.
