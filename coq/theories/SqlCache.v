(* C05  Operational model of the sqlite back-ends: MBTilesCache / GeopackageCache (one database) and
   MBTilesLevelCache / GeopackageLevelCache (one database per level).

   A database is the relation  (tile_column, tile_row, zoom_level) -> tile_data  with a unique index on the
   key (so INSERT OR REPLACE replaces, SELECT finds at most one row, DELETE removes it): the keyed store
   `kv` of CacheMap.v over coordinate triples (x, y, level).

   The part of these classes that is not a one-row statement is the bulk load (load_tiles): it appends the
   coordinates of all tiles to one flat list, remembers the tile object of every coordinate in a dictionary and
   queries the flat list in batches (SQLite accepts 999 host parameters).  The constants and the orders of the
   coordinates come from gen/Gen_sqlbatch.v (extracted from the source on every run).
   Every operation is given fresh Tile objects.  No proofs here. *)
From Coq Require Import ZArith NArith List Bool String Ascii Arith.
Import ListNotations.
From MP Require Import Base Gen_path Gen_sqlbatch CacheMap.
Local Open Scope Z_scope.

Definition coord := (Z * Z * Z)%type.                 (* (x, y, level) = tile.coord *)
Definition db := list (coord * bytes).
Definition db_get := @kv_get coord Z3_eqb.
Definition db_del := @kv_del coord Z3_eqb.
Definition db_put := @kv_put coord Z3_eqb.

Record bparams := mkBP {
  bp_take : Z; bp_drop : Z; bp_group : Z;
  bp_app : list Z;       (* coords.append(...) per tile: 0 = x, 1 = y, 2 = level *)
  bp_dkey : list Z;      (* tile_dict.setdefault((...), []).append(tile), the same tuple in the `not in` test *)
  bp_rkey : list Z       (* for tile in tile_dict[(row[i], ...)]; the SELECT lists tile_column, tile_row, zoom_level *)
}.

Definition mbtiles_params : bparams :=
  mkBP mbtiles_batch_take mbtiles_batch_drop mbtiles_batch_group mbtiles_coords_appended mbtiles_dict_key mbtiles_row_key.
Definition gpkg_params : bparams :=
  mkBP gpkg_batch_take gpkg_batch_drop gpkg_batch_group gpkg_coords_appended gpkg_dict_key gpkg_row_key.

Definition csel1 (c : coord) (i : Z) : Z :=
  let '(x, y, l) := c in if i =? 0 then x else if i =? 1 then y else l.
Definition sel (idx : list Z) (c : coord) : list Z := map (csel1 c) idx.

Definition zs_eqb (a b : list Z) : bool := list_eqb Z.eqb a b.

(* while coords: cur = coords[:take]; ...; coords = coords[drop:]     (None: the loop does not terminate) *)
Fixpoint batches (fuel : nat) (take drop : nat) (c : list Z) : option (list (list Z)) :=
  match c with
  | [] => Some []
  | _ :: _ =>
    match fuel with
    | O => None
    | S f => match batches f take drop (skipn drop c) with
             | Some r => Some (firstn take c :: r)
             | None => None
             end
    end
  end.

Fixpoint chunks (fuel n : nat) (l : list Z) : list (list Z) :=
  match fuel with
  | O => []
  | S f => match l with [] => [] | _ :: _ => firstn n l :: chunks f n (skipn n l) end
  end.

(* one SELECT: '(tile_column = ? AND tile_row = ? AND zoom_level = ?)' * (len(cur) // group) joined with OR, bound
   to cur.  sqlite3 raises ProgrammingError when the number of bindings differs from the number of place
   holders (None).  Every matching row is returned once. *)
Definition query (p : bparams) (d : db) (cur : list Z) : option (list (coord * bytes)) :=
  let n := Z.of_nat (List.length cur) in
  let g := n / bp_group p in
  if (n =? 3 * g) && (0 <? bp_group p) then
    let conds := chunks (List.length cur) 3 cur in
    Some (filter (fun row => existsb (zs_eqb (sel [0; 1; 2] (fst row))) conds) d)
  else None.

Fixpoint find_last {A} (f : A -> bool) (l : list A) : option A :=
  match l with
  | [] => None
  | x :: r => match find_last f r with Some y => Some y | None => if f x then Some x else None end
  end.

Fixpoint all_some_l {A} (l : list (option A)) : option (list A) :=
  match l with
  | [] => Some []
  | None :: _ => None
  | Some x :: r => match all_some_l r with Some r' => Some (x :: r') | None => None end
  end.

(* the tiles whose coordinates are appended to the flat list: the first tile of every dictionary key
     if (x, y, level) not in tile_dict: coords.append(x); coords.append(y); coords.append(level)
     tile_dict.setdefault((x, y, level), []).append(tile)                                            *)
Fixpoint firsts (p : bparams) (seen : list (list Z)) (cs : list coord) : list coord :=
  match cs with
  | [] => []
  | c :: r =>
    let k := sel (bp_dkey p) c in
    if existsb (zs_eqb k) seen then firsts p seen r else c :: firsts p (k :: seen) r
  end.

(* MBTilesCache.load_tiles / GeopackageCache.load_tiles on fresh tiles with the coordinates cs (repaired code:
   tile_dict maps a key to the list of all tile objects with that key).
   None: the call raises.  Some (return value, data of every tile). *)
Definition bulk_load (p : bparams) (d : db) (cs : list coord) : option (bool * list (option bytes)) :=
  let keys := map (sel (bp_dkey p)) cs in
  let fst_tiles := firsts p [] cs in                        (* len(tile_dict) = number of distinct keys *)
  let coords := flat_map (sel (bp_app p)) fst_tiles in
  match cs with
  | [] => Some (true, [])                                 (* if not tile_dict: return True *)
  | _ :: _ =>
    match batches (S (List.length coords)) (Z.to_nat (bp_take p)) (Z.to_nat (bp_drop p)) coords with
    | None => None
    | Some bs =>
      match all_some_l (map (query p d) bs) with
      | None => None
      | Some rss =>
        let rows := List.concat rss in
        (* for tile in tile_dict[(row[..], ..)]: KeyError when the key is not in the dictionary *)
        if forallb (fun row => existsb (zs_eqb (sel (bp_rkey p) (fst row))) keys) rows then
          (* every row writes its data into all tile objects of its key; the last row of a key stays *)
          let res := map (fun c =>
                            match find_last (fun row => zs_eqb (sel (bp_rkey p) (fst row)) (sel (bp_dkey p) c)) rows with
                            | Some row => Some (snd row)
                            | None => None
                            end) cs in
          Some (Nat.eqb (List.length rows) (List.length fst_tiles), res)
        else None
      end
    end
  end.

Definition coord_of (a : addr) : coord := (ax a, ay a, az a).

(* ------------------------------------------------------------------ one database *)
Section OneDb.
  Variable p : bparams.

  Definition sql_step (d : db) (o : op) : db * out :=
    match o with
    | Store a b => (db_put d (coord_of a) b, ODone)
    | StoreMany l => (fold_left (fun d ab => db_put d (coord_of (fst ab)) (snd ab)) l d, ODone)    (* executemany *)
    | Load a => (d, OLoad (db_get d (coord_of a)))
    | LoadMany l => (d, match bulk_load p d (map coord_of l) with
                        | Some (ok, r) => OLoadMany ok r
                        | None => OErr
                        end)
    | IsCached a => (d, OCached (is_some (db_get d (coord_of a))))     (* is_cached = load_tile *)
    | Remove a => (db_del d (coord_of a), ODone)
    end.

  Fixpoint sql_run (d : db) (ops : list op) : db * list out :=
    match ops with
    | [] => (d, [])
    | o :: r => let (d', x) := sql_step d o in let (d'', xs) := sql_run d' r in (d'', x :: xs)
    end.
End OneDb.

(* ------------------------------------------------------------------ one database per level *)
(* state: level -> database (the files <level>.mbtile / <level>.gpkg), as an association list *)
Definition ldb := list (Z * db).
Fixpoint ldb_get (s : ldb) (l : Z) : db :=
  match s with
  | [] => []
  | (l', d) :: r => if Z.eqb l' l then d else ldb_get r l
  end.
Fixpoint ldb_set (s : ldb) (l : Z) (d : db) : ldb :=
  match s with
  | [] => [(l, d)]
  | (l', d') :: r => if Z.eqb l' l then (l, d) :: r else (l', d') :: ldb_set r l d
  end.

Fixpoint znodup (l : list Z) : list Z :=
  match l with
  | [] => []
  | x :: r => x :: filter (fun y => negb (Z.eqb y x)) (znodup r)
  end.

Section LevelDb.
  Variable p : bparams.

  Definition lput (s : ldb) (a : addr) (b : bytes) : ldb := ldb_set s (az a) (db_put (ldb_get s (az a)) (coord_of a) b).

  (* load_tiles: tiles_by_level (a dict: levels in first-occurrence order), one bulk load per level on the tiles of
     that level; the result of a tile is the result of its own level's call.  The results are written into the
     shared tile objects; position of a tile inside its level list = number of earlier tiles of the same level. *)
  Definition level_results (s : ldb) (cs : list coord) : list (Z * option (bool * list (option bytes))) :=
    map (fun l => (l, bulk_load p (ldb_get s l) (filter (fun c => Z.eqb (snd c) l) cs)))
        (znodup (map (fun c : coord => snd c) cs)).

  Fixpoint lr_get (rs : list (Z * option (bool * list (option bytes)))) (l : Z) : list (option bytes) :=
    match rs with
    | [] => []
    | (l', r) :: t => if Z.eqb l' l then match r with Some (_, x) => x | None => [] end else lr_get t l
    end.

  Fixpoint scatter (rs : list (Z * option (bool * list (option bytes)))) (seen : list Z) (cs : list coord)
    : list (option bytes) :=
    match cs with
    | [] => []
    | c :: t =>
      let l := snd c in
      let k := List.length (filter (Z.eqb l) seen) in
      nth k (lr_get rs l) None :: scatter rs (l :: seen) t
    end.

  Definition level_bulk_load (s : ldb) (cs : list coord) : out :=
    let rs := level_results s cs in
    if forallb (fun r => is_some (snd r)) rs then
      OLoadMany (forallb (fun r => match snd r with Some (ok, _) => ok | None => false end) rs) (scatter rs [] cs)
    else OErr.

  Definition lsql_step (s : ldb) (o : op) : ldb * out :=
    match o with
    | Store a b => (lput s a b, ODone)
    (* groupby(level) of consecutive tiles, executemany per group: in list order *)
    | StoreMany l => (fold_left (fun s ab => lput s (fst ab) (snd ab)) l s, ODone)
    | Load a => (s, OLoad (db_get (ldb_get s (az a)) (coord_of a)))
    | LoadMany l => (s, level_bulk_load s (map coord_of l))
    | IsCached a => (s, OCached (is_some (db_get (ldb_get s (az a)) (coord_of a))))
    | Remove a => (ldb_set s (az a) (db_del (ldb_get s (az a)) (coord_of a)), ODone)
    end.

  Fixpoint lsql_run (s : ldb) (ops : list op) : ldb * list out :=
    match ops with
    | [] => (s, [])
    | o :: r => let (s', x) := lsql_step s o in let (s'', xs) := lsql_run s' r in (s'', x :: xs)
    end.
End LevelDb.
