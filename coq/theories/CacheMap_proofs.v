(* C05  Lemmas about the specification map and the generic keyed store:
   a store keyed through a function that is injective on the valid addresses refines the abstract map. *)
From Coq Require Import ZArith NArith List Bool String Ascii Arith Lia.
Import ListNotations.
From MP Require Import Base Gen_path Gen_compact CacheMap.

(* ------------------------------------------------------------------ boolean equalities reflect equality *)
Lemma list_eqb_eq {A} (e : A -> A -> bool) :
  (forall x y, e x y = true <-> x = y) -> forall a b, list_eqb e a b = true <-> a = b.
Proof.
  intros H; induction a as [|x a IH]; destruct b as [|y b]; cbn [list_eqb]; split; intros E;
    try reflexivity; try discriminate.
  - apply andb_true_iff in E. destruct E as [E1 E2]. apply H in E1. apply IH in E2. subst. reflexivity.
  - injection E as -> ->. apply andb_true_iff. split; [apply H; reflexivity | apply IH; reflexivity].
Qed.

Lemma ascii_eqb_eq : forall x y, Ascii.eqb x y = true <-> x = y.
Proof. intros. apply Ascii.eqb_eq. Qed.

Lemma text_eqb_eq : forall a b, text_eqb a b = true <-> a = b.
Proof. apply list_eqb_eq. apply ascii_eqb_eq. Qed.

Lemma path_eqb_eq : forall a b, path_eqb a b = true <-> a = b.
Proof. apply list_eqb_eq. apply text_eqb_eq. Qed.

Lemma pair_eqb_eq {A B} (ea : A -> A -> bool) (eb : B -> B -> bool) :
  (forall x y, ea x y = true <-> x = y) -> (forall x y, eb x y = true <-> x = y) ->
  forall a b, pair_eqb ea eb a b = true <-> a = b.
Proof.
  intros HA HB [a1 a2] [b1 b2]. unfold pair_eqb. cbn [fst snd]. rewrite andb_true_iff, HA, HB.
  split; [intros [-> ->]; reflexivity | intros E; injection E as -> ->; split; reflexivity].
Qed.

Lemma dims_eqb_eq : forall a b, dims_eqb a b = true <-> a = b.
Proof. apply list_eqb_eq. apply pair_eqb_eq; apply text_eqb_eq. Qed.

Lemma addr_eqb_eq : forall a b, addr_eqb a b = true <-> a = b.
Proof.
  intros [x1 y1 z1 d1] [x2 y2 z2 d2]. unfold addr_eqb. cbn [ax ay az adims].
  rewrite !andb_true_iff, !Z.eqb_eq, dims_eqb_eq.
  split; [intros [[[-> ->] ->] ->]; reflexivity | intros E; injection E as -> -> -> ->; repeat split].
Qed.

Lemma addr_eqb_refl : forall a, addr_eqb a a = true.
Proof. intros. apply addr_eqb_eq. reflexivity. Qed.

Lemma addr_eqb_sym : forall a b, addr_eqb a b = addr_eqb b a.
Proof.
  intros. destruct (addr_eqb a b) eqn:E1, (addr_eqb b a) eqn:E2; try reflexivity.
  - apply addr_eqb_eq in E1. subst. rewrite addr_eqb_refl in E2. discriminate.
  - apply addr_eqb_eq in E2. subst. rewrite addr_eqb_refl in E1. discriminate.
Qed.

Lemma Z3_eqb_eq : forall a b, Z3_eqb a b = true <-> a = b.
Proof.
  intros [[a1 a2] a3] [[b1 b2] b3]. unfold Z3_eqb. rewrite !andb_true_iff, !Z.eqb_eq.
  split; [intros [[-> ->] ->]; reflexivity | intros E; injection E as -> -> ->; repeat split].
Qed.

(* a key function with a boolean key equality is injective on V when equal keys mean equal addresses;
   this is the form every back-end provides *)
Definition key_inj_on {K} (V : addr -> Prop) (keqb : K -> K -> bool) (key : addr -> K) : Prop :=
  forall a b, V a -> V b -> keqb (key a) (key b) = addr_eqb a b.

Lemma key_inj_on_intro {K} (V : addr -> Prop) (keqb : K -> K -> bool) (key : addr -> K) :
  (forall x y, keqb x y = true <-> x = y) ->
  (forall a b, V a -> V b -> key a = key b -> a = b) ->
  key_inj_on V keqb key.
Proof.
  intros Hk Hi a b Va Vb. destruct (addr_eqb a b) eqn:E.
  - apply addr_eqb_eq in E. subst. apply Hk. reflexivity.
  - destruct (keqb (key a) (key b)) eqn:E2; [|reflexivity].
    apply Hk in E2. apply (Hi a b Va Vb) in E2. subst. rewrite addr_eqb_refl in E. discriminate.
Qed.

(* ------------------------------------------------------------------ addresses of an operation *)
Definition op_addrs (o : op) : list addr :=
  match o with
  | Store a _ | Load a | IsCached a | Remove a => [a]
  | StoreMany l => map fst l
  | LoadMany l => l
  end.

Definition op_ok (V : addr -> Prop) (o : op) : Prop := Forall V (op_addrs o).
Definition ops_ok (V : addr -> Prop) (ops : list op) : Prop := Forall (op_ok V) ops.

(* ------------------------------------------------------------------ facts about the specification *)
Lemma supd_same : forall m a v, supd m a v a = v.
Proof. intros. unfold supd. rewrite addr_eqb_refl. reflexivity. Qed.

Lemma supd_other : forall m a v b, a <> b -> supd m a v b = m b.
Proof.
  intros. unfold supd. destruct (addr_eqb b a) eqn:E; [|reflexivity].
  apply addr_eqb_eq in E. subst. contradiction.
Qed.

Lemma spec_run_app : forall ops1 ops2 m,
  spec_run m (ops1 ++ ops2) =
  (fst (spec_run (fst (spec_run m ops1)) ops2), snd (spec_run m ops1) ++ snd (spec_run (fst (spec_run m ops1)) ops2)).
Proof.
  induction ops1 as [|o r IH]; intros; cbn [app spec_run].
  - cbn [fst snd app]. destruct (spec_run m ops2). reflexivity.
  - destruct (spec_step m o) as [m' x] eqn:E. rewrite IH.
    destruct (spec_run m' r) as [m'' xs]. cbn [fst snd]. reflexivity.
Qed.

Lemma spec_run_length : forall ops m, List.length (snd (spec_run m ops)) = List.length ops.
Proof.
  induction ops as [|o r IH]; intros; cbn [spec_run]; [reflexivity|].
  destruct (spec_step m o) as [m' x]. specialize (IH m'). destruct (spec_run m' r). cbn [snd List.length] in *. lia.
Qed.

(* an operation that names other addresses only leaves the content of an address alone *)
Lemma fold_supd_other : forall (l : list (addr * bytes)) m a,
  ~ In a (map fst l) -> fold_left (fun m ab => supd m (fst ab) (Some (snd ab))) l m a = m a.
Proof.
  induction l as [|[b v] l IH]; intros m a H; cbn [fold_left]; [reflexivity|].
  cbn [map fst In] in H. rewrite IH by tauto. cbn [fst snd]. apply supd_other. tauto.
Qed.

Lemma spec_step_frame : forall m o a, ~ In a (op_addrs o) -> fst (spec_step m o) a = m a.
Proof.
  intros m o a H. destruct o; cbn [spec_step fst op_addrs In] in *; try reflexivity.
  - apply supd_other. tauto.
  - apply fold_supd_other. exact H.
  - apply supd_other. tauto.
Qed.

Definition writes (o : op) : list addr :=
  match o with
  | Store a _ | Remove a => [a]
  | StoreMany l => map fst l
  | _ => []
  end.

Lemma spec_step_frame_w : forall m o a, ~ In a (writes o) -> fst (spec_step m o) a = m a.
Proof.
  intros m o a H. destruct o; cbn [spec_step fst writes In] in *; try reflexivity.
  - apply supd_other. tauto.
  - apply fold_supd_other. exact H.
  - apply supd_other. tauto.
Qed.

Lemma spec_run_frame : forall ops m a,
  (forall o, In o ops -> ~ In a (writes o)) -> fst (spec_run m ops) a = m a.
Proof.
  induction ops as [|o r IH]; intros m a H; cbn [spec_run]; [reflexivity|].
  destruct (spec_step m o) as [m' x] eqn:E. specialize (IH m' a).
  destruct (spec_run m' r) as [m'' xs]. cbn [fst] in *.
  rewrite IH by (intros; apply H; right; assumption).
  change m' with (fst (m', x)). rewrite <- E. apply spec_step_frame_w. apply H. left. reflexivity.
Qed.

(* load returns the latest store: after `Store a b`, any operations that do not write a, a `Load a` answers b *)
Lemma spec_load_latest_store : forall pre a b mid m,
  (forall o, In o mid -> ~ In a (writes o)) ->
  snd (spec_run m (pre ++ Store a b :: mid ++ [Load a])) =
  snd (spec_run m (pre ++ Store a b :: mid)) ++ [OLoad (Some b)].
Proof.
  intros pre a b mid m H.
  replace (pre ++ Store a b :: mid ++ [Load a]) with ((pre ++ Store a b :: mid) ++ [Load a])
    by (rewrite <- app_assoc; reflexivity).
  rewrite spec_run_app. cbn [snd]. f_equal. cbn [spec_run spec_step snd]. do 2 f_equal.
  rewrite spec_run_app. cbn [fst]. cbn [spec_run spec_step].
  destruct (spec_run (supd (fst (spec_run m pre)) a (Some b)) mid) as [m2 xs] eqn:E. cbn [fst].
  change m2 with (fst (m2, xs)). rewrite <- E. rewrite spec_run_frame by exact H. apply supd_same.
Qed.

(* nothing after a remove *)
Lemma spec_nothing_after_remove : forall pre a mid m,
  (forall o, In o mid -> ~ In a (writes o)) ->
  snd (spec_run m (pre ++ Remove a :: mid ++ [Load a; IsCached a])) =
  snd (spec_run m (pre ++ Remove a :: mid)) ++ [OLoad None; OCached false].
Proof.
  intros pre a mid m H.
  replace (pre ++ Remove a :: mid ++ [Load a; IsCached a]) with ((pre ++ Remove a :: mid) ++ [Load a; IsCached a])
    by (rewrite <- app_assoc; reflexivity).
  rewrite spec_run_app. cbn [snd]. f_equal. cbn [spec_run spec_step snd].
  rewrite spec_run_app. cbn [fst]. cbn [spec_run spec_step].
  destruct (spec_run (supd (fst (spec_run m pre)) a None) mid) as [m2 xs] eqn:E. cbn [fst].
  assert (E2 : m2 a = None).
  { change m2 with (fst (m2, xs)). rewrite <- E. rewrite spec_run_frame by exact H. apply supd_same. }
  rewrite E2. reflexivity.
Qed.

(* operations on other addresses never change what an address returns *)
Lemma spec_other_addresses_unaffected : forall pre mid a m,
  (forall o, In o mid -> ~ In a (writes o)) ->
  snd (spec_run m (pre ++ mid ++ [Load a])) =
  snd (spec_run m (pre ++ mid)) ++ [OLoad (fst (spec_run m pre) a)].
Proof.
  intros pre mid a m H.
  replace (pre ++ mid ++ [Load a]) with ((pre ++ mid) ++ [Load a]) by (rewrite <- app_assoc; reflexivity).
  rewrite spec_run_app. cbn [snd]. f_equal. cbn [spec_run spec_step snd]. do 2 f_equal.
  rewrite spec_run_app. cbn [fst]. apply spec_run_frame. exact H.
Qed.

(* ------------------------------------------------------------------ the keyed store refines the map *)
Section Refine.
  Context {K : Type}.
  Variable keqb : K -> K -> bool.
  Variable key : addr -> K.
  Variable V : addr -> Prop.
  Hypothesis Hinj : key_inj_on V keqb key.

  Notation kvs := (list (K * bytes)).

  Definition img (s : kvs) : Prop := Forall (fun e => exists a, V a /\ fst e = key a) s.
  Definition rel (s : kvs) (m : smap) : Prop := forall a, V a -> kv_get keqb s (key a) = m a.

  Lemma kv_get_del : forall s a b, img s -> V a -> V b ->
    kv_get keqb (kv_del keqb s (key a)) (key b) = if addr_eqb b a then None else kv_get keqb s (key b).
  Proof.
    induction s as [|[k v] r IH]; intros a b Hi Va Vb; cbn [kv_get kv_del].
    - destruct (addr_eqb b a); reflexivity.
    - inversion Hi as [|? ? [c [Vc Hc]] Hr]; subst. cbn [fst] in Hc. subst k.
      rewrite (Hinj c a Vc Va). rewrite (Hinj c b Vc Vb).
      destruct (addr_eqb c a) eqn:Eca.
      + apply addr_eqb_eq in Eca. subst c. rewrite IH by assumption.
        rewrite (addr_eqb_sym a b). destruct (addr_eqb b a); reflexivity.
      + cbn [kv_get]. rewrite (Hinj c b Vc Vb). rewrite IH by assumption.
        destruct (addr_eqb c b) eqn:Ecb; [|reflexivity].
        apply addr_eqb_eq in Ecb. subst c. rewrite Eca. reflexivity.
  Qed.

  Lemma img_del : forall s k, img s -> img (kv_del keqb s k).
  Proof.
    induction s as [|[k' v] r IH]; intros k Hi; cbn [kv_del]; [constructor|].
    inversion Hi; subst. destruct (keqb k' k); [apply IH; assumption | constructor; [assumption | apply IH; assumption]].
  Qed.

  Lemma img_put : forall s a v, img s -> V a -> img (kv_put keqb s (key a) v).
  Proof. intros. unfold kv_put. constructor; [exists a; split; [assumption|reflexivity] | apply img_del; assumption]. Qed.

  Lemma rel_put : forall s m a v, img s -> V a -> rel s m -> rel (kv_put keqb s (key a) v) (supd m a (Some v)).
  Proof.
    intros s m a v Hi Va Hr b Vb. unfold kv_put, supd. cbn [kv_get].
    rewrite (Hinj a b Va Vb), (addr_eqb_sym a b). destruct (addr_eqb b a) eqn:E; [reflexivity|].
    rewrite kv_get_del by assumption. rewrite E. apply Hr. assumption.
  Qed.

  Lemma rel_del : forall s m a, img s -> V a -> rel s m -> rel (kv_del keqb s (key a)) (supd m a None).
  Proof.
    intros s m a Hi Va Hr b Vb. unfold supd. rewrite kv_get_del by assumption.
    destruct (addr_eqb b a); [reflexivity | apply Hr; assumption].
  Qed.

  Lemma rel_fold_put : forall (l : list (addr * bytes)) s m, Forall V (map fst l) -> img s -> rel s m ->
    img (fold_left (fun s ab => kv_put keqb s (key (fst ab)) (snd ab)) l s) /\
    rel (fold_left (fun s ab => kv_put keqb s (key (fst ab)) (snd ab)) l s)
        (fold_left (fun m ab => supd m (fst ab) (Some (snd ab))) l m).
  Proof.
    induction l as [|[a v] l IH]; intros s m Hv Hi Hr; cbn [fold_left]; [split; assumption|].
    cbn [map fst] in Hv. inversion Hv; subst. cbn [fst snd].
    apply IH; [assumption | apply img_put; assumption | apply rel_put; assumption].
  Qed.

  Lemma kv_step_refines : forall s m o, op_ok V o -> img s -> rel s m ->
    snd (kv_step keqb key s o) = snd (spec_step m o) /\
    img (fst (kv_step keqb key s o)) /\ rel (fst (kv_step keqb key s o)) (fst (spec_step m o)).
  Proof.
    intros s m o Hok Hi Hr. unfold op_ok in Hok.
    destruct o as [a b|l|a|l|a|a]; cbn [kv_step spec_step fst snd op_addrs] in *.
    - inversion Hok; subst. split; [reflexivity|]. split; [apply img_put | apply rel_put]; assumption.
    - split; [reflexivity|]. apply rel_fold_put; assumption.
    - inversion Hok; subst. rewrite (Hr a) by assumption. split; [reflexivity|]. split; assumption.
    - split; [|split; assumption]. f_equal. apply map_ext_in. intros a Ha.
      apply Hr. rewrite Forall_forall in Hok. apply Hok. exact Ha.
    - inversion Hok; subst. rewrite (Hr a) by assumption. split; [reflexivity|]. split; assumption.
    - inversion Hok; subst. split; [reflexivity|]. split; [apply img_del | apply rel_del]; assumption.
  Qed.

  Theorem kv_run_refines : forall ops s m, ops_ok V ops -> img s -> rel s m ->
    snd (kv_run keqb key s ops) = snd (spec_run m ops) /\
    img (fst (kv_run keqb key s ops)) /\ rel (fst (kv_run keqb key s ops)) (fst (spec_run m ops)).
  Proof.
    induction ops as [|o r IH]; intros s m Hok Hi Hr; cbn [kv_run spec_run].
    - cbn [fst snd]. repeat split; assumption.
    - inversion Hok as [|? ? Ho Hrest]; subst.
      destruct (kv_step_refines s m o Ho Hi Hr) as [E1 [Hi' Hr']].
      destruct (kv_step keqb key s o) as [s' x]. destruct (spec_step m o) as [m' x'].
      cbn [fst snd] in *. subst x'.
      destruct (IH s' m' Hrest Hi' Hr') as [E2 [Hi'' Hr'']].
      destruct (kv_run keqb key s' r) as [s'' xs]. destruct (spec_run m' r) as [m'' xs'].
      cbn [fst snd] in *. subst xs'. repeat split; assumption.
  Qed.

  (* from the empty store: the outputs of every valid history are those of the abstract map, and the final
     content of every valid address is what the map says *)
  Corollary kv_refines_spec : forall ops, ops_ok V ops ->
    snd (kv_run keqb key [] ops) = snd (spec_run sempty ops) /\
    (forall a, V a -> kv_get keqb (fst (kv_run keqb key [] ops)) (key a) = fst (spec_run sempty ops) a).
  Proof.
    intros ops Hok.
    destruct (kv_run_refines ops [] sempty Hok) as [E [_ Hr]].
    - constructor.
    - intros a _. reflexivity.
    - split; [exact E | exact Hr].
  Qed.
End Refine.
