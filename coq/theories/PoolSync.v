(* C15, second layer: (a) the worker/consumer handshake of mapproxy/util/async_.py at the granularity of
   result_queue.put / task_queue.task_done calls, (b) the consumers of result objects in
   mapproxy/cache/tile.py (_create_bulk_meta_tile, _create_threaded) and mapproxy/service/wms.py
   (LayerRenderer._render_raise_exceptions / _render_capture_source_errors).
   No proofs here. *)
From Coq Require Import ZArith List Bool Arith.
Import ListNotations.
From MP Require Import Pool.

(* ---- (a) worker events, in the order in which they really happened *)
Inductive wev := EPut (i : nat) | EDone (i : nat).

Fixpoint puts (tr : list wev) : list nat :=
  match tr with
  | [] => []
  | EPut i :: r => i :: puts r
  | EDone _ :: r => puts r
  end.

(* task_queue.join() in map_each returns once `need` task_done calls have happened; the results that are
   in the result queue at that moment are those put before.  Returns (those results, rest of the trace);
   None = join never returns. *)
Fixpoint visible (need : nat) (tr : list wev) : option (list nat * list wev) :=
  match need with
  | O => Some ([], tr)
  | S m =>
    match tr with
    | [] => None
    | EPut i :: r =>
      match visible need r with
      | Some (vis, rest) => Some (i :: vis, rest)
      | None => None
      end
    | EDone _ :: r => visible m r
    end
  end.

(* map_each (pool path) over a worker trace: the second drain phase sees what was put before join returned
   plus whatever is put during the next `extra` worker events (the consumer may be slow); anything put
   later is never fetched. *)
Definition map_each_ev (raise_exc : bool) (items : list val) (tr : list wev) (split extra : nat)
  : option (list val * option Z) :=
  match visible (length items) tr with
  | None => None
  | Some (vis, rest) =>
    let arr := vis ++ puts (firstn extra rest) in
    Some (map_each raise_exc (map (fun i => (i, value_of items i)) arr) split)
  end.

(* what the code promises about the trace: every task is put at most once, only existing tasks are put,
   task_done(i) happens after put(i) and at most once.  sp / sd = indices put / done so far. *)
Fixpoint wfb (n : nat) (sp sd : list nat) (tr : list wev) : bool :=
  match tr with
  | [] => true
  | EPut i :: r => negb (existsb (Nat.eqb i) sp) && Nat.ltb i n && wfb n (i :: sp) sd r
  | EDone i :: r => existsb (Nat.eqb i) sp && negb (existsb (Nat.eqb i) sd) && wfb n sp (i :: sd) r
  end.
Definition wf_trace (n : nat) (tr : list wev) : bool := wfb n [] [] tr.

Definition wev_of (c : bool * nat) : wev := if fst c then EPut (snd c) else EDone (snd c).

(* ---- (b) consumers.  A result object is `Ok v` (v < 0 encodes the result None = blank tile / no image)
   or `Exc e` (e >= 1000 encodes an exception that is not a SourceError). *)

(* _create_bulk_meta_tile: collect the tiles, re-raise the first exception met (nothing is stored then);
   result = (coordinates handed to cache.store_tiles, exception) *)
Fixpoint bulk_loop (rs : list val) (acc : list Z) : list Z * option Z :=
  match rs with
  | [] => (acc, None)
  | Ok v :: r => bulk_loop r (if Z.ltb v 0%Z then acc else acc ++ [v])
  | Exc e :: r => ([], Some e)
  end.

Definition with_pool (k : list val -> list Z * option Z) (r : list val * option Z) : list Z * option Z :=
  match r with
  | (rs, None) => k rs
  | (_, Some e) => ([], Some e)
  end.

Definition bulk_meta (pool_size : nat) (items : list val) (arrival : list nat) (split : nat) : list Z * option Z :=
  with_pool (fun rs => bulk_loop rs []) (imap pool_size true items arrival split).

(* LayerRenderer._render_raise_exceptions: images are added to the merger in input order until the first
   exception, which is re-raised; result = (images added so far, exception) *)
Fixpoint render_raise_loop (rs : list val) (acc : list Z) : list Z * option Z :=
  match rs with
  | [] => (acc, None)
  | Ok v :: r => render_raise_loop r (if Z.ltb v 0%Z then acc else acc ++ [v])
  | Exc e :: r => (acc, Some e)
  end.
Definition render_raise (pool_size : nat) (items : list val) (arrival : list nat) (split : nat) :=
  match imap pool_size true items arrival split with
  | (rs, None) => render_raise_loop rs []
  | (_, Some e) => ([], Some e)
  end.

(* LayerRenderer._render_capture_source_errors: SourceErrors are collected, any other exception is
   re-raised; afterwards: no layer rendered at all -> RequestError (encoded -1); collected errors -> one
   message image (encoded -2) on top.  State = (added images, collected errors, rendered count). *)
Fixpoint capture_loop (rs : list val) (acc errs : list Z) (rendered : nat) : list Z * list Z * nat * option Z :=
  match rs with
  | [] => (acc, errs, rendered, None)
  | Ok v :: r => capture_loop r (if Z.ltb v 0%Z then acc else acc ++ [v]) errs (S rendered)
  | Exc e :: r => if Z.ltb e 1000%Z then capture_loop r acc (errs ++ [e]) rendered
                  else (acc, errs, rendered, Some e)
  end.
Definition render_capture (pool_size : nat) (items : list val) (arrival : list nat) (split : nat)
  : list Z * list Z * option Z :=
  match imap pool_size true items arrival split with
  | (rs, None) =>
    match rs with
    | [] => ([], [], None)
    | _ =>
      let '(acc, errs, rendered, ex) := capture_loop rs [] [] 0 in
      match ex with
      | Some e => (acc, errs, Some e)
      | None =>
        match rendered with
        | O => (acc, errs, Some (-1)%Z)
        | _ => match errs with [] => (acc, errs, None) | _ => (acc ++ [(-2)%Z], errs, None) end
        end
      end
    end
  | (_, Some e) => ([], [], Some e)
  end.

(* specification side: what the property demands of a result-object consumer *)
Fixpoint first_exc (items : list val) : option Z :=
  match items with
  | [] => None
  | Exc e :: _ => Some e
  | _ :: r => first_exc r
  end.
Fixpoint nonblank (items : list val) : list Z :=
  match items with
  | [] => []
  | Ok v :: r => if Z.ltb v 0%Z then nonblank r else v :: nonblank r
  | Exc _ :: r => nonblank r
  end.

Definition zlist_eqb (a b : list Z) : bool :=
  (fix go (x y : list Z) : bool :=
     match x, y with
     | [], [] => true
     | u :: x', w :: y' => Z.eqb u w && go x' y'
     | _, _ => false
     end) a b.
Definition oz_eqb (a b : option Z) : bool :=
  match a, b with None, None => true | Some x, Some y => Z.eqb x y | _, _ => false end.

(* ---- (c) forced shutdown: _consume_queue(task_queue) while workers may still take tasks.
   The consumer alternates `queue.empty()` (pc = false) and `queue.get(block=False)` (pc = true);
   a worker step takes one queued task.  `blocking` = the get would block on an empty queue (not what the
   code does: it catches Queue.Empty). *)
Inductive dstep := DWorkerTake | DConsumer.
Inductive dres := DDone | DStuck | DRunning (q : nat) (pc : bool).

Fixpoint drain_run (blocking : bool) (q : nat) (pc : bool) (sched : list dstep) : dres :=
  match sched with
  | [] => DRunning q pc
  | DWorkerTake :: r => drain_run blocking (Nat.pred q) pc r
  | DConsumer :: r =>
    if pc then
      match q with
      | S q' => drain_run blocking q' false r
      | O => if blocking then DStuck else drain_run blocking O false r
      end
    else
      match q with
      | O => DDone
      | S _ => drain_run blocking q true r
      end
  end.

Fixpoint count_consumer (sched : list dstep) : nat :=
  match sched with
  | [] => O
  | DConsumer :: r => S (count_consumer r)
  | DWorkerTake :: r => count_consumer r
  end.

(* ---- (d) further consumers that use the pool in raise mode.

   TileCreator._query_sources (cache/tile.py): async_.imap(get_map_from_source, self.sources), pool size
   min(#sources, MAX_MAP_ASYNC_THREADS), raise mode.  The worker of source i returns (image, coverage of source i)
   or (None, None) for BlankImage; the consumer keeps the pairs that carry an image, in source order, and hands
   them to merge_images; an exception leaves the loop before merge_images is reached (nothing is merged).
   The coverage of source i is encoded by the number i. *)
Definition MAX_MAP_ASYNC_THREADS : nat := 20.

Fixpoint indexed_nonblank (i : nat) (rs : list val) : list (Z * nat) :=
  match rs with
  | [] => []
  | Ok v :: r => if Z.ltb v 0%Z then indexed_nonblank (S i) r else (v, i) :: indexed_nonblank (S i) r
  | Exc _ :: r => indexed_nonblank (S i) r
  end.

Definition query_sources (items : list val) (arrival : list nat) (split : nat) : list (Z * nat) * option Z :=
  match imap (Nat.min (length items) MAX_MAP_ASYNC_THREADS) false items arrival split with
  | (rs, None) => (indexed_nonblank 0 rs, None)
  | (_, Some e) => ([], Some e)
  end.

(* S3Cache / AzureBlobCache.load_tiles: all(pool.map(self.load_tile, tiles)); store_tiles: pool.map(...).
   map = list(imap(...)) receives every result before all() looks at the first one.  `Ok v` with v < 0 = the
   call returned False (tile not in the bucket).  Outcome: (value of all(), number of results the caller has
   received when the call returns, exception). *)
Definition truthy (v : val) : bool := match v with Ok z => negb (Z.ltb z 0%Z) | Exc _ => false end.

Definition bulk_io (pool_size : nat) (items : list val) (arrival : list nat) (split : nat) : bool * nat * option Z :=
  match as_list_api true (imap pool_size false items arrival split) with
  | (rs, None) => (forallb truthy rs, length rs, None)
  | (rs, Some e) => (false, length rs, Some e)
  end.

Definition pairs_eqb (a b : list (Z * nat)) : bool :=
  (fix go (x y : list (Z * nat)) : bool :=
     match x, y with
     | [], [] => true
     | (u, i) :: x', (w, j) :: y' => Z.eqb u w && Nat.eqb i j && go x' y'
     | _, _ => false
     end) a b.

(* what _render_capture_source_errors must report: the SourceErrors in layer order *)
Fixpoint source_errs (items : list val) : list Z :=
  match items with
  | [] => []
  | Exc e :: r => if Z.ltb e 1000%Z then e :: source_errs r else source_errs r
  | _ :: r => source_errs r
  end.
Fixpoint count_ok (items : list val) : nat :=
  match items with
  | [] => O
  | Ok _ :: r => S (count_ok r)
  | _ :: r => count_ok r
  end.

(* ---- (e) TileCreator._create_single_tiles / _create_meta_tiles -> _create_threaded (cache/tile.py):
   `for new_tiles in async_pool.imap(create_func, tiles): result.extend(new_tiles)` in raise mode with
   pool size concurrent_tile_creators (the sequential loop of the caller for one tile / one creator behaves like
   imap's own sequential branches).  Creator k returns the list of its tiles: `Ok v` stands for [v], v < 0 for [].
   An exception leaves the loop: nothing is returned. *)
Definition create_threaded (pool_size : nat) (items : list val) (arrival : list nat) (split : nat) : list Z * option Z :=
  match imap pool_size false items arrival split with
  | (rs, None) => (nonblank rs, None)
  | (_, Some e) => ([], Some e)
  end.

(* ---- (f) thread-start faults in _init_pool: `fail_at = Some k` = the (k+1)-th Thread.start() raises RuntimeError
   ("can't start new thread").  _init_pool lets it propagate; it leaves map_each before any task is queued, so
   nothing is yielded and the call ends at once.  No pool is created for a single item or pool size < 2. *)
Definition E_START : Z := 9999%Z.
Definition imap_start (pool_size : nat) (use_result_objects : bool) (items : list val) (arrival : list nat) (split : nat)
           (fail_at : option nat) : list val * option Z :=
  match items with
  | [v] => single_call use_result_objects v
  | _ =>
    if Nat.ltb pool_size 2 then imap pool_size use_result_objects items arrival split
    else match fail_at with
         | Some k => if Nat.ltb k pool_size then ([], Some E_START)
                     else imap pool_size use_result_objects items arrival split
         | None => imap pool_size use_result_objects items arrival split
         end
  end.

(* ---- (g) the blocking get of _fetch_results:
       while not self.task_queue.empty() or not self.result_queue.empty():
           task_result = self.result_queue.get()
   Queue state seen by the consumer: untaken = tasks still in task_queue; running = taken by a worker, result not
   yet put; undone = result put, task_done() not yet called; inq = results waiting in result_queue.
   `get()` returns (now or later) iff a result is in the queue or will still be put, i.e. some task is untaken
   (a live worker will take it: at least one worker was started, see (f)) or running. *)
Record qstate := { untaken : nat; running : nat; undone : nat; inq : nat }.

Definition fetch_cond (unfinished_variant : bool) (s : qstate) : bool :=
  if unfinished_variant
  then negb (Nat.eqb (untaken s + running s + undone s) 0) || negb (Nat.eqb (inq s) 0)   (* task_queue.unfinished_tasks *)
  else negb (Nat.eqb (untaken s) 0) || negb (Nat.eqb (inq s) 0).                          (* the code: not empty() *)

Definition get_can_return (s : qstate) : bool :=
  negb (Nat.eqb (inq s) 0) || negb (Nat.eqb (untaken s + running s) 0).
