(* C05  MBTilesCache configured with a ttl (`ttl: N`, time stamps on): every row carries last_modified, written as
     datetime(<time.time()>, 'unixepoch', 'localtime')
   and the SELECTs of load_tile (also is_cached) and load_tiles carry the extra condition
     datetime('now', 'localtime', '-N seconds') < last_modified.
   datetime() yields 'YYYY-MM-DD HH:MM:SS'; the comparison of these texts is the comparison of whole seconds.  The
   model keeps last_modified as seconds (Z).  'localtime' adds the offset of the time zone of the process (`off`,
   a parameter: external behaviour of the C library).  Which of the three statements carry the modifier is the
   record `sites`; `code_sites` is what the source says (compared with the source text on every run).
   Every operation comes with the clock reading (time.time(), whole seconds) at which it runs.  No proofs here. *)
From Coq Require Import ZArith List Bool.
Import ListNotations.
From MP Require Import Base CacheMap SqlCache.
Local Open Scope Z_scope.

Record sites := mkSites { st_store : bool; st_load : bool; st_bulk : bool }.
Definition code_sites : sites := mkSites true true true.
Definition sites_eqb (a b : sites) : bool :=
  Bool.eqb (st_store a) (st_store b) && Bool.eqb (st_load a) (st_load b) && Bool.eqb (st_bulk a) (st_bulk b).

Definition loc (modifier : bool) (off t : Z) : Z := if modifier then t + off else t.

Definition tdb := list (coord * (bytes * Z)).         (* key -> (tile_data, last_modified) *)

Fixpoint tdb_del (d : tdb) (c : coord) : tdb :=
  match d with
  | [] => []
  | (c', v) :: r => if Z3_eqb c' c then tdb_del r c else (c', v) :: tdb_del r c
  end.
Definition tdb_put (d : tdb) (c : coord) (b : bytes) (lm : Z) : tdb := (c, (b, lm)) :: tdb_del d c.

(* if self.ttl: stmt += " AND datetime('now', <modifier>, '-ttl seconds') < last_modified" *)
Definition fresh (modifier : bool) (off ttl now lm : Z) : bool := (ttl =? 0) || (loc modifier off now - ttl <? lm).

Definition strip (d : tdb) : db := map (fun r => (fst r, fst (snd r))) d.
(* the rows a SELECT with the ttl condition can see *)
Definition tdb_view (modifier : bool) (off ttl now : Z) (d : tdb) : db :=
  strip (filter (fun r => fresh modifier off ttl now (snd (snd r))) d).

Section Timed.
  Variable p : bparams.
  Variable s : sites.
  Variables off ttl : Z.

  Definition tsql_step (d : tdb) (now : Z) (o : op) : tdb * out :=
    match o with
    | Store a b => (tdb_put d (coord_of a) b (loc (st_store s) off now), ODone)
    | StoreMany l => (fold_left (fun d ab => tdb_put d (coord_of (fst ab)) (snd ab) (loc (st_store s) off now)) l d, ODone)
    | Load a => (d, OLoad (db_get (tdb_view (st_load s) off ttl now d) (coord_of a)))
    | LoadMany l => (d, match bulk_load p (tdb_view (st_bulk s) off ttl now d) (map coord_of l) with
                        | Some (ok, r) => OLoadMany ok r
                        | None => OErr
                        end)
    | IsCached a => (d, OCached (is_some (db_get (tdb_view (st_load s) off ttl now d) (coord_of a))))
    | Remove a => (tdb_del d (coord_of a), ODone)
    end.

  Fixpoint tsql_run (d : tdb) (ops : list (Z * op)) : tdb * list out :=
    match ops with
    | [] => (d, [])
    | (now, o) :: r => let (d', x) := tsql_step d now o in let (d'', xs) := tsql_run d' r in (d'', x :: xs)
    end.
End Timed.
