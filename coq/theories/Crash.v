(* C06  A crash while storing never exposes a corrupt or foreign tile.   Model (definitions only).

   Part 1: the directory tree as a map path -> node, the raw file-system operations a store issues,
           crash states (every prefix of the operation list plus every byte-granular tear of the next
           write: assumption A1 with B = 1 for temp files), the readers, and the operation lists of
             mapproxy/util/fs.py     write_atomic
             mapproxy/cache/file.py  FileCache._store / _store_single_color_tile (as repaired: link under a temp name, then rename) / store_tile
             mapproxy/cache/legend.py LegendCache.store, mapproxy/seed/util.py ProgressStore.write,
             bundle / index initialisation of mapproxy/cache/compact.py  (all: plain write_atomic).
   Part 2: compact bundles (mapproxy/cache/compact.py) over the write-log files of Bytes.v: readers,
           the program-order write lists of BundleV2.store_tiles / BundleV1.store_tiles, the validity
           predicate `raw_ok` for a *recorded raw write sequence* (appends, header rewrites, index writes that
           publish only complete records: "data before index"), and crash states (appends and header writes
           tear at any byte, index writes are atomic: A1 with B = infinity for in-place index updates).

   Paths are lists of code points of the path relative to the cache directory (computed by the real
   code, handed to the model as input: path construction is the subject of C05/C09).  Directories are not
   modelled (mkdir/chmod are dropped by the harness).  Symlink targets are the resolved path of the
   target; chains of symlinks are not modelled (single colour files are regular files). *)
From Coq Require Import ZArith List Bool Arith.
Import ListNotations.
From MP Require Import Base Bytes.
Local Open Scope Z_scope.

(* ------------------------------------------------------------------------------------------------ *)
(* Part 1: directory tree                                                                           *)

Definition path := list Z.
Definition path_eqb (a b : path) : bool := zlist_eqb a b.

Inductive node := NFile (d : list Z) | NLink (t : path).

Definition fs := path -> option node.
Definition fs_empty : fs := fun _ => None.
Definition upd (s : fs) (p : path) (v : option node) : fs :=
  fun q => if path_eqb q p then v else s q.

Fixpoint fs_of (l : list (path * node)) : fs :=
  match l with
  | [] => fs_empty
  | (p, n) :: r => upd (fs_of r) p (Some n)
  end.

Inductive fsop :=
| OCreate (p : path)                      (* os.open(p, O_CREAT|O_EXCL|O_WRONLY) *)
| OWrite (p : path) (off : Z) (d : list Z)  (* one raw write(2) *)
| ORename (a b : path)
| OUnlink (p : path)
| OSymlink (t p : path)                   (* os.symlink(t, p), t already resolved *)
| OLink (a b : path).                     (* os.link(a, b) *)

(* content after writing d at offset off (the stores only write at off = length) *)
Definition write_at (c : list Z) (off : Z) (d : list Z) : list Z :=
  let o := Z.to_nat off in firstn o c ++ d ++ skipn (o + length d) c.

Definition apply_op (s : fs) (o : fsop) : fs :=
  match o with
  | OCreate p => upd s p (Some (NFile []))
  | OWrite p off d =>
      match s p with
      | Some (NFile c) => upd s p (Some (NFile (write_at c off d)))
      | _ => s
      end
  | ORename a b =>
      match s a with
      | Some n => upd (upd s a None) b (Some n)
      | None => s
      end
  | OUnlink p => upd s p None
  | OSymlink t p =>
      match s p with
      | None => upd s p (Some (NLink t))
      | Some _ => s                        (* EEXIST is ignored by the caller *)
      end
  | OLink a b =>
      match s a, s b with
      | Some (NFile c), None => upd s b (Some (NFile c))
      | _, _ => s
      end
  end.

Definition apply_ops (s : fs) (ops : list fsop) : fs := fold_left apply_op ops s.

(* the torn versions of an operation: a write may stop after any strict prefix of its bytes *)
Definition tears (o : fsop) : list fsop :=
  match o with
  | OWrite p off d => map (fun k => OWrite p off (firstn k d)) (seq 0 (length d))
  | _ => []
  end.

(* every state a process death can leave behind while `ops` is being issued from state s *)
Fixpoint crash_states (s : fs) (ops : list fsop) : list fs :=
  s :: match ops with
       | [] => []
       | o :: r => map (apply_op s) (tears o) ++ crash_states (apply_op s o) r
       end.

(* the crash state after k complete operations and, optionally, the first `c` bytes of the next write *)
Definition crash_state_at (s : fs) (ops : list fsop) (k : nat) (cut : option nat) : fs :=
  let s1 := apply_ops s (firstn k ops) in
  match cut, nth_error ops k with
  | Some c, Some (OWrite p off d) => apply_op s1 (OWrite p off (firstn c d))
  | _, _ => s1
  end.

(* readers: os.path.exists(location) follows a symlink; ImageSource(location) reads the file *)
Definition resolve (s : fs) (p : path) : option (list Z) :=
  match s p with
  | Some (NFile d) => Some d
  | Some (NLink t) => match s t with Some (NFile d) => Some d | _ => None end
  | None => None
  end.

Definition read_path (s : fs) (p : path) : rres :=
  match resolve s p with Some d => RData d | None => RMissing end.

Definition exists_ (s : fs) (p : path) : bool := match resolve s p with Some _ => true | None => false end.
Definition lexists (s : fs) (p : path) : bool := match s p with Some _ => true | None => false end.
Definition is_link (s : fs) (p : path) : bool := match s p with Some (NLink _) => true | _ => false end.

(* --- temp names: filename + '.tmp-' + str(random.randint(0, 99999999)) *)
Definition tmp_tag : list Z := [46; 116; 109; 112; 45].
Definition tmp_of (p : path) (sfx : list Z) : path := p ++ tmp_tag ++ sfx.

Definition is_digit (c : Z) : bool := (48 <=? c) && (c <=? 57).
Fixpoint drop_digits (l : list Z) : list Z :=
  match l with
  | c :: r => if is_digit c then drop_digits r else l
  | [] => []
  end.
Fixpoint starts_with (pre l : list Z) : bool :=
  match pre, l with
  | [], _ => true
  | a :: pre', b :: l' => (a =? b) && starts_with pre' l'
  | _ :: _, [] => false
  end.
(* q ends with ".tmp-" followed by at least one decimal digit and nothing else *)
Definition is_tmp_name (q : path) : bool :=
  let r := rev q in
  let r' := drop_digits r in
  negb (Nat.eqb (length r') (length r)) && starts_with (rev tmp_tag) r'.
Definition digits_ok (sfx : list Z) : bool :=
  forallb is_digit sfx && negb (Nat.eqb (length sfx) 0).

(* --- mapproxy/util/fs.py write_atomic(filename, data) (POSIX branch).
   O_EXCL fails when the temp name exists: the handler unlinks path_tmp and re-raises (second component
   false: the caller does not continue). *)
Definition write_atomic_ops (s : fs) (p : path) (sfx d : list Z) : list fsop * bool :=
  let t := tmp_of p sfx in
  if lexists s t then ([OUnlink t], false)
  else ([OCreate t; OWrite t 0 d; ORename t p], true).

(* --- FileCache._store(tile, location) *)
Definition store_plain_ops (s : fs) (p : path) (sfx d : list Z) : list fsop * bool :=
  let pre := if is_link s p then [OUnlink p] else [] in
  let w := write_atomic_ops s p sfx d in
  (pre ++ fst w, snd w).

(* --- FileCache._store_single_color_tile(tile, tile_loc, color), sc = _single_color_tile_location(color).
   (repaired code) The colour file is created if missing; in hardlink mode, if tile_loc already is a hard link
   to the colour file (`same` = os.path.exists(tile_loc) and os.path.samefile(sc, tile_loc), observed on the real
   file system: inode identity is not part of this model) nothing else happens (only an lstat for the tile
   metadata, which changes nothing); otherwise - in symlink mode always - the link is created under the temp
   name tile_loc + '.tmp-N' and renamed over tile_loc.  EEXIST on the temp name: unlink it and re-raise. *)
Definition link_op (hard : bool) (sc p : path) : fsop := if hard then OLink sc p else OSymlink sc p.

Definition store_single_ops (s : fs) (p sc : path) (hard same : bool) (sfx sfx2 d : list Z) : list fsop :=
  let a := if exists_ s sc then ([], true) else store_plain_ops s sc sfx d in
  if snd a then
    if hard && same then fst a
    else
      let s1 := apply_ops s (fst a) in
      let t := tmp_of p sfx2 in
      if lexists s1 t then fst a ++ [OUnlink t]
      else fst a ++ [link_op hard sc t; ORename t p]
  else fst a.

Inductive link_mode := LNone | LSym | LHard.

Record file_req := mkReq {
  rq_loc : path;              (* tile_location(tile) *)
  rq_data : list Z;           (* tile_buffer(tile).read() *)
  rq_mode : link_mode;        (* link_single_color_images: False / True / 'hardlink' *)
  rq_color : option path;     (* Some sc when is_single_color_image() finds a colour *)
  rq_sfx : list Z;            (* decimal digits of the random temp suffix of write_atomic *)
  rq_sfx2 : list Z;           (* decimal digits of the random temp suffix of the link *)
  rq_same : bool              (* tile_loc already is (a link to) the colour file (os.path.samefile) *)
}.

(* does this request go through _store_single_color_tile? *)
Definition linked_store (r : file_req) : bool :=
  match rq_mode r, rq_color r with
  | LNone, _ => false
  | _, None => false
  | _, Some _ => true
  end.

(* --- FileCache.store_tile *)
Definition file_store_ops (s : fs) (r : file_req) : list fsop :=
  match rq_mode r, rq_color r with
  | LNone, _ => fst (store_plain_ops s (rq_loc r) (rq_sfx r) (rq_data r))
  | _, None => fst (store_plain_ops s (rq_loc r) (rq_sfx r) (rq_data r))
  | LSym, Some sc => store_single_ops s (rq_loc r) sc false (rq_same r) (rq_sfx r) (rq_sfx2 r) (rq_data r)
  | LHard, Some sc => store_single_ops s (rq_loc r) sc true (rq_same r) (rq_sfx r) (rq_sfx2 r) (rq_data r)
  end.

(* the bytes the address returns once the store has completed *)
Definition new_content (s : fs) (r : file_req) : list Z :=
  match rq_mode r, rq_color r with
  | LNone, _ => rq_data r
  | _, None => rq_data r
  | _, Some sc => match resolve s sc with Some c => c | None => rq_data r end
  end.

(* paths an operation list creates, writes, removes or replaces *)
Definition touched_op (o : fsop) : list path :=
  match o with
  | OCreate p => [p]
  | OWrite p _ _ => [p]
  | ORename a b => [a; b]
  | OUnlink p => [p]
  | OSymlink _ p => [p]
  | OLink _ b => [b]
  end.
Definition touched (ops : list fsop) : list path := flat_map touched_op ops.

Definition mem_path (p : path) (l : list path) : bool := existsb (path_eqb p) l.

(* --- mapproxy/seed/util.py ProgressStore.write: write_atomic(self.filename, pickle.dumps(self.status)); an OSError
   is logged, not raised.  ProgressStore.load: {} when the file does not exist or cannot be unpickled, otherwise the
   unpickled dictionary (pickle is external: `unpickle` is a parameter of the reader, None = the exceptions load
   catches). *)
Definition progress_write_ops (s : fs) (p : path) (sfx d : list Z) : list fsop := fst (write_atomic_ops s p sfx d).
Definition progress_load {A} (unpickle : list Z -> option A) (empty : A) (s : fs) (p : path) : A :=
  match resolve s p with
  | None => empty
  | Some d => match unpickle d with Some st => st | None => empty end
  end.

(* --- mapproxy/cache/legend.py LegendCache.store (ensure_directory and chmod dropped) / LegendCache.load *)
Definition legend_store_ops (s : fs) (p : path) (sfx d : list Z) : list fsop := fst (write_atomic_ops s p sfx d).
Definition legend_load (s : fs) (p : path) : rres := read_path s p.

(* comparison helpers for the correspondence *)
Definition fsop_eqb (a b : fsop) : bool :=
  match a, b with
  | OCreate p, OCreate q => path_eqb p q
  | OWrite p o d, OWrite q o' d' => path_eqb p q && (o =? o') && zlist_eqb d d'
  | ORename a1 b1, ORename a2 b2 => path_eqb a1 a2 && path_eqb b1 b2
  | OUnlink p, OUnlink q => path_eqb p q
  | OSymlink t p, OSymlink t' q => path_eqb t t' && path_eqb p q
  | OLink a1 b1, OLink a2 b2 => path_eqb a1 a2 && path_eqb b1 b2
  | _, _ => false
  end.
Definition is_empty_write (o : fsop) : bool :=
  match o with OWrite _ _ [] => true | _ => false end.
Definition drop_empty (ops : list fsop) : list fsop := filter (fun o => negb (is_empty_write o)) ops.

(* ------------------------------------------------------------------------------------------------ *)
(* Part 2: compact bundles                                                                          *)

Definition SLOTS : Z := 16384.
Definition P40 : Z := 1099511627776.
Definition bwrite := (Z * list Z)%type.            (* seek(off); raw write(d) *)
Definition batch := list (Z * list Z).             (* (slot, tile bytes) in store order *)

Definition has_data (b : batch) (slot : Z) (dd : list Z) : bool :=
  existsb (fun e => (fst e =? slot) && zlist_eqb (snd e) dd) b.

Definition bw_apply (f : file) (w : bwrite) : file := fwrite f (fst w) (snd w).
Definition bw_apply_all (f : file) (ops : list bwrite) : file := fold_left bw_apply ops f.

(* ---------------- version 2: one file, header 64 bytes, index 16384 x 8 at 64, records behind *)
Definition V2_REC : Z := 131136.

(* BundleV2._init_index: header + 16384 entries with offset 4, size 0 *)
Definition v2_header : list Z :=
  le 4 3 ++ le 4 16384 ++ le 4 0 ++ le 4 5 ++ le 8 0 ++ le 8 131136 ++ le 8 40 ++
  le 4 131092 ++ le 4 3 ++ le 4 16 ++ le 4 16384 ++ le 4 5 ++ le 4 131072.
Definition v2_init : file :=
  mkFile V2_REC (fun i => if i <? 64 then nth (Z.to_nat i) v2_header 0
                          else if (i - 64) mod 8 =? 0 then 4 else 0).

(* BundleV2._tile_idx_offset / _tile_offset_size / _load_tile *)
Definition v2_entry (f : file) (slot : Z) : option Z := rdnum f (64 + 8 * slot) 8.
Definition v2_read (f : file) (slot : Z) : rres :=
  match v2_entry f slot with
  | None => RError
  | Some v =>
      let size := v / P40 in
      if size =? 0 then RMissing else RData (freadz f (v mod P40) size)
  end.

(* the entry is empty or names a complete record inside the record area (the part of C19's invariant
   that crash safety needs of the state before the store) *)
Definition v2_slot_ok (f : file) (slot : Z) : bool :=
  match v2_entry f slot with
  | None => false
  | Some v => (v / P40 =? 0) || ((V2_REC <=? v mod P40) && (v mod P40 + v / P40 <=? flen f))
  end.

(* value v names a complete record of a tile of the batch for this slot, appended after length L0 *)
Definition v2_published (b : batch) (L0 : Z) (f : file) (slot v : Z) : bool :=
  let size := v / P40 in
  let off := v mod P40 in
  negb (size =? 0) && (L0 <=? off) && (off + size <=? flen f) &&
  has_data b slot (fread f off (Z.to_nat size)).

(* one recorded raw write is legal in state f: an append, a header rewrite, or one aligned index entry
   that keeps its value or publishes a complete record of the batch *)
Definition v2_step_ok (b : batch) (L0 : Z) (f : file) (w : bwrite) : bool :=
  let off := fst w in
  let n := zlen (snd w) in
  if off =? flen f then true
  else if (0 <=? off) && (off + n <=? 64) then true
  else (64 <=? off) && (off + n <=? V2_REC) && ((off - 64) mod 8 =? 0) && (n =? 8) &&
       (let slot := (off - 64) / 8 in
        let v := unle (snd w) in
        opt_eqb Z.eqb (v2_entry f slot) (Some v) || v2_published b L0 f slot v).

Fixpoint v2_raw_ok (b : batch) (L0 : Z) (f : file) (ops : list bwrite) : bool :=
  match ops with
  | [] => true
  | w :: r => v2_step_ok b L0 f w && v2_raw_ok b L0 (bw_apply f w) r
  end.

(* appends and header rewrites may tear at any byte; an index entry is written atomically *)
Definition v2_tearable (f : file) (w : bwrite) : bool :=
  (fst w =? flen f) || ((0 <=? fst w) && (fst w + zlen (snd w) <=? 64)).

Definition bw_tears (f : file) (w : bwrite) : list file :=
  map (fun k => fwrite f (fst w) (firstn k (snd w))) (seq 0 (length (snd w))).

Fixpoint v2_crash_states (f : file) (ops : list bwrite) : list file :=
  f :: match ops with
       | [] => []
       | w :: r => (if v2_tearable f w then bw_tears f w else []) ++ v2_crash_states (bw_apply f w) r
       end.

(* BundleV2._store_tile in program order: _append_tile (size, data), _update_tile_offset, _update_metadata *)
Definition v2_tile_ops (f : file) (slot : Z) (d : list Z) : list bwrite :=
  let L := flen f in
  let n := zlen d in
  let old := match rdnum f 8 4 with Some v => v | None => 0 end in
  [(L, le 4 n); (L + 4, d); (64 + 8 * slot, le 8 (L + 4 + n * P40))]
    ++ (if old <? n then [(8, le 4 n)] else [])
    ++ [(24, le 8 (L + 4 + n))].

Fixpoint v2_store_ops (f : file) (b : batch) : list bwrite :=
  match b with
  | [] => []
  | (slot, d) :: r => let o := v2_tile_ops f slot d in o ++ v2_store_ops (bw_apply_all f o) r
  end.

(* ---------------- version 1: .bundle (header 60, 65536 zero bytes, records size:4 ++ data) and
   .bundlx (header 16, 16384 x 5-byte offsets, footer 16) *)
Definition V1_REC : Z := 65596.
Definition V1_IDX_END : Z := 81936.

Record v1st := mkV1 { v1dat : file; v1idx : file }.
Inductive v1op := WD (off : Z) (d : list Z) | WI (off : Z) (d : list Z).

Definition v1_apply (s : v1st) (o : v1op) : v1st :=
  match o with
  | WD off d => mkV1 (fwrite (v1dat s) off d) (v1idx s)
  | WI off d => mkV1 (v1dat s) (fwrite (v1idx s) off d)
  end.
Definition v1_apply_all (s : v1st) (ops : list v1op) : v1st := fold_left v1_apply ops s.

(* BundleDataV1._init_bundle for bundle origin (c, r); BundleIndexV1._init_index *)
Definition v1_header (c r : Z) : list Z :=
  le 4 3 ++ le 4 16384 ++ le 4 16 ++ le 4 5 ++ le 8 0 ++ le 8 65596 ++ le 8 40 ++
  le 4 16 ++ le 4 r ++ le 4 (r + 127) ++ le 4 c ++ le 4 (c + 127).
Definition v1_dat_init (c r : Z) : file :=
  mkFile V1_REC (fun i => if i <? 60 then nth (Z.to_nat i) (v1_header c r) 0 else 0).
Definition v1_idx_header : list Z := [3;0;0;0;16;0;0;0;0;64;0;0;5;0;0;0].
Definition v1_idx_footer : list Z := [0;0;0;0;16;0;0;0;16;0;0;0;0;0;0;0].
Definition v1_idx_init : file :=
  mkFile (V1_IDX_END + 16)
         (fun i => if i <? 16 then nth (Z.to_nat i) v1_idx_header 0
                   else if i <? V1_IDX_END then nth (Z.to_nat ((i - 16) mod 5)) (le 5 (60 + 4 * ((i - 16) / 5))) 0
                   else nth (Z.to_nat (i - V1_IDX_END)) v1_idx_footer 0).

(* BundleIndexV1.tile_offset; BundleDataV1.read_tile; BundleV1.load_tiles *)
Definition v1_entry (s : v1st) (slot : Z) : option Z := rdnum (v1idx s) (16 + 5 * slot) 5.
Definition v1_read (s : v1st) (slot : Z) : rres :=
  match v1_entry s slot with
  | None => RError
  | Some e =>
      if e =? 0 then RMissing
      else match rdnum (v1dat s) e 4 with
           | None => RError
           | Some size =>
               if size =? 0 then RMissing
               else match freadz (v1dat s) (e + 4) size with
                    | [] => RMissing
                    | d => RData d
                    end
           end
  end.

Definition v1_slot_ok (s : v1st) (slot : Z) : bool :=
  match v1_entry s slot with
  | None => false
  | Some e =>
      (e =? 0) ||
      ((60 <=? e) && match rdnum (v1dat s) e 4 with
                     | None => false
                     | Some size => e + 4 + size <=? flen (v1dat s)
                     end)
  end.

Definition v1_published (b : batch) (L0 : Z) (dat : file) (slot e : Z) : bool :=
  (L0 <=? e) &&
  match rdnum dat e 4 with
  | None => false
  | Some size =>
      negb (size =? 0) && (e + 4 + size <=? flen dat) &&
      has_data b slot (fread dat (e + 4) (Z.to_nat size))
  end.

(* entry j of an index write that covers whole entries *)
Definition chunk5 (d : list Z) (j : nat) : list Z := firstn 5 (skipn (5 * j) d).

Definition v1_step_ok (b : batch) (L0 : Z) (s : v1st) (o : v1op) : bool :=
  match o with
  | WD off d =>
      (off =? flen (v1dat s)) || ((0 <=? off) && (off + zlen d <=? 60))
  | WI off d =>
      (16 <=? off) && (off + zlen d <=? V1_IDX_END) && ((off - 16) mod 5 =? 0) && (zlen d mod 5 =? 0) &&
      forallb (fun j =>
                 let slot := (off - 16) / 5 + Z.of_nat j in
                 let e := unle (chunk5 d j) in
                 opt_eqb Z.eqb (v1_entry s slot) (Some e) || v1_published b L0 (v1dat s) slot e)
              (seq 0 (length d / 5))
  end.

Fixpoint v1_raw_ok (b : batch) (L0 : Z) (s : v1st) (ops : list v1op) : bool :=
  match ops with
  | [] => true
  | o :: r => v1_step_ok b L0 s o && v1_raw_ok b L0 (v1_apply s o) r
  end.

Definition v1_tears (s : v1st) (o : v1op) : list v1st :=
  match o with
  | WD off d => map (fun k => v1_apply s (WD off (firstn k d))) (seq 0 (length d))
  | WI _ _ => []
  end.

Fixpoint v1_crash_states (s : v1st) (ops : list v1op) : list v1st :=
  s :: match ops with
       | [] => []
       | o :: r => v1_tears s o ++ v1_crash_states (v1_apply s o) r
       end.

(* BundleV1.store_tiles in program order: idx.tile_offset, bundle.append_tile (size, data, header),
   idx.update_tile_offset *)
Definition v1_tile_ops (s : v1st) (slot : Z) (d : list Z) : list v1op :=
  let dat := v1dat s in
  let L := flen dat in
  let n := zlen d in
  let prev := match v1_entry s slot with Some e => e | None => 0 end in
  let is_new := if prev =? 0 then true
                else match rdnum dat prev 4 with Some sz => sz <=? 0 | None => true end in
  let h2 := match rdnum dat 8 4 with Some v => v | None => 0 end in
  let h4 := match rdnum dat 16 8 with Some v => v | None => 0 end in
  let h5 := match rdnum dat 24 8 with Some v => v | None => 0 end in
  let hdr := fread dat 0 8 ++ le 4 (Z.max h2 n) ++ fread dat 12 4
             ++ le 8 (if is_new then h4 + 4 else h4) ++ le 8 (h5 + n + 4) ++ fread dat 32 28 in
  [WD L (le 4 n); WD (L + 4) d; WD 0 hdr; WI (16 + 5 * slot) (le 5 L)].

Fixpoint v1_store_ops (s : v1st) (b : batch) : list v1op :=
  match b with
  | [] => []
  | (slot, d) :: r => let o := v1_tile_ops s slot d in o ++ v1_store_ops (v1_apply_all s o) r
  end.

(* tear granularity B (A1): a raw write [off, off+n) can be cut at c iff off < c < off+n and B | c *)
Definition cut_allowed (B off n c : Z) : Prop := off < c < off + n /\ c mod B = 0.

(* ------------------------------------------------------------------------------------------------ *)
(* Part 3: batches that span several bundle files (CompactCacheBase.store_tiles calls store_tile for each tile
   when the tiles are not all in one bundle file; every bundle file is an independent file; bundle id = an
   integer key of the bundle file name) *)


(* ---------------- a compact cache = several independent bundle files (version 2) *)
Definition mstate := Z -> file.                       (* bundle id -> bundle file *)
Definition mop := (Z * bwrite)%type.                  (* raw write on the file of one bundle *)
Definition mupd (st : mstate) (b : Z) (f : file) : mstate := fun x => if x =? b then f else st x.
Definition m_apply (st : mstate) (o : mop) : mstate := mupd st (fst o) (bw_apply (st (fst o)) (snd o)).
Definition m_apply_all (st : mstate) (ops : list mop) : mstate := fold_left m_apply ops st.

Fixpoint m_crash_states (st : mstate) (ops : list mop) : list mstate :=
  st :: match ops with
        | [] => []
        | o :: r => (if v2_tearable (st (fst o)) (snd o)
                     then map (fun k => mupd st (fst o) (fwrite (st (fst o)) (fst (snd o)) (firstn k (snd (snd o)))))
                              (seq 0 (length (snd (snd o))))
                     else [])
                    ++ m_crash_states (m_apply st o) r
        end.

Definition m_proj (b : Z) (ops : list mop) : list bwrite := map snd (filter (fun o => fst o =? b) ops).

Definition mtile := (Z * Z * list Z)%type.            (* (bundle id, slot, tile bytes) in store order *)
Definition m_batch_of (b : Z) (tiles : list mtile) : batch :=
  map (fun t => (snd (fst t), snd t)) (filter (fun t => fst (fst t) =? b) tiles).

(* CompactCacheBase.store_tiles over several bundles: one BundleV2.store_tiles([tile]) per tile, in order *)
Fixpoint m_store_ops (st : mstate) (tiles : list mtile) : list mop :=
  match tiles with
  | [] => []
  | (b, slot, d) :: r =>
      let o := map (fun w => (b, w)) (v2_tile_ops (st b) slot d) in
      o ++ m_store_ops (m_apply_all st o) r
  end.

(* ---------------- the same for version 1 (a bundle = .bundle + .bundlx pair) *)
Definition m1state := Z -> v1st.
Definition m1op := (Z * v1op)%type.
Definition m1upd (st : m1state) (b : Z) (s : v1st) : m1state := fun x => if x =? b then s else st x.
Definition m1_apply (st : m1state) (o : m1op) : m1state := m1upd st (fst o) (v1_apply (st (fst o)) (snd o)).
Definition m1_apply_all (st : m1state) (ops : list m1op) : m1state := fold_left m1_apply ops st.

Fixpoint m1_crash_states (st : m1state) (ops : list m1op) : list m1state :=
  st :: match ops with
        | [] => []
        | o :: r => map (fun s => m1upd st (fst o) s) (v1_tears (st (fst o)) (snd o))
                    ++ m1_crash_states (m1_apply st o) r
        end.

Definition m1_proj (b : Z) (ops : list m1op) : list v1op := map snd (filter (fun o => fst o =? b) ops).

(* CompactCacheBase.store_tiles over several bundles: one BundleV1.store_tiles([tile]) per tile, in order *)
Fixpoint m1_store_ops (st : m1state) (tiles : list mtile) : list m1op :=
  match tiles with
  | [] => []
  | (b, slot, d) :: r =>
      let o := map (fun w => (b, w)) (v1_tile_ops (st b) slot d) in
      o ++ m1_store_ops (m1_apply_all st o) r
  end.

(* ---------------- CompactCacheBase.store_tiles: the routing decision in front of the two paths above.
   `tiles` = the pending tiles of the call (t.stored tiles are skipped by both paths) with the bundle file of each
   (the key of _get_bundle_fname_and_offset).  bundle_files = the set of these keys; tile_coord = the coordinate of
   the last pending tile.  More than one tile and exactly one key: ONE Bundle.store_tiles(tiles) call on the bundle of
   tile_coord, which receives ALL tiles of the call and reduces every coordinate modulo 128 (so the batch handed to
   that bundle is every (slot, data) of the call, whatever bundle the tile belongs to); otherwise one store_tile per
   tile (m_store_ops / m1_store_ops). *)
Definition c_bundle_of (t : mtile) : Z := fst (fst t).
Definition c_last_bundle (tiles : list mtile) : Z := last (map c_bundle_of tiles) 0.
Definition c_single_bundle (tiles : list mtile) : bool :=
  (1 <? Z.of_nat (length tiles)) && forallb (fun t => c_bundle_of t =? c_last_bundle tiles) tiles.
Definition c_all_slots (tiles : list mtile) : batch := map (fun t => (snd (fst t), snd t)) tiles.

Definition c_store_ops (st : mstate) (tiles : list mtile) : list mop :=
  if c_single_bundle tiles
  then let bl := c_last_bundle tiles in map (fun w => (bl, w)) (v2_store_ops (st bl) (c_all_slots tiles))
  else m_store_ops st tiles.

Definition c1_store_ops (st : m1state) (tiles : list mtile) : list m1op :=
  if c_single_bundle tiles
  then let bl := c_last_bundle tiles in map (fun w => (bl, w)) (v1_store_ops (st bl) (c_all_slots tiles))
  else m1_store_ops st tiles.


(* ------------------------------------------------------------------------------------------------ *)
(* Part 4: bundle files as files of a compact cache directory: the initialisation of a missing bundle / index file
   (write_atomic: exclusive temp name, content, rename) and the in-place phase are one operation list, so that one
   crash theorem covers a complete BundleV2.store_tiles / BundleV1.store_tiles call.  File contents are the
   write-log files of Bytes.v; BPut t g = the raw write(s) that fill the empty temp file t with content g (any
   prefix of g in a crash state). *)

(* Part 3: a compact cache directory: the bundle / index / temp files by path, the raw operations of a
   complete store_tiles call (initialisation of missing files by write_atomic, then the in-place writes
   of part 2), crash states and the readers that treat a missing file as "every tile missing". *)

Definition bdir := path -> option file.
Definition bd_upd (s : bdir) (p : path) (v : option file) : bdir :=
  fun q => if path_eqb q p then v else s q.
Definition fempty : file := mkFile 0 (fun _ => 0).
Definition ftake (g : file) (k : Z) : file := mkFile k (fat g).       (* the first k bytes of g *)

Inductive bop :=
| BCreate (t : path)              (* os.open(t, O_CREAT|O_EXCL|O_WRONLY) *)
| BPut (t : path) (g : file)      (* the raw write(s) filling the empty temp file t with content g *)
| BRename (t p : path)
| BUnlink (t : path)
| BW (p : path) (w : bwrite)      (* one in-place raw write on an existing v2 bundle file *)
| BWD (p : path) (off : Z) (d : list Z)   (* one in-place raw write on an existing v1 .bundle file *)
| BWI (p : path) (off : Z) (d : list Z).  (* one in-place raw write on an existing v1 .bundlx file *)

Definition b_apply (s : bdir) (o : bop) : bdir :=
  match o with
  | BCreate t => bd_upd s t (Some fempty)
  | BPut t g => match s t with Some _ => bd_upd s t (Some g) | None => s end
  | BRename t p => match s t with Some f => bd_upd (bd_upd s t None) p (Some f) | None => s end
  | BUnlink t => bd_upd s t None
  | BW p w => match s p with Some f => bd_upd s p (Some (bw_apply f w)) | None => s end
  | BWD p off d => match s p with Some f => bd_upd s p (Some (fwrite f off d)) | None => s end
  | BWI p off d => match s p with Some f => bd_upd s p (Some (fwrite f off d)) | None => s end
  end.
Definition b_apply_all (s : bdir) (ops : list bop) : bdir := fold_left b_apply ops s.

(* tears: a temp file may hold any prefix of its content; in-place writes tear as in v2_crash_states /
   v1_tears (index entries are written atomically) *)
Definition b_tears (s : bdir) (o : bop) : list bdir :=
  match o with
  | BPut t g => match s t with
                | Some _ => map (fun k => bd_upd s t (Some (ftake g (Z.of_nat k)))) (seq 0 (Z.to_nat (flen g)))
                | None => [] end
  | BW p w => match s p with
              | Some f => if v2_tearable f w then map (fun f' => bd_upd s p (Some f')) (bw_tears f w) else []
              | None => [] end
  | BWD p off d => match s p with
                   | Some f => map (fun k => bd_upd s p (Some (fwrite f off (firstn k d)))) (seq 0 (length d))
                   | None => [] end
  | _ => []
  end.

Fixpoint b_crash_states (s : bdir) (ops : list bop) : list bdir :=
  s :: match ops with [] => [] | o :: r => b_tears s o ++ b_crash_states (b_apply s o) r end.

Definition bd_exists (s : bdir) (p : path) : bool := match s p with Some _ => true | None => false end.

(* paths an operation creates, writes, removes or replaces *)
Definition b_touched_op (o : bop) : list path :=
  match o with
  | BCreate t => [t]
  | BPut t _ => [t]
  | BRename t p => [t; p]
  | BUnlink t => [t]
  | BW p _ => [p]
  | BWD p _ _ => [p]
  | BWI p _ _ => [p]
  end.
Definition b_touched (ops : list bop) : list path := flat_map b_touched_op ops.

(* write_atomic(p, g) once the temp name t is known to be free *)
Definition b_init_ops (t p : path) (g : file) : list bop := [BCreate t; BPut t g; BRename t p].

(* BundleV2.store_tiles on bundle file p with temp suffix sfx (write_atomic raises when the temp name
   exists: unlink it, stop) *)
Definition v2_dir_store_ops (s : bdir) (p : path) (sfx : list Z) (b : batch) : list bop :=
  match s p with
  | Some f => map (BW p) (v2_store_ops f b)
  | None => let t := tmp_of p sfx in
            if bd_exists s t then [BUnlink t]
            else [BCreate t; BPut t v2_init; BRename t p] ++ map (BW p) (v2_store_ops v2_init b)
  end.

Definition v2_dir_read (s : bdir) (p : path) (slot : Z) : rres :=
  match s p with None => RMissing | Some f => v2_read f slot end.

(* ---- version 1: two files pd (.bundle) and pi (.bundlx) *)
Definition v1_bop (pd pi : path) (o : v1op) : bop :=
  match o with WD off d => BWD pd off d | WI off d => BWI pi off d end.

(* the in-place phase: both files exist *)
Definition v1_dir_inplace_ops (s : bdir) (pd pi : path) (b : batch) : list bop :=
  match s pd, s pi with
  | Some fd, Some fi => map (v1_bop pd pi) (v1_store_ops (mkV1 fd fi) b)
  | _, _ => []
  end.

(* index().readwrite(): _init_index (write_atomic of the initial index when the file is missing), then in place *)
Definition v1_dir_idx_ops (s : bdir) (pd pi : path) (sfx2 : list Z) (b : batch) : list bop :=
  match s pi with
  | Some _ => v1_dir_inplace_ops s pd pi b
  | None => let t := tmp_of pi sfx2 in
            if bd_exists s t then [BUnlink t]
            else let i := b_init_ops t pi v1_idx_init in
                 i ++ v1_dir_inplace_ops (b_apply_all s i) pd pi b
  end.

(* BundleV1.store_tiles for the bundle with origin (c, r): data() (BundleDataV1.__init__ initialises a
   missing .bundle by write_atomic), then the index, then the in-place writes *)
Definition v1_dir_store_ops (s : bdir) (pd pi : path) (sfx1 sfx2 : list Z) (c r : Z) (b : batch) : list bop :=
  match s pd with
  | Some _ => v1_dir_idx_ops s pd pi sfx2 b
  | None => let t := tmp_of pd sfx1 in
            if bd_exists s t then [BUnlink t]
            else let i := b_init_ops t pd (v1_dat_init c r) in
                 i ++ v1_dir_idx_ops (b_apply_all s i) pd pi sfx2 b
  end.

(* BundleV1.load_tiles: a missing index file means every tile is missing; an index without its data file
   makes open() raise *)
Definition v1_dir_read (s : bdir) (pd pi : path) (slot : Z) : rres :=
  match s pi with
  | None => RMissing
  | Some fi => match s pd with None => RError | Some fd => v1_read (mkV1 fd fi) slot end
  end.

(* the bundle the in-place phase of store_tiles works on: missing files replaced by their initial content *)
Definition v1_dir_eff (s : bdir) (pd pi : path) (c r : Z) : v1st :=
  mkV1 (match s pd with Some fd => fd | None => v1_dat_init c r end)
       (match s pi with Some fi => fi | None => v1_idx_init end).
