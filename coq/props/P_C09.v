(* C09  Serving requests never touches files outside the cache and lock directories.
   Property theorems only; proofs live in theories/PathConf_proofs.v, the model in theories/PathConf.v.

   Vocabulary (all text is a list of code points, so the quantifiers range over arbitrary strings, NUL,
   separators and non-ASCII included):
     resolve cwd p        the directory-entry names (outermost first) the operating system walks for path p,
                          for a process with working directory cwd: split at '/', skip '' and '.', '..' goes up
     posix_join a ps      os.path.join(a, *ps)
     safe c               c is not empty, has no '/', is neither '.' nor '..'
     portable_safe c      safe c, and c has no '\' and no NUL
     path_component       mapproxy.cache.path._path_component (the four str.replace calls)
     dims_components      the arguments of os.path.join in mapproxy.cache.path.dimensions_part
     tile_path lower f    tile_location_<layout> (f taken from the generated Gen_path.v) for a tile (x, y, z);
                          lower = str.lower (every theorem holds for an arbitrary function in its place)       *)
From Coq Require Import ZArith List Bool String.
Import ListNotations.
From MP Require Import Gen_path Gen_pathconf PathConf PathConf_proofs.
Local Open Scope Z_scope.

(* Joining safe names below a root: the file the OS reaches is root followed by exactly these names -
   whatever the root text is (relative, absolute, with '..' of its own) and whatever the working directory. *)
Theorem safe_components_confined :
  forall (cwd : list str) (root : str) (comps : list str),
    Forall safe comps ->
    resolve cwd (posix_join root comps) = resolve cwd root ++ comps.
Proof. exact safe_join_resolves. Qed.

(* ... in particular the resolved root is a prefix of the resolved path. *)
Theorem safe_components_confined_prefix :
  forall (cwd : list str) (root : str) (comps : list str),
    Forall safe comps ->
    is_prefix (resolve cwd root) (resolve cwd (posix_join root comps)) = true.
Proof. exact safe_join_confined. Qed.

(* The sanitiser leaves no '/', no '\' and no NUL in any string whatsoever. *)
Theorem sanitiser_removes_separators :
  forall (s : str) (c : Z), In c (path_component s) -> c <> 47 /\ c <> 92 /\ c <> 0.
Proof. exact path_component_chars. Qed.

(* A dimension directory name "<key>-<value>" is a single safe name for ARBITRARY key and value text
   (it keeps its '-', so it is neither empty nor a dot segment). *)
Theorem sanitiser_makes_safe :
  forall (key value : str), portable_safe (path_component (key ++ dash :: value)).
Proof. exact dim_component_safe. Qed.

(* The sanitiser is injective: different texts never share a directory name ... *)
Theorem sanitise_injective :
  forall (a b : str), path_component a = path_component b -> a = b.
Proof. exact path_component_inj. Qed.

(* ... so two values of the same dimension get different directories (what C05 needs). *)
Theorem dimension_value_injective :
  forall (key v1 v2 : str),
    path_component (key ++ dash :: v1) = path_component (key ++ dash :: v2) -> v1 = v2.
Proof. exact dim_component_value_inj. Qed.

(* What is NOT true (kept here so that nobody reads more into the two theorems above): the directory is not
   injective in the (name, value) pair - DIM_A-B=c and DIM_A=b-c share "dim_a-b-c".  Irrelevant for confinement. *)
Theorem dimension_name_value_pair_injectivity_refuted :
  exists d1 d2 : dims, d1 <> d2 /\ dimensions_part py_lower d1 = dimensions_part py_lower d2.
Proof. exact dimension_name_value_split_ambiguous. Qed.

(* Everything dimensions_part hands to os.path.join is safe: for every dict of request dimensions
   (arbitrary keys and values, any number, any case) and any lower-casing function. *)
Theorem dimension_directories_safe :
  forall (lower : str -> str) (dm : dims), Forall portable_safe (dims_components lower dm).
Proof. exact dims_components_safe. Qed.

(* Every layout of location_funcs, arbitrary dimension keys/values, arbitrary integers (negative, huge) as tile
   coordinates: the tile file lies strictly below the cache directory and is reached through safe names only.
   ext_ok: the configured file extension is not empty and has neither '/' nor '.'. *)
Theorem tile_paths_confined :
  forall (lower : str -> str) (cwd : list str) (root : str) (dm : dims) (x y z : Z) (ext : string)
         (layout : string) (f : Z -> Z -> Z -> string -> list comp),
    ext_ok ext -> location_funcs layout = Some f ->
    exists below, Forall safe below /\ below <> [] /\
      resolve cwd (tile_path lower f root dm x y z ext) = resolve cwd root ++ below.
Proof. exact tile_paths_confined_all. Qed.

(* The default layout in full: cache root, then the dimension directories, then seven more names. *)
Theorem tile_path_tc_shape :
  forall (lower : str -> str) (cwd : list str) (root : str) (dm : dims) (x y z : Z) (ext : string),
    ext_ok ext ->
    exists cs, Forall safe cs /\ List.length cs = 7%nat /\
      resolve cwd (tile_path lower tile_location_tc root dm x y z ext)
      = resolve cwd root ++ dims_components lower dm ++ cs.
Proof. exact tile_path_tc. Qed.

(* level_location (used by cleanup and the per-level caches): root, dimension directories, "%02d" % level. *)
Theorem level_paths_confined :
  forall (lower : str -> str) (cwd : list str) (root : str) (dm : dims) (level : Z),
    resolve cwd (level_location lower root dm level)
    = resolve cwd root ++ dims_components lower dm ++ [pad 10 2 level].
Proof. exact level_location_resolves. Qed.

(* FileCache.level_location for every directory layout that has one (tc, mp, tms, arcgis): root, dimension
   directories, one safe level name. *)
Theorem file_level_paths_confined :
  forall (lower : str -> str) (cwd : list str) (layout : string) (root : str) (dm : dims) (level : Z) (p : str),
    file_level_location lower layout root dm level = Some p ->
    exists n, safe n /\ resolve cwd p = resolve cwd root ++ dims_components lower dm ++ [n].
Proof. exact file_level_location_resolves. Qed.

(* TileLocker.lock_filename: for a cache id without '/' (prefix + md5 hex digest) and arbitrary integer
   coordinates the lock file is a single safe name directly in the lock directory. *)
Theorem lock_paths_confined :
  forall (cwd : list str) (lock_dir cache_id : str) (x y z : Z),
    ~ In 47 cache_id ->
    safe (lock_name cache_id x y z) /\
    resolve cwd (lock_filename lock_dir cache_id x y z) = resolve cwd lock_dir ++ [lock_name cache_id x y z].
Proof. exact lock_paths_confined_lemma. Qed.

(* MultiMapProxy: whatever the request path, the configuration file looked up is "<first segment>.yaml",
   a single safe name directly in the configuration directory. *)
Theorem multiapp_name_single_component :
  forall (cwd : list str) (base_dir request_path : str),
    safe (pop_path request_path ++ yaml) /\
    resolve cwd (app_filename base_dir (pop_path request_path))
    = resolve cwd base_dir ++ [pop_path request_path ++ yaml].
Proof. exact multiapp_lemma. Qed.

(* Demo service: a /demo/static/ request is either refused or names a file below the template directory. *)
Theorem demo_static_confined :
  forall (cwd : list str) (template_dir request_path f : str),
    demo_static_filename template_dir request_path = Some f ->
    exists below, resolve cwd f = resolve cwd template_dir ++ below.
Proof. exact demo_static_confined_lemma. Qed.

(* util/fs.py ensure_directory (model: absolute normalised directory, single process): it only ever creates
   directories that did not exist - the directory of the file or ancestors of it - and changes the mode of
   nothing but what it created itself; a pre-existing directory (the parent of a new cache or lock directory) is
   never touched. *)
Theorem ensure_directory_touches_nothing_existing :
  forall (isdir : list str -> bool) (perm : bool) (d : list str) (o : fsop),
    In o (ensure_dir_ops isdir perm d) -> isdir (fsop_dir o) = false.
Proof. exact ensure_dir_ops_not_existing. Qed.

Theorem ensure_directory_chmods_only_created :
  forall (isdir : list str -> bool) (perm : bool) (d x : list str),
    In (Chmod x) (ensure_dir_ops isdir perm d) -> In (Mkdir x) (ensure_dir_ops isdir perm d).
Proof. exact ensure_dir_ops_chmod_created. Qed.

Theorem ensure_directory_only_ancestors :
  forall (isdir : list str -> bool) (perm : bool) (d : list str) (o : fsop),
    In o (ensure_dir_ops isdir perm d) -> exists below, d = below ++ fsop_dir o.
Proof. exact ensure_dir_ops_ancestors. Qed.

(* write_atomic: the temporary file "<target>.tmp-<number>" is a sibling of the target (same directory). *)
Theorem write_atomic_tmp_is_sibling :
  forall (cwd : list str) (dir name : str) (r : Z),
    safe name ->
    resolve cwd (join1 dir name ++ tmp_suffix r) = resolve cwd dir ++ [name ++ tmp_suffix r].
Proof. exact write_atomic_tmp_sibling. Qed.

(* Configuration-relative paths: joined onto an ABSOLUTE conf_base_dir they name the same directory whatever the
   working directory of the process is at request time ... *)
Theorem absolute_base_independent_of_cwd :
  forall (base : str) (ps : list str) (cwd1 cwd2 : list str),
    starts47 base = true -> resolve cwd1 (posix_join base ps) = resolve cwd2 (posix_join base ps).
Proof. exact absolute_base_cwd_independent. Qed.

(* ... which is false for a relative base (why load_configuration must take abspath of the directory). *)
Theorem relative_base_independent_of_cwd_refuted :
  exists (base : str) (ps : list str) (cwd1 cwd2 : list str),
    resolve cwd1 (posix_join base ps) <> resolve cwd2 (posix_join base ps).
Proof. exact relative_base_follows_cwd. Qed.

(* Legend cache (GetLegendGraphic): the file is "<digest>.<ext>" directly in the legend cache directory, for every
   digest that consists of hex digits (md5 hexdigest) - the request's SCALE only enters through the digest. *)
Theorem legend_paths_confined :
  forall (cwd : list str) (cache_dir digest : str) (ext : string),
    digest <> [] -> Forall digitish digest -> ~ In 47 (s2z ext) ->
    safe (digest ++ 46 :: s2z ext) /\
    resolve cwd (legend_location cache_dir digest ext) = resolve cwd cache_dir ++ [digest ++ 46 :: s2z ext].
Proof. exact legend_location_resolves. Qed.

(* FileCache._store_single_color_tile: the link text os.path.relpath(single colour file, directory of the tile), read
   from the directory of the tile, is exactly the single colour file - for a tile below any number of (dimension)
   directories.  (A prefix memoised for another depth does not have this property: memoised_link_prefix_escapes.) *)
Theorem single_colour_link_resolves_to_its_target :
  forall (target tile_dir : list str),
    Forall safe target ->
    fold_left step (relpath_comps target tile_dir) (rev tile_dir) = rev target.
Proof. exact relpath_resolves. Qed.

(* FileCache._single_color_tile_location: the file all single colour tiles of a cache link to is
   "<cache_dir>/single_color_tiles/<hex colour>.<ext>" - two safe components below the cache directory, for every colour
   (tuple of bytes) and whatever the layout, dimensions and coordinates of the linking tile are (they are not an input). *)
Theorem single_colour_file_confined :
  forall (cwd : list str) (cache_dir : str) (color : list Z) (ext : string),
    color <> [] -> Forall (fun v => 0 <= v < 256) color -> ~ In 47 (s2z ext) ->
    safe (flat_map hex2 color ++ 46 :: s2z ext) /\
    resolve cwd (single_color_location cache_dir color ext) =
    resolve cwd cache_dir ++ [sct_name; flat_map hex2 color ++ 46 :: s2z ext].
Proof. exact single_color_location_resolves. Qed.
