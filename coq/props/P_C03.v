(* C03  Tile grids tile the plane: exact, gap-free and consistent coordinate arithmetic.
   Property theorems only; proofs in theories/Grid_proofs.v (hand model theories/Grid.v) and
   theories/Grid_gen_proofs.v (hand model = definitions generated from mapproxy/grid.py).
   Conventions: all coordinates / resolutions are integers in units of a common quantum; wf g = non-degenerate
   bbox, positive tile size, positive resolutions; inset g l = res_at g l / 10 is the 1/10 pixel of
   get_affected_level_tiles. *)
From Coq Require Import ZArith List Bool.
Import ListNotations.
From MP Require Import Grid Grid_proofs Gen_grid_int Grid_gen_proofs.
Local Open Scope Z_scope.

(* ---------------------------------------------------------------- partition *)

(* The tile found for a point contains that point (half-open rectangles; a tile of a north-west numbered
   grid owns its top edge). *)
Theorem point_in_own_tile :
  forall g px py l, wf g -> valid_level g l = true ->
    let '(tx, ty) := tile g px py l in owns g (tile_bbox g tx ty l) px py.
Proof. exact Grid_proofs.point_in_own_tile. Qed.

(* Tiles do not overlap: a point owned by the rectangle of tile (x, y) is mapped to (x, y). *)
Theorem tile_of_owned_point :
  forall g px py x y l, wf g -> valid_level g l = true ->
    owns g (tile_bbox g x y l) px py -> tile g px py l = (x, y).
Proof. exact Grid_proofs.tile_of_owned. Qed.

(* Neighbouring tiles share edges. *)
Theorem tile_bbox_adjacent_columns :
  forall g x y l,
    let '(_, _, x1, _) := tile_bbox g x y l in
    let '(x0', _, _, _) := tile_bbox g (x + 1) y l in x1 = x0'.
Proof. exact Grid_proofs.tile_bbox_adjacent_x. Qed.

Theorem tile_bbox_adjacent_rows :
  forall g x y l,
    let '(_, y0, _, y1) := tile_bbox g x y l in
    let '(_, y0', _, y1') := tile_bbox g x (y + 1) l in
    if ul g then y0 = y1' else y1 = y0'.
Proof. exact Grid_proofs.tile_bbox_adjacent_y. Qed.

(* The valid tiles (limit_tile t = Some t) of a level own exactly the "tiled area", a rectangle anchored at the
   origin corner of the grid bbox whose far edges miss less than one pixel of that level of the bbox (they may
   also extend beyond it); the last column / row starts inside the bbox.  The uncovered strip is a consequence
   of the floor division in _calc_grids; it is stated here, not hidden. *)
Theorem grid_covers_bbox_upto_one_pixel :
  forall g l, wf g -> valid_level g l = true ->
    let '(nx, ny) := grid_size g l in
    let r := res_at g l in
    (gx1 g - gx0 g) - r < nx * (r * tw g) /\ (gy1 g - gy0 g) - r < ny * (r * th g) /\
    (nx - 1) * (r * tw g) < gx1 g - gx0 g /\ (ny - 1) * (r * th g) < gy1 g - gy0 g /\
    (forall px py, let '(tx, ty) := tile g px py l in
                   limit_tile g tx ty l = Some (tx, ty, l) <-> in_tiled_area g l px py).
Proof. exact Grid_proofs.grid_covers_bbox_upto_one_pixel. Qed.

(* ---------------------------------------------------------------- flipping *)

(* Flipping between south-west and north-west numbering is an involution ... *)
Theorem flip_involutive :
  forall g x y l,
    let '(x', y', l') := flip_tile_coord g x y l in flip_tile_coord g x' y' l' = (x, y, l).
Proof. exact Grid_proofs.flip_involutive. Qed.

(* ... that maps tiles of the grid to tiles of the grid ... *)
Theorem flip_preserves_validity :
  forall g x y l,
    limit_tile g x y l = Some (x, y, l) ->
    let '(x', y', l') := flip_tile_coord g x y l in limit_tile g x' y' l' = Some (x', y', l').
Proof. exact Grid_proofs.flip_preserves_validity. Qed.

(* ... and preserves the ground rectangle whenever the service offers it: if supports_access_with_origin g o then
   the rectangle of every tile of g equals the rectangle that the coordinate used with origin o
   (coord_for_origin: unchanged for the grid's own origin, flipped otherwise) has in the grid numbered from
   corner o (set_origin g o), up to a vertical shift d no larger than the tolerance of the compatibility test,
   |d| <= max(|y0|, |y1|) / 10^12 ... *)
Theorem flip_preserves_rectangle :
  forall g o x y l, wf g -> valid_level g l = true -> supports_access_with_origin g o = true ->
    let '(x', y', l') := coord_for_origin g o x y l in
    exists d, Z.abs d * ten12 <= ymag g /\
              tile_bbox (set_origin g o) x' y' l' = shift_y (tile_bbox g x y l) d.
Proof. exact Grid_proofs.flip_preserves_rectangle. Qed.

(* ... which is no shift at all when the coordinates are below 10^12 quanta (the tolerance is below one quantum). *)
Theorem flip_preserves_rectangle_exact :
  forall g o x y l, wf g -> valid_level g l = true -> supports_access_with_origin g o = true -> ymag g < ten12 ->
    let '(x', y', l') := coord_for_origin g o x y l in
    tile_bbox (set_origin g o) x' y' l' = tile_bbox g x y l.
Proof. exact Grid_proofs.flip_preserves_rectangle_exact. Qed.

(* Without the test the rectangle moves by the misalignment of the level (for every grid, aligned or not). *)
Theorem flip_rectangle_shift :
  forall g x y l,
    let '(x', y', l') := flip_tile_coord g x y l in
    tile_bbox (set_origin g (negb (ul g))) x' y' l' =
    shift_y (tile_bbox g x y l) (if ul g then - misalign g l else misalign g l).
Proof. exact Grid_proofs.flip_rectangle_shift. Qed.

(* ---------------------------------------------------------------- tiles reported for a rectangle *)

(* Cover: every point of the query rectangle that lies at least 1/10 pixel inside it has its tile in the list:
   as limit_tile of that tile, i.e. as `Some t` whenever the point lies in the tiled area of the grid (see
   grid_covers_bbox_upto_one_pixel), and the call does not fail. *)
Theorem affected_tiles_cover :
  forall g b l px py, wf g -> valid_level g l = true ->
    let '(bx0, by0, bx1, by1) := b in
    bx0 + inset g l <= px <= bx1 - inset g l -> by0 + inset g l <= py <= by1 - inset g l ->
    exists ab n m ts, affected_level_tiles g b l = Affected ab n m ts /\
      let '(tx, ty) := tile g px py l in In (limit_tile g tx ty l) ts.
Proof. exact Grid_proofs.affected_tiles_cover. Qed.

(* No tile merely touches the rectangle: every listed tile overlaps it by at least 1/10 pixel in both axes
   (for rectangles at least 1/10 pixel wide and high) ... *)
Theorem affected_tiles_no_touch :
  forall g b l ab n m ts x y l', wf g -> valid_level g l = true ->
    affected_level_tiles g b l = Affected ab n m ts -> In (Some (x, y, l')) ts ->
    let '(bx0, by0, bx1, by1) := b in
    inset g l <= bx1 - bx0 -> inset g l <= by1 - by0 ->
    let '(x0, y0, x1, y1) := tile_bbox g x y l in
    inset g l <= Z.min x1 bx1 - Z.max x0 bx0 /\ inset g l <= Z.min y1 by1 - Z.max y0 by0.
Proof. exact Grid_proofs.affected_tiles_no_touch. Qed.

(* ... in general: its rectangle reaches at least 1/10 pixel into the query rectangle from each side. *)
Theorem affected_tiles_reach_inside :
  forall g b l ab n m ts x y l', wf g -> valid_level g l = true ->
    affected_level_tiles g b l = Affected ab n m ts -> In (Some (x, y, l')) ts ->
    let '(bx0, by0, bx1, by1) := b in
    let '(x0, y0, x1, y1) := tile_bbox g x y l in
    l' = l /\ x0 <= bx1 - inset g l /\ bx0 + inset g l <= x1 /\ y0 <= by1 - inset g l /\ by0 + inset g l <= y1.
Proof. exact Grid_proofs.affected_tiles_reach_inside. Qed.

(* Row by row from the top, for both origins: the list has m rows of n entries; entry j*n + i is limit_tile of
   column (west column + i) in row aff_row j, where row 0 is the row containing the top edge of the inset
   rectangle and row j+1 lies directly below row j (its index is +1 for north-west, -1 for south-west grids). *)
Theorem affected_tiles_row_major_from_top :
  forall g b l ab n m ts, valid_level g l = true ->
    affected_level_tiles g b l = Affected ab n m ts ->
    let '(bx0, by0, bx1, by1) := b in
    let '(cx0, cy0) := tile g (bx0 + inset g l) (by0 + inset g l) l in
    let '(cx1, cy1) := tile g (bx1 - inset g l) (by1 - inset g l) l in
    n = cx1 - cx0 + 1 /\ m = (if ul g then cy0 - cy1 else cy1 - cy0) + 1 /\ 1 <= n /\ 1 <= m /\
    length ts = (Z.to_nat m * Z.to_nat n)%nat /\
    (forall i j, (i < Z.to_nat n)%nat -> (j < Z.to_nat m)%nat ->
       nth (j * Z.to_nat n + i) ts None = limit_tile g (cx0 + Z.of_nat i) (aff_row g b l j) l) /\
    aff_row g b l 0 = cy1 /\
    (forall x j, let '(_, _, _, y1) := tile_bbox g x (aff_row g b l j) l in
                 let '(_, y0', _, y1') := tile_bbox g x (aff_row g b l (S j)) l in
                 y1' = y1 - res_at g l * th g /\ y0' = y1' - res_at g l * th g).
Proof. exact Grid_proofs.affected_tiles_row_major_from_top. Qed.

(* An entry is `Some t` exactly for the tiles of the grid: every entry is limit_tile of a block position and
   every `Some t` satisfies limit_tile t = Some t. *)
Theorem affected_tiles_valid :
  forall g b l ab n m ts, valid_level g l = true ->
    affected_level_tiles g b l = Affected ab n m ts ->
    (forall e, In e ts -> exists x y, In x (aff_cols g b l) /\ In y (aff_rows g b l) /\ e = limit_tile g x y l) /\
    (forall t, In (Some t) ts -> let '(x, y, l') := t in limit_tile g x y l' = Some t).
Proof. exact Grid_proofs.affected_tiles_valid. Qed.

(* The reported bbox is the rectangle of the listed block: from the lower left corner of the tile containing the
   lower left inset corner to the upper right corner of the tile containing the upper right inset corner. *)
Theorem affected_bbox_is_block :
  forall g b l ab n m ts, wf g -> valid_level g l = true ->
    affected_level_tiles g b l = Affected ab n m ts ->
    let '(bx0, by0, bx1, by1) := b in
    let '(cx0, cy0) := tile g (bx0 + inset g l) (by0 + inset g l) l in
    let '(cx1, cy1) := tile g (bx1 - inset g l) (by1 - inset g l) l in
    let '(x0, y0, _, _) := tile_bbox g cx0 cy0 l in
    let '(_, _, x1, y1) := tile_bbox g cx1 cy1 l in
    cx0 <= cx1 /\ (if ul g then cy1 <= cy0 else cy0 <= cy1) /\ ab = (x0, y0, x1, y1).
Proof. exact Grid_proofs.affected_bbox_is_block. Qed.

(* The call is refused (GridError 'Invalid BBOX') exactly when the tiles of the two inset corners are in the wrong
   order (possible only for rectangles thinner than 2/10 pixel, see affected_tiles_cover). *)
Theorem affected_invalid_iff :
  forall g b l,
    let '(bx0, by0, bx1, by1) := b in
    let '(cx0, cy0) := tile g (bx0 + inset g l) (by0 + inset g l) l in
    let '(cx1, cy1) := tile g (bx1 - inset g l) (by1 - inset g l) l in
    affected_level_tiles g b l = InvalidBBOX <-> (cx1 < cx0 \/ if ul g then cy0 < cy1 else cy1 < cy0).
Proof. exact Grid_proofs.affected_invalid_iff. Qed.

(* ---------------------------------------------------------------- meta tiles reported for a rectangle *)

(* MetaGrid.get_affected_level_tiles (seeding / cleanup walker), meta size msx x msy (clipped to the grid size of the
   level).  Cover, independently per axis: the effective range of an axis is the 1/10 pixel inset of the rectangle, or
   its centre when the rectangle is thinner than 2/10 pixel in that axis (in_thin_range).  A point within the effective
   ranges of both axes has the meta tile containing its tile in the list: the call succeeds and the anchor
   (tx / mx * mx, ty / my * my) of that meta tile is a listed entry (limit_tile of the anchor). *)
Theorem meta_affected_cover :
  forall g msx msy b l px py,
    wf g -> valid_level g l = true -> 1 <= msx -> 1 <= msy ->
    let '(bx0, by0, bx1, by1) := b in
    in_thin_range bx0 bx1 (inset g l) px -> in_thin_range by0 by1 (inset g l) py ->
    exists ab n m ts, meta_affected_level_tiles g msx msy b l = Affected ab n m ts /\
      let '(tx, ty) := tile g px py l in
      let '(mx, my) := meta_size_at g msx msy l in
      exists ax ay, ax <= tx < ax + mx /\ ay <= ty < ay + my /\ ax = tx / mx * mx /\ ay = ty / my * my /\
                    In (limit_tile g ax ay l) ts.
Proof. exact Grid_proofs.meta_affected_cover. Qed.

(* ---------------------------------------------------------------- level choice *)

(* For a requested resolution res = rn/rd and stretch factor sf_n/sf_d >= 1 on a strictly decreasing resolution
   list: if some level has res <= r_l <= res * stretch the result is the finest such level; otherwise the
   coarsest level with r_l < res; otherwise the last level.
   level_within g rn rd l := rn <= r_l * rd /\ r_l * rd * sf_d <= rn * sf_n;  level_finer g rn rd l := r_l * rd < rn. *)
Theorem closest_level_spec :
  forall g rn rd,
    decreasing_res g -> 0 < levels g -> 0 < rd -> 0 < rn -> 0 < sf_d g <= sf_n g ->
    let k := closest_level g rn rd in
    0 <= k < levels g /\
    ((level_within g rn rd k /\ forall j, k < j < levels g -> ~ level_within g rn rd j)
     \/ ((forall j, 0 <= j < levels g -> ~ level_within g rn rd j) /\
         level_finer g rn rd k /\ forall j, 0 <= j < k -> ~ level_finer g rn rd j)
     \/ ((forall j, 0 <= j < levels g -> ~ level_within g rn rd j /\ ~ level_finer g rn rd j) /\ k = levels g - 1)).
Proof. exact Grid_proofs.closest_level_spec. Qed.

(* The specification determines the level: closest_level is the only function satisfying it. *)
Theorem closest_level_spec_unique :
  forall g rn rd k k',
    closest_level_spec_of g rn rd k -> closest_level_spec_of g rn rd k' -> k = k'.
Proof. exact Grid_proofs.closest_level_spec_unique. Qed.

(* closest_level with threshold_res (ths = self.threshold_res, sorted ascending): without thresholds it is
   closest_level (closest_level_spec above) ... *)
Theorem closest_level_thr_nil :
  forall g rn rd, closest_level_thr g [] rn rd = closest_level g rn rd.
Proof. exact Grid_proofs.closest_level_thr_nil. Qed.

(* ... and a single threshold t between two levels, r_(k-1) > t >= r_k, switches exactly there: a request between the
   two levels, r_k <= res < r_(k-1), gets level k-1 when res > t and level k otherwise, whatever the stretch factor.
   (closest_level_thr_switch_partial: one threshold only; several thresholds, thresholds above the first level and
   requests outside the two neighbouring levels are covered by the correspondence stream only.) *)
Theorem closest_level_thr_switch_partial :
  forall g t k rn rd,
    1 <= k < levels g ->
    (forall j, 0 <= j < k -> rn < res_at g j * rd /\ t < res_at g j) ->
    0 < res_at g k <= t -> res_at g k * rd <= rn ->
    closest_level_thr g [t] rn rd = if t * rd <? rn then k - 1 else k.
Proof. exact Grid_proofs.closest_level_thr_switch. Qed.

(* Any number of thresholds.  thr_pass computes the state the threshold list is in after levels 0 .. k-1 (a threshold that
   is hit, prev > t >= r_j, is consumed, one per level; thresholds above the first level were skipped by thr_init).  If
   the current threshold t of that state lies between levels k-1 and k, a request r_k <= res that is finer than all
   levels before k gets level k-1 when res > t and level k otherwise, whatever the stretch factor. *)
Theorem closest_level_thr_general :
  forall g ths rn rd k,
    0 < rd -> 0 <= k < levels g ->
    (forall j, 0 <= j < k -> rn < res_at g j * rd) -> res_at g k * rd <= rn ->
    let '(th0, ths0) := thr_init (res_at g 0) (rev ths) in
    let '(th, _, prev) := thr_pass (ress g) (res_at g 0) th0 ths0 (Z.to_nat k) in
    forall t, th = Some t -> thr_hit (Some t) prev (res_at g k) = true ->
    closest_level_thr g ths rn rd = if t * rd <? rn then k - 1 else k.
Proof. exact Grid_proofs.closest_level_thr_general. Qed.

(* Closed form when every threshold lies in its own gap between two levels (gaps_ok: the descending threshold list meets
   the gaps in level order; thr_gap g k t := 1 <= k < levels /\ r_k <= t < r_(k-1)): a threshold t between levels k-1 and
   k decides every request between these two levels: r_k <= res < r_(k-1) gets level k-1 when res > t and level k
   otherwise, whatever the stretch factor and the other thresholds. *)
Theorem closest_level_thr_one_per_gap :
  forall g ths t k rn rd,
    decreasing_res g -> (forall j, 0 <= j < levels g -> 0 < res_at g j) -> 0 < rd ->
    gaps_ok g 1 (rev ths) -> In t ths -> thr_gap g k t ->
    res_at g k * rd <= rn < res_at g (k - 1) * rd ->
    closest_level_thr g ths rn rd = if t * rd <? rn then k - 1 else k.
Proof. exact Grid_proofs.closest_level_thr_one_per_gap. Qed.

(* Thresholds that never apply.  never_hit th prev rs: on none of the levels rs (previous level resolution prev) the
   current threshold th satisfies `threshold and prev_l_res > threshold >= l_res`; such a threshold is never consumed, so
   the thresholds behind it never become current.  Complement of closest_level_thr_general: if the threshold that is current
   after levels 0 .. k-1 (all coarser than the request; thresholds hit there are consumed without effect) is never hit from
   level k on, the level is the one of closest_level (closest_level_spec applies).  k = 0: the threshold the loop starts
   with is never hit. *)
Theorem closest_level_thr_general_unhit :
  forall g ths rn rd k,
    0 < rd -> 0 <= k <= levels g ->
    (forall j, 0 <= j < k -> rn < res_at g j * rd) ->
    let '(th0, ths0) := thr_init (res_at g 0) (rev ths) in
    let '(th, _, prev) := thr_pass (ress g) (res_at g 0) th0 ths0 (Z.to_nat k) in
    never_hit th prev (skipn (Z.to_nat k) (ress g)) ->
    closest_level_thr g ths rn rd = closest_level g rn rd.
Proof. exact Grid_proofs.closest_level_thr_general_unhit. Qed.

(* Closed forms: thresholds that are all finer than every level, or all on / above every level (in particular above the
   first level: the skip loop stops at the last of them), do not change the level choice, for every request. *)
Theorem closest_level_thr_below_all_levels :
  forall g ths rn rd,
    (forall t r, In t ths -> In r (ress g) -> t < r) ->
    closest_level_thr g ths rn rd = closest_level g rn rd.
Proof. exact Grid_proofs.closest_level_thr_below. Qed.

Theorem closest_level_thr_above_all_levels :
  forall g ths rn rd,
    (forall t r, In t ths -> In r (ress g) -> r <= t) ->
    closest_level_thr g ths rn rd = closest_level g rn rd.
Proof. exact Grid_proofs.closest_level_thr_above. Qed.

(* A threshold that becomes current when it is already on or above the previous level resolution is stuck (this is what
   happens to the second of two thresholds in one gap, Grid_proofs.ex_thresholds_same_gap): it is never hit on levels that
   are not above it. *)
Theorem threshold_stuck :
  forall rs t prev, prev <= t -> (forall r, In r rs -> r <= t) -> never_hit (Some t) prev rs.
Proof. exact Grid_proofs.never_hit_stuck. Qed.

(* get_affected_bbox_and_level (request in the grid SRS): a level is returned exactly when the rectangle intersects
   the grid bbox and the requested resolution rn/rd = min(w/sx, h/sy) does not exceed res_0 * max_shrink_factor
   (otherwise NoTiles); the level is closest_level of that resolution. *)
Theorem affected_level_spec :
  forall g b sx sy k,
    let '(rn, rd) := get_resolution b sx sy in
    affected_level g b sx sy = Some k <->
    (bbox_intersects (gx0 g, gy0 g, gx1 g, gy1 g) b = true /\
     rn * shr_d g <= res_at g 0 * shr_n g * rd /\ k = closest_level g rn rd).
Proof. exact Grid_proofs.affected_level_spec. Qed.

Theorem get_resolution_spec :
  forall b sx sy, 0 < sx -> 0 < sy ->
    let '(x0, y0, x1, y1) := b in
    let '(rn, rd) := get_resolution b sx sy in
    0 < rd /\ rn * sx <= Z.abs (x0 - x1) * rd /\ rn * sy <= Z.abs (y0 - y1) * rd /\
    (rn * sx = Z.abs (x0 - x1) * rd \/ rn * sy = Z.abs (y0 - y1) * rd).
Proof. exact Grid_proofs.get_resolution_spec. Qed.

(* ---------------------------------------------------------------- requests in another SRS than the grid *)

(* get_affected_bbox_and_level(bbox, size, req_srs) takes as source rectangle calculate_bbox of the transformed outline
   points (16 by default).  The transformation (PROJ) is external: the statements hold for every list of transformed
   points.  The source rectangle contains every transformed outline point ... *)
Theorem calculate_bbox_contains :
  forall pts b px py, calculate_bbox pts = Some b -> In (px, py) pts ->
    let '(x0, y0, x1, y1) := b in x0 <= px <= x1 /\ y0 <= py <= y1.
Proof. exact Grid_proofs.calculate_bbox_contains. Qed.

(* ... is the smallest such rectangle ... *)
Theorem calculate_bbox_attained :
  forall pts b, calculate_bbox pts = Some b ->
    let '(x0, y0, x1, y1) := b in
    (exists q, In q pts /\ fst q = x0) /\ (exists q, In q pts /\ snd q = y0) /\
    (exists q, In q pts /\ fst q = x1) /\ (exists q, In q pts /\ snd q = y1).
Proof. exact Grid_proofs.calculate_bbox_attained. Qed.

(* ... and every transformed outline point at least 1/10 pixel inside it has its tile in the list reported for the
   request (at the level chosen for the source rectangle).  affected_tiles_cover_foreign_partial: what is missing is
   the curved outline between the sampled points (the model knows the transformation only at the sampled points). *)
Theorem affected_tiles_cover_foreign_partial :
  forall g tpts sx sy b l px py,
    wf g -> decreasing_res g -> 0 < levels g -> 0 < sx -> 0 < sy -> 0 < sf_d g <= sf_n g ->
    affected_level_foreign g tpts sx sy = Some (b, l) -> In (px, py) tpts ->
    let '(bx0, by0, bx1, by1) := b in
    (bx0 < bx1 /\ by0 < by1) ->
    bx0 + inset g l <= px <= bx1 - inset g l -> by0 + inset g l <= py <= by1 - inset g l ->
    exists ab n m ts, affected_level_tiles g b l = Affected ab n m ts /\
      let '(tx, ty) := tile g px py l in In (limit_tile g tx ty l) ts.
Proof. exact Grid_proofs.affected_tiles_cover_foreign. Qed.

(* generate_envelope_points: 4 * steps points, the four corners among them. *)
Theorem envelope_points_length :
  forall b n, 4 < n -> Z.of_nat (length (envelope_points b n)) = 4 * env_steps n.
Proof. exact Grid_proofs.envelope_points_length. Qed.

Theorem envelope_points_corners :
  forall x0 y0 x1 y1 n, 4 < n -> x0 <= x1 -> y0 <= y1 ->
    let pts := envelope_points (x0, y0, x1, y1) n in
    In (x0, y0) pts /\ In (x1, y0) pts /\ In (x1, y1) pts /\ In (x0, y1) pts.
Proof. exact Grid_proofs.envelope_points_corners. Qed.

(* ---------------------------------------------------------------- grids built from the configuration *)

(* GridConfiguration.tile_grid: stretch_factor, max_shrink_factor and tile_size of a configured grid are the grid's own
   options (conf_value: own option, else the option under globals, else the built-in default) ... *)
Theorem configured_grid_own_options :
  forall g0 sf shr ts sf_glob shr_glob ts_glob,
    let g := configured_grid g0 (Some sf) sf_glob (Some shr) shr_glob (Some ts) ts_glob in
    (sf_n g, sf_d g) = sf /\ (shr_n g, shr_d g) = shr /\ (tw g, th g) = ts.
Proof. exact Grid_proofs.configured_grid_own_options. Qed.

Theorem configured_grid_global_options :
  forall g0 sf shr ts,
    let g := configured_grid g0 None (Some sf) None (Some shr) None (Some ts) in
    (sf_n g, sf_d g) = sf /\ (shr_n g, shr_d g) = shr /\ (tw g, th g) = ts.
Proof. exact Grid_proofs.configured_grid_global_options. Qed.

(* ... so the level chosen on a configured grid is the one of closest_level_spec for the *configured* stretch factor. *)
Theorem configured_level_choice :
  forall g0 sn sd sf_glob shr_loc shr_glob ts_loc ts_glob rn rd,
    let g := configured_grid g0 (Some (sn, sd)) sf_glob shr_loc shr_glob ts_loc ts_glob in
    decreasing_res g -> 0 < levels g -> 0 < rd -> 0 < rn -> 0 < sd <= sn ->
    sf_n g = sn /\ sf_d g = sd /\ closest_level_spec_of g rn rd (closest_level g rn rd).
Proof. exact Grid_proofs.configured_level_choice. Qed.

(* ---------------------------------------------------------------- tie of the integer helpers to the source *)

(* The hand-written flip_tile_coord, limit_tile (integer levels) and create_tile_list of the model are equal to
   the definitions generated from the Python source of TileGrid.flip_tile_coord, TileGrid.limit_tile and
   _create_tile_list (gs z = self.grid_sizes[z], levels = self.levels). *)
Theorem flip_tile_coord_is_generated :
  forall g x y l, gen_flip_tile_coord (levels g) (grid_size g) x y l = flip_tile_coord g x y l.
Proof. exact Grid_gen_proofs.flip_tile_coord_generated. Qed.

Theorem limit_tile_is_generated :
  forall g x y l, gen_limit_tile (levels g) (grid_size g) x y l = limit_tile g x y l.
Proof. exact Grid_gen_proofs.limit_tile_generated. Qed.

Theorem create_tile_list_is_generated :
  forall xs ys l gs, gen_create_tile_list xs ys l gs = create_tile_list xs ys l gs.
Proof. exact Grid_gen_proofs.create_tile_list_generated. Qed.
