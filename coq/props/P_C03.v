(* C03  Tile grids tile the plane: exact, gap-free and consistent coordinate arithmetic.
   Property theorems only; proofs in theories/Grid_proofs.v. *)
From Coq Require Import ZArith List Bool.
Import ListNotations.
From MP Require Import Grid Grid_proofs.
Local Open Scope Z_scope.

(* The tile found for a point contains that point (half-open rectangles; a tile of a north-west numbered
   grid owns its top edge). *)
Theorem point_in_own_tile :
  forall g px py l, wf g -> valid_level g l = true ->
    let '(tx, ty) := tile g px py l in owns g (tile_bbox g tx ty l) px py.
Proof. exact Grid_proofs.point_in_own_tile. Qed.

(* Tiles do not overlap: a point owned by the rectangle of tile (x, y) is mapped to (x, y). *)
Theorem tile_of_owned_point :
  forall g px py x y l, wf g -> valid_level g l = true ->
    owns g (tile_bbox g x y l) px py -> tile g px py l = (x, y).
Proof. exact Grid_proofs.tile_of_owned. Qed.

(* Neighbouring tiles share edges. *)
Theorem tile_bbox_adjacent_columns :
  forall g x y l,
    let '(_, _, x1, _) := tile_bbox g x y l in
    let '(x0', _, _, _) := tile_bbox g (x + 1) y l in x1 = x0'.
Proof. exact Grid_proofs.tile_bbox_adjacent_x. Qed.

Theorem tile_bbox_adjacent_rows :
  forall g x y l,
    let '(_, y0, _, y1) := tile_bbox g x y l in
    let '(_, y0', _, y1') := tile_bbox g x (y + 1) l in
    if ul g then y0 = y1' else y1 = y0'.
Proof. exact Grid_proofs.tile_bbox_adjacent_y. Qed.
