(* C12  Cleanup removes exactly the expired tiles it was asked to remove.
   Property theorems only; proofs live in theories/Cleanup_proofs.v, the model in theories/Cleanup.v.

   Reading guide.  c : list entry is the cache contents (tiles with modification time e_mtime in ticks, q ticks
   per second; files/directories that are not tiles).  t : task = levels, remove time t_T, remove_all, complete
   extent.  cleanup_task b q msize t walked c = what mapproxy.seed.cleanup.cleanup([task]) leaves of c for
   backend b; `walked` = the meta tiles TileWalker processed (used by the tile-walk strategy only).
   spec_remaining older levels all cov msize c = c without the tiles of the selected levels that are older
   (or all) and whose meta tile intersects the coverage `cov`.
   dim_visible excludes the known finding F15 (dimension directories); it is shown to be necessary by the
   ..._refuted theorems at the end. *)
From Coq Require Import ZArith List Bool.
Import ListNotations.
From MP Require Import Base Cleanup Cleanup_proofs.
Open Scope Z_scope.

(* The model's loops (per level / per processed meta tile) amount to one filter: an entry survives iff no
   iteration removes it.  All theorems below are statements about this closed form. *)
Theorem cleanup_is_filter :
  forall b q msize t walked c,
    cleanup_task b q msize t walked c = filter (fun e => negb (removed_by b q msize t walked e)) c.
Proof. exact cleanup_task_filter. Qed.

(* Directory strategy (complete extent, file cache with a directory per level: tc, mp, tms, arcgis): the tiles
   that remain are exactly those the specification keeps, "older" meaning mtime < T strictly. *)
Theorem directory_remaining_is_spec :
  forall b q msize t walked c,
    strategy b t = SDir ->
    (forall e, In e c -> is_tile e = true -> dim_visible b e = true) ->
    filter is_tile (cleanup_task b q msize t walked c)
    = filter is_tile (spec_remaining (older_dir (t_T t)) (t_levels t) (t_all t) everywhere msize c).
Proof. exact dir_remaining. Qed.

(* Backend strategy (complete extent; mbtiles, sqlite, geopackage, compact): remaining = specification with
   "older" meaning whole second of last_modified < whole second of T; for backends that keep no timestamps
   the configuration loader guarantees remove_all (conf_guard below). *)
Theorem backend_remaining_is_spec :
  forall b q msize t walked c,
    strategy b t = SCache ->
    (stores_timestamp b = true \/ t_all t = true) ->
    (forall e, In e c -> is_tile e = true -> dim_visible b e = true) ->
    filter is_tile (cleanup_task b q msize t walked c)
    = filter is_tile (spec_remaining (older_sql q (t_T t)) (t_levels t) (t_all t) everywhere msize c).
Proof. exact cache_remaining. Qed.

(* Tile-walk strategy (coverage given, or no level location / bulk delete): if the walk processed exactly the
   meta tiles of the selected levels that intersect the coverage (C11; checked on every recorded walk), the
   remaining tiles are those of the specification, "older" meaning int(timestamp) <= T where timestamp is what
   the backend reports (-1 s for backends without timestamps). *)
Theorem tilewalk_remaining_is_spec :
  forall b q msize t walked cov c,
    strategy b t = SWalk ->
    (forall e dim l x y, In e c -> e_place e = PTile dim l x y ->
       mem_coord (main_tile msize (x, y, l)) walked
       = memZ l (t_levels t) && cov (main_tile msize (x, y, l))) ->
    (forall e, In e c -> is_tile e = true -> dim_visible b e = true) ->
    filter is_tile (cleanup_task b q msize t walked c)
    = filter is_tile (spec_remaining (fun m => stale_walk q (t_T t) (seen_ts b q m))
                                     (t_levels t) (t_all t) cov msize c).
Proof. exact walk_remaining. Qed.

(* No strategy removes a tile of a level that was not selected (any backend, any contents, dimension
   directories included); for the tile walk: as long as it only processes meta tiles of selected levels. *)
Theorem other_levels_untouched :
  forall b q msize t walked c e dim l x y,
    In e c -> e_place e = PTile dim l x y -> ~ In l (t_levels t) ->
    (forall mt, In mt walked -> In (coord_level mt) (t_levels t)) ->
    In e (cleanup_task b q msize t walked c).
Proof. exact other_levels_untouched_l. Qed.

(* ... also over a whole list of tasks (cleanup(tasks) is a loop). *)
Theorem other_levels_untouched_all_tasks :
  forall b q msize ts c e dim l x y,
    In e c -> e_place e = PTile dim l x y ->
    (forall t w, In (t, w) ts ->
       ~ In l (t_levels t) /\ forall mt, In mt w -> In (coord_level mt) (t_levels t)) ->
    In e (cleanup_tasks b q msize ts c).
Proof. exact cleanup_tasks_other_levels. Qed.

(* Without remove_all, on a backend that keeps timestamps, a tile whose whole second lies after the remove
   time T is kept by every strategy (one-second granularity is the documented semantics). *)
Theorem newer_whole_second_kept :
  forall b q msize t walked c e,
    In e c -> is_tile e = true -> t_all t = false -> stores_timestamp b = true ->
    0 < q -> 0 <= e_mtime e -> t_T t < (e_mtime e / q) * q ->
    In e (cleanup_task b q msize t walked c).
Proof. exact newer_whole_second_kept_l. Qed.

(* A tile whose meta tile does not intersect the coverage is kept (the walk only processes intersecting
   meta tiles; the other two strategies run for the complete extent only). *)
Theorem outside_coverage_kept :
  forall b q msize t walked cov c e dim l x y,
    strategy b t = SWalk -> In e c -> e_place e = PTile dim l x y ->
    (forall mt, In mt walked -> cov mt = true) ->
    cov (main_tile msize (x, y, l)) = false ->
    In e (cleanup_task b q msize t walked c).
Proof. exact outside_coverage_kept_l. Qed.

(* Nothing that is not a tile is removed, except what lies inside the directory / beside the database of a
   selected level (cleanup_directory and rmtree do not look at file names there; unlink of a level database takes
   its "-wal"-like companions along). *)
Theorem non_tiles_untouched :
  forall b q msize t walked c e,
    In e c -> is_tile e = false -> inside_selected b (t_levels t) e = false ->
    In e (cleanup_task b q msize t walked c).
Proof. exact non_tiles_untouched_l. Qed.

(* The tile walk removes tiles only, wherever the other things lie. *)
Theorem tilewalk_touches_only_tiles :
  forall b q msize t walked c e,
    strategy b t = SWalk -> In e c -> is_tile e = false ->
    In e (cleanup_task b q msize t walked c).
Proof. exact tilewalk_touches_only_tiles_l. Qed.

(* Cleanup creates nothing. *)
Theorem nothing_created :
  forall b q msize ts c e, In e (cleanup_tasks b q msize ts c) -> In e c.
Proof. exact cleanup_tasks_sub. Qed.

(* The three "older" tests agree for every time that is not in the same whole second as T ... *)
Theorem older_tests_agree_off_boundary :
  forall q T m,
    0 < q -> 0 <= m -> m / q <> T / q ->
    older_dir T m = older_sql q T m /\ stale_walk q T m = older_sql q T m
    /\ stale_walk q T (m / q * q) = older_sql q T m.
Proof. exact older_agree. Qed.

(* ... hence the directory strategy and a tile walk over the whole extent leave the same tiles ... *)
Theorem strategies_agree_off_boundary_file :
  forall lay q msize levels T all walked c,
    strategy (BFile lay) (mkTask levels T all true false) = SDir ->
    0 < q ->
    (forall e, In e c -> is_tile e = true ->
       dim_visible (BFile lay) e = true /\ 0 <= e_mtime e /\ e_mtime e / q <> T / q) ->
    (forall e dim l x y, In e c -> e_place e = PTile dim l x y ->
       mem_coord (main_tile msize (x, y, l)) walked
       = memZ l levels && everywhere (main_tile msize (x, y, l))) ->
    filter is_tile (cleanup_task (BFile lay) q msize (mkTask levels T all true false) [] c)
    = filter is_tile (cleanup_task (BFile lay) q msize (mkTask levels T all false false) walked c).
Proof. exact dir_walk_agree. Qed.

(* ... and so do the bulk delete of a timestamped sqlite backend and a tile walk over the whole extent. *)
Theorem strategies_agree_off_boundary_sqlite :
  forall b q msize levels T all walked c,
    strategy b (mkTask levels T all true false) = SCache ->
    stores_timestamp b = true ->
    0 < q ->
    (forall e, In e c -> is_tile e = true -> 0 <= e_mtime e /\ e_mtime e / q <> T / q) ->
    (forall e dim l x y, In e c -> e_place e = PTile dim l x y ->
       mem_coord (main_tile msize (x, y, l)) walked
       = memZ l levels && everywhere (main_tile msize (x, y, l))) ->
    filter is_tile (cleanup_task b q msize (mkTask levels T all true false) [] c)
    = filter is_tile (cleanup_task b q msize (mkTask levels T all false false) walked c).
Proof. exact cache_walk_agree. Qed.

(* Configuration loader: every task it yields satisfies the premise of backend_remaining_is_spec
   (remove_before is refused for a cache that stores no timestamps, per-level geopackage included). *)
Theorem conf_guard :
  forall init w all0 bs i T all b,
    nth_error (conf_tasks init w all0 bs) i = Some (Some (T, all)) -> nth_error bs i = Some b ->
    stores_timestamp b = true \/ all = true.
Proof. exact conf_tasks_guard. Qed.

(* remove_all of each task is what was configured, or true because that cache keeps no timestamps; nothing
   carries over from one cache of the cleanup to the next. *)
Theorem conf_remove_all_as_configured :
  forall init w all0 bs i T all b,
    nth_error (conf_tasks init w all0 bs) i = Some (Some (T, all)) -> nth_error bs i = Some b ->
    all = all0 || negb (supports_timestamp b).
Proof. exact conf_tasks_nth. Qed.

(* remove_before is refused (SeedConfigurationError) exactly for caches without timestamps. *)
Theorem conf_remove_before_refused :
  forall init w all b,
    conf_step init w all b = None <-> (supports_timestamp b = false /\ exists T, w = WBefore T).
Proof. exact conf_step_refused. Qed.

(* Interrupted and continued (mapproxy-seed --cleanup --progress-file F, killed, then --continue), directory
   strategy: the first run dies while it handles the k-th level directory, having removed an arbitrary part of it
   (keep); the continued run skips what DirectoryCleanupProgress.can_skip allows.  The result equals that of an
   uninterrupted cleanup, provided the level directory names from position k on do not sort before the k-th name
   in the order can_skip uses (numbers as numbers, other names as strings). *)
Theorem resume_covers :
  forall lay t k keep c lk dk,
    nth_error (t_levels t) k = Some lk -> level_dir lay lk = Some dk ->
    (forall j lj dj, (k <= j)%nat -> nth_error (t_levels t) j = Some lj -> level_dir lay lj = Some dj ->
       key_ltb (dname_key dj) (dname_key dk) = false) ->
    resumed (BFile lay) t k keep c = simple_cleanup (BFile lay) t c.
Proof. exact resume_covers_l. Qed.

(* With ascending levels (the configuration loader sorts them) that order holds for every layout with level
   directories - tc, mp, tms, and arcgis below level 100 - so: interrupted at any level k with any part of it
   removed, then continued = uninterrupted. *)
Theorem resume_covers_ascending :
  forall lay t k keep c lk dk,
    nth_error (t_levels t) k = Some lk -> level_dir lay lk = Some dk ->
    (forall i j li lj, (i <= j)%nat -> nth_error (t_levels t) i = Some li -> nth_error (t_levels t) j = Some lj -> li <= lj) ->
    (lay = LArcgis -> forall l, In l (t_levels t) -> 0 <= l < 100) ->
    resumed (BFile lay) t k keep c = simple_cleanup (BFile lay) t c.
Proof. exact resume_covers_ascending_l. Qed.

(* A tile that is a symbolic link to a shared single-colour file: its age is the time of the link (e_mtime);
   the time of the file it points to (e_target) never influences what is removed. *)
Theorem link_target_irrelevant :
  forall b q msize t walked e x,
    removed_by b q msize t walked (mkEntry (e_place e) (e_mtime e) (e_isdir e) x) = removed_by b q msize t walked e.
Proof. exact link_target_irrelevant_l. Qed.

(* levels: {to: 0} selects level 0 only (0 is a bound like any other). *)
Theorem levels_to_zero :
  forall nlevels, 0 < nlevels -> levels_range None (Some 0) nlevels = [0].
Proof. exact levels_range_to_zero. Qed.

(* A task with a configured coverage (complete_extent False) is always cleaned by the tile walk, whatever the
   backend: the per-level shortcuts (directory walk, bulk delete) never see a coverage. *)
Theorem coverage_task_walks :
  forall b t, t_skip t = false -> t_complete t = false -> strategy b t = SWalk.
Proof. exact coverage_task_walks_l. Qed.

(* Per-level sqlite cache: removing level l entirely (unlink "<l>.mbtile" and glob "<l>.mbtile-*") never unlinks
   the database file of another level l' nor a file named "<l'>.mbtile<suffix>" (its -wal/-shm/-journal
   companions), for all non-negative levels: level 1 does not take 10.mbtile .. 19.mbtile along. *)
Theorem level_files_apart :
  forall l l' suffix,
    0 <= l -> 0 <= l' -> l <> l' ->
    unlinked_with_level l (String.append (level_file l') suffix) = false.
Proof. exact level_files_apart. Qed.

(* A task one of whose named coverages is empty at run time ("nothing to clean": the loader gives it the coverage
   False) removes nothing at all - it does not fall back to the whole grid. *)
Theorem empty_coverage_task_removes_nothing :
  forall b q msize levels T all complete empties walked c,
    In true empties ->
    cleanup_task b q msize (mkTask levels T all complete (conf_skip empties)) walked c = c.
Proof. exact empty_coverage_l. Qed.

(* remove_before given as a time delta (seed.yaml remove_before: {weeks, days, hours, minutes, seconds}): the remove
   time is now minus the sum of ALL configured units (remove_time_of_delta, compared with the real
   before_timestamp_from_options) ... *)
Theorem remove_time_of_delta_is_now_minus_all_units :
  forall now w d h m s,
    remove_time_of_delta now w d h m s = now - 604800 * w - 86400 * d - 3600 * h - 60 * m - s.
Proof. exact remove_time_of_delta_sum. Qed.

(* ... so a tile whose whole second lies after now minus that sum is kept by every strategy, on every backend that
   keeps timestamps (e.g. days: 1, hours: 12: a tile 30 hours old stays). *)
Theorem delta_newer_tile_kept :
  forall b q msize t walked c e now w d h m s,
    In e c -> is_tile e = true -> t_all t = false -> stores_timestamp b = true -> 0 < q -> 0 <= e_mtime e ->
    t_T t = q * remove_time_of_delta now w d h m s ->
    q * (now - (604800 * w + 86400 * d + 3600 * h + 60 * m + s)) < (e_mtime e / q) * q ->
    In e (cleanup_task b q msize t walked c).
Proof. exact delta_newer_tile_kept_l. Qed.

(* The walk premise discharged through C11's model of the TileWalker descent (Seed.geo_walk; tilewalker_cleanup uses
   the same TileWalker as seeding): when the processed meta tiles are those the modelled descent hands over - run to
   completion or continued from any saved progress `old` - a tile whose meta tile (meta size function msize of the tile
   manager, rectangle Seed.meta_bbox of the grid g) the coverage classifies as NONE is kept, whatever the backend,
   remove time and remove_all.  Premises are those of C11.walk_sound: well-formed grid and meta size, resolutions of at
   least 10 coordinate quanta, valid ascending levels, start rectangle of positive area, a set-like coverage
   (cov_overlap_monotone: holds for bbox coverages, C11.bbox_coverages_overlap_monotone).
   _partial: the converse direction (every intersecting meta tile of a selected level is processed, C11
   walk_complete_interior / walk_complete_nested) is not carried over to cleanup here; tilewalk_remaining_is_spec keeps
   its premise about the recorded walk for that direction. *)
From MP Require Seed Seed_proofs.
Theorem seed_walk_outside_coverage_kept_partial :
  forall b q msize t g msx msy cov levels root old c e dim l x y,
    strategy b t = SWalk -> In e c -> e_place e = PTile dim l x y ->
    Seed_proofs.geo_wf g msx msy -> Seed_proofs.fine_res g -> Seed_proofs.levels_wf g levels -> levels <> [] ->
    Seed_proofs.proper root -> Seed_proofs.cov_overlap_monotone cov ->
    cov (Seed.meta_bbox g msx msy (main_tile msize (x, y, l))) = 0 ->
    In e (cleanup_task b q msize t (Seed.procs (Seed.geo_walk g msx msy cov 0 levels root old)) c).
Proof. exact seed_walk_outside_coverage_kept_l. Qed.

(* The converse through C11's descent (walk_complete_nested): an expired (or remove_all) tile of a selected level,
   stored where remove_tile without dimensions finds it, is removed when the processed meta tiles are those the
   modelled TileWalker descent hands over (from the start, no saved progress) - provided its grid tile contains a
   point (px, py) that at every level k <= l lies in a tile of the grid whose meta tile the coverage does not classify
   as NONE and that lies 1/10 pixel of level 0 inside the start rectangle; pyramid with resolutions that are integer
   multiples of the next level's; the tile manager's meta size is that of the modelled meta grid.
   _partial: the chain premise over the coarser levels is C11's (a meta tile that intersects the coverage only in a
   sliver no ancestor reports is not covered), and resumed walks (old <> None) are not covered. *)
Theorem seed_walk_inside_coverage_removed_partial :
  forall b q msize t g msx msy cov skipk levels root c e dim l x y px py,
    strategy b t = SWalk -> e_place e = PTile dim l x y -> dim_addressed b dim = true ->
    t_all t || is_stale b q (t_T t) e = true ->
    Seed_proofs.geo_wf g msx msy -> Seed_proofs.levels_wf g levels -> In l levels ->
    msize l = Seed.meta_size g msx msy l -> Grid.tile g px py l = (x, y) ->
    (forall k, 0 <= k <= l ->
       Grid.valid_level g k = true /\ Seed_proofs.point_in_grid g px py k /\
       cov (Seed.meta_bbox g msx msy (Seed_proofs.point_meta g msx msy px py k)) <> 0) ->
    Seed_proofs.inset root (Grid.res_at g 0 / 10) px py ->
    (forall k, 0 <= k < l -> exists f, 0 < f /\ Grid.res_at g k = f * Grid.res_at g (k + 1)) ->
    ~ In e (cleanup_task b q msize t (Seed.procs (Seed.geo_walk g msx msy cov skipk levels root None)) c).
Proof. exact seed_walk_inside_coverage_removed_l. Qed.

(* ---- refuted: the side condition dim_visible is necessary (known finding F15, reproduced on the implementation) *)

(* F15: directory strategy skips dimension directories. *)
Theorem dimension_tiles_survive_directory_refuted :
  exists lay q msize t walked c e,
    strategy (BFile lay) t = SDir /\ In e c /\
    spec_removed (older_dir (t_T t)) (t_levels t) (t_all t) everywhere msize e = true /\
    In e (cleanup_task (BFile lay) q msize t walked c).
Proof. exact dimension_tiles_survive_dir_refuted. Qed.

(* F15 also holds for the tile walk: it looks tiles up without dimensions. *)
Theorem dimension_tiles_survive_tilewalk_refuted :
  exists lay q msize t walked cov c e,
    strategy (BFile lay) t = SWalk /\ In e c /\
    (forall e dim l x y, In e c -> e_place e = PTile dim l x y ->
       mem_coord (main_tile msize (x, y, l)) walked
       = memZ l (t_levels t) && cov (main_tile msize (x, y, l))) /\
    spec_removed (fun m => stale_walk q (t_T t) (seen_ts (BFile lay) q m))
                 (t_levels t) (t_all t) cov msize e = true /\
    In e (cleanup_task (BFile lay) q msize t walked c).
Proof. exact dimension_tiles_survive_walk_refuted. Qed.
