(* C01  Map content and feature-info queries land at the right place on the ground.
   Property theorems only; proofs live in theories/Geo_proofs.v.  The pipeline is a composition of affine
   maps; each stage is a theorem about the exact-arithmetic model (Geo.v, Grid.v). *)
From Coq Require Import ZArith QArith Qabs List Bool.
Import ListNotations.
From MP Require Import Grid Grid_proofs Geo Geo_proofs.

(* Stage 1, tile mosaic (CacheMapLayer._image -> TileMerger.merge).  For every grid, level and request
   rectangle: the list returned by get_affected_level_tiles has nx*ny entries, the mosaic image of
   _src_size pixels has exactly the extent src_bbox at the level resolution, and every tile that is pasted
   (entry i, not None) is pasted by _tile_offset(i) at the pixel where its own tile_bbox lies inside
   src_bbox.  A one-tile shift, swapped axes or a bottom-up row order falsifies this. *)
Theorem mosaic_georef :
  forall g b l ab nx ny ts,
    wf g -> valid_level g l = true ->
    affected_level_tiles g b l = Affected ab nx ny ts ->
    Z.of_nat (length ts) = (nx * ny)%Z /\
    bbox_w ab = (fst (src_size nx ny (tw g) (th g)) * res_at g l)%Z /\
    bbox_h ab = (snd (src_size nx ny (tw g) (th g)) * res_at g l)%Z /\
    forall i x y l',
      nth_error ts i = Some (Some (x, y, l')) ->
      l' = l /\
      ul_offset_ground ab (tile_bbox g x y l) =
        ((fst (tile_offset nx (tw g) (th g) (Z.of_nat i)) * res_at g l)%Z,
         (snd (tile_offset nx (tw g) (th g) (Z.of_nat i)) * res_at g l)%Z).
Proof. exact Geo_proofs.mosaic_georef. Qed.

(* make_lin_transf(b, a) undoes make_lin_transf(a, b) for all non-degenerate rectangles (one of them a
   cartesian bbox, the other an image rectangle with the y axis pointing down). *)
Theorem lin_transf_inverse :
  forall a b p, nondegenerate a -> nondegenerate b ->
    qpt_eq (lin_transf b a (lin_transf a b p)) p.
Proof. exact Geo_proofs.lin_transf_inverse. Qed.

(* BBOX axis order: for every version of the client request and of the upstream request (1.0.0, 1.1.0,
   1.1.1, 1.3.0) and both axis orders of the SRS, the BBOX sent upstream denotes the rectangle that the
   client's BBOX denotes; internally the bbox is always minx,miny,maxx,maxy. *)
Theorem axis_order_roundtrip :
  forall (cv uv : wms_version) (ne : bool) (wire : Q * Q * Q * Q),
    wire_rectangle uv ne (adapt_to_version uv ne (adapt_to_111 cv ne wire)) = wire_rectangle cv ne wire /\
    adapt_to_111 cv ne wire = wire_rectangle cv ne wire /\
    switch_axis (switch_axis wire ne) ne = wire.
Proof. exact axis_order_all. Qed.

(* InfoQuery.coord is the ground position of the upper left corner of the clicked pixel (i, j). *)
Theorem featureinfo_coord_is_clicked_pixel :
  forall b0 b1 b2 b3 w h i j, (0 < w)%Z -> (0 < h)%Z ->
    qpt_eq (info_coord (b0, b1, b2, b3) w h (i, j))
           (b0 + inject_Z i * ((b2 - b0) / inject_Z w), b3 - inject_Z j * ((b3 - b1) / inject_Z h)).
Proof. exact info_coord_pixel_corner. Qed.

(* Feature info through a reprojection: for ANY external point transformation T and bbox transformation TB
   (PROJ is not modelled), the pixel position that WMSInfoClient._get_transformed_query forwards denotes a
   ground point within half an upstream pixel of T(clicked ground point), in both axes. *)
Theorem featureinfo_point :
  forall (T : qpt -> qpt) (TB : qbbox -> qbbox) b w h pos i0 i1 i2 i3 iw ih px py,
    transformed_info_query T TB b w h pos = ((i0, i1, i2, i3), (iw, ih), (px, py)) ->
    (0 < iw)%Z -> (0 < ih)%Z -> nondegenerate (i0, i1, i2, i3) ->
    let tc := T (info_coord b w h pos) in
    let up := info_coord (i0, i1, i2, i3) iw ih (px, py) in
    (i0, i1, i2, i3) = TB b /\ iw = w /\
    Qabs (fst up - fst tc) <= (1 # 2) * Qabs ((i2 - i0) / inject_Z iw) /\
    Qabs (snd up - snd tc) <= (1 # 2) * Qabs ((i3 - i1) / inject_Z ih).
Proof. exact transformed_info_point. Qed.

(* EXTENT path of _transform_simple: the box handed to PIL is the exact pre-image (in source pixel
   coordinates) of the output rectangle. *)
Theorem extent_path_exact :
  forall sw sh sb dw dh d0 d1 d2 d3 x0 y0 x1 y1,
    pos_size sw sh -> nondegenerate sb ->
    transform_simple sw sh sb dw dh (d0, d1, d2, d3) = Extent x0 y0 x1 y1 ->
    qpt_eq (lin_transf (img_rect sw sh) sb (x0, y0)) (d0, d3) /\
    qpt_eq (lin_transf (img_rect sw sh) sb (x1, y1)) (d2, d1).
Proof. exact Geo_proofs.extent_path_exact. Qed.

(* Crop path of _transform_simple: taken only if source and output resolution differ by less than 1/10 pixel
   over the whole image; the box has the output size and starts at the rounded exact position ... *)
Theorem crop_path_box :
  forall sw sh s0 s1 s2 s3 dw dh d0 d1 d2 d3 x0 y0 x1 y1,
    transform_simple sw sh (s0, s1, s2, s3) dw dh (d0, d1, d2, d3) = Crop x0 y0 x1 y1 ->
    let p := lin_transf (s0, s1, s2, s3) (img_rect sw sh) (d0, d3) in
    x0 = qround (fst p) /\ y0 = qround (snd p) /\ x1 = (x0 + dw)%Z /\ y1 = (y0 + dh)%Z /\
    Qabs ((s0 - s2) / inject_Z sw - (d0 - d2) / inject_Z dw) < Qabs ((d0 - d2) / inject_Z dw / (inject_Z dw * 10)) /\
    Qabs ((s1 - s3) / inject_Z sh - (d1 - d3) / inject_Z dh) < Qabs ((d1 - d3) / inject_Z dh / (inject_Z dh * 10)).
Proof. exact Geo_proofs.crop_path_box. Qed.

(* ... and under these two facts the ground position of output column i and of the source column copied
   into it differ by at most half a source pixel plus a tenth of an output pixel (same for rows). *)
Theorem crop_path_error :
  forall (s0 sres d0 dres minx : Q) (m i dw : Z),
    0 < sres -> (0 < dw)%Z -> (0 <= i <= dw)%Z ->
    s0 + minx * sres == d0 -> m = qround minx ->
    Qabs (sres - dres) < Qabs dres / (inject_Z dw * 10) ->
    Qabs ((s0 + (inject_Z m + inject_Z i) * sres) - (d0 + inject_Z i * dres)) <= sres * (1 # 2) + Qabs dres * (1 # 10).
Proof. exact crop_axis_error. Qed.

(* Sub-extent placement (bbox_position_in_image, used when a request exceeds the layer extent / source coverage):
   the request (b0..b2, w pixels) is cut down to the source extent (s0..s2) that meets it; the sub image is
   requested for (n0..n2) with sw pixels and pasted at column ox.  Every pixel boundary k of the sub image (ground
   position n0 + k/sw (n2 - n0), true output pixel position (X - b0) * w/(b2 - b0)) is pasted at column ox + k:
   less than one output pixel before its true position and never after it (error in [0, 1)). *)
Theorem sub_extent_error :
  forall b0 b1 b2 b3 w h s0 s1 s2 s3 sw sh ox oy n0 n1 n2 n3 k,
    b0 < b2 -> (0 < w)%Z ->
    s0 <= s2 -> s0 <= b2 -> b0 <= s2 ->
    bbox_position_in_image (b0, b1, b2, b3) w h (s0, s1, s2, s3) = ((sw, sh), (ox, oy), (n0, n1, n2, n3)) ->
    (0 < sw)%Z -> (0 <= k <= sw)%Z ->
    let c := inject_Z w / (b2 - b0) in
    let X := n0 + inject_Z k / inject_Z sw * (n2 - n0) in
    0 <= (X - b0) * c - inject_Z (ox + k) /\ (X - b0) * c - inject_Z (ox + k) < 1.
Proof. exact sub_extent_error_x. Qed.

(* The same for rows (counted from the top: oy is the row of the upper edge n3 of the sub image). *)
Theorem sub_extent_error_rows :
  forall b0 b1 b2 b3 w h s0 s1 s2 s3 sw sh ox oy n0 n1 n2 n3 k,
    b1 < b3 -> (0 < h)%Z ->
    s1 <= s3 -> s1 <= b3 -> b1 <= s3 ->
    bbox_position_in_image (b0, b1, b2, b3) w h (s0, s1, s2, s3) = ((sw, sh), (ox, oy), (n0, n1, n2, n3)) ->
    (0 < sh)%Z -> (0 <= k <= sh)%Z ->
    let c := inject_Z h / (b3 - b1) in
    let Y := n3 - inject_Z k / inject_Z sh * (n3 - n1) in
    0 <= (b3 - Y) * c - inject_Z (oy + k) /\ (b3 - Y) * c - inject_Z (oy + k) < 1.
Proof. exact sub_extent_error_y. Qed.

(* The convex-combination bound behind both (any two offsets obtained by rounding down): *)
Theorem paste_error_bound :
  forall (P0 P2 : Q) (o0 o2 k : Z),
    0 <= P0 - inject_Z o0 -> P0 - inject_Z o0 < 1 -> 0 <= P2 - inject_Z o2 -> P2 - inject_Z o2 < 1 ->
    (0 < o2 - o0)%Z -> (0 <= k <= o2 - o0)%Z ->
    0 <= P0 + inject_Z k / inject_Z (o2 - o0) * (P2 - P0) - inject_Z (o0 + k) /\
    P0 + inject_Z k / inject_Z (o2 - o0) * (P2 - P0) - inject_Z (o0 + k) < 1.
Proof. exact paste_error. Qed.

(* int(x) of a non-negative pixel coordinate is such a rounding down. *)
Theorem truncation_error :
  forall q, 0 <= q -> 0 <= q - inject_Z (trunc q) /\ q - inject_Z (trunc q) < 1.
Proof. exact trunc_nonneg_error. Qed.

(* A request that is exactly one tile: get_affected_level_tiles yields that tile alone with src_bbox equal to
   the request (both origins; the 1/10 px inset keeps the neighbours out) ... *)
Theorem single_tile_selected :
  forall g x y l,
    wf g -> valid_level g l = true -> (10 <= res_at g l)%Z ->
    affected_level_tiles g (tile_bbox g x y l) l =
      Affected (tile_bbox g x y l) 1 1 [tile_or_none (fst (grid_size g l)) (snd (grid_size g l)) l x y].
Proof. exact single_tile_affected. Qed.

(* ... and ImageTransformer.transform then returns the stored image object itself (no resampling); *)
Theorem single_tile_unresampled :
  forall w h b0 b1 b2 b3, pos_size w h -> b0 < b2 -> b1 < b3 ->
    transform true w h (b0, b1, b2, b3) w h (b0, b1, b2, b3) = Untouched.
Proof. exact same_bbox_untouched. Qed.

(* conversely the source image is returned untouched only when SRS and sizes agree and every edge differs by
   less than a tenth of an output pixel. *)
Theorem untouched_only_if_equal :
  forall same sw sh s0 s1 s2 s3 dw dh d0 d1 d2 d3,
    transform same sw sh (s0, s1, s2, s3) dw dh (d0, d1, d2, d3) = Untouched ->
    same = true /\ sw = dw /\ sh = dh /\
    Qabs (s0 - d0) < (d2 - d0) / inject_Z dw / 10 /\ Qabs (s1 - d1) < (d2 - d0) / inject_Z dw / 10 /\
    Qabs (s2 - d2) < (d3 - d1) / inject_Z dh / 10 /\ Qabs (s3 - d3) < (d3 - d1) / inject_Z dh / 10.
Proof. exact Geo_proofs.untouched_only_if_equal. Qed.

(* WMTS: for all four request kinds (KVP / RESTful, GetTile / GetFeatureInfo) the bbox used is the rectangle that
   the address (TileCol, TileRow counted from the north-west corner) denotes, on grids numbered from either corner,
   for every level whose tiled area ends at the top of the grid bbox (the condition under which a grid is offered
   through WMTS). *)
Theorem wmts_featureinfo_bbox :
  forall g r col row l,
    misalign g l = 0%Z ->
    wmts_bbox g r col row l =
      match limit_tile g col row l with Some _ => Some (wmts_rectangle g col row l) | None => None end.
Proof. exact wmts_bbox_is_rectangle. Qed.

(* GetFeatureInfo (KVP or RESTful) is forwarded with the bbox of the tile that GetTile serves for the same
   address, on every grid (F6 and its RESTful residual, both repaired). *)
Theorem wmts_featureinfo_uses_served_tile :
  forall g r r' col row l, wmts_bbox g r col row l = wmts_bbox g r' col row l.
Proof. exact Geo_proofs.wmts_featureinfo_uses_served_tile. Qed.

(* The single-tile chain, composed: a WMS request whose bbox is exactly the rectangle of a tile of the cache grid and
   whose size is the tile size selects the level of that tile (closest_level; stretch factor >= 1, strictly
   decreasing resolutions, max_shrink_factor >= 1), the affected tiles are that tile alone and src_bbox is the
   request rectangle - for which single_tile_unresampled says that the stored image is returned untouched. *)
Theorem single_tile_chain :
  forall g x y l,
    wf g -> decreasing_res g -> valid_level g l = true -> (10 <= res_at g l)%Z ->
    (0 < sf_d g <= sf_n g)%Z -> (0 < shr_d g <= shr_n g)%Z ->
    limit_tile g x y l = Some (x, y, l) ->
    cache_map_plan g (tile_bbox g x y l) (tw g) (th g) = Mosaic l (tile_bbox g x y l) 1 1 [Some (x, y, l)].
Proof. exact single_tile_plan. Qed.

(* Meta tiles (MetaGrid.meta_tile / TileSplitter): every tile of a meta tile is cut out of the meta image at the
   column where its own tile_bbox lies inside the buffered meta bbox at the level resolution - exactly, for any
   meta size and buffer and both origins, also when the buffer is cut at the left edge of the grid bbox.
   _partial: only the x axis is proved.  Along y the same holds for grids numbered from the top; on grids numbered
   from the south whose height is not a multiple of the pixel size the truncation int(round(delta/res, 5)) of the
   buffer cut at the top edge displaces rows by less than one pixel (part of known finding
   accumulated-subpixel-error; checked by the harness oracle meta-offset). *)
Theorem meta_tile_georef_partial :
  forall m x y l mb sz pats k tx ty tl ox oy,
    wf (mg m) -> valid_level (mg m) l = true -> (0 < msx m)%Z -> (0 < msy m)%Z ->
    meta_tile m x y l = (mb, sz, pats) ->
    nth_error pats k = Some (Some (tx, ty, tl), (ox, oy)) ->
    tl = l /\ fst (ul_offset_ground mb (tile_bbox (mg m) tx ty tl)) = (ox * res_at (mg m) l)%Z.
Proof. exact meta_tile_georef_x. Qed.

(* GetFeatureInfo position across versions: whatever the version of the client request and of the upstream request
   (X/Y or I/J) and whatever the axis order of the CRS, the pixel position sent upstream is the (column, row) the
   client sent, while the BBOX next to it denotes the same rectangle: the forwarded request names the same pixel. *)
Theorem featureinfo_position_version_independent :
  forall (cv uv : wms_version) (ne : bool) (wire_bbox : Q * Q * Q * Q) (pos : Z * Z),
    info_pos_to_version uv ne (info_pos_to_111 cv ne pos) = pos /\
    info_pos_to_111 cv ne pos = pos /\
    wire_rectangle uv ne (adapt_to_version uv ne (adapt_to_111 cv ne wire_bbox)) = wire_rectangle cv ne wire_bbox.
Proof. exact info_pos_roundtrip. Qed.

(* Rescaled tiles (downscale_tiles / upscale_tiles, TileManager._scaled_tile): the list of source tiles handed to
   the mosaic has one entry per cell - a source tile that is missing (outside the grid, or neither cached nor
   creatable) keeps its cell as None - so every present source tile is pasted exactly where its own bbox lies inside
   src_bbox, whatever subset of the source tiles is available. *)
Theorem scaled_tile_georef :
  forall g avail b sl ab nx ny ts,
    wf g -> valid_level g sl = true ->
    scaled_tile_sources g avail b sl = Affected ab nx ny ts ->
    Z.of_nat (length ts) = (nx * ny)%Z /\
    bbox_w ab = (fst (src_size nx ny (tw g) (th g)) * res_at g sl)%Z /\
    bbox_h ab = (snd (src_size nx ny (tw g) (th g)) * res_at g sl)%Z /\
    forall i x y l',
      nth_error ts i = Some (Some (x, y, l')) ->
      l' = sl /\ avail (x, y, l') = true /\
      ul_offset_ground ab (tile_bbox g x y sl) =
        ((fst (tile_offset nx (tw g) (th g) (Z.of_nat i)) * res_at g sl)%Z,
         (snd (tile_offset nx (tw g) (th g) (Z.of_nat i)) * res_at g sl)%Z).
Proof. exact Geo_proofs.scaled_tile_georef. Qed.

(* MESH path (different SRS), transform_meshes: divide_quad always partitions the quad - every pixel of the quad lies
   in exactly one of the returned quads, every other pixel in none - and the pieces stay inside it, so the
   recursion works on a partition of the output image; *)
Theorem mesh_partitions_output :
  forall q0 q1 q2 q3 i j, (q0 <= q2)%Z -> (q1 <= q3)%Z ->
    length (filter (fun s => in_quadb s i j) (divide_quad (q0, q1, q2, q3))) =
    if in_quadb (q0, q1, q2, q3) i j then 1%nat else 0%nat.
Proof. exact divide_quad_partition. Qed.

Theorem mesh_pieces_inside :
  forall q0 q1 q2 q3 s, (q0 <= q2)%Z -> (q1 <= q3)%Z -> In s (divide_quad (q0, q1, q2, q3)) ->
    let '(s0, s1, s2, s3) := s in (q0 <= s0 <= s2 /\ s2 <= q2 /\ q1 <= s1 <= s3 /\ s3 <= q3)%Z.
Proof. exact divide_quad_inside. Qed.

(* and for ANY external transformation T the source pixel coordinates of the corners of a mesh quad denote exactly
   T(ground point of the corner).  mesh_partial: nothing is claimed about the interior of a quad (PIL interpolates
   there; is_good bounds the error at the quad centre by max_px_err = 1 px by construction). *)
Theorem mesh_corner_exact :
  forall (T : qpt -> qpt) sb sw sh db dw dh off q c,
    pos_size sw sh -> nondegenerate sb ->
    In c (dst_quad_to_src T sb sw sh db dw dh off q) ->
    exists i j : Z,
      (let '(q0, q1, q2, q3) := q in (i = q0 \/ i = q2) /\ (j = q1 \/ j = q3)) /\
      qpt_eq (lin_transf (img_rect sw sh) sb c)
             (T (lin_transf (img_rect dw dh) db (inject_Z i + off, inject_Z j + off))).
Proof. exact Geo_proofs.mesh_corner_exact. Qed.

(* Meta tiles along y on grids numbered from the top: exact as along x, also when the buffer is cut at the top edge of
   the grid bbox.  (On grids numbered from the south with a top edge off the pixel lattice the cut is truncated:
   error < 1 px, part of the known finding accumulated-subpixel-error.) *)
Theorem meta_tile_georef_rows_ul :
  forall m x y l mb sz pats k tx ty tl ox oy,
    wf (mg m) -> valid_level (mg m) l = true -> (0 < msx m)%Z -> (0 < msy m)%Z -> ul (mg m) = true ->
    meta_tile m x y l = (mb, sz, pats) ->
    nth_error pats k = Some (Some (tx, ty, tl), (ox, oy)) ->
    tl = l /\ snd (ul_offset_ground mb (tile_bbox (mg m) tx ty tl)) = (oy * res_at (mg m) l)%Z.
Proof. exact meta_tile_georef_y_ul. Qed.

(* The recursion of transform_meshes (is_good / divide_quad), for ANY external transformation and whatever is_good
   decides: no pixel of the output image lies in more than one mesh quad (nothing is drawn twice, no quad leaves the
   image) and every mesh quad carries exactly the source corners dst_quad_to_src computes for it (mesh_corner_exact).
   _partial: that every pixel IS covered needs the recursion to end by is_good (true below 50 px) before the fuel of
   the model (40 levels) is used up; this is checked by the harness oracle mesh-not-partition, not proved. *)
Theorem mesh_recursion_partial :
  forall T Tinv sb sw sh db dw dh off mpe i j,
    (0 <= dw)%Z -> (0 <= dh)%Z ->
    (count_in (map fst (transform_meshes T Tinv sb sw sh db dw dh off mpe)) i j <= 1)%nat /\
    (forall q sq, In (q, sq) (transform_meshes T Tinv sb sw sh db dw dh off mpe) ->
                  sq = dst_quad_to_src T sb sw sh db dw dh off q).
Proof. exact transform_meshes_sound. Qed.

(* Georeference of the answer (FORMAT=image/tiff: ModelTiepointTag / ModelPixelScaleTag): for every request and every
   extent configured for its SRS (services.wms.bbox_srs; the request may be cut down to it and only a part rendered)
   the tags describe the REQUESTED rectangle: tie point + (i, j) * pixel scale is the ground position of pixel (i, j). *)
Theorem answer_georeference :
  forall b0 b1 b2 b3 w h ext i j, (0 < w)%Z -> (0 < h)%Z ->
    let '(_, (tie, scale)) := wms_map_answer (b0, b1, b2, b3) w h ext in
    qpt_eq (fst tie + inject_Z i * fst scale, snd tie - inject_Z j * snd scale)
           (info_coord (b0, b1, b2, b3) w h (i, j)).
Proof. exact answer_georef_is_request. Qed.

(* TileManager._load_tile_coords (`for created_tile in created_tiles: if created_tile.coord in tiles: tiles[coord].source =
   created_tile.source`, TileCollection.tiles_dict = last cell per coordinate): whatever the ORDER in which the creator
   returns the tiles (meta tile after meta tile, not the row order of the request) and whatever other tiles it returns,
   the cell of the request with coordinate c ends up with the image created for c.  Premises: c occurs once in the
   request (true for get_affected_level_tiles lists) and the creator made one image for c. *)
Theorem created_tile_lands_in_own_cell :
  forall (A : Type) (created : list (lcoord * A)) (cells : list (lcell A)) k c v,
    nth_error (map fst cells) k = Some (Some c) ->
    (forall j, nth_error (map fst cells) j = Some (Some c) -> j = k) ->
    (forall v', In (c, v') created -> v' = v) ->
    In (c, v) created ->
    nth_error (load_assign cells created) k = Some (Some c, Some v).
Proof. exact load_assign_created_own. Qed.
