(* C11  Seeding creates every selected tile, nothing else, and survives interruption.
   Property theorems only; proofs live in theories/Seed_proofs.v, the model in theories/Seed.v.

   Vocabulary (Seed.v):  a walk tree `wnode` has one node per TileWalker._walk call (level, "this level is
   seeded", "this level reports progress", number of subtiles, the filtered subtiles); `run_walk old tree lv`
   is the trace of TileWalker.walk continuing from the saved progress identifier `old` (None = no progress
   file): EProc t = meta tile t handed to the worker pool, ERep lv id = progress report that would persist the
   identifier id; `procs` extracts the tiles; `geo_tree` is the tree induced by a grid, meta size, level list
   and coverage predicate; `err_free tree` = the tree contains no raising _walk call (an abstract tree may; the tree
   of a seed task on a well-formed grid never does: walk_completes, after the repair of finding C11-sliver);
   `geo_wf g msx msy` = positive tile size, resolutions and meta size; `levels_wf g levels` = strictly increasing
   valid levels (what LevelsList.for_grid produces). *)
From Coq Require Import ZArith List Bool Arith.
Import ListNotations.
From MP Require Import Base Grid Seed Gen_seed_id Seed_proofs.
Local Open Scope Z_scope.

(* ---- survives interruption *)

(* For every task (walk tree), every interruption point k of the uninterrupted traversal and every progress report
   issued before it (index j < k; which of them is on disk depends on wall-clock gating, so all are covered):
   the tiles handed to the workers before the interruption together with those of the run continued from the
   persisted identifier cover everything the uninterrupted run hands over. *)
Theorem resume_covers :
  forall tree final_lv k j lv id,
    err_free tree ->
    nth_error (run_walk None tree final_lv) j = Some (ERep lv id) -> (j < k)%nat ->
    incl (procs (run_walk None tree final_lv))
         (procs (firstn k (run_walk None tree final_lv)) ++ procs (run_walk id tree final_lv)).
Proof. exact resume_covers_lemma. Qed.

(* The same for any number of interruptions: after any history of interrupted runs (each continuing from what the
   previous one persisted, or from the same identifier when it died before persisting anything) the accumulated
   work plus one run to completion covers the uninterrupted run. *)
Theorem resume_covers_history :
  forall tree final_lv old acc,
    err_free tree -> history tree final_lv old acc ->
    incl (procs (run_walk None tree final_lv)) (acc ++ procs (run_walk old tree final_lv)).
Proof. exact resume_covers_history_lemma. Qed.

(* A continued run never hands over a tile that the uninterrupted run does not (nothing else is created because
   of an interruption), whatever identifier it continues from. *)
Theorem resumed_run_nothing_else :
  forall tree final_lv old t,
    err_free tree ->
    In t (procs (run_walk old tree final_lv)) -> In t (procs (run_walk None tree final_lv)).
Proof. exact resumed_nothing_else_lemma. Qed.

(* ---- the skip rule is a strict order on positions of the depth-first traversal *)

(* can_skip old cur holds exactly when cur lies strictly before old: at the first position where the two paths
   differ, cur has the smaller (index, count) pair; in particular neither is a prefix of the other *)
Theorem can_skip_is_strictly_before :
  forall old cur, old <> [] ->
    (can_skip (Some old) (Some cur) = true <->
     exists c x y cs os, cur = c ++ x :: cs /\ old = c ++ y :: os /\ pair_ltb x y = true).
Proof. exact can_skip_is_strictly_before_lemma. Qed.

Theorem can_skip_strict_order_irreflexive :
  forall p, p <> [] -> can_skip (Some p) (Some p) = false.
Proof. exact can_skip_irrefl. Qed.

Theorem can_skip_strict_order_transitive :
  forall a b c, b <> [] -> c <> [] ->
    can_skip (Some b) (Some a) = true -> can_skip (Some c) (Some b) = true -> can_skip (Some c) (Some a) = true.
Proof. exact can_skip_trans. Qed.

Theorem can_skip_strict_order_asymmetric :
  forall a b, a <> [] -> b <> [] -> can_skip (Some b) (Some a) = true -> can_skip (Some a) (Some b) = false.
Proof. exact can_skip_asym. Qed.

(* a node on the path to the saved position (a prefix of it) is never skipped, nor is anything below the saved position *)
Theorem can_skip_never_skips_prefix :
  forall p s, p ++ s <> [] -> can_skip (Some (p ++ s)) (Some p) = false.
Proof. exact can_skip_prefix. Qed.

Theorem can_skip_never_skips_below :
  forall p s, p <> [] -> can_skip (Some p) (Some (p ++ s)) = false.
Proof. exact can_skip_below. Qed.

(* ---- nothing else *)

(* A seed task without skip_geoms_for_last_levels that runs to completion (continued from any identifier) hands
   over only meta tiles that the coverage predicate does not classify as NONE - including the tiles that were
   taken without a test because an ancestor's meta tile is CONTAINED in the coverage.
   Named _partial: the hypothesis cov_monotone ("below a rectangle b with cov b = CONTAINS, every meta tile that
   get_affected_level_tiles selects for a sub-rectangle of b is not NONE") combines monotonicity of the coverage
   with the geometric fact that a selected meta tile overlaps the rectangle it was selected for (C03's
   affected_tiles_no_touch, for MetaGrid).  Superseded by walk_sound below, where the geometric fact is proved and only
   a condition on the coverage alone remains; kept because it needs neither fine_res nor a proper start rectangle. *)
Theorem walk_sound_partial :
  forall g msx msy cov levels root old t,
    geo_wf g msx msy -> levels_wf g levels -> levels <> [] ->
    cov_monotone g msx msy cov ->
    In t (procs (geo_walk g msx msy cov 0 levels root old)) ->
    cov (meta_bbox g msx msy t) <> 0.
Proof. exact walk_sound_geo_lemma. Qed.

(* Nothing else WITHOUT cov_monotone: the geometric fact is proved (Seed_proofs.selected_overlaps: every meta tile that
   get_affected_level_tiles lists for a rectangle of positive area overlaps that rectangle with positive area, on every
   grid shape, meta size and origin, including the centre-line rule for rectangles thinner than 2/10 pixel), so only a
   condition on the coverage itself is left: cov_overlap_monotone cov = "when the coverage CONTAINS a rectangle b, no
   rectangle that overlaps b with positive area is NONE" (true of every set-theoretic coverage: polygons, multi
   coverages, other SRS).  Other premises: proper root = the rectangle the walk starts from (the coverage extent) has
   positive width and height; fine_res g = the coordinate quantum is at most 1/10 pixel of every level (10 <= res, so that
   the 1/10-pixel inset res / 10 of the model is not rounded to zero - a convention of the integer model, not a
   restriction on grids).  Then a task without skip_geoms_for_last_levels, run to completion or continued from any
   saved progress, hands over only meta tiles that are not NONE - including those taken without a test below a
   CONTAINED meta tile. *)
Theorem walk_sound :
  forall g msx msy cov levels root old t,
    geo_wf g msx msy -> fine_res g -> levels_wf g levels -> levels <> [] -> proper root ->
    cov_overlap_monotone cov ->
    In t (procs (geo_walk g msx msy cov 0 levels root old)) ->
    cov (meta_bbox g msx msy t) <> 0.
Proof. exact walk_sound_overlap_lemma. Qed.

(* The geometric fact itself (get_affected_level_tiles of MetaGrid never lists a meta tile that merely touches the
   rectangle or lies outside it). *)
Theorem selected_meta_tiles_overlap :
  forall g msx msy cur l t,
    geo_wf g msx msy -> fine_res g -> valid_level g l = true -> proper cur ->
    In (Some t) (affected_tiles g msx msy cur l) ->
    overlaps (meta_bbox g msx msy t) cur.
Proof. exact selected_overlaps. Qed.

(* bbox coverages and multi coverages of bboxes in the grid SRS (cov_bboxes = SeedTask.intersects for them, compared
   with the real code by the correspondence) satisfy the condition, provided the 1e-13 relative tolerance of
   grid.bbox_contains is below the coordinate quantum (exact_tol: every coverage bbox is narrower than 1e13 quanta) ... *)
Theorem bbox_coverages_overlap_monotone :
  forall cs, exact_tol cs -> cov_overlap_monotone (cov_bboxes cs).
Proof. exact cov_bboxes_overlap_monotone. Qed.

(* ... hence the closed statement for these coverages, with no premise about the coverage predicate: every meta tile
   handed to the workers intersects (or lies in) one of the coverage bboxes. *)
Theorem walk_sound_bbox_coverages :
  forall g msx msy cs levels root old t,
    geo_wf g msx msy -> fine_res g -> levels_wf g levels -> levels <> [] -> proper root -> exact_tol cs ->
    In t (procs (geo_walk g msx msy (cov_bboxes cs) 0 levels root old)) ->
    exists c, In c cs /\ (bbox_contains_tol c (meta_bbox g msx msy t) = true \/
                          bbox_intersects c (meta_bbox g msx msy t) = true).
Proof. exact walk_sound_bboxes_lemma. Qed.

(* Why fine_res is a premise: in the integer model a resolution below 10 quanta makes the inset res / 10 zero, and then
   a tile that merely touches a CONTAINED rectangle is taken without a test (witness: 8 x 8 grid, resolutions 4 and 2,
   coverage (0, 0, 4, 4), tile (2, 0, 1)).  The implementation's inset is never zero; the premise only fixes the
   scaling of the integer coordinates. *)
Theorem walk_sound_coarse_quantum_refuted :
  exists g msx msy cs levels root t,
    geo_wf g msx msy /\ levels_wf g levels /\ levels <> [] /\ proper root /\ exact_tol cs /\
    In t (procs (geo_walk g msx msy (cov_bboxes cs) 0 levels root None)) /\
    cov_bboxes cs (meta_bbox g msx msy t) = 0.
Proof. exact walk_sound_coarse_quantum_refuted_lemma. Qed.

(* For EVERY coverage predicate and EVERY skip_geoms_for_last_levels (where tiles of the last levels are taken without a
   coverage test, so walk_sound cannot hold): no task, complete or continued, hands over a meta tile outside the
   rectangle it starts from (the extent of the coverage) - each one overlaps it with positive area. *)
Theorem walk_within_start_rectangle :
  forall g msx msy cov skipk levels root old t,
    geo_wf g msx msy -> fine_res g -> levels_wf g levels -> levels <> [] -> proper root ->
    In t (procs (geo_walk g msx msy cov skipk levels root old)) ->
    overlaps (meta_bbox g msx msy t) root.
Proof. exact walk_within_start_rect_lemma. Qed.

(* ---- everything selected *)

(* Structural form: whenever there is a chain of meta tiles c_0 .. c_L (one per level from 0 to a seeded level L) such
   that c_0 is among the tiles get_affected_level_tiles lists for the start rectangle, c_(k+1) among those listed for
   limit_sub_bbox(previous rectangle, bbox of meta tile c_k), and no c_k is NONE for the coverage (chain_ok), then
   c_L is handed to the workers - for every grid, meta size, coverage predicate, skip_geoms and level subset. *)
Theorem walk_complete_chain :
  forall g msx msy cov skipk levels root ch,
    geo_wf g msx msy -> levels_wf g levels ->
    ch <> [] -> chain_ok g msx msy cov root 0 ch ->
    In (Z.of_nat (length ch) - 1) levels ->
    In (last ch (0, 0, 0)) (procs (geo_walk g msx msy cov skipk levels root None)).
Proof. exact walk_complete_chain_lemma. Qed.

(* Geometric form (walk_complete_interior of DESIGN.md), for every grid shape and resolution list with non-increasing
   resolutions up to L: take a point (px, py) such that at every traversed level k <= L its tile is a tile of the grid
   and the meta tile owning it is not NONE for the coverage, that lies at least 1/10 pixel of level 0 inside the start
   rectangle (the coverage extent) and, for k < L, at least 1/10 pixel of level k+1 inside its level-k meta tile.
   Then the meta tile owning the point at the seeded level L is handed to the workers.
   For nested pyramids the last premise is not needed: walk_complete_nested below.  The 1/10-pixel premises are what the
   code's inset really loses on irregular pyramids and at the border of the coverage extent. *)
Theorem walk_complete_interior :
  forall g msx msy cov skipk levels root px py L,
    geo_wf g msx msy -> levels_wf g levels -> In L levels ->
    (forall k, 0 <= k <= L ->
               valid_level g k = true /\ point_in_grid g px py k /\
               cov (meta_bbox g msx msy (point_meta g msx msy px py k)) <> 0) ->
    inset root (res_at g 0 / 10) px py ->
    (forall k, 0 <= k < L ->
               res_at g (k + 1) <= res_at g k /\
               inset (meta_bbox g msx msy (point_meta g msx msy px py k)) (res_at g (k + 1) / 10) px py) ->
    In (point_meta g msx msy px py L) (procs (geo_walk g msx msy cov skipk levels root None)).
Proof. exact walk_complete_interior_lemma. Qed.

(* ---- runs to completion (finding C11-sliver, repaired) *)

(* Every seed task on a grid with positive tile size, resolutions and meta size and strictly increasing valid levels
   runs to completion whatever the coverage, the rectangle it starts from, skip_geoms_for_last_levels and the saved
   progress: no _walk call raises (get_affected_level_tiles never yields an empty tile range, no level is out of
   range).  Before the repair this was refuted by a coverage thinner than 2/10 pixel straddling a tile edge. *)
Theorem walk_completes :
  forall g msx msy cov skipk levels root old,
    geo_wf g msx msy -> levels_wf g levels -> levels <> [] ->
    ~ In EErr (geo_walk g msx msy cov skipk levels root old).
Proof. exact walk_completes_lemma. Qed.

(* resume_covers for seed tasks on a grid, with no assumption about exceptions *)
Theorem resume_covers_geo :
  forall g msx msy cov skipk levels root k j lv id,
    geo_wf g msx msy -> levels_wf g levels -> levels <> [] ->
    nth_error (geo_walk g msx msy cov skipk levels root None) j = Some (ERep lv id) -> (j < k)%nat ->
    incl (procs (geo_walk g msx msy cov skipk levels root None))
         (procs (firstn k (geo_walk g msx msy cov skipk levels root None)) ++
          procs (geo_walk g msx msy cov skipk levels root id)).
Proof. exact resume_covers_geo_lemma. Qed.

(* ---- what a process call hands over (walker after the repair "examine every tile of a meta tile") *)

(* In the traces above EProc t stands for the meta tile with main tile t.  `observe` turns a trace into what the worker
   pool really sees: one call per meta tile with the list handed_tiles (handle_all: [t]; otherwise the members of the
   meta tile that pass the filter keep = "not cached" / "stale"), no call when that list is empty.
   The list consists exactly of the tiles of the grid that belong to the meta tile of t and pass the filter: no member
   that needs work is left out (the defect repaired by the commit), nothing outside the meta tile is added. *)
Theorem handed_tiles_exactly_the_members :
  forall g msx msy womt keep tx ty l c,
    In c (handed_tiles g msx msy womt false keep (tx, ty, l)) <->
    exists x y,
      c = (x, y, l) /\ keep c = true /\
      (let '(sx, sy) := meta_size g msx msy l in
       tx / sx * sx <= x <= tx / sx * sx + sx - 1 /\ ty / sy * sy <= y <= ty / sy * sy + sy - 1) /\
      (let '(nx, ny) := grid_size g l in 0 <= x < nx /\ 0 <= y < ny).
Proof. exact handed_tiles_spec. Qed.

(* the single tiles of the observable trace are the handed-over members of the meta tiles of the walk *)
Theorem observed_tiles_are_handed :
  forall g msx msy womt hall keep evs,
    oprocs (observe g msx msy womt hall keep evs) = handed_all g msx msy womt hall keep evs.
Proof. exact oprocs_observe. Qed.

(* resume_covers on the single tiles handed over, for either mode and any (fixed) cache content *)
Theorem resume_covers_handed :
  forall g msx msy cov skipk levels root k j lv id womt hall keep,
    geo_wf g msx msy -> levels_wf g levels -> levels <> [] ->
    nth_error (geo_walk g msx msy cov skipk levels root None) j = Some (ERep lv id) -> (j < k)%nat ->
    incl (handed_all g msx msy womt hall keep (geo_walk g msx msy cov skipk levels root None))
         (handed_all g msx msy womt hall keep (firstn k (geo_walk g msx msy cov skipk levels root None)) ++
          handed_all g msx msy womt hall keep (geo_walk g msx msy cov skipk levels root id)).
Proof. exact resume_covers_handed_lemma. Qed.

(* caches with upscale_tiles / downscale_tiles (work_on_metatiles = False) and refresh_all: the call hands over every
   tile of the grid that lies in the meta tile *)
Theorem handed_tiles_rescale_all_members :
  forall g msx msy keep tx ty l c,
    In c (handed_tiles g msx msy false true keep (tx, ty, l)) <->
    exists x y,
      c = (x, y, l) /\
      (let '(sx, sy) := meta_size g msx msy l in
       tx / sx * sx <= x <= tx / sx * sx + sx - 1 /\ ty / sy * sy <= y <= ty / sy * sy + sy - 1) /\
      (let '(nx, ny) := grid_size g l in 0 <= x < nx /\ 0 <= y < ny).
Proof. exact handed_tiles_rescale_all_spec. Qed.

(* ---- one progress entry per task *)

(* seed_task_id is generated from SeedTask.id (translator/specs/seed_id.py -> gen/Gen_seed_id.v): the id determines
   name, cache, grid and level list, so different tasks of a seed run never share a progress entry ... *)
Theorem task_id_injective :
  forall n c g l n' c' g' l',
    seed_task_id n c g l = seed_task_id n' c' g' l' -> n = n' /\ c = c' /\ g = g' /\ l = l'.
Proof. exact seed_task_id_injective. Qed.

(* ... in particular the tasks of the one-task-per-level split that seed/config.py makes for rescaling caches *)
Theorem per_level_tasks_have_distinct_ids :
  forall n c g levels, NoDup levels -> NoDup (map (fun l => seed_task_id n c g [l]) levels).
Proof. exact per_level_ids_distinct. Qed.

(* The progress store (dict id -> identifier): whatever the other tasks of the run write, before, between or after
   the runs of a task, the entry this task reads back is the one its own last persisted report wrote.  Hence every
   task of a seed run has its own `history` and resume_covers_history applies to it. *)
Theorem progress_entries_independent :
  forall n c g l others s,
    (forall w, In w others -> exists n' c' g' l', fst w = seed_task_id n' c' g' l' /\ (n, c, g, l) <> (n', c', g', l')) ->
    store_get id_eqb (store_adds s others) (seed_task_id n c g l) = store_get id_eqb s (seed_task_id n c g l).
Proof. exact progress_entries_independent_lemma. Qed.

Theorem progress_entry_own_write :
  forall n c g l s v, store_get id_eqb (store_add s (seed_task_id n c g l) v) (seed_task_id n c g l) = v.
Proof. exact progress_entry_own_write_lemma. Qed.

(* ---- the hand-over to the worker processes (TileWorkerPool.process / stop, TileWorker.work_loop) *)

(* process() either appends the list to the queue exactly once or leaves the queue untouched (and then does not report
   success): a list is never dropped silently and never handed over twice *)
Theorem pool_process_hands_over_once_or_not_at_all :
  forall (T : Type) env (q : list (option T)) tiles,
    (fst (pool_process env q tiles) = Handed /\ snd (pool_process env q tiles) = q ++ [Some tiles]) \/
    (fst (pool_process env q tiles) <> Handed /\ snd (pool_process env q tiles) = q).
Proof. exact pool_process_spec. Qed.

(* however often the queue is full: while some worker is alive process() keeps trying and hands the list over *)
Theorem pool_process_retries_while_workers_alive :
  forall (T : Type) env1 env2 (q : list (option T)) tiles,
    Forall (fun o => o = PutFull true) env1 ->
    pool_process (env1 ++ PutOk :: env2) q tiles = (Handed, q ++ [Some tiles]).
Proof. exact pool_process_alive. Qed.

(* stop(): one sentinel per live worker behind everything handed over so far, then join.  For every number of workers
   and every interleaving of their steps: once all workers have exited, every list that was queued, in flight or
   finished before is finished - an interrupted run does not abandon tiles that the saved progress counts as done *)
Theorem pool_stop_drains :
  forall (T : Type) (ts : list T) (ws : list (wstat T)) done sched,
    Forall (fun w => alive w = true) ws -> ws <> [] ->
    let p1 := run_workers (pool_stop (mkPool (map Some ts) ws done)) sched in
    Forall (fun w => w = WExited) (pw p1) ->
    incl (done ++ busy T ws ++ ts) (pdone p1).
Proof. exact pool_stop_drains_lemma. Qed.

(* walk_complete_nested (DESIGN.md): on a pyramid in which every resolution is an integer multiple of the next one (factor 2
   grids; any meta size, both origins, any extent) no interiority with respect to tiles is needed.  A point that lies at
   least 1/10 pixel of level 0 inside the start rectangle (the coverage extent), and whose tile at every level k <= L is a
   tile of the grid whose meta tile is not NONE for the coverage, has its meta tile of the seeded level L handed to the
   workers - also when the point lies exactly on tile edges.  (Proof: every side of the rectangle the walk descends into is
   either at least 1/10 pixel away from the point or a tile edge of the current level on the right side of the point;
   limit_sub_bbox and the step to the next level preserve this, and it implies selection by get_affected_level_tiles,
   including the centre-line rule for rectangles thinner than 2/10 pixel.) *)
Theorem walk_complete_nested :
  forall g msx msy cov skipk levels root px py L,
    geo_wf g msx msy -> levels_wf g levels -> In L levels ->
    (forall k, 0 <= k <= L ->
               valid_level g k = true /\ point_in_grid g px py k /\
               cov (meta_bbox g msx msy (point_meta g msx msy px py k)) <> 0) ->
    inset root (res_at g 0 / 10) px py ->
    (forall k, 0 <= k < L -> exists c, 0 < c /\ res_at g k = c * res_at g (k + 1)) ->
    In (point_meta g msx msy px py L) (procs (geo_walk g msx msy cov skipk levels root None)).
Proof. exact walk_complete_nested_lemma. Qed.

(* ---- stopping through SeedProgress.running() *)

(* run_walk_s models the walker including the StopProcess path (the hook answers False at a chosen _walk call); it is
   compared with the real walker on stopped and continued runs.  With a hook that never answers False it is exactly the
   walker all theorems above are about.  NOT proved: that a stopped run followed by a continued run covers everything
   (the harness checks it on the implementation for sampled / all stop points). *)
Theorem never_stopping_hook_is_plain_walk :
  forall old tree final_lv, run_walk_s old tree final_lv None = run_walk old tree final_lv.
Proof. exact run_walk_s_never. Qed.

(* ---- an interruption inside the work of a seed worker (cache that stores the tiles of a meta tile one by one) *)

(* For every cache content, every meta tile and every number j of store_tile calls after which the worker process dies: when
   the walker visits the meta tile again (continued run: the saved progress never covers a meta tile whose hand-over was not
   finished, resume_covers) it hands over the members that are still missing and the worker's _create_meta_tile stores the
   meta tile: afterwards every member exists.  (The re-check under the lock looks at ALL members; ex_interrupted_store in
   Seed_proofs.v shows the lock tile alone is not enough.)  Tied to the implementation by the store_crash probe of the
   harness: the store_tile calls of every hand-over are compared with worker_stores (correspondence meta_store). *)
Theorem interrupted_store_completed :
  forall c members j t,
    let c1 := cache_after c (worker_stores c members (uncached_members c members)) j in
    let c2 := c1 ++ worker_stores c1 members (uncached_members c1 members) in
    In t members -> cache_has c2 t = true.
Proof. exact interrupted_store_completed_lemma. Qed.

(* a completely cached meta tile causes no store (and no upstream request) whatever is handed over *)
Theorem cached_meta_tile_not_stored_again :
  forall c members handed, forallb (cache_has c) members = true -> worker_stores c members handed = [].
Proof. exact worker_stores_nothing_cached. Qed.
