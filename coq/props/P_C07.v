(* C07  File locks are exclusive and semaphores bounded under every interleaving.
   Property theorems only; proofs live in theories/Lock_proofs.v.

   Reading guide.  `run chk cfg init l = Some s`: the schedule l (a list of (process, system call)) is a
   possible execution of the lock code from the initial state (no lock file, every process outside) and ends
   in state s; chk = true is the code as it is (identity check of the lock file after flock, commit 493c25f),
   chk = false the protocol before that repair.  `cfg p` says which lock object process p uses:
   FileLock(remove_on_unlock = rm) or SemLock(n), and its timeout.  The number of processes is unbounded
   (pid = nat), schedules are arbitrary lists, every mix of release styles on the same path is covered. *)
From Coq Require Import ZArith List Bool Arith.
Import ListNotations.
From MP Require Import Lock Lock_proofs.

(* Keep-the-file locks: at most one process is inside, under every schedule, with or without the identity
   check. *)
Theorem mutex_keepfile :
  forall chk cfg l s p q,
    keepfile cfg -> all_filelocks cfg ->
    run chk cfg init l = Some s -> inside s p -> inside s q -> p = q.
Proof. exact mutex_keepfile_lemma. Qed.

(* FileLocks of any release style (remove_on_unlock or not, mixed on one path), code as it is: at most one
   process is inside, under every schedule. *)
Theorem mutex_remove_on_unlock :
  forall cfg l s p q,
    all_filelocks cfg ->
    run true cfg init l = Some s -> inside s p -> inside s q -> p = q.
Proof. exact mutex_remove_lemma. Qed.

(* Without the identity check the same statement is false: three users of one remove_on_unlock lock, eleven
   calls, two of them inside (finding F5; what a mutation that removes the check re-introduces). *)
Theorem mutex_remove_on_unlock_refuted_without_check :
  exists s, run false f5_cfg init f5_schedule_nocheck = Some s /\ inside_at s 1 0 /\ inside_at s 2 0.
Proof. exact f5_two_inside_without_check. Qed.

(* Every single lock file (path k) of a FileLock or SemLock admits at most one process, whenever the protocol
   is `safe`: identity check present, or nobody removes. *)
Theorem mutex_per_lock_file :
  forall chk cfg l s p q k,
    safe chk cfg ->
    run chk cfg init l = Some s -> inside_at s p k -> inside_at s q k -> p = q.
Proof. exact mutex_per_lock_file_lemma. Qed.

(* Counting variant: if every contender uses a semaphore (or lock) of at most n slots, any set of distinct
   processes that are inside at the same time has at most n members. *)
Theorem semaphore_bounded :
  forall cfg n l s pids,
    (forall p, nslots (cfg p) <= n) ->
    run true cfg init l = Some s ->
    NoDup pids -> (forall p, In p pids -> inside s p) -> length pids <= n.
Proof. exact semaphore_bounded_lemma. Qed.

(* A failed attempt, first kind (flock refused): at that moment another process q has an open descriptor with
   the flock taken on the very inode p opened through the path (q is inside, about to check or to release, or
   has unlinked the file and not yet dropped its LockFile).  p goes on to close its file. *)
Theorem failed_attempt_means_held :
  forall chk cfg l s p s' e,
    safe chk cfg -> run chk cfg init l = Some s ->
    step chk cfg s p OFlock = Some (s', RFlock false, e) ->
    exists a i q, st_pc (ps s p) = Opened a i /\ q <> p /\ owner s i = Some q /\ holds s q i /\
                  st_pc (ps s' p) = Closing a i false.
Proof. exact failed_flock_lemma. Qed.

(* A released lock can be taken again: in any reachable state in which p is outside and no other process has
   a LockFile with the flock taken (the others may be idle, sleeping between polls, or anywhere before their
   flock call), p running alone is inside after at most six calls of its own - time, [randint], open, flock,
   stat, [close of the file its previous unlock-by-remove left open] - whatever clock reading t and random
   start slot r < n it gets; the last call makes lock() return. *)
Theorem released_lock_acquirable :
  forall cfg l s p t r,
    run true cfg init l = Some s ->
    st_pc (ps s p) = Idle -> quiet_others s p -> r < nslots (cfg p) ->
    exists s' k i,
      run_ev true cfg s (solo p (solo_ops (cfg p) (has_zomb s p) t r)) ENone = Some (s', EAcquired k i) /\
      st_pc (ps s' p) = Inside k i.
Proof. exact released_lock_acquirable_lemma. Qed.

(* LockTimeout (partial).  It is raised only by a clock reading t >= stop_time, and that reading directly
   follows (no call of p in between) the close ending a failed attempt of this lock() call in which all n lock
   files were tried.  NOT proved, because it is false of a polling lock and not expressible at this
   granularity: that the lock was unavailable continuously between two polls - a lock released and re-taken
   by others while p slept is indistinguishable, for p, from one held throughout. *)
Theorem timeout_partial :
  forall chk cfg l s p o s' r,
    run chk cfg init l = Some s -> step chk cfg s p o = Some (s', r, ETimeout) ->
    exists stop t, o = OTime t /\ (stop <= t)%Z /\ after_failed_attempt chk cfg l p stop.
Proof. exact timeout_partial_lemma. Qed.

(* A failed attempt, second kind (identity check failed: after p's flock succeeded the path names another file
   or none).  Then, during this very attempt - after p had opened inode i through the path and before p opened
   anything else - another process q was inside holding the flock of that same inode i through the same path,
   and released it by removing the file.  Together with failed_attempt_means_held: every attempt that ends in
   LockError overlapped a moment at which another process held the lock p was trying to take. *)
Theorem failed_check_means_held :
  forall cfg l s p a i,
    run true cfg init l = Some s -> st_pc (ps s p) = Closing a i true ->
    removed_under true cfg l p a i.
Proof. exact failed_check_lemma. Qed.

(* unlock() of a remove_on_unlock lock always finds and removes exactly the file the process has locked (the
   `except OSError` branch of FileLock.unlock is dead while every user of the path goes through FileLock);
   afterwards the path is free and the process is outside. *)
Theorem unlock_removes_own_file :
  forall cfg l s p s' r e,
    run true cfg init l = Some s -> step true cfg s p ORemove = Some (s', r, e) ->
    exists k i, st_pc (ps s p) = Inside k i /\ path s k = Some i /\ owner s i = Some p /\
                r = RRemove true /\ path s' k = None /\ st_pc (ps s' p) = Idle.
Proof. exact unlock_remove_lemma. Qed.

(* A process that is outside and has dropped (or never had) a left-over file holds no flock at all: unlock
   really releases. *)
Theorem idle_process_owns_nothing :
  forall chk cfg l s p i,
    safe chk cfg -> run chk cfg init l = Some s ->
    st_pc (ps s p) = Idle -> st_zomb (ps s p) = None -> owner s i <> Some p.
Proof. exact idle_owns_nothing_lemma. Qed.

(* SemLock rotation i = (i+1) % n: whatever the random start r, the n attempts of one _try_lock call visit
   every one of the n lock files (so a LockError of the semaphore means all n files were found locked). *)
Theorem sem_rotation_visits_every_slot :
  forall n r k, r < n -> k < n ->
    exists j, j < n /\ Nat.iter j (fun x => S x mod n) r = k.
Proof. exact sem_rotation_lemma. Qed.

(* ---- lock users together with cleanup_lockdir (runc / stepc: a KClean process runs the clean-up of the lock
   directory, as TileLocker.lock does on every 50th call).  The modification time the clean-up reads is supplied by
   the environment (label OMtime), like the clock. *)

(* As long as no clean-up pass gets as far as os.unlink, the lock users are not disturbed: one process per lock
   file ... *)
Theorem mutex_with_cleanup :
  forall chk cfg l s p q k,
    safe chk cfg -> runc chk cfg init l = Some s -> no_unlink l ->
    inside_at s p k -> inside_at s q k -> p = q.
Proof. exact mutex_with_cleanup_lemma. Qed.

(* ... and at most n inside a semaphore. *)
Theorem semaphore_bounded_with_cleanup :
  forall cfg n l s pids,
    (forall p, nslots (cfg p) <= n) -> runc true cfg init l = Some s -> no_unlink l ->
    NoDup pids -> (forall p, In p pids -> inside s p) -> length pids <= n.
Proof. exact bounded_with_cleanup_lemma. Qed.

(* The age guard: a clean-up pass reaches os.unlink only from a modification-time reading m < expire_time, where
   expire_time = (clock reading of this cleanup_lockdir call) - max_lock_time; emptiness of the file, its owner or
   anything else plays no role (what the seeded change "also remove empty lock files" breaks). *)
Theorem cleanup_age_guard :
  forall chk cfg s p o s' r e,
    is_clean (cfg p) = true -> stepc chk cfg s p o = Some (s', r, e) ->
    match st_pc (ps s' p) with
    | CScan ex => exists t, o = OTime t /\ ex = (t - p_timeout (cfg p))%Z
    | CStat ex => st_pc (ps s p) = CScan ex /\ o = OList
    | CUnlink => exists ex m, st_pc (ps s p) = CStat ex /\ o = OMtime (Some m) /\ (m < ex)%Z /\ path s' = path s
    | Idle => True
    | _ => False
    end.
Proof. exact cleanup_guard_step_lemma. Qed.

(* cleanup_never_removes_held_file_partial.  What is proved: the two theorems above (no unlink without an old
   reading; no disturbance without an unlink).  What is NOT proved: that a held file never reads old - that needs
   the file's modification time and the holder's holding time in the model (mtime >= acquisition time, holding
   time <= max_lock_time = lock_timeout + 10 s); and it is false without that bound: the documented override, and
   because getmtime and unlink are two calls, a stale file that is locked between them loses its name too. *)
Theorem cleanup_override_refuted :
  exists s, runc true clean_cfg init override_schedule = Some s /\ inside_at s 0 0 /\ inside_at s 1 0.
Proof. exact cleanup_override_two_inside. Qed.

(* unlock() is idempotent: outside the locked section no release call is enabled (os.remove never; close only as
   the drop of the file an unlock-by-remove left open, which changes no path), so a second unlock() or __del__
   cannot touch the lock file of the next holder. *)
Theorem unlock_idempotent :
  forall chk cfg s p,
    st_pc (ps s p) = Idle ->
    step chk cfg s p ORemove = None /\
    (st_zomb (ps s p) = None -> step chk cfg s p OClose = None) /\
    (forall s' r e, step chk cfg s p OClose = Some (s', r, e) -> path s' = path s /\ st_pc (ps s' p) = Idle).
Proof. exact unlock_idempotent_lemma. Qed.

(* ---- with time (treach / tstep): one clock; the modification time of a lock file is the time of its last
   open(path, 'w+') or pid write; OTime and OMtime readings are the values of that clock and of that time.
   tile_locks B cfg: every lock user is a FileLock(remove_on_unlock=True) (the tile locks TileLocker hands out),
   every clean-up runs with max_lock_time >= B.  treach B: every state passed through is `timely B`: no process
   takes longer than B from opening a lock file to releasing it (or to the end of its failed attempt). *)

(* cleanup_lockdir never removes a lock file that is in use, indeed none at all: along timely runs no clean-up
   pass ever reaches os.unlink (the file at the path is always open in some process that has not given up on it,
   that process opened it at most B ago, and the modification time is not older than that). *)
Theorem cleanup_never_unlinks :
  forall B cfg ts,
    (0 <= B)%Z -> tile_locks B cfg -> treach B true cfg ts ->
    (forall p, st_pc (ps (base ts) p) <> CUnlink) /\ (forall p, tstep true cfg ts p OUnlink = None).
Proof. exact cleanup_never_unlinks_lemma. Qed.

(* Hence the name of a lock file disappears only through the unlock of the process that is inside through it:
   a held lock file is never removed by anybody else. *)
Theorem cleanup_never_removes_held_file :
  forall B cfg ts p o ts' i,
    (0 <= B)%Z -> tile_locks B cfg -> treach B true cfg ts ->
    tstep true cfg ts p o = Some ts' -> path (base ts) 0 = Some i ->
    path (base ts') 0 = Some i \/ (o = ORemove /\ st_pc (ps (base ts) p) = Inside 0 i).
Proof. exact held_file_keeps_name_lemma. Qed.

(* and mutual exclusion holds along timely runs of lock users and clean-up processes, with no side condition on
   the schedule other than timeliness *)
Theorem mutex_timed :
  forall B cfg ts p q k,
    (0 <= B)%Z -> tile_locks B cfg -> treach B true cfg ts ->
    inside_at (base ts) p k -> inside_at (base ts) q k -> p = q.
Proof. exact mutex_timed_lemma. Qed.

(* The timing assumption cannot be dropped (the documented override of locks older than max_lock_time): a holder
   that keeps the lock for 100 s against max_lock_time = 10 s loses the name of its file and a second process
   enters.  NOT covered by the theorems above: keep-the-file locks and lock files left behind by a crashed holder -
   there a stale file exists that nobody has open, and because getmtime and unlink are two calls, a process that
   locks it in between loses it (no bound on its own timing helps). *)
Theorem cleanup_needs_timely_refuted :
  exists ts, trun true clean_cfg tinit timed_override_schedule = Some ts /\
             inside_at (base ts) 0 0 /\ inside_at (base ts) 1 0.
Proof. exact timed_override_two_inside. Qed.

(* ---- environment faults (runf / stepf): OFlockErr = fcntl.flock fails with an errno other than "held by somebody
   else" (ENOLCK ...), ORemoveErr = os.remove of unlock() fails although the file is there (EPERM, read-only
   directory).  Any number of them, anywhere in the schedule. *)

(* Faults never break the exclusion: one process per lock file ... *)
Theorem mutex_with_faults :
  forall chk cfg l s p q k,
    safe chk cfg -> runf chk cfg init l = Some s -> no_unlink l ->
    inside_at s p k -> inside_at s q k -> p = q.
Proof. exact mutex_with_faults_lemma. Qed.

(* ... and at most n inside a semaphore. *)
Theorem semaphore_bounded_with_faults :
  forall cfg n l s pids,
    (forall p, nslots (cfg p) <= n) -> runf true cfg init l = Some s -> no_unlink l ->
    NoDup pids -> (forall p, In p pids -> inside s p) -> length pids <= n.
Proof. exact bounded_with_faults_lemma. Qed.

(* A flock that fails for whatever reason fails the attempt: the process goes on to close its file, lock() does
   not return, no flock changes hands (what "only EAGAIN/EACCES raise LockError" breaks). *)
Theorem flock_fault_fails_attempt :
  forall chk cfg s p s' r e,
    stepf chk cfg s p OFlockErr = Some (s', r, e) ->
    exists a i, st_pc (ps s p) = Opened a i /\ st_pc (ps s' p) = Closing a i false /\ owner s' = owner s /\
                r = RFlock false /\ e = ENone.
Proof. exact flock_fault_fails_attempt_lemma. Qed.

(* unlock() whose os.remove fails releases by closing: after the two calls the process is outside and owns no flock
   (what "a failed remove is only logged" breaks); the lock file stays at its path for the next contender. *)
Theorem remove_fault_releases :
  forall cfg l s p s1 r1 e1 s2 r2 e2 i,
    runf true cfg init l = Some s -> no_unlink l ->
    stepf true cfg s p ORemoveErr = Some (s1, r1, e1) -> stepf true cfg s1 p OClose = Some (s2, r2, e2) ->
    st_pc (ps s2 p) = Idle /\ owner s2 i <> Some p /\ path s2 = path s.
Proof. exact remove_fault_releases_lemma. Qed.

(* ---- the clean-up in a lock directory that holds semaphore files (runs / steps: cache.lock_dir is shared by the tile
   locks and the http.concurrent_requests semaphores; a KClean process there runs cleanup_lockdir, whose suffix test
   `name.endswith('.lck')` matches no slot file `<name>.lck<i>`: time.time(), os.listdir, nothing else).  Faults
   (OFlockErr) are part of the system. *)

(* At most n inside an n-slot semaphore under every schedule of semaphore users, clean-up passes and faults - with no
   side condition on the age of the files or on the schedule (what "the clean-up also matches <name>.lck<digits>"
   breaks: a slot held longer than max_lock_time loses its file and n more contenders enter). *)
Theorem semaphore_bounded_in_shared_lock_dir :
  forall cfg n l s pids,
    (forall p, nslots (cfg p) <= n) -> runs true cfg init l = Some s ->
    NoDup pids -> (forall p, In p pids -> inside s p) -> length pids <= n.
Proof. exact bounded_sem_dir_lemma. Qed.

(* No call of such a system (no process removes on unlock: SemLock never does) ever takes the name of a slot file away:
   a slot file, once created, stays at its path for good - held or not, whatever its age. *)
Theorem semaphore_files_never_removed :
  forall cfg s p o s' r e k i,
    (forall q, removes (cfg q) = false) ->
    steps true cfg s p o = Some (s', r, e) -> path s k = Some i -> path s' k = Some i.
Proof. exact sem_dir_paths_stay_lemma. Qed.

