(* C07  File locks are exclusive and semaphores bounded under every interleaving.
   Property theorems only; proofs live in theories/Lock_proofs.v. *)
From Coq Require Import ZArith List Bool Arith.
Import ListNotations.
From MP Require Import Lock Lock_proofs.

Theorem mutex_remove_on_unlock_refuted_without_check :
  exists s, run false f5_cfg init f5_schedule_nocheck = Some s /\ inside_at s 1 0 /\ inside_at s 2 0.
Proof. exact f5_two_inside_without_check. Qed.
