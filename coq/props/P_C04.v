(* C04  A tile is the same image however it was produced.
   Property theorems only; proofs live in theories/MetaGrid_proofs.v.
   m : mgrid = (grid, meta_size, meta_buffer); mwf m = well-formed grid, meta size >= 1x1, buffer >= 0. *)
From Coq Require Import ZArith List Bool.
Import ListNotations.
From MP Require Import Grid Grid_proofs MetaGrid MetaGrid_proofs.
Local Open Scope Z_scope.

(* Two tiles of a level have the same main tile (and so the same lock and the same meta tile) iff the second
   lies in the block of meta_size tiles that starts at the first one's main tile. *)
Theorem main_tile_same_iff_same_meta :
  forall m x y x' y' z,
    mwf m ->
    let '(x0, y0, _) := main_tile m x y z in
    let '(sx, sy) := meta_size m z in
    main_tile m x' y' z = main_tile m x y z <-> (x0 <= x' < x0 + sx /\ y0 <= y' < y0 + sy).
Proof. exact main_tile_same_iff. Qed.

(* The tiles of the pattern of a meta tile (the tiles that are cut out and stored) are exactly the valid tiles
   of the block of its main tile; levels smaller than the meta size included (meta_size is the minimum). *)
Theorem pattern_complete :
  forall m x y z c,
    mwf m ->
    let '(x0, y0, _) := main_tile m x y z in
    let '(sx, sy) := meta_size m z in
    let '(nx, ny) := grid_size (mg_grid m) z in
    In c (mt_tiles (meta_tile m x y z)) <->
    exists cx cy, c = (cx, cy, z) /\ x0 <= cx < x0 + sx /\ y0 <= cy < y0 + sy /\ 0 <= cx < nx /\ 0 <= cy < ny.
Proof. exact pattern_complete_lemma. Qed.

(* When no buffer is cut off at the grid border (limiting the buffered bbox to the grid bbox changes nothing),
   the requested image size is exactly extent / resolution and every crop offset is exactly the pixel distance
   of the tile from the upper left corner of the meta tile; the crop rectangle lies inside the image. *)
Theorem pattern_pixel_aligned :
  forall m x y z,
    mwf m -> valid_level (mg_grid m) z = true -> no_buffer_cut m x y z ->
    let mt := meta_tile m x y z in
    let r := res_at (mg_grid m) z in
    let '(minx, miny, maxx, maxy) := mt_bbox mt in
    (fst (mt_size mt) * r = maxx - minx /\ snd (mt_size mt) * r = maxy - miny) /\
    forall cx cy cz px py, In (Some (cx, cy, cz), (px, py)) (mt_pattern mt) ->
      let '(tx0, ty0, tx1, ty1) := tile_bbox (mg_grid m) cx cy cz in
      px * r = tx0 - minx /\ py * r = maxy - ty1 /\ 0 <= px /\ 0 <= py /\
      px + tw (mg_grid m) <= fst (mt_size mt) /\ py + th (mg_grid m) <= snd (mt_size mt).
Proof. exact pattern_pixel_aligned_lemma. Qed.

(* The property itself, in the model: for an upstream whose picture depends on ground position only (the
   picture sampled at pixel centres, any cell size q), the image stored for a valid tile cut out of its meta
   tile (any meta size, any buffer) is identical, pixel by pixel, to the image stored when the tile is
   fetched alone, provided no buffer is cut off at the grid border. *)
Theorem meta_tile_equals_tile_fetched_alone :
  forall m q cx cy z j k,
    mwf m -> valid_level (mg_grid m) z = true -> 0 < q ->
    0 <= cx < fst (grid_size (mg_grid m) z) -> 0 <= cy < snd (grid_size (mg_grid m) z) ->
    no_buffer_cut m cx cy z ->
    0 <= j < tw (mg_grid m) -> 0 <= k < th (mg_grid m) ->
    model_pixel m q HowMeta (cx, cy, z) j k = model_pixel m q HowSingle (cx, cy, z) j k.
Proof. exact meta_equals_single_lemma. Qed.

(* No tile occurs twice in the pattern of a meta tile: together with pattern_complete, the tiles that are cut out
   of one upstream response and handed to the store call are exactly the valid tiles of the block, each once. *)
Theorem pattern_unique :
  forall m x y z, mwf m -> NoDup (mt_tiles (meta_tile m x y z)).
Proof. exact pattern_unique_lemma. Qed.

(* Whatever part of the buffer is cut off at the grid border (extent not a multiple of the resolution included):
   the horizontal crop offset of every tile is exact, the vertical one is strictly within one pixel of the exact
   distance from the top edge of the requested bbox, the requested image size is within half a pixel of
   extent / resolution. *)
Theorem pattern_truncated_within_one_pixel :
  forall m x y z,
    mwf m -> valid_level (mg_grid m) z = true ->
    let mt := meta_tile m x y z in
    let r := res_at (mg_grid m) z in
    let '(minx, miny, maxx, maxy) := mt_bbox mt in
    (- r <= 2 * (fst (mt_size mt) * r - (maxx - minx)) <= r /\ - r <= 2 * (snd (mt_size mt) * r - (maxy - miny)) <= r) /\
    forall cx cy cz px py, In (Some (cx, cy, cz), (px, py)) (mt_pattern mt) ->
      let '(tx0, ty0, tx1, ty1) := tile_bbox (mg_grid m) cx cy cz in
      px * r = tx0 - minx /\ - r < py * r - (maxy - ty1) < r.
Proof. exact pattern_truncated_lemma. Qed.

(* Every requested tile is produced: whatever the creation strategy (no meta tiling, request-minimising meta tile,
   one meta tile per main tile, bulk), every requested valid tile of a level is among the tiles handed to the
   store calls of the creation plan.  (Meta tiles are identified by their main tile; before the repair of finding
   meta-dedup-by-bbox-drops-tile they were identified by bbox and this statement was false.) *)
Theorem every_requested_tile_is_produced :
  forall m has_meta minimize bulk (tiles : list coord) z plan,
    mwf m -> (forall c, In c tiles -> valid_tile m c /\ snd c = z) ->
    create_plan m has_meta minimize bulk tiles = Some plan ->
    forall c, In c tiles -> In c (flat_map snd plan).
Proof. exact every_requested_tile_is_produced_lemma. Qed.

(* The request-minimising meta tile (minimize_meta_requests) of a non-empty list of tiles of one level exists and
   its pattern contains every requested tile; pattern_truncated_within_one_pixel-style alignment of its crop
   offsets is checked by the correspondence (stored_pixel), not proved. *)
Theorem minimal_meta_contains_requested :
  forall m (tiles : list coord) z,
    mwf m -> tiles <> [] -> (forall x y l, In (x, y, l) tiles -> l = z /\ 0 <= x /\ 0 <= y) ->
    exists mt, minimal_meta_tile m tiles = Some mt /\ forall c, In c tiles -> In c (mt_tiles mt).
Proof. exact minimal_meta_contains_lemma. Qed.

(* Each side of the bbox requested for a meta tile is either the grid border or lies at least the buffer beyond
   every tile of the pattern. *)
Theorem requested_bbox_covers_tiles :
  forall m x y z,
    mwf m -> valid_level (mg_grid m) z = true ->
    let mt := meta_tile m x y z in
    let g := mg_grid m in
    let '(minx, miny, maxx, maxy) := mt_bbox mt in
    forall cx cy cz crop, In (Some (cx, cy, cz), crop) (mt_pattern mt) ->
      let '(tx0, ty0, tx1, ty1) := tile_bbox g cx cy cz in
      (minx = gx0 g \/ minx + mbuf m * res_at g z <= tx0) /\ (miny = gy0 g \/ miny + mbuf m * res_at g z <= ty0) /\
      (maxx = gx1 g \/ tx1 + mbuf m * res_at g z <= maxx) /\ (maxy = gy1 g \/ ty1 + mbuf m * res_at g z <= maxy).
Proof. exact requested_bbox_sides. Qed.

(* No pixel one pixel or more inside the grid extent is left as background: if pixel (j, k) of a tile cut out of
   a meta tile (any meta size, buffer, border position, extent not a multiple of the resolution) is padding of
   TileSplitter.get_tile, then its ground rectangle does not lie within the grid extent shrunk by one pixel. *)
Theorem no_background_inside_extent :
  forall m x y z cx cy cz px py j k,
    mwf m -> valid_level (mg_grid m) z = true ->
    In (Some (cx, cy, cz), (px, py)) (mt_pattern (meta_tile m x y z)) ->
    0 <= j < tw (mg_grid m) -> 0 <= k < th (mg_grid m) ->
    tile_pixel_src (px, py) (tw (mg_grid m), th (mg_grid m)) (mt_size (meta_tile m x y z)) j k = None ->
    let g := mg_grid m in let r := res_at g z in
    let '(tx0, ty0, tx1, ty1) := tile_bbox g cx cy cz in
    ~ (gx0 g + r <= tx0 + j * r /\ tx0 + (j + 1) * r <= gx1 g - r /\
       gy0 g + r <= ty1 - (k + 1) * r /\ ty1 - k * r <= gy1 g - r).
Proof. exact no_background_lemma. Qed.

(* Requests on a cache that already holds tiles (partially cached meta tiles left behind by another meta size, by
   minimize_meta_requests or by removals, with or without their main tile): only the missing tiles are created,
   every creation step re-checks under the lock whether ALL tiles of its meta tile are cached; every requested
   valid tile is afterwards cached - it was before or it is handed to a store call. *)
Theorem request_on_any_cache_produces_every_tile :
  forall m has_meta minimize bulk cached (tiles : list coord) z plan,
    mwf m -> (forall c, In c tiles -> valid_tile m c /\ snd c = z) ->
    plan_with_cache m has_meta minimize bulk cached tiles = Some plan ->
    forall c, In c tiles -> In c cached \/ In c (flat_map snd plan).
Proof. exact plan_with_cache_produces. Qed.

(* meta_stores_all: in the meta tile strategy every creation step consists of exactly one upstream request - that
   of the meta tile of a requested tile - and its store call receives all tiles of that meta tile's pattern (by
   pattern_complete and pattern_unique: exactly the valid tiles of the block, once each). *)
Theorem meta_stores_all :
  forall m minimize (tiles : list coord) plan st,
    minimize && (1 <? Z.of_nat (length tiles)) = false ->
    create_plan m true minimize false tiles = Some plan -> In st plan ->
    exists x y z, In (x, y, z) tiles /\
      st = ([(mt_bbox (meta_tile m x y z), mt_size (meta_tile m x y z))], mt_tiles (meta_tile m x y z)).
Proof. exact meta_stores_all_lemma. Qed.

(* All four bands: for a colour picture (alpha between 1 and 254 on a transparent cache, three bands on an opaque one)
   the pixel stored for a tile cut out of its meta tile equals the pixel stored for the tile fetched alone when no
   buffer is cut off (TileSplitter copies the bands unchanged; padding is the background colour). *)
Theorem meta_tile_colour_equals_tile_fetched_alone :
  forall m q transparent cx cy z j k,
    mwf m -> valid_level (mg_grid m) z = true -> 0 < q ->
    0 <= cx < fst (grid_size (mg_grid m) z) -> 0 <= cy < snd (grid_size (mg_grid m) z) ->
    no_buffer_cut m cx cy z ->
    0 <= j < tw (mg_grid m) -> 0 <= k < th (mg_grid m) ->
    model_colour m q HowMeta transparent (cx, cy, z) j k = model_colour m q HowSingle transparent (cx, cy, z) j k.
Proof. exact meta_colour_equals_single. Qed.

(* Pixel-value form of "within one pixel": whatever is cut off at the grid border, a pixel (j, k) of a tile cut out
   of a meta tile that is not padding shows the upstream picture at a ground position that differs from the position
   the same pixel of the tile fetched alone shows (its centre) by at most half a pixel horizontally and at most one
   pixel vertically.  (Positions scaled by 2W and 2H:  X_meta = minx + (2c+1)(maxx-minx)/(2W),  X_alone = tx0 + (2j+1)r/2,
   Y_meta = maxy - (2rr+1)(maxy-miny)/(2H),  Y_alone = ty1 - (2k+1)r/2.) *)
Theorem stored_pixel_within_one_pixel :
  forall m x y z cx cy cz px py j k c rr,
    mwf m -> valid_level (mg_grid m) z = true ->
    In (Some (cx, cy, cz), (px, py)) (mt_pattern (meta_tile m x y z)) ->
    tile_pixel_src (px, py) (tw (mg_grid m), th (mg_grid m)) (mt_size (meta_tile m x y z)) j k = Some (c, rr) ->
    let r := res_at (mg_grid m) z in
    let '(minx, miny, maxx, maxy) := mt_bbox (meta_tile m x y z) in
    let '(W, H) := mt_size (meta_tile m x y z) in
    let '(tx0, ty0, tx1, ty1) := tile_bbox (mg_grid m) cx cy cz in
    - (W * r) <= (2 * c + 1) * (maxx - minx) + 2 * W * minx - W * (2 * tx0 + (2 * j + 1) * r) <= W * r /\
    - (2 * H * r) <= 2 * H * maxy - (2 * rr + 1) * (maxy - miny) - H * (2 * ty1 - (2 * k + 1) * r) <= 2 * H * r.
Proof. exact stored_pixel_within_one_pixel_lemma. Qed.

(* Concurrent requests on one cache: a request looks for its tiles (cached), creates the missing ones, and every
   creation step looks again under the lock (locked: another request may have stored tiles in between).  Every
   requested valid tile is then cached - it was when the request looked, or it is when the step holds the lock, or
   the step stores it. *)
Theorem concurrent_request_produces_every_tile :
  forall m has_meta minimize bulk cached locked (tiles : list coord) z plan,
    mwf m -> (forall c, In c tiles -> valid_tile m c /\ snd c = z) ->
    plan_with_caches m has_meta minimize bulk cached locked tiles = Some plan ->
    forall c, In c tiles -> In c cached \/ In c locked \/ In c (flat_map snd plan).
Proof. exact plan_with_caches_produces. Qed.

(* pattern_pixel_aligned for the request-minimising meta tile (minimize_meta_requests): for a non-empty list of tiles
   of one level the meta tile exists, covers the bounding range (minx..maxx, miny..maxy) of the requested tiles and
   contains each of them; when no buffer is cut off at the grid border the requested size is exactly
   extent / resolution, every crop offset is the exact pixel distance of the tile from the upper left corner of the
   requested bbox and every crop rectangle lies inside the image. *)
Theorem minimal_pattern_pixel_aligned :
  forall m (tiles : list coord) z,
    mwf m -> valid_level (mg_grid m) z = true ->
    tiles <> [] -> (forall x y l, In (x, y, l) tiles -> l = z /\ 0 <= x /\ 0 <= y) ->
    exists mt minx maxx miny maxy,
      minimal_meta_tile m tiles = Some mt /\
      (exists full gs, full_tile_list m tiles = Some (full, gs, ((minx, miny, z), (maxx, maxy, z)))) /\
      (forall x y l, In (x, y, l) tiles -> minx <= x <= maxx /\ miny <= y <= maxy) /\
      (forall x y l, In (x, y, l) tiles -> exists crop, In (Some (x, y, l), crop) (mt_pattern mt)) /\
      (no_buffer_cut_minimal m (minx, miny, z) (maxx, maxy, z) ->
       let r := res_at (mg_grid m) z in
       let '(bx0, by0, bx1, by1) := mt_bbox mt in
       (fst (mt_size mt) * r = bx1 - bx0 /\ snd (mt_size mt) * r = by1 - by0) /\
       forall cx cy cz px py, In (Some (cx, cy, cz), (px, py)) (mt_pattern mt) ->
         let '(tx0, ty0, tx1, ty1) := tile_bbox (mg_grid m) cx cy cz in
         cz = z /\ px * r = tx0 - bx0 /\ py * r = by1 - ty1 /\ 0 <= px /\ 0 <= py /\
         px + tw (mg_grid m) <= fst (mt_size mt) /\ py + th (mg_grid m) <= snd (mt_size mt)).
Proof. exact minimal_pattern_pixel_aligned_lemma. Qed.

(* The property for minimize_meta_requests, in the model: the image stored for a requested tile cut out of the
   request-minimising meta tile equals, pixel by pixel and for every position-only picture, the image stored when the
   tile is fetched alone, provided no buffer is cut off at the grid border. *)
Theorem minimal_meta_tile_equals_tile_fetched_alone :
  forall m q (tiles : list coord) z cx cy j k,
    mwf m -> valid_level (mg_grid m) z = true -> 0 < q ->
    (forall x y l, In (x, y, l) tiles -> l = z /\ 0 <= x /\ 0 <= y) ->
    In (cx, cy, z) tiles -> minimal_no_cut m tiles ->
    0 <= j < tw (mg_grid m) -> 0 <= k < th (mg_grid m) ->
    model_pixel m q (HowMinimal tiles) (cx, cy, z) j k = model_pixel m q HowSingle (cx, cy, z) j k.
Proof. exact minimal_equals_single_lemma. Qed.

(* Upstream faults, single tile and meta tile strategies: a creation step one of whose upstream responses must not be
   cached (substitute image of an error handler with cache: false), ends in the middle of the image data, or whose
   upstream request raises hands nothing to the cache - whatever is stored comes from a complete, cacheable response. *)
Theorem faulted_response_is_not_stored :
  forall g bad cut errs plan steps failed,
    run_plan_faults g false bad cut errs plan = (steps, failed) ->
    forall st, In st steps ->
      existsb (fun rq => bbox_mem (fst rq) bad || bbox_mem (fst rq) cut || bbox_mem (fst rq) errs) (fst st) = true -> snd st = [].
Proof. exact faulted_step_stores_nothing. Qed.

(* An upstream request that raises (SourceError) makes the request fail in every strategy, bulk included: a tile is
   never answered without image by a request that looks successful. *)
Theorem upstream_error_fails_the_request :
  forall g bulk bad cut errs plan steps failed,
    run_plan_faults g bulk bad cut errs plan = (steps, failed) ->
    existsb (fun st => existsb (fun rq : bbox * (Z * Z) => bbox_mem (fst rq) errs) (fst st)) plan = true ->
    failed = true.
Proof. exact upstream_error_fails. Qed.

(* ... bulk strategy: a tile whose own response must not be cached is not among the tiles of the store call. *)
Theorem bulk_uncacheable_tile_is_not_stored :
  forall g bad st c,
    In c (snd (step_with_faults g true bad st)) -> bbox_mem (fst (tile_request g c)) bad = false.
Proof. exact bulk_uncacheable_not_stored. Qed.

(* Source with alpha and a clipping coverage, opaque cache: the pixel stored for a tile cut out of its meta tile equals
   the pixel stored for the tile fetched alone (both are clipped at the coverage and drawn on the background by
   merge_images), when no buffer is cut off. *)
Theorem clipped_meta_tile_equals_tile_fetched_alone :
  forall m q inside cx cy z j k,
    mwf m -> valid_level (mg_grid m) z = true -> 0 < q ->
    0 <= cx < fst (grid_size (mg_grid m) z) -> 0 <= cy < snd (grid_size (mg_grid m) z) ->
    no_buffer_cut m cx cy z ->
    0 <= j < tw (mg_grid m) -> 0 <= k < th (mg_grid m) ->
    model_clip_colour m q HowMeta inside (cx, cy, z) j k = model_clip_colour m q HowSingle inside (cx, cy, z) j k.
Proof. exact meta_clip_colour_equals_single. Qed.

(* Encoding of the stored tile (img_to_buf): with globals.image.paletted false and image options that name no number
   of colours no tile is quantised, whatever format and creator - the stored PNG is the true colour image.  (The
   model function has no creator argument: the correspondence checks that what pool workers store is what it says
   for the base configuration of the request.) *)
Theorem true_colour_base_configuration_stores_true_colour :
  forall png mixed has_alpha, stored_with_palette None false png mixed has_alpha = false.
Proof. exact true_colour_configuration_not_quantised. Qed.

(* The base configuration decides the stored image exactly for PNG caches whose image options name no number of
   colours (and, for `mixed`, images with transparency): there a creator encoding under another base configuration
   than the request's would store a different image; everywhere else the image options decide alone. *)
Theorem base_configuration_decides_encoding_iff :
  forall colors png mixed has_alpha,
    stored_with_palette colors true png mixed has_alpha <> stored_with_palette colors false png mixed has_alpha <->
    colors = None /\ png = true /\ (mixed = false \/ has_alpha = true).
Proof. exact base_configuration_matters_iff. Qed.
