(* C08  Concurrent requests for one uncached tile: all correct, one upstream fetch.
   Property theorems only; proofs live in theories/Creator_proofs.v.

   Reading guide.  `grid_sys g recheck reload up` is the transition system of Creator.v for a grid / meta
   grid configuration g: `recheck = true` is the protocol with the re-check under the lock (the code),
   `reload = true` is the code (a tile that is_cached finds although load_tiles missed it is loaded again,
   repair of finding F22), `reload = false` the protocol before that repair (kept for no_reload_refuted); `up t` is the image the upstream delivers for tile t.
   `init c0 reqs` = initial cache c0 and one requester per element of reqs (any number);
   `run S s sched` = the state after the requesters took steps in the order `sched` (any list of requester
   numbers: every interleaving of cache reads, lock attempts, upstream calls, cache writes and unlocks).
   `fetched s` = upstream call log (main tile of the meta tile asked for; the tile itself without meta tiling).
   Expiry: `grid_sys_x g recheck reload up expire old` is the same system with an expire timestamp (refresh_before,
   seeding) when `expire = true`; `old t` = the expired file of tile t present at the start (None: no such file),
   `grid_sys_b .. bulk` adds bulk meta tiles (_create_bulk_meta_tile); `grid_sys_x ..` = `grid_sys_b .. false`.
   `c0` / `cache s` = the files is_cached accepts (present and not expired).  So `cached c0 r = false` reads
   "r is missing OR expired at the start".  `grid_sys g ..` = `grid_sys_x g .. false (fun _ => None)`. *)
From Coq Require Import ZArith List Bool Arith Ascii.
Import ListNotations.
From MP Require Import Base Creator Creator_proofs Creator_commute.

(* `queries S m` = the upstream requests for meta tile m: [m] (one request for the meta tile / the tile), or - tiled
   source with bulk_meta_tiles, `bulk = true` on a meta grid - one request per tile of m.
   The upstream is asked at most once per meta tile (bulk: once per tile of the meta tile) - for any number of requesters, any request lists, any
   initial cache with correct content, with or without an expire timestamp and expired files, and any
   interleaving - and only for meta tiles of requested tiles that were missing or expired at the start.
   (The re-check under the lock looks at the file as it is then: a tile re-created by the lock holder counts.) *)
Theorem one_fetch_per_meta_tile :
  forall g reload up expire old bulk c0 reqs sched,
    valid_gconf g -> valid_reqs g reqs -> content_ok up c0 -> old_ok expire old ->
    let S := grid_sys_b g true reload up expire old bulk in
    let s := run S (init c0 reqs) sched in
    NoDup (fetched s) /\
    forall q, In q (fetched s) ->
              exists req r, In req reqs /\ In r req /\ cached c0 r = false /\ In q (queries S (g_main g r)).
Proof. exact grid_one_fetch. Qed.

(* Every finished requester hands back, for every tile it asked for, the image the upstream draws for exactly that
   tile - for any number of requesters and any interleaving, with or without an expire timestamp and expired files.
   `response_in (cache s) pr` is the response as it is built: tiles loaded from the cache are file sources that are
   read then (a request that loaded an expired file and waited for the lock hands back the re-created file). *)
Theorem all_responses_correct :
  forall g up expire old bulk c0 reqs sched p pr,
    valid_gconf g -> valid_reqs g reqs -> content_ok up c0 -> old_ok expire old ->
    let s := run (grid_sys_b g true true up expire old bulk) (init c0 reqs) sched in
    nth_error (procs s) p = Some pr -> p_pc pr = Done ->
    exists req, nth_error reqs p = Some req /\ response_in (cache s) pr = map (fun r => (r, Some (up r))) req.
Proof. exact grid_responses_built. Qed.

(* The valid (not expired) part of the cache holds, at every moment, only correct images and only tiles that were
   valid at the start or belong to the meta tile of a requested tile that was missing or expired at the start;
   when all requesters have finished it holds exactly those, each with its own image. *)
Theorem final_cache_exact :
  forall g reload up expire old bulk c0 reqs sched,
    valid_gconf g -> valid_reqs g reqs -> content_ok up c0 -> old_ok expire old ->
    let s := run (grid_sys_b g true reload up expire old bulk) (init c0 reqs) sched in
    (forall t v, lookup (cache s) t = Some v ->
                 v = up t /\ (cached c0 t = true \/ needed_tile g c0 reqs t)) /\
    (all_done s = true ->
     forall t, cached c0 t = true \/ needed_tile g c0 reqs t -> lookup (cache s) t = Some (up t)).
Proof. exact grid_final_cache. Qed.

(* Requests for different meta tiles use different lock files, requests for the same meta tile the same one
   (the coordinate in the lock file name is the main tile of the meta tile) ... *)
Theorem different_meta_tiles_different_locks :
  forall g t u,
    valid_gconf g -> in_grid g t = true -> in_grid g u = true ->
    (g_key g (g_main g t) = g_key g (g_main g u) <-> g_main g t = g_main g u).
Proof. exact grid_key_iff. Qed.

(* ... the meta tiles partition the grid (a tile belongs to the meta tile of t iff it has the same main tile) ... *)
Theorem meta_tiles_partition :
  forall g t u,
    valid_gconf g -> in_grid g u = true ->
    (g_main g u = g_main g t <-> In u (g_members g (g_main g t))).
Proof. exact grid_main_same_iff. Qed.

(* ... a lock attempt is refused only while ANOTHER requester is inside the critical section of the same lock
   file; requesters of different meta tiles never make each other wait ... *)
Theorem lock_refused_only_by_holder :
  forall g reload up expire old bulk c0 reqs sched p k,
    valid_gconf g -> valid_reqs g reqs -> content_ok up c0 -> old_ok expire old ->
    let s := run (grid_sys_b g true reload up expire old bulk) (init c0 reqs) sched in
    snd (step (grid_sys_b g true reload up expire old bulk) s p) = OLock k false ->
    exists q prq m, q <> p /\ nth_error (procs s) q = Some prq /\ holds (p_pc prq) = Some m /\ g_key g m = k.
Proof. exact grid_refused. Qed.

(* ... and they do not influence each other at all: at every reachable state the next steps of two requesters that are
   creating / waiting for DIFFERENT meta tiles (`working` = the unit of the loop over the uncached tiles / meta tiles)
   commute - in either order both make the same observations and reach the same local states, and cache, lock
   table and upstream log are the same (`sequiv`: equal as maps, log equal up to the order of the two entries). *)
Theorem different_meta_tiles_independent :
  forall g reload up expire old bulk c0 reqs sched p q prp prq mp mq,
    valid_gconf g -> valid_reqs g reqs -> content_ok up c0 -> old_ok expire old ->
    let S := grid_sys_b g true reload up expire old bulk in
    let s := run S (init c0 reqs) sched in
    p <> q -> nth_error (procs s) p = Some prp -> nth_error (procs s) q = Some prq ->
    working (p_pc prp) = Some mp -> working (p_pc prq) = Some mq -> mp <> mq ->
    snd (step S (fst (step S s p)) q) = snd (step S s q) /\
    snd (step S (fst (step S s q)) p) = snd (step S s p) /\
    sequiv (fst (step S (fst (step S s p)) q)) (fst (step S (fst (step S s q)) p)).
Proof. exact grid_units_commute. Qed.

(* The general form: any two steps that do not read and write (or both write) one tile and do not operate on one
   lock file commute, in every state. *)
Theorem independent_steps_commute :
  forall S s p q prp prq,
    p <> q -> nth_error (procs s) p = Some prp -> nth_error (procs s) q = Some prq ->
    indep (fp S prp) (fp S prq) ->
    snd (step S (fst (step S s p)) q) = snd (step S s q) /\
    snd (step S (fst (step S s q)) p) = snd (step S s p) /\
    sequiv (fst (step S (fst (step S s p)) q)) (fst (step S (fst (step S s q)) p)).
Proof. exact step_commute. Qed.

(* No deadlock: whenever a lock attempt is refused, some other requester can take a step that is not a refused
   lock attempt (the holder is inside its critical section, where it never waits for a second lock). *)
Theorem refused_lock_has_running_holder :
  forall g reload up expire old bulk c0 reqs sched p k,
    valid_gconf g -> valid_reqs g reqs -> content_ok up c0 -> old_ok expire old ->
    let s := run (grid_sys_b g true reload up expire old bulk) (init c0 reqs) sched in
    snd (step (grid_sys_b g true reload up expire old bulk) s p) = OLock k false ->
    exists q, q <> p /\ forall k', snd (step (grid_sys_b g true reload up expire old bulk) s q) <> OLock k' false.
Proof. exact grid_no_deadlock. Qed.

(* TileLocker.lock_filename is injective in (cache id, tile coordinate) for cache ids of equal length
   (lock_cache_id is an md5 hex digest) and valid (non-negative) coordinates. *)
Theorem lock_name_injective :
  forall id id' t t',
    length id = length id' -> nonneg t -> nonneg t' ->
    lock_name id t = lock_name id' t' -> id = id' /\ t = t'.
Proof. exact lock_name_inj. Qed.

(* Why the re-check under the lock is needed: the same protocol without it asks the upstream twice for one
   tile under this schedule of two requesters (both look, both miss, then one after the other locks and fetches). *)
Theorem no_recheck_refuted :
  let s := run (grid_sys single_grid false false up0) (init [] [[t111]; [t111]]) norecheck_schedule in
  all_done s = true /\ fetched s = [t111; t111].
Proof. exact no_recheck_two_fetches. Qed.

(* Why the reload of finding F22 is needed: the protocol before the repair (reload = false) answers a tile WITHOUT
   image under this schedule - requester 0 looks for tile (1,1,1) and misses, requester 1 creates and stores the
   tile, requester 0 looks again (is_cached: hit) and neither loads nor creates it. *)
Theorem no_reload_refuted :
  let s := run (grid_sys single_grid true false up0) (init [] [[t111]; [t111]]) race_schedule in
  all_done s = true /\ map response (procs s) = [[(t111, None)]; [(t111, Some (up0 t111))]].
Proof. exact race_unanswered. Qed.
