(* C19  Compact bundles stay structurally valid, and defragmentation loses nothing.
   Property theorems only; proofs live in theories/Bundle_proofs.v, the model in theories/Bundle.v.

   Vocabulary: a slot is the bundle-relative (x, y); `bop` = OStore batch | ORemove slot is one call of
   Bundle.store_tiles / remove_tile; `v2_run ops` runs a history on the files a fresh bundle gets;
   `brd f off n` is the little-endian number in the n bytes at offset off; `v2_Inv` (Bundle.v) is the structural
   invariant: GInv (every live record lies behind the index inside the file, records of distinct slots are
   disjoint, fixed part + live records <= file length) and v2_extra (all bytes < 256, header file-size field =
   file length, the size stored in front of the data = the size in the index entry <= header max record size).
   Guards: tile size < 2^24 (two24), file < 2^40 bytes (two40) - what an index entry can represent. *)
From Coq Require Import ZArith List Bool.
Import ListNotations.
From MP Require Import Base Bytes Gen_compact Gen_compact_fmt Bundle Bundle_proofs.
Local Open Scope Z_scope.

(* ---- format v2 *)

(* Structural validity after ANY history: every sequence of store_tiles batches (any tiles, duplicates and empty
   tiles included) and remove_tile calls on a bundle runs without an error and leaves a file that satisfies the
   invariant; its length is exactly the fixed part plus everything ever appended. *)
Theorem v2_inv_reachable :
  forall ops : list bop,
    Forall (op_ok two24) ops -> B2 + ops_bytes ops < two40 ->
    exists f, v2_run ops = Some f /\ v2_Inv f /\ blen f = B2 + ops_bytes ops.
Proof. exact v2_history_inv. Qed.

(* What the invariant says, in the words of the property: each index entry is either empty (size 0) or points
   at a complete record inside the file, behind the index, whose recorded size matches (the 4 bytes in front of
   the data repeat the size of the entry) - and load_tile returns exactly those bytes. *)
Theorem v2_inv_means :
  forall f x y, v2_Inv f -> 0 <= x < 128 -> 0 <= y < 128 ->
    let val := brd f (64 + (x + 128 * y) * 8) 8 in
    let size := val / two40 in
    let offset := val mod two40 in
    size = 0 \/
    (B2 + 4 <= offset /\ offset + size <= blen f /\ 0 < size < two24 /\ brd f (offset - 4) 4 = size /\
     v2_load f (x, y) = RData (bread f offset (Z.to_nat size))).
Proof. exact v2_inv_readable. Qed.

(* the three steps of the induction, each with the map behaviour of the bundle *)
Theorem v2_inv_init_holds : v2_Inv v2_init.
Proof. exact v2_inv_init. Qed.

Theorem v2_inv_store_step :
  forall f s d,
    v2_Inv f -> slot_ok s -> bytes_okl d -> zlen d < two24 -> blen f + 4 + zlen d < two40 ->
    exists f', v2_store1 f s d = Some f' /\ v2_Inv f' /\ blen f' = blen f + 4 + zlen d /\
      v2_load f' s = (if zlen d =? 0 then RMissing else RData d) /\
      forall s', slot_ok s' -> s' <> s -> v2_load f' s' = v2_load f s'.
Proof. exact v2_inv_store. Qed.

Theorem v2_inv_remove_step :
  forall f s, v2_Inv f -> slot_ok s ->
    v2_Inv (v2_remove1 f s) /\ blen (v2_remove1 f s) = blen f /\ v2_load (v2_remove1 f s) s = RMissing /\
    forall s', slot_ok s' -> s' <> s -> v2_load (v2_remove1 f s) s' = v2_load f s'.
Proof. exact v2_inv_remove. Qed.

(* size(): the estimate used for the fragmentation test is exactly header + index + live records *)
Theorem v2_size_estimate_exact :
  forall f, v2_Inv f -> v2_size f = Some (B2 + v2_live_sum f, blen f).
Proof. exact v2_size_exact. Qed.

(* Defragmentation of a valid bundle (defrag.py lines 162-187) never raises; every address returns the same bytes
   as before (r = None: the bundle had no live tile and its file was removed - every address was and is missing);
   the new file satisfies the invariant, is exactly fixed part + live records long and not longer than the old. *)
Theorem v2_defrag_preserves_lookup_not_larger_inv :
  forall f, v2_Inv f -> blen f < two40 ->
    exists r, v2_defrag f = Some r /\
      (forall s, slot_ok s -> g_load_opt bfile v2_load r s = v2_load f s) /\
      (forall f', r = Some f' -> v2_Inv f' /\ blen f' = B2 + v2_live_sum f /\ blen f' <= blen f) /\
      (r = None -> v2_live_sum f = 0).
Proof. exact v2_defrag_correct. Qed.

(* ---- format v1 (st = (.bundlx index file, .bundle data file); c, r = first column / row of the bundle, they
   only appear in the data header).  `v1_Inv` = GInv (as for v2, with the data file) and v1_extra: all bytes
   < 256, the index keeps its length, every non-zero index offset names a complete record (4-byte size and that
   many bytes) inside the data file behind the header, header bundle-size field = file length, header tile
   counter <= file length, header largest-tile field >= every live record.  Guards: tile < 2^32 bytes (two32),
   data file < 2^40 bytes. *)

Theorem v1_inv_reachable :
  forall c r (ops : list bop),
    Forall (op_ok two32) ops -> B1 + ops_bytes ops < two40 ->
    exists st, v1_run c r ops = Some st /\ v1_Inv st /\ v1_dlen st = B1 + ops_bytes ops.
Proof. exact v1_history_inv. Qed.

(* each index entry is empty (offset 0), or points at a complete record inside the data file: a zero-size record
   (initial entries point into the zero area; an empty tile was stored) which reads as missing, or a record
   behind the fixed part whose bytes load_tile returns *)
Theorem v1_inv_means :
  forall st x y, v1_Inv st -> 0 <= x < 128 -> 0 <= y < 128 ->
    let offset := brd (fst st) (16 + (x * 128 + y) * 5) 5 in
    let size := brd (snd st) offset 4 in
    offset = 0 \/
    (60 <= offset /\ offset + 4 + size <= blen (snd st) /\
     (size = 0 /\ v1_load st (x, y) = RMissing \/
      0 < size < two32 /\ B1 <= offset /\
      v1_load st (x, y) = RData (bread (snd st) (offset + 4) (Z.to_nat size)))).
Proof. exact v1_inv_readable. Qed.

Theorem v1_inv_init_holds : forall c r, v1_Inv (v1_init c r).
Proof. exact v1_inv_init. Qed.

Theorem v1_inv_store_step :
  forall st s d,
    v1_Inv st -> slot_ok s -> bytes_okl d -> zlen d < two32 -> v1_dlen st + 4 + zlen d < two40 ->
    exists st', v1_store1 st s d = Some st' /\ v1_Inv st' /\ v1_dlen st' = v1_dlen st + 4 + zlen d /\
      v1_load st' s = (if zlen d =? 0 then RMissing else RData d) /\
      forall s', slot_ok s' -> s' <> s -> v1_load st' s' = v1_load st s'.
Proof. exact v1_inv_store. Qed.

Theorem v1_inv_remove_step :
  forall st s, v1_Inv st -> slot_ok s ->
    v1_Inv (v1_remove1 st s) /\ v1_dlen (v1_remove1 st s) = v1_dlen st /\ v1_load (v1_remove1 st s) s = RMissing /\
    forall s', slot_ok s' -> s' <> s -> v1_load (v1_remove1 st s) s' = v1_load st s'.
Proof. exact v1_inv_remove. Qed.

Theorem v1_size_estimate_exact :
  forall st, v1_Inv st -> v1_size st = Some (B1 + v1_live_sum st, v1_dlen st).
Proof. exact v1_size_exact. Qed.

(* defragmentation: same bytes for every address, valid new files, data file exactly fixed part + live records
   and not longer than before, index file of unchanged length *)
Theorem v1_defrag_preserves_lookup_not_larger_inv :
  forall c r st, v1_Inv st -> v1_dlen st < two40 ->
    exists o, v1_defrag c r st = Some o /\
      (forall s, slot_ok s -> g_load_opt v1st v1_load o s = v1_load st s) /\
      (forall st', o = Some st' -> v1_Inv st' /\ v1_dlen st' = B1 + v1_live_sum st /\ v1_dlen st' <= v1_dlen st /\
                                   blen (fst st') = blen (fst st)) /\
      (o = None -> v1_live_sum st = 0).
Proof. exact v1_defrag_correct. Qed.

(* ---- caches: several bundles (CompactCacheBase picks the bundle (level, first column, first row) of a tile
   coordinate; `cop` = CStore batch-with-coordinates | CRemove coordinate; `cache_ok Inv dlen b c`: bundle keys
   distinct, every bundle satisfies Inv and is at most b bytes long) *)

(* every history of store_tiles / remove_tile calls on a cache - any tile coordinates, any number of bundles and
   levels, batches that span bundles - runs without error and leaves only valid bundles *)
Theorem v2_cache_inv_reachable :
  forall ops : list cop,
    Forall (cop_ok two24) ops -> B2 + cops_bytes ops < two40 ->
    exists c, v2c_run ops = Some c /\ cache_ok v2_Inv blen (B2 + cops_bytes ops) c.
Proof. exact v2c_history_ok. Qed.

Theorem v1_cache_inv_reachable :
  forall ops : list cop,
    Forall (cop_ok two32) ops -> B1 + cops_bytes ops < two40 ->
    exists c, v1c_run ops = Some c /\ cache_ok v1_Inv v1_dlen (B1 + cops_bytes ops) c.
Proof. exact v1c_history_ok. Qed.

(* defrag_compact_cache with ANY threshold setting (skip is an arbitrary decision per bundle, so float rounding of
   the threshold test is covered): no error, every tile address of the cache returns the same bytes as before,
   every remaining bundle is valid, and no bundle file is longer than before *)
Theorem v2_cache_defrag_changes_no_tile :
  forall skip c b, b < two40 -> cache_ok v2_Inv blen b c ->
    exists c', v2c_defrag skip c = Some c' /\
      (forall coord, v2c_load c' coord = v2c_load c coord) /\
      cache_ok v2_Inv blen b c' /\
      (forall k f', In (k, f') c' -> exists f, In (k, f) c /\ blen f' <= blen f).
Proof. exact v2c_defrag_ok. Qed.

Theorem v1_cache_defrag_changes_no_tile :
  forall skip c b, b < two40 -> cache_ok v1_Inv v1_dlen b c ->
    exists c', v1c_defrag skip c = Some c' /\
      (forall coord, v1c_load c' coord = v1c_load c coord) /\
      cache_ok v1_Inv v1_dlen b c' /\
      (forall k st', In (k, st') c' -> exists st, In (k, st) c /\ v1_dlen st' <= v1_dlen st).
Proof. exact v1c_defrag_ok. Qed.

(* ---- a store that fails part-way (format v2).  `v2_store_writes f s d` = the writes of _store_tile in program
   order (size and data appended, index entry, header fields); `apply_writes` performs a list of writes; v2_WInv =
   v2_Inv without the two header size fields (a failed store leaves them behind). *)

(* the model's store is exactly that list of writes *)
Theorem v2_store_is_its_writes :
  forall f s d, v2_WInv f -> slot_ok s -> bytes_okl d -> zlen d < two24 -> blen f + 4 + zlen d < two40 ->
    v2_store1 f s d = Some (apply_writes f (v2_store_writes f s d)).
Proof. exact v2_store1_is_writes. Qed.

(* whatever prefix of these writes reached the file (write error, full disk, kill): every index entry is empty or
   points at a complete record whose recorded size matches, and every address returns its previous tile or - the
   stored address, from the index write on - the complete new one *)
Theorem v2_failed_store_leaves_valid_bundle :
  forall f s d k, v2_WInv f -> slot_ok s -> bytes_okl d -> zlen d < two24 -> blen f + 4 + zlen d < two40 ->
    let g := apply_writes f (firstn k (v2_store_writes f s d)) in
    v2_WInv g /\
    forall s', slot_ok s' ->
      v2_load g s' = v2_load f s' \/ (s' = s /\ v2_load g s' = (if zlen d =? 0 then RMissing else RData d)).
Proof. exact v2_store_prefix_ok. Qed.

(* the appended bytes cut short anywhere: no address changes *)
Theorem v2_torn_append_changes_nothing :
  forall f t, v2_WInv f -> bytes_okl t ->
    v2_WInv (bwrite f (blen f) t) /\ forall s, slot_ok s -> v2_load (bwrite f (blen f) t) s = v2_load f s.
Proof. exact v2_torn_append_ok. Qed.

(* later stores start from such a state and keep it valid *)
Theorem v2_store_after_failed_store :
  forall f s d, v2_WInv f -> slot_ok s -> bytes_okl d -> zlen d < two24 -> blen f + 4 + zlen d < two40 ->
    exists f', v2_store1 f s d = Some f' /\ v2_WInv f' /\
      forall s', slot_ok s' -> v2_load f' s' = v2_load f s' \/
                                 (s' = s /\ v2_load f' s' = (if zlen d =? 0 then RMissing else RData d)).
Proof. exact v2_store_w. Qed.

(* and the order is essential: index entry first is refuted on the fresh bundle *)
Theorem v2_index_entry_before_record_refuted :
  exists f s d, v2_Inv f /\ slot_ok s /\ bytes_okl d /\ zlen d < two24 /\ blen f + 4 + zlen d < two40 /\
    ~ v2_WInv (bwrite f (v2_idx s) (le 8 (v2_entry_encode (blen f + 4) (zlen d)))).
Proof. exact v2_entry_first_refuted. Qed.

(* ---- a v1 store that fails part-way.  st = (.bundlx, .bundle); dat2 = the data file with the complete record
   appended, hb = the rewritten 60-byte header, idx' = the index with the new entry.  v1_WInv = v1_Inv with the header
   fields only bounded by the file length.  The four states are every combination the raw write order (record,
   index entry, header - the index file is closed first) or the program order (record, header, index entry) can
   leave behind once the record is complete; before that, see v1_torn_append_changes_nothing. *)
Theorem v1_failed_store_leaves_valid_bundle :
  forall idx dat s d,
    v1_WInv (idx, dat) -> slot_ok s -> bytes_okl d -> zlen d < two32 -> blen dat + 4 + zlen d < two40 ->
    let e := blen dat in
    let dat2 := bwrite (bwrite dat e (le 4 (zlen d))) (e + 4) d in
    let idx' := bwrite idx (v1_ioff s) (le 5 e) in
    exists hb, v1_store1 (idx, dat) s d = Some (idx', bwrite dat2 0 hb) /\
      forall st, In st [(idx, dat2); (idx, bwrite dat2 0 hb); (idx', dat2); (idx', bwrite dat2 0 hb)] ->
        v1_WInv st /\
        forall s', slot_ok s' ->
          v1_load st s' = v1_load (idx, dat) s' \/
          (s' = s /\ v1_load st s' = (if zlen d =? 0 then RMissing else RData d)).
Proof. exact v1_store_prefix_ok. Qed.

Theorem v1_torn_append_changes_nothing :
  forall idx dat t, v1_WInv (idx, dat) -> bytes_okl t ->
    v1_WInv (idx, bwrite dat (blen dat) t) /\
    forall s, slot_ok s -> v1_load (idx, bwrite dat (blen dat) t) s = v1_load (idx, dat) s.
Proof. exact v1_torn_append_ok. Qed.

Theorem v1_valid_is_weakly_valid : forall st, v1_Inv st -> v1_WInv st.
Proof. exact v1_Inv_weak. Qed.

Theorem v2_valid_is_weakly_valid : forall f, v2_Inv f -> v2_WInv f.
Proof. exact v2_Inv_weak. Qed.

(* ---- readers on arbitrary file contents (no invariant assumed): an index entry is interpreted by size and offset
   only.  Whatever the bytes are, load_tile answers `missing` or a slice that lies inside the file (possibly shorter
   than the size the entry claims, when the file ends first); v1 additionally raises struct.error exactly when the
   4-byte size field is cut off by the end of the data file.  Nothing else can happen. *)
Theorem v2_reader_never_fails_on_garbage :
  forall f s, B2 <= blen f -> slot_ok s ->
    v2_load f s = RMissing \/
    exists off n, v2_load f s = RData (bread f off n) /\ 0 <= off /\ (n = O \/ off + Z.of_nat n <= blen f).
Proof. exact v2_reader_total. Qed.

Theorem v1_reader_on_garbage :
  forall idx dat s, X1 <= blen idx -> slot_ok s ->
    let off := brd idx (v1_ioff s) 5 in
    v1_load (idx, dat) s = RMissing \/
    (v1_load (idx, dat) s = RError /\ off <> 0 /\ blen dat < off + 4) \/
    exists n, v1_load (idx, dat) s = RData (bread dat (off + 4) n) /\ n <> O /\ off + 4 + Z.of_nat n <= blen dat.
Proof. exact v1_reader_total. Qed.

(* ---- life goes on after a failed store: everything above also holds from the weakly valid states (v2_WInv /
   v1_WInv) that failed stores leave behind - further histories on the bundle, its defragmentation, and whole
   caches some of whose bundles are only weakly valid. *)
Theorem v2_history_after_failed_store :
  forall ops f, v2_WInv f -> Forall (op_ok two24) ops -> blen f + ops_bytes ops < two40 ->
    exists f', fold_left v2_step ops (Some f) = Some f' /\ v2_WInv f' /\ blen f' = blen f + ops_bytes ops.
Proof. exact v2_w_history. Qed.

Theorem v2_defrag_after_failed_store :
  forall f, v2_WInv f -> blen f < two40 ->
    exists r, v2_defrag f = Some r /\
      (forall s, slot_ok s -> g_load_opt bfile v2_load r s = v2_load f s) /\
      (forall f', r = Some f' -> v2_WInv f' /\ blen f' <= blen f).
Proof. exact v2_w_defrag. Qed.

Theorem v2_cache_with_failed_stores :
  forall ops c b,
    B2 <= b -> cache_ok v2_WInv blen b c -> Forall (cop_ok two24) ops -> b + cops_bytes ops < two40 ->
    exists c', fold_left (c_step bfile v2_store1 v2_remove1 (fun _ => v2_init)) ops (Some c) = Some c' /\
               cache_ok v2_WInv blen (b + cops_bytes ops) c'.
Proof. exact v2c_w_history. Qed.

Theorem v2_cache_defrag_with_failed_stores :
  forall skip c b, b < two40 -> cache_ok v2_WInv blen b c ->
    exists c', v2c_defrag skip c = Some c' /\
      (forall coord, v2c_load c' coord = v2c_load c coord) /\
      cache_ok v2_WInv blen b c' /\
      (forall k f', In (k, f') c' -> exists f, In (k, f) c /\ blen f' <= blen f).
Proof. exact v2c_w_defrag. Qed.

Theorem v1_history_after_failed_store :
  forall ops st, v1_WInv st -> Forall (op_ok two32) ops -> v1_dlen st + ops_bytes ops < two40 ->
    exists st', fold_left v1_step ops (Some st) = Some st' /\ v1_WInv st' /\ v1_dlen st' = v1_dlen st + ops_bytes ops.
Proof. exact v1_w_history. Qed.

Theorem v1_defrag_after_failed_store :
  forall c r st, v1_WInv st -> v1_dlen st < two40 ->
    exists o, v1_defrag c r st = Some o /\
      (forall s, slot_ok s -> g_load_opt v1st v1_load o s = v1_load st s) /\
      (forall st', o = Some st' -> v1_WInv st' /\ v1_dlen st' <= v1_dlen st).
Proof. exact v1_w_defrag. Qed.

Theorem v1_cache_with_failed_stores :
  forall ops c b,
    B1 <= b -> cache_ok v1_WInv v1_dlen b c -> Forall (cop_ok two32) ops -> b + cops_bytes ops < two40 ->
    exists c', fold_left (c_step v1st v1_store1 v1_remove1 v1_fresh) ops (Some c) = Some c' /\
               cache_ok v1_WInv v1_dlen (b + cops_bytes ops) c'.
Proof. exact v1c_w_history. Qed.

Theorem v1_cache_defrag_with_failed_stores :
  forall skip c b, b < two40 -> cache_ok v1_WInv v1_dlen b c ->
    exists c', v1c_defrag skip c = Some c' /\
      (forall coord, v1c_load c' coord = v1c_load c coord) /\
      cache_ok v1_WInv v1_dlen b c' /\
      (forall k st', In (k, st') c' -> exists st, In (k, st) c /\ v1_dlen st' <= v1_dlen st).
Proof. exact v1c_w_defrag. Qed.
