(* C05  Every cache backend behaves like a map from tile address to bytes.
   Property theorems only; proofs live in theories/CacheMap_proofs.v (abstract map, keyed store),
   CachePath_proofs.v (injectivity of the GENERATED path / slot functions), FileCache_proofs.v (links),
   SqlCache_proofs.v (batching), CacheBackends_proofs.v (assembly per back-end).

   Reading guide.  `model_outs b ops` = the outputs of the model of back-end b on the history ops (the models are
   compared with the real back-ends by the correspondence check); `spec_outs ops` = the outputs of the abstract
   map address -> bytes.  An address is (x, y, level, dimension values).  Validity conditions:
     file_valid ks a    : x, y, level >= 0 and the dimension keys of a are exactly ks (values are free);
     nodim_valid d0 a   : x, y, level >= 0 and the dimension values are the fixed d0 (arcgis: finding F4);
     quad_valid d0 a    : additionally x, y < 2^level (quadkey: finding F4);
     compact_valid d0 a : x, y, level >= 0, dimensions fixed (the loader refuses dimension layers here);
     sql_valid d0 a     : dimensions fixed (same reason);
     fop_ok V n o       : all addresses of operation o satisfy V, stored payloads are RGB or RGBA tiles of n pixels
                          (channel count, then the pixel values; one tile size per cache: single-colour payloads
                          are canonical per colour tuple, fully transparent colours included). *)
From Coq Require Import ZArith List Bool String.
Import ListNotations.
From MP Require Import Base Gen_path Gen_compact Gen_sqlbatch CacheMap CacheMap_proofs CachePath_proofs.
From MP Require Import FileCache FileCache_proofs SqlCache SqlCache_proofs CacheBackends CacheBackends_proofs.
From MP Require Import SqlTtl SqlTtl_proofs.
From MP Require Import Bytes Bundle CompactBytes CompactBytes_proofs.
Local Open Scope Z_scope.

(* ---------------------------------------------------------------- what "behaves like a map" means *)

(* A load returns exactly the bytes of the latest store to that address: after `Store a b` and any operations
   that do not write a (stores, bulk stores and removes of other addresses, any loads), `Load a` answers b. *)
Theorem load_latest_store :
  forall pre a b mid m,
    (forall o, In o mid -> ~ In a (writes o)) ->
    snd (spec_run m (pre ++ Store a b :: mid ++ [Load a])) =
    snd (spec_run m (pre ++ Store a b :: mid)) ++ [OLoad (Some b)].
Proof. exact spec_load_latest_store. Qed.

(* ... and nothing after a remove: load misses and is_cached is false. *)
Theorem nothing_after_remove :
  forall pre a mid m,
    (forall o, In o mid -> ~ In a (writes o)) ->
    snd (spec_run m (pre ++ Remove a :: mid ++ [Load a; IsCached a])) =
    snd (spec_run m (pre ++ Remove a :: mid)) ++ [OLoad None; OCached false].
Proof. exact spec_nothing_after_remove. Qed.

(* Operations on other addresses never change what an address returns. *)
Theorem other_addresses_unaffected :
  forall pre mid a m,
    (forall o, In o mid -> ~ In a (writes o)) ->
    snd (spec_run m (pre ++ mid ++ [Load a])) =
    snd (spec_run m (pre ++ mid)) ++ [OLoad (fst (spec_run m pre) a)].
Proof. exact spec_other_addresses_unaffected. Qed.

(* ---------------------------------------------------------------- refinement: file cache, every layout and link mode *)

(* tc layout (digit groups 999/1000), no link / symlink / hardlink, any fixed set of dimension keys: every history
   gives the outputs of the abstract map (level 0, equal x/y at different levels, addresses that differ only in a
   dimension value and identical single-colour tiles sharing a link included). *)
Theorem file_tc_behaves_like_a_map :
  forall link ks npix ops, NoDup ks -> Forall (fop_ok (file_valid ks) npix) ops ->
    model_outs (BFile "tc" link) ops = spec_outs ops.
Proof. exact file_tc_refines. Qed.

Theorem file_mp_behaves_like_a_map :
  forall link ks npix ops, NoDup ks -> Forall (fop_ok (file_valid ks) npix) ops ->
    model_outs (BFile "mp" link) ops = spec_outs ops.
Proof. exact file_mp_refines. Qed.

Theorem file_tms_behaves_like_a_map :
  forall link ks npix ops, NoDup ks -> Forall (fop_ok (file_valid ks) npix) ops ->
    model_outs (BFile "tms" link) ops = spec_outs ops.
Proof. exact file_tms_refines. Qed.

Theorem file_reverse_tms_behaves_like_a_map :
  forall link ks npix ops, NoDup ks -> Forall (fop_ok (file_valid ks) npix) ops ->
    model_outs (BFile "reverse_tms" link) ops = spec_outs ops.
Proof. exact file_reverse_tms_refines. Qed.

(* arcgis layout: only among addresses with the same dimension values (finding F4: the path ignores them). *)
Theorem file_arcgis_behaves_like_a_map :
  forall link d0 npix ops, Forall (fop_ok (nodim_valid d0) npix) ops ->
    model_outs (BFile "arcgis" link) ops = spec_outs ops.
Proof. exact file_arcgis_refines. Qed.

(* quadkey layout: same dimension values and x, y < 2^level (finding F4). *)
Theorem file_quadkey_behaves_like_a_map :
  forall link d0 npix ops, Forall (fop_ok (quad_valid d0) npix) ops ->
    model_outs (BFile "quadkey" link) ops = spec_outs ops.
Proof. exact file_quadkey_refines. Qed.

(* Finding F4: without those restrictions the statement is false of the code as it is: a history over addresses
   that differ only in the TIME value (arcgis), resp. over (0,0,0) and (1,0,0) without dimensions (quadkey),
   on which the back-end does not answer like the map. *)
Theorem file_arcgis_behaves_like_a_map_refuted :
  exists ops, Forall (fop_ok (file_valid [s2t "time"]) 4) ops /\
              model_outs (BFile "arcgis" LNone) ops <> spec_outs ops.
Proof. exact arcgis_refines_map_refuted. Qed.

Theorem file_quadkey_behaves_like_a_map_refuted :
  exists ops, Forall (fop_ok (nodim_valid []) 4) ops /\
              model_outs (BFile "quadkey" LNone) ops <> spec_outs ops.
Proof. exact quadkey_refines_map_refuted. Qed.

(* ---------------------------------------------------------------- injectivity of the generated path functions *)

(* Different valid addresses never share a tile file: stated on the definitions generated from cache/path.py. *)
Theorem tile_location_tc_injective :
  forall ks ext a b, NoDup ks -> file_valid ks a -> file_valid ks b ->
    file_key tile_location_tc ext a = file_key tile_location_tc ext b -> a = b.
Proof. exact file_key_tc_inj. Qed.

Theorem tile_location_mp_injective :
  forall ks ext a b, NoDup ks -> file_valid ks a -> file_valid ks b ->
    file_key tile_location_mp ext a = file_key tile_location_mp ext b -> a = b.
Proof. exact file_key_mp_inj. Qed.

Theorem tile_location_tms_injective :
  forall ks ext a b, NoDup ks -> file_valid ks a -> file_valid ks b ->
    file_key tile_location_tms ext a = file_key tile_location_tms ext b -> a = b.
Proof. exact file_key_tms_inj. Qed.

Theorem tile_location_reverse_tms_injective :
  forall ks ext a b, NoDup ks -> file_valid ks a -> file_valid ks b ->
    file_key tile_location_reverse_tms ext a = file_key tile_location_reverse_tms ext b -> a = b.
Proof. exact file_key_reverse_tms_inj. Qed.

Theorem tile_location_arcgis_injective :
  forall d0 ext a b, nodim_valid d0 a -> nodim_valid d0 b ->
    file_key tile_location_arcgiscache ext a = file_key tile_location_arcgiscache ext b -> a = b.
Proof. exact file_key_arcgis_inj. Qed.

Theorem tile_location_quadkey_injective :
  forall d0 ext a b, quad_valid d0 a -> quad_valid d0 b ->
    file_key tile_location_quadkey ext a = file_key tile_location_quadkey ext b -> a = b.
Proof. exact file_key_quadkey_inj. Qed.

(* F4 on the path functions themselves *)
Theorem tile_location_arcgis_injective_refuted :
  exists a b, file_valid [s2t "time"] a /\ file_valid [s2t "time"] b /\ a <> b /\
              file_key tile_location_arcgiscache "png" a = file_key tile_location_arcgiscache "png" b.
Proof. exact arcgis_dimensions_refuted. Qed.

Theorem tile_location_quadkey_injective_refuted :
  exists a b, nodim_valid [] a /\ nodim_valid [] b /\ a <> b /\
              file_key tile_location_quadkey "png" a = file_key tile_location_quadkey "png" b.
Proof. exact quadkey_range_refuted. Qed.

(* dimensions_part (with the percent-escaping of _path_component) is injective in the dimension values. *)
Theorem dimensions_part_injective_in_values :
  forall d1 d2, map fst d1 = map fst d2 -> NoDup (map fst d1) -> dims_part d1 = dims_part d2 -> d1 = d2.
Proof. exact dims_part_inj. Qed.

(* The dimensions argument is a python dict: the same distinct keys with the same values inserted in another order
   (WMS request-parameter order, the seeder's configuration, the tile service) are the same address.
   dimensions_part sorts both key groups, so for EVERY layout function the location is the same ... *)
Theorem tile_location_independent_of_dimension_key_order :
  forall f ext x y z d1 d2, Permutation.Permutation d1 d2 -> NoDup (map fst d1) ->
    file_key f ext (mkAddr x y z d1) = file_key f ext (mkAddr x y z d2).
Proof. exact file_key_perm. Qed.

(* ... hence store / load / is_cached / remove of the file cache have the same effect and the same answer in every
   state, for every layout and link mode, whichever key order the caller used. *)
Theorem file_cache_calls_independent_of_dimension_key_order :
  forall layout ext link s x y z d1 d2 b, Permutation.Permutation d1 d2 -> NoDup (map fst d1) ->
    let a1 := mkAddr x y z d1 in let a2 := mkAddr x y z d2 in
    file_step layout ext link s (Store a1 b) = file_step layout ext link s (Store a2 b) /\
    file_step layout ext link s (Load a1) = file_step layout ext link s (Load a2) /\
    file_step layout ext link s (IsCached a1) = file_step layout ext link s (IsCached a2) /\
    file_step layout ext link s (Remove a1) = file_step layout ext link s (Remove a2).
Proof. exact file_step_dims_order. Qed.

(* Conversely two dicts over the same keys (in any order) that give the same directory carry the same values. *)
Theorem dimensions_part_equal_only_for_equal_values :
  forall d1 d2, NoDup (map fst d1) -> Permutation.Permutation (map fst d1) (map fst d2) ->
    dims_part d1 = dims_part d2 -> forall k, In k (map fst d1) -> dim_get d1 k = dim_get d2 k.
Proof. exact dims_part_same_only_if_perm. Qed.

(* non-vacuity: time/elevation in both orders is one directory, swapped values another one *)
Example dimension_key_order_example :
  let t := s2t "time" in let e := s2t "elevation" in let a := s2t "a" in let b := s2t "b" in
  dims_part [(t, a); (e, b)] = dims_part [(e, b); (t, a)] /\
  dims_part [(t, a); (e, b)] = [s2t "elevation-b"; s2t "time-a"] /\
  dims_part [(t, b); (e, a)] <> dims_part [(t, a); (e, b)].
Proof. cbv zeta. repeat split. vm_compute. discriminate. Qed.

(* The files of linked single-colour tiles are never tile files (all layouts), and different colours have
   different files. *)
Theorem single_color_files_distinct :
  forall ext c1 c2, colour c1 -> colour c2 -> sc_path ext c1 = sc_path ext c2 -> c1 = c2.
Proof. exact sc_path_inj. Qed.

(* ---------------------------------------------------------------- compact caches *)

(* Bundle file and index slot determine the tile (borders 127/128 included), for v1 and v2. *)
Theorem bundle_slot_injective :
  forall v2 d0 a b, compact_valid d0 a -> compact_valid d0 b -> compact_key v2 a = compact_key v2 b -> a = b.
Proof. exact compact_key_inj. Qed.

Theorem compact_behaves_like_a_map :
  forall v2 d0 ops, ops_ok (compact_valid d0) ops -> model_outs (BCompact v2) ops = spec_outs ops.
Proof. exact compact_refines. Qed.

(* ---------------------------------------------------------------- sqlite back-ends *)

(* The bulk load cuts the request into SELECT statements such that every requested coordinate is bound in exactly
   one statement (the parts concatenate to the request), every statement binds whole (x, y, level) triples and at
   most 999 values - for the constants extracted from mbtiles.py / geopackage.py. *)
Theorem batching_complete_mbtiles :
  forall cs, exists ps,
    batches (S (List.length (flat_map (sel (bp_app mbtiles_params)) cs))) (Z.to_nat (bp_take mbtiles_params))
            (Z.to_nat (bp_drop mbtiles_params)) (flat_map (sel (bp_app mbtiles_params)) cs)
      = Some (map (flat_map (sel [0; 1; 2])) ps) /\
    List.concat ps = cs /\
    Forall (fun part => (0 < List.length part <= 333)%nat) ps /\
    Forall (fun b => List.length b = (3 * (List.length b / 3))%nat /\ (List.length b <= 999)%nat) (map (flat_map (sel [0; 1; 2])) ps).
Proof. exact (fun cs => batching_complete mbtiles_params cs mbtiles_params_good). Qed.

Theorem batching_complete_geopackage :
  forall cs, exists ps,
    batches (S (List.length (flat_map (sel (bp_app gpkg_params)) cs))) (Z.to_nat (bp_take gpkg_params))
            (Z.to_nat (bp_drop gpkg_params)) (flat_map (sel (bp_app gpkg_params)) cs)
      = Some (map (flat_map (sel [0; 1; 2])) ps) /\
    List.concat ps = cs /\
    Forall (fun part => (0 < List.length part <= 333)%nat) ps /\
    Forall (fun b => List.length b = (3 * (List.length b / 3))%nat /\ (List.length b <= 999)%nat) (map (flat_map (sel [0; 1; 2])) ps).
Proof. exact (fun cs => batching_complete gpkg_params cs gpkg_params_good). Qed.

(* MBTilesCache / GeopackageCache (one database): every history, bulk loads of any size included (also requests
   that name a coordinate more than once: every tile object of the request is filled), answers like the map. *)
Theorem sqlite_behaves_like_a_map :
  forall d0 ops, ops_ok (sql_valid d0) ops ->
    model_outs BMbtiles ops = spec_outs ops /\ model_outs BGpkg ops = spec_outs ops.
Proof. exact sql_refines. Qed.

(* MBTilesLevelCache / GeopackageLevelCache (one database file per level): the same, with the per-level dispatch
   of stores, loads and bulk loads; equal x/y at different levels and level 0 included. *)
Theorem sqlite_per_level_behaves_like_a_map :
  forall d0 ops, ops_ok (sql_valid d0) ops ->
    model_outs BSqlite ops = spec_outs ops /\ model_outs BGpkgLevel ops = spec_outs ops.
Proof. exact level_sql_refines. Qed.

(* The bulk load itself: for the constants extracted from the source and a database with its unique index, the
   call returns, for every tile of the request, what a single load returns, and True exactly when all are found. *)
Theorem bulk_load_equals_single_loads :
  forall p d cs, good_params p -> db_wf d ->
    bulk_load p d cs = Some (forallb is_some (map (db_get d) cs), map (db_get d) cs).
Proof. exact bulk_load_correct. Qed.

(* ---------------------------------------------------------------- re-used Tile objects (file cache) *)

(* FileCache keeps the location on the Tile object: once an object has its location (tile_at t a), a store through
   it goes to the address a of the object, whatever dimensions the call passes ... *)
Theorem tile_object_store_goes_to_its_address :
  forall layout ext link s t a d b, tile_at layout ext t a -> t_stored t = false ->
    fst (fst (tcall_step layout ext link s t (TStore d b))) = fstore layout ext link s a b.
Proof. exact object_store_address. Qed.

(* ... and so does a load (return value and content). *)
Theorem tile_object_load_comes_from_its_address :
  forall layout ext link s t a d, tile_at layout ext t a -> t_src t = None ->
    snd (tcall_step layout ext link s t (TLoad d)) = Some (is_some (fload layout ext s a)) /\
    t_src (snd (fst (tcall_step layout ext link s t (TLoad d)))) = fload layout ext s a.
Proof. exact object_load_address. Qed.

(* The single-tile flow of the tile manager (look-up with the dimensions of the request, miss, then
   TileCreator._create_single_tile stores the same Tile object WITHOUT dimensions): the store reaches the address
   with the dimensions of the request, because the first call fixed the location. *)
Theorem lookup_then_store_without_dimensions_reaches_the_request_address :
  forall layout ext link s x y z d b,
    fs_read s (floc layout ext (mkAddr x y z d)) = None ->
    let '(s1, t1, r1) := tcall_step layout ext link s (new_tile x y z) (TLoad d) in
    r1 = Some false /\
    fst (fst (tcall_step layout ext link s1 t1 (TStore [] b))) = fstore layout ext link s (mkAddr x y z d) b.
Proof. exact lookup_then_store_without_dimensions. Qed.

(* ---------------------------------------------------------------- compact caches at byte level (through C19's Bundle.v) *)

(* The byte-level model of the compact caches (bundle files as byte sequences: index entries, appended records,
   header updates; several bundles per cache - C19's Bundle.v, tied to compact.py by C19's correspondence and by the
   `compact_bytes` stream of this check) answers every history like the abstract map: payloads are the tile byte
   strings (byte values, not empty, below the size the format can hold), the bundle files stay below 2^40 bytes.
   Version 2 ... *)
Theorem compact_v2_bytes_behave_like_a_map :
  forall d0 ops, Forall (op_good two24 d0) ops -> B2 + ops_bytes5 ops < two40 ->
    v2_bytes_outs ops = spec_outs ops.
Proof. exact v2_bytes_refine. Qed.

(* ... and version 1 (index file + data file). *)
Theorem compact_v1_bytes_behave_like_a_map :
  forall d0 ops, Forall (op_good two32 d0) ops -> B1 + ops_bytes5 ops < two40 ->
    v1_bytes_outs ops = spec_outs ops.
Proof. exact v1_bytes_refine. Qed.

(* A store through a Tile object that fails in write_atomic (ENOSPC, EIO ...) leaves the object unstored (the
   stored flag is set by tile_buffer only after the write): the retry through the SAME object writes the tile to
   the address of the object.  (File cache without links; with links the model covers the same calls, see
   tcall_step.) *)
Theorem failed_store_then_retry_through_the_same_tile_object_writes :
  forall layout ext link s t a d b d' b', tile_at layout ext t a -> t_stored t = false -> link = LNone ->
    let '(s1, t1, r1) := tcall_step layout ext link s t (TStoreFail d b) in
    r1 = Some false /\ t_stored t1 = false /\
    fst (fst (tcall_step layout ext link s1 t1 (TStore d' b'))) = fstore layout ext link s1 a b'.
Proof. exact failed_store_then_retry_writes. Qed.

(* ---------------------------------------------------------------- sqlite caches configured with a ttl *)

(* MBTilesCache with time stamps and `ttl` (every level database of the per-level sqlite cache is one): rows carry
   last_modified = local time of the store, the SELECTs of load_tile / is_cached / load_tiles add
   "datetime('now', 'localtime', '-ttl seconds') < last_modified".  For EVERY time zone offset `off` and every history
   whose clock readings stay inside one window [lo, lo + ttl) (the ttl has not run out; the readings need not even be
   monotone), the cache answers every operation exactly like the cache without ttl ... *)
Theorem sqlite_with_ttl_answers_like_without_ttl_inside_the_window :
  forall p off ttl lo tops, in_window ttl lo tops ->
    snd (tsql_run p code_sites off ttl [] tops) = snd (sql_run p [] (map snd tops)).
Proof. exact ttl_cache_is_the_cache. Qed.

(* ... hence like the map from tile address to bytes. *)
Theorem mbtiles_with_ttl_behaves_like_a_map_inside_the_window :
  forall off ttl lo d0 tops, in_window ttl lo tops -> ops_ok (sql_valid d0) (map snd tops) ->
    snd (tsql_run mbtiles_params code_sites off ttl [] tops) = spec_outs (map snd tops).
Proof. exact ttl_mbtiles_refines. Qed.

(* This rests on the three statements (INSERT, single SELECT, bulk SELECT) agreeing on the 'localtime' modifier
   (`code_sites`, compared with the source text on every run): drop it from the bulk SELECT alone and a tile stored a
   second ago is missed by the bulk load west of UTC. *)
Theorem ttl_statements_must_agree_on_localtime :
  exists off ttl tops, in_window ttl 100 tops /\
    snd (tsql_run mbtiles_params (mkSites true true false) off ttl [] tops) <> snd (sql_run mbtiles_params [] (map snd tops)).
Proof. exact ttl_sites_must_agree_refuted. Qed.
