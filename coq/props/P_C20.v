(* C20  Conditional requests are honoured soundly.
   Property theorems only; model in theories/Cond.v, proofs in theories/Cond_proofs.v.
   h = md5 (any function), tps = ticks per second of the timestamps (any integer), max_age = configured max tile age,
   store = what the cache backend holds (timestamp, size, bytes per tile), run/step = the tile services over it. *)
From Coq Require Import ZArith List Bool.
Import ListNotations.
From MP Require Import Base Cond Cond_proofs Gen_cond Cond_gen_proofs.
Local Open Scope Z_scope.

(* Once a tile is in the cache, repeated requests receive identical validators and bodies until it is rewritten
   (touches k: Rewrite, Remove or a Refresh = request under an expiry rule that calls tile k stale):
   for every history of requests (any service, any tile, any conditional headers, any upstream behaviour) and of
   rewrites / removals of OTHER tiles, tile k keeps its entry e, and every answer to a request for k carries the
   ETag and Last-Modified of e, never no-store, and is either 200 with the stored bytes or 304 with no body. *)
Theorem validators_stable :
  forall h tps max_age evs st k e,
    lookup st k = Some e ->
    (forall ev, In ev evs -> touches k ev = false) ->
    lookup (fst (run h tps max_age st evs)) k = Some e /\
    forall i svc inm ims up r,
      nth_error evs i = Some (Req svc k inm ims up) ->
      nth_error (snd (run h tps max_age st evs)) i = Some (Some (Resp r)) ->
      r_etag r = Some (etag_of_entry h e) /\ r_lastmod r = lastmod_of_entry tps e /\ r_nostore r = false /\
      ((r_status r = 200 /\ r_body r = Some (e_body e)) \/
       (r_status r = 304 /\ r_body r = None /\ r_ctype r = false)).
Proof. exact run_stable. Qed.

(* A request carrying the current ETag of a stored tile is answered 304 with no body (and no Content-type),
   whatever If-Modified-Since says, by all four services; the store is not touched. *)
Theorem etag_match_304_empty :
  forall h tps max_age st svc k ims up e,
    lookup st k = Some e ->
    exists r, step h tps max_age st (Req svc k (Some (etag_of_entry h e)) ims up) = (st, Some (Resp r)) /\
              r_status r = 304 /\ r_body r = None /\ r_ctype r = false /\
              r_etag r = Some (etag_of_entry h e).
Proof. exact step_etag_match. Qed.

(* 304 is never sent unless the client's validator matches the tile served: for every service and every tile
   metadata, status 304 implies that the tile is cacheable and that If-None-Match equals its ETag or
   If-Modified-Since parsed to a time not before its timestamp. *)
Theorem sound_304 :
  forall svc h tps max_age ti body inm ims r,
    serve svc h tps max_age ti body inm ims = Resp r -> r_status r = 304 ->
    ti_cacheable ti = true /\
    r = not_modified (full_resp h tps max_age ti body) /\
    (inm = Some (etag_of h ti) \/
     exists s t, ti_ts ti = Some s /\ st_ticks s <> 0 /\ parse_httpdate ims = PSome t /\ st_ticks s <= t * tps).
Proof. exact serve_sound_304. Qed.

(* The never-304-after-rewrite direction: whatever happened before, if tile k is NOW stored as e', a request whose
   If-None-Match is not the ETag of e' and whose If-Modified-Since (if it parses) is earlier than the timestamp
   of e' gets the full answer 200 with the bytes and validators of e'. *)
Theorem stale_validators_get_200 :
  forall h tps max_age st svc k inm ims up e',
    lookup st k = Some e' ->
    inm <> Some (etag_of_entry h e') ->
    (forall t, parse_httpdate ims = PSome t -> t * tps < st_ticks (e_ts e')) ->
    step h tps max_age st (Req svc k inm ims up)
    = (st, Some (Resp (full_resp h tps max_age (info_of_entry e') (e_body e')))).
Proof. exact stale_validators_200. Qed.

(* ... but "not the ETag of e'" is a hypothesis about md5(str(timestamp) ++ str(size)), and the text that is hashed
   does not determine (timestamp, size): two entries that differ in timestamp, size and bytes with the same ETag
   for every hash function.  (Needs a rewrite within 0.1 s with a size that continues the digits; see report.) *)
Theorem etag_not_injective_refuted :
  exists e1 e2, (st_ticks (e_ts e1) <> st_ticks (e_ts e2)) /\ e_size e1 <> e_size e2 /\ e_body e1 <> e_body e2 /\
                forall h, etag_of_entry h e1 = etag_of_entry h e2.
Proof. exact etag_source_ambiguous. Qed.

(* A malformed date is ignored: any If-Modified-Since for which parse_httpdate returns None - text that
   email.utils.parsedate rejects (ImsBad) and, since the repair of F18, dates it accepts but that cannot be converted -
   gets the answer that the same request without the header gets. *)
Theorem malformed_date_ignored :
  forall svc h tps max_age ti body inm ims,
    parse_httpdate ims = PNone ->
    serve svc h tps max_age ti body inm ims = serve svc h tps max_age ti body inm ImsAbsent.
Proof. exact serve_malformed_date. Qed.

(* ... in particular every date with a year above 9999 (was finding F18: answered 500 before the repair). *)
Theorem out_of_range_date_ignored :
  forall svc h tps max_age ti body inm y mo d hh mi ss,
    9999 < y ->
    serve svc h tps max_age ti body inm (ImsDate y mo d hh mi ss) = serve svc h tps max_age ti body inm ImsAbsent.
Proof. exact serve_out_of_range_date. Qed.

(* No conditional header whatsoever makes a tile request fail: the answer is never the error outcome. *)
Theorem conditional_headers_never_fail :
  forall svc h tps max_age ti body inm ims,
    serve svc h tps max_age ti body inm ims <> Err500.
Proof. exact serve_no_500. Qed.

(* Tiles that must not be cached are sent with no-store directives, by all four services: status 200, the image,
   Cache-Control no-cache/no-store + Pragma + Expires, no ETag, no Last-modified, no public max-age - and never
   304, whatever validators the client sends. *)
Theorem uncacheable_no_store :
  forall svc h tps max_age ti body inm ims,
    ti_cacheable ti = false ->
    serve svc h tps max_age ti body inm ims = Resp (nostore_resp body).
Proof. exact serve_uncacheable. Qed.

(* The same for WMS GetMap in general (tiled or not, merged or single layer). *)
Theorem uncacheable_no_store_wms :
  forall h tps max_age tiled w body inm ims,
    wc_truthy w = false ->
    serve_wms h tps max_age tiled w body inm ims = Resp (nostore_resp body).
Proof. exact serve_wms_uncacheable. Qed.

(* History form: an upstream error mapped to an uncached fill image leaves the cache as it was. *)
Theorem uncacheable_not_stored :
  forall h tps max_age st svc k inm ims body,
    lookup st k = None ->
    step h tps max_age st (Req svc k inm ims (UFill body)) = (st, Some (Resp (nostore_resp body))).
Proof. exact step_fill. Qed.

(* If-Modified-Since at or after the stored timestamp is answered 304 with no body, whatever If-None-Match says
   (this is the disjunction of sound_304 read in the other direction). *)
Theorem not_modified_since_304 :
  forall h tps max_age st svc k inm ims up e t,
    lookup st k = Some e ->
    st_ticks (e_ts e) <> 0 ->
    parse_httpdate ims = PSome t -> st_ticks (e_ts e) <= t * tps ->
    step h tps max_age st (Req svc k inm ims up)
    = (st, Some (Resp (not_modified (full_resp h tps max_age (info_of_entry e) (e_body e))))).
Proof. exact step_ims_304. Qed.

(* Echoing the Last-Modified header alone is NOT enough for a file cache: the header shows whole seconds, the
   comparison uses the fractional mtime, so the answer is the full 200 (sound; only a wasted transfer).
   _partial: completeness of If-Modified-Since holds only for whole-second timestamps (sqlite). *)
Theorem last_modified_echo_fractional_partial :
  forall h tps max_age st svc k ims up e,
    lookup st k = Some e -> 0 < tps ->
    st_ticks (e_ts e) mod tps <> 0 ->
    parse_httpdate ims = PSome (st_ticks (e_ts e) / tps) ->
    step h tps max_age st (Req svc k None ims up)
    = (st, Some (Resp (full_resp h tps max_age (info_of_entry e) (e_body e)))).
Proof. exact step_ims_echo_fractional. Qed.

(* Every date with a year from 1 to 9999 is read as written (the "+2000 for years below 1970" rule is repaired,
   C20-L4), so sound_304 speaks about the date the client sent ... *)
Theorem dates_read_as_written :
  forall y mo d hh mi ss,
    1 <= y <= 9999 -> 1 <= mo <= 12 ->
    parse_httpdate (ImsDate y mo d hh mi ss) = PSome (timegm y mo d hh mi ss).
Proof. exact parse_as_written. Qed.


(* Requests that find the stored tile stale (refresh rule, single-tile path): when the source answers, the tile is
   stored again ... *)
Theorem refresh_stores_again :
  forall h tps max_age st svc k inm ims body now size stored e,
    lookup st k = Some e ->
    lookup (fst (step h tps max_age st (Refresh svc k inm ims (UOk body now size stored)))) k = Some stored.
Proof. exact step_refresh_stores. Qed.

(* ... when the source fails with an uncached fill image the answer is no-store and the old entry stays ... *)
Theorem refresh_uncacheable_no_store :
  forall h tps max_age st svc k inm ims body e,
    lookup st k = Some e ->
    step h tps max_age st (Refresh svc k inm ims (UFill body)) = (st, Some (Resp (nostore_resp body))).
Proof. exact step_refresh_fill. Qed.

(* ... and (since the repair of C20-L3) the refreshing request answers for the NEW content: its answer is the one a
   creating request gives, with the validators of (now, size) ... *)
Theorem refresh_answer_is_fresh_answer :
  forall h tps max_age st svc k inm ims body now size stored e,
    lookup st k = Some e ->
    step h tps max_age st (Refresh svc k inm ims (UOk body now size stored))
    = (update st k stored,
       Some (make_conditional tps
               (full_resp h tps max_age {| ti_cacheable := true; ti_ts := Some now; ti_size := Some size |} body) inm ims)).
Proof. exact step_refresh_answer. Qed.

(* ... so it is 304 only if If-None-Match is the ETag of what it has just stamped or If-Modified-Since is not before
   that time: the validators of the replaced tile no longer produce 304 (was refresh_answer_sound_refuted). *)
Theorem refresh_answer_sound :
  forall h tps max_age st svc k inm ims body now size stored e st' r,
    lookup st k = Some e ->
    step h tps max_age st (Refresh svc k inm ims (UOk body now size stored)) = (st', Some (Resp r)) ->
    r_status r = 304 ->
    inm = Some (etag_of h {| ti_cacheable := true; ti_ts := Some now; ti_size := Some size |}) \/
    exists t, st_ticks now <> 0 /\ parse_httpdate ims = PSome t /\ st_ticks now <= t * tps.
Proof. exact refresh_answer_sound_304. Qed.

(* A request that loaded the tile and then waited for the tile lock while other requests / writers ran answers with
   the validators and bytes of what is stored when it gets the lock (200 + stored bytes or 304 + no body), whatever it
   had loaded before: the re-check under the lock re-reads the metadata. *)
Theorem waiter_answers_for_current_store :
  forall h tps max_age st_loaded mid svc k inm ims up e_now st' r,
    lookup (fst (run h tps max_age st_loaded mid)) k = Some e_now ->
    waiter h tps max_age st_loaded mid (Req svc k inm ims up) = (st', Some (Resp r)) ->
    st' = fst (run h tps max_age st_loaded mid) /\
    (r_etag r = Some (etag_of_entry h e_now) /\ r_lastmod r = lastmod_of_entry tps e_now /\ r_nostore r = false /\
     ((r_status r = 200 /\ r_body r = Some (e_body e_now)) \/
      (r_status r = 304 /\ r_body r = None /\ r_ctype r = false))).
Proof. exact waiter_current. Qed.

(* Why the property is stated for backends WITH timestamps: with the constant timestamp -1 of mbtiles / geopackage
   caches a rewrite of equal size is invisible to the validators and the old ETag is answered 304. *)
Theorem timestampless_backend_rewrite_unseen_refuted :
  exists h tps max_age k e e' r,
    e_ts e = e_ts e' /\ e_size e = e_size e' /\ e_body e <> e_body e' /\
    step h tps max_age [(k, e')] (Req TMS k (Some (etag_of_entry h e)) ImsAbsent UErr) = ([(k, e')], Some (Resp r)) /\
    r_status r = 304.
Proof. exact timestampless_rewrite_unseen. Qed.

(* on_error with authorize_stale: a stale tile that is served because the source fails keeps the validators of what
   is stored (ETag, Last-Modified, never no-store; 200 + stored bytes or 304 + no body) and nothing is written; only
   when no tile is stored the uncached fill image is sent, with no-store. *)
Theorem stale_tile_served_during_outage_keeps_validators :
  forall h tps max_age st svc k inm ims body e st' r,
    lookup st k = Some e ->
    step h tps max_age st (Refresh svc k inm ims (UFillStale body)) = (st', Some (Resp r)) ->
    st' = st /\
    (r_etag r = Some (etag_of_entry h e) /\ r_lastmod r = lastmod_of_entry tps e /\ r_nostore r = false /\
     ((r_status r = 200 /\ r_body r = Some (e_body e)) \/
      (r_status r = 304 /\ r_body r = None /\ r_ctype r = false))).
Proof. exact step_refresh_authorize_stale_answer. Qed.

Theorem authorize_stale_fill_uncached_no_store :
  forall h tps max_age st svc k inm ims body,
    lookup st k = None ->
    step h tps max_age st (Req svc k inm ims (UFillStale body)) = (st, Some (Resp (nostore_resp body))).
Proof. exact step_fill_stale_uncached. Qed.

(* A tiled GetMap that is MERGED from the tiles of several cached layers carries no validators and is never answered
   304 (status 200, the image, no ETag / Last-modified / Cache-control), whatever the client sends: the validators
   of a single layer's tile never stand for the merged image. *)
Theorem merged_wmsc_not_conditional :
  forall h tps max_age tiled body inm ims,
    serve_wms h tps max_age tiled (WBool true) body inm ims = Resp (new_resp body).
Proof. exact serve_wms_merged. Qed.

(* A cache WITHOUT storage (disable_storage) built on a storing cache with the same grid (tiled_only access; e.g. a
   watermark drawn on the fly): its tile services behave, event by event, exactly like those of the lower cache -
   whatever the Tile object of the upper request held before the source was attached ... *)
Theorem storage_less_cache_answers_like_lower_cache :
  forall h tps max_age t0 st ev,
    step_passthrough h tps max_age t0 st ev = step h tps max_age st ev.
Proof. exact passthrough_is_lower_step. Qed.

(* ... in particular a request for a tile stored in the lower cache is answered with the validators of THAT tile as
   stored now (ETag, Last-Modified, never no-store; 200 + bytes or 304 + no body) and writes nothing; together with
   validators_stable / sound_304 / stale_validators_get_200 (statements about `step`) all clauses carry over. *)
Theorem storage_less_cache_uses_lower_validators :
  forall h tps max_age t0 st svc k inm ims up e st' r,
    lookup st k = Some e ->
    step_passthrough h tps max_age t0 st (Req svc k inm ims up) = (st', Some (Resp r)) ->
    st' = st /\
    (r_etag r = Some (etag_of_entry h e) /\ r_lastmod r = lastmod_of_entry tps e /\ r_nostore r = false /\
     ((r_status r = 200 /\ r_body r = Some (e_body e)) \/
      (r_status r = 304 /\ r_body r = None /\ r_ctype r = false))).
Proof. exact passthrough_answer. Qed.

(* Tie to the source.  gen_not_modified is regenerated on every run from the body of Response.make_conditional
   (translator/specs/cond.py -> gen/Gen_cond.v, statement by statement, fail closed; the method must end with the
   304 block whose condition the kernel is).  The model's make_conditional IS this kernel applied to the ETag
   comparison, the response's own timestamp and the parsed If-Modified-Since date: an edit of the method that changes
   the decision (the comparison, the precedence of If-None-Match, a dropped None test) breaks this theorem. *)
Theorem make_conditional_model_is_generated_from_source : forall tps r inm ims,
  make_conditional tps r inm ims =
  if gen_not_modified (etag_matches (r_etag r) inm) (r_ts r) (since_ticks tps (parse_httpdate ims))
  then Resp (not_modified r) else Resp r.
Proof. exact make_conditional_as_generated. Qed.
