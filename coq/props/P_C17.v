(* C17: Upstream servers are only asked for what they are configured to support.

   Model: Upstream.v.  `wms_get_map T kn kd GI GC src q` is WMSSource.get_map for the source configuration `src` and the
   query `q`; its value `Request r` means that WMSClient.retrieve is called with the negotiated values `r`;
   `url_params tmpl fixed r` are the parameters of the URL that is opened (request template `tmpl`, fixed parameters
   of the request class `fixed`).  `T` is PROJ (arbitrary), `kn / kd` the metres-per-degree constant.
   `tiled_get_map T kn kd GI ts q = TRequest (x, y, l)` means that TileClient.get_tile is called with that coordinate.
   All statements hold for every configuration, every query and every T. *)
From Coq Require Import ZArith List Bool.
Import ListNotations.
From MP Require Import Base Grid Grid_proofs Upstream Upstream_proofs Gen_compat Upstream_gen_proofs.
Local Open Scope Z_scope.

(* The srs_code of an upstream request is one of the configured supported_srs codes (aliases of the query SRS and of
   the preferred_src_proj entries are replaced by the code the source lists). *)
Theorem upstream_srs_supported :
  forall (T : srs -> srs -> bbox -> option bbox) (kn kd : Z) (GI GC : Z -> bbox -> bool) (src : wms_source) (q : query) (r : request),
    wms_get_map T kn kd GI GC src q = Request r -> w_srs src <> [] ->
    In (s_code (r_srs r)) (map s_code (w_srs src)).
Proof. exact request_srs_code_supported. Qed.

(* ... and it is the same SRS (as _SRS.__eq__ compares: same PROJ definition) as a configured one. *)
Theorem upstream_srs_equal_to_supported :
  forall (T : srs -> srs -> bbox -> option bbox) (kn kd : Z) (GI GC : Z -> bbox -> bool) (src : wms_source) (q : query) (r : request),
    wms_get_map T kn kd GI GC src q = Request r -> w_srs src <> [] ->
    exists s, In s (w_srs src) /\ srs_eq (r_srs r) s = true.
Proof. exact request_srs_equivalent. Qed.

(* The format of an upstream request is the format chosen by _get_map, and that is an entry of supported_formats
   (the first one as fallback) or equal to one as the code compares formats (ImageFormat: same extension). *)
Theorem upstream_format_supported :
  forall (T : srs -> srs -> bbox -> option bbox) (kn kd : Z) (GI GC : Z -> bbox -> bool) (src : wms_source) (q : query) (r : request),
    wms_get_map T kn kd GI GC src q = Request r -> w_fmts src <> [] ->
    exists e, In e (w_fmts src) /\ (r_fmt r = e \/ fmt_match (r_fmt r) e = true).
Proof. exact request_format_supported. Qed.

(* The bbox of an upstream request lies in the coverage extent (for a polygon coverage: the bounds of the geometry;
   geom_contains_sound = what the geometry contains lies inside its bounds; vacuous for bbox coverages): its image in the coverage SRS is contained in the
   coverage bbox (bbox_contains: tolerance 1e-13 of the extent), or it lies coordinate-wise inside the image of the
   coverage bbox in the SRS of the request (clipped sub query). *)
Theorem upstream_bbox_within_extent :
  forall (T : srs -> srs -> bbox -> option bbox) (kn kd : Z) (GI GC : Z -> bbox -> bool) (src : wms_source) (q : query) (r : request)
         (cb : bbox) (cs : srs),
    wms_get_map T kn kd GI GC src q = Request r -> w_cov src = Some (cb, cs) -> geom_contains_sound GC src ->
    (exists b, to_srs T (r_srs r) cs (r_bbox r) = Some b /\ bbox_contains cb b = true) \/
    (exists e, to_srs T cs (r_srs r) cb = Some e /\ inside e (r_bbox r)).
Proof. exact request_bbox_within_extent. Qed.

(* Request in the SRS of the coverage: no transformation is involved at all. *)
Theorem upstream_bbox_within_extent_same_srs :
  forall (T : srs -> srs -> bbox -> option bbox) (kn kd : Z) (GI GC : Z -> bbox -> bool) (src : wms_source) (q : query) (r : request)
         (cb : bbox) (cs : srs),
    wms_get_map T kn kd GI GC src q = Request r -> w_cov src = Some (cb, cs) -> geom_contains_sound GC src ->
    srs_eq (r_srs r) cs = true ->
    bbox_contains cb (r_bbox r) = true \/ inside cb (r_bbox r).
Proof. exact request_bbox_within_extent_same_srs. Qed.

(* The negotiated values are what the URL carries, whatever forward_req_params names (a forwarded parameter called
   srs / format / bbox / width / height never replaces the negotiated value). *)
Theorem url_carries_negotiated_srs :
  forall (T : srs -> srs -> bbox -> option bbox) (kn kd : Z) (GI GC : Z -> bbox -> bool) (src : wms_source) (q : query) (r : request)
         (tmpl : params) (fixed : list (Z * Z)),
    wms_get_map T kn kd GI GC src q = Request r -> ~ In K_SRS (map fst fixed) ->
    pget K_SRS (url_params tmpl fixed r) = Some [VStr (s_code (r_srs r))].
Proof. exact request_url_srs. Qed.

Theorem url_carries_negotiated_format :
  forall (T : srs -> srs -> bbox -> option bbox) (kn kd : Z) (GI GC : Z -> bbox -> bool) (src : wms_source) (q : query) (r : request)
         (tmpl : params) (fixed : list (Z * Z)),
    wms_get_map T kn kd GI GC src q = Request r -> ~ In K_FORMAT (map fst fixed) ->
    pget K_FORMAT (url_params tmpl fixed r) = Some [VStr (f_mime (r_fmt r))].
Proof. exact request_url_format. Qed.

Theorem url_carries_negotiated_bbox :
  forall (T : srs -> srs -> bbox -> option bbox) (kn kd : Z) (GI GC : Z -> bbox -> bool) (src : wms_source) (q : query) (r : request)
         (tmpl : params) (fixed : list (Z * Z)),
    wms_get_map T kn kd GI GC src q = Request r -> ~ In K_BBOX (map fst fixed) ->
    pget K_BBOX (url_params tmpl fixed r) = Some [VBox (r_bbox r)].
Proof. exact request_url_bbox. Qed.

Theorem url_carries_negotiated_size :
  forall (T : srs -> srs -> bbox -> option bbox) (kn kd : Z) (GI GC : Z -> bbox -> bool) (src : wms_source) (q : query) (r : request)
         (tmpl : params) (fixed : list (Z * Z)),
    wms_get_map T kn kd GI GC src q = Request r -> ~ In K_WIDTH (map fst fixed) -> ~ In K_HEIGHT (map fst fixed) ->
    pget K_WIDTH (url_params tmpl fixed r) = Some [VInt (r_w r)] /\
    pget K_HEIGHT (url_params tmpl fixed r) = Some [VInt (r_h r)].
Proof. exact request_url_size. Qed.

(* Only configured dimensions are forwarded: the dimensions merged into the request are query dimensions whose
   lower-cased name is a (lower-cased) forward_req_params entry ... *)
Theorem only_configured_dimensions_forwarded :
  forall (T : srs -> srs -> bbox -> option bbox) (kn kd : Z) (GI GC : Z -> bbox -> bool) (src : wms_source) (q : query) (r : request) (d : dim),
    wms_get_map T kn kd GI GC src q = Request r -> In d (r_fwd r) ->
    In d (q_dims q) /\ In (d_lower d) (w_fwd src).
Proof. exact request_dims_configured. Qed.

(* ... and every parameter name of the URL is a parameter of the request template, one of bbox / width / height /
   srs / format, a fixed parameter of the request class (request, version, service), styles, or the lower-cased
   name of such a forwarded dimension. *)
Theorem url_parameters_accounted_for :
  forall (tmpl : params) (fixed : list (Z * Z)) (r : request) (k : Z),
    In k (keys (url_params tmpl fixed r)) ->
    In k (keys tmpl) \/ reserved k = true \/ In k (map fst fixed) \/ k = K_STYLES \/ In k (map d_lower (r_fwd r)).
Proof. exact url_params_keys. Qed.

(* A source whose coverage does not intersect the request is not contacted at all (also when the transformation
   of the request bbox into the coverage SRS fails).  cov_intersects = bbox_intersects for a bbox coverage, the
   shapely predicate GI of the geometry for polygon / union / difference coverages (not merely its bounds). *)
Theorem not_contacted_outside_coverage :
  forall (T : srs -> srs -> bbox -> option bbox) (kn kd : Z) (GI GC : Z -> bbox -> bool) (src : wms_source) (q : query) (cb : bbox) (cs : srs),
    w_cov src = Some (cb, cs) ->
    (forall b, to_srs T (q_srs q) cs (q_bbox q) = Some b -> cov_intersects GI (w_geom src) cb b = false) ->
    forall r, wms_get_map T kn kd GI GC src q <> Request r.
Proof. exact no_request_outside_coverage. Qed.

(* A source whose resolution range excludes the resolution of the request is not contacted at all. *)
Theorem not_contacted_outside_res_range :
  forall (T : srs -> srs -> bbox -> option bbox) (kn kd : Z) (GI GC : Z -> bbox -> bool) (src : wms_source) (q : query) (rr : res_range),
    w_rr src = Some rr ->
    rr_contains kn kd rr (q_bbox q) (q_w q) (q_h q) (s_latlong (q_srs q)) = false ->
    forall r, wms_get_map T kn kd GI GC src q <> Request r.
Proof. exact no_request_outside_res_range. Qed.

(* What rr_contains means (projected SRS; lo = min_res + 1e-6 = ln / ld, hi = max_res = hn / hd; x_res = w / sx):
   x_res < lo, y_res < lo, hi <= x_res, hi <= y_res. *)
Theorem res_range_contains_spec :
  forall kn kd ln ld hn hd x0 y0 x1 y1 sx sy,
    0 < sx -> 0 < sy -> 0 < ld -> 0 < hd ->
    rr_contains kn kd (mkRR (Some (ln, ld)) (Some (hn, hd))) (x0, y0, x1, y1) sx sy false = true <->
    ((x1 - x0) * ld < ln * sx /\ (y1 - y0) * ld < ln * sy) /\
    (hn * sx <= (x1 - x0) * hd /\ hn * sy <= (y1 - y0) * hd).
Proof. exact rr_contains_spec. Qed.

(* Every request to a tile upstream addresses a tile that exists in the source grid: the coordinate substituted
   into the URL satisfies limit_tile of the source grid (valid level, 0 <= x < nx, 0 <= y < ny). *)
Theorem tile_request_in_source_grid :
  forall (T : srs -> srs -> bbox -> option bbox) (kn kd : Z) (GI : Z -> bbox -> bool) (ts : tile_source) (q : query) (x y l : Z),
    tiled_get_map T kn kd GI ts q = TRequest (x, y, l) -> ress (t_grid ts) <> [] ->
    limit_tile (t_grid ts) x y l = Some (x, y, l).
Proof. exact tile_request_in_grid. Qed.

(* Tile sources are not contacted outside coverage / resolution range either. *)
Theorem tile_not_contacted_outside_coverage :
  forall (T : srs -> srs -> bbox -> option bbox) (kn kd : Z) (GI : Z -> bbox -> bool) (ts : tile_source) (q : query) (cb : bbox) (cs : srs),
    t_cov ts = Some (cb, cs) ->
    (forall b, to_srs T (q_srs q) cs (q_bbox q) = Some b -> cov_intersects GI (t_geom ts) cb b = false) ->
    forall c, tiled_get_map T kn kd GI ts q <> TRequest c.
Proof. exact tile_no_request_outside_coverage. Qed.

Theorem tile_not_contacted_outside_res_range :
  forall (T : srs -> srs -> bbox -> option bbox) (kn kd : Z) (GI : Z -> bbox -> bool) (ts : tile_source) (q : query) (rr : res_range),
    t_rr ts = Some rr ->
    rr_contains kn kd rr (q_bbox q) (q_w q) (q_h q) (s_latlong (q_srs q)) = false ->
    forall c, tiled_get_map T kn kd GI ts q <> TRequest c.
Proof. exact tile_no_request_outside_res_range. Qed.

(* Sources requested together (LAYERS=a,b on the same upstream) are combined only when both resolution ranges
   contain the request and both have the same coverage, and the combined request honours the contract of both:
   coverage gate, bbox within the common extent, SRS, format, and only dimensions that both forward. *)
Theorem combined_request_keeps_contract :
  forall (T : srs -> srs -> bbox -> option bbox) (kn kd : Z) (GI GC : Z -> bbox -> bool)
         (ok : bool) (a b : wms_source) (q : query) (r : request),
    compatible kn kd ok a b q = true ->
    wms_get_map T kn kd GI GC (combined a) q = Request r ->
    (rr_blocks kn kd (w_rr a) q = false /\ rr_blocks kn kd (w_rr b) q = false) /\
    (forall cb cs, w_cov a = Some (cb, cs) ->
       (exists bb, to_srs T (q_srs q) cs (q_bbox q) = Some bb /\ cov_intersects GI (w_geom a) cb bb = true) /\
       (exists cs', w_cov b = Some (cb, cs') /\ srs_eq cs cs' = true /\ w_geom a = w_geom b) /\
       (geom_contains_sound GC a -> within_extent T cb cs r)) /\
    (w_srs a <> [] -> In (s_code (r_srs r)) (map s_code (w_srs a))) /\
    (w_fmts a <> [] -> exists e, In e (w_fmts a) /\ (r_fmt r = e \/ fmt_match (r_fmt r) e = true)) /\
    (forall d, In d (r_fwd r) -> In d (q_dims q) /\ In (d_lower d) (w_fwd a) /\ In (d_lower d) (w_fwd b)).
Proof. exact combined_request_contract. Qed.

(* Any number of sources requested together (service.wms.combined_layers): every layer e that is rendered stands for
   a group ms of adjacent sources, agrees with each of them (same coverage bbox / equal SRS / same geometry, the same
   supported_srs CODES and supported_formats lists, the same forwarded dimensions for this query), and a layer that stands
   for more than one source exists only when no member's resolution range excludes the request.  Since e is a
   wms_source, all theorems above apply to its request; with agrees they carry over to every member. *)
Theorem combined_layers_keep_contract :
  forall (kn kd : Z) (first : wms_source) (rest : list (bool * wms_source)) (q : query)
         (e : wms_source) (ms : list wms_source),
    In (e, ms) (combine_layers kn kd first rest q) ->
    (forall m, In m ms -> agrees e m q) /\
    (ms = [e] \/ forall m, In m ms -> rr_blocks kn kd (w_rr m) q = false).
Proof. exact combine_layers_group_ok. Qed.

(* what agrees says about the coverage *)
Theorem agreeing_sources_share_coverage :
  forall (e m : wms_source) (q : query) (cb : bbox) (cs : srs),
    agrees e m q -> w_cov e = Some (cb, cs) ->
    exists cs', w_cov m = Some (cb, cs') /\ srs_eq cs cs' = true /\ w_geom e = w_geom m.
Proof. exact agrees_coverage. Qed.

(* Format negotiation on the reprojection path (_get_transformed): when no supported SRS equals the SRS of the
   query, the request goes out in an SRS object of supported_srs and in the negotiated format. *)
Theorem reprojected_request_srs_and_format :
  forall (T : srs -> srs -> bbox -> option bbox) (kn kd : Z) (GI GC : Z -> bbox -> bool)
         (src : wms_source) (q : query) (r : request),
    wms_get_map T kn kd GI GC src q = Request r -> w_srs src <> [] ->
    find (fun s => srs_eq (q_srs q) s) (w_srs src) = None ->
    In (r_srs r) (w_srs src) /\ r_fmt r = choose_format src q /\
    (w_fmts src <> [] -> exists e, In e (w_fmts src) /\ (r_fmt r = e \/ fmt_match (r_fmt r) e = true)).
Proof. exact reprojected_request. Qed.

(* The same directly over _get_transformed (the reprojection path itself, for whatever format f _get_map negotiated,
   all configurations and all queries): a request built there carries exactly the negotiated format, only the
   configured dimensions, the SRS picked by PreferredSrcSRS from supported_srs, and -- when the geometry predicate is
   sound -- a bbox inside the coverage extent. *)
Theorem get_transformed_request_contract :
  forall (T : srs -> srs -> bbox -> option bbox) (GC : Z -> bbox -> bool)
         (src : wms_source) (q : query) (f : fmt) (r : request),
    get_transformed T GC src q f = Request r ->
    r_fmt r = f /\
    r_fwd r = dims_for_params (w_fwd src) (q_dims q) /\
    preferred_src (w_pref src) (q_srs q) (w_srs src) = Some (r_srs r) /\
    (geom_contains_sound GC src -> cov_ok T src r).
Proof. exact get_transformed_inv. Qed.

(* ... in particular the request of such a layer carries an srs_code that every source it stands for lists
   (sources whose lists name the same SRS with different codes are not combined). *)
Theorem combined_request_srs_supported_by_every_member :
  forall (T : srs -> srs -> bbox -> option bbox) (kn kd : Z) (GI GC : Z -> bbox -> bool)
         (first : wms_source) (rest : list (bool * wms_source)) (q : query)
         (e : wms_source) (ms : list wms_source) (r : request) (m : wms_source),
    In (e, ms) (combine_layers kn kd first rest q) ->
    wms_get_map T kn kd GI GC e q = Request r -> w_srs e <> [] -> In m ms ->
    In (s_code (r_srs r)) (map s_code (w_srs m)).
Proof. exact combined_request_code_of_members. Qed.

(* ---- the same statements about the URL that is opened (what the upstream observes) *)
(* the SRS parameter of the URL is one of the configured codes *)
Theorem url_srs_is_a_configured_code :
  forall (T : srs -> srs -> bbox -> option bbox) (kn kd : Z) (GI GC : Z -> bbox -> bool)
         (src : wms_source) (q : query) (r : request) (tmpl : params) (fixed : list (Z * Z)),
    wms_get_map T kn kd GI GC src q = Request r -> w_srs src <> [] -> ~ In K_SRS (map fst fixed) ->
    exists c, pget K_SRS (url_params tmpl fixed r) = Some [VStr c] /\ In c (map s_code (w_srs src)).
Proof. exact url_srs_supported. Qed.

(* the FORMAT parameter of the URL is the mime type of a format that is, or compares equal to, a configured one *)
Theorem url_format_is_a_configured_format :
  forall (T : srs -> srs -> bbox -> option bbox) (kn kd : Z) (GI GC : Z -> bbox -> bool)
         (src : wms_source) (q : query) (r : request) (tmpl : params) (fixed : list (Z * Z)),
    wms_get_map T kn kd GI GC src q = Request r -> w_fmts src <> [] -> ~ In K_FORMAT (map fst fixed) ->
    exists f e, pget K_FORMAT (url_params tmpl fixed r) = Some [VStr (f_mime f)] /\
                In e (w_fmts src) /\ (f = e \/ fmt_match f e = true).
Proof. exact url_format_supported. Qed.

(* the BBOX parameter of the URL is the negotiated bbox, which lies in the coverage extent *)
Theorem url_bbox_is_within_extent :
  forall (T : srs -> srs -> bbox -> option bbox) (kn kd : Z) (GI GC : Z -> bbox -> bool)
         (src : wms_source) (q : query) (r : request) (tmpl : params) (fixed : list (Z * Z)) (cb : bbox) (cs : srs),
    wms_get_map T kn kd GI GC src q = Request r -> w_cov src = Some (cb, cs) -> geom_contains_sound GC src ->
    ~ In K_BBOX (map fst fixed) ->
    pget K_BBOX (url_params tmpl fixed r) = Some [VBox (r_bbox r)] /\ within_extent T cb cs r.
Proof. exact url_bbox_in_extent. Qed.

(* a parameter of the URL that is not a template parameter, not bbox/width/height/srs/format, not a fixed parameter
   and not styles is the lower-cased name of a dimension of the query that the source is configured to forward *)
Theorem url_extra_parameter_is_a_configured_dimension :
  forall (T : srs -> srs -> bbox -> option bbox) (kn kd : Z) (GI GC : Z -> bbox -> bool)
         (src : wms_source) (q : query) (r : request) (tmpl : params) (fixed : list (Z * Z)) (k : Z),
    wms_get_map T kn kd GI GC src q = Request r ->
    In k (keys (url_params tmpl fixed r)) ->
    ~ In k (keys tmpl) -> reserved k = false -> ~ In k (map fst fixed) -> k <> K_STYLES ->
    In k (w_fwd src) /\ exists d, In d (q_dims q) /\ d_lower d = k.
Proof. exact url_extra_key_is_configured_dimension. Qed.

(* ... and its value: every such parameter (and every template parameter) has the value of the template, or exactly the
   values of the forwarded dimensions with that lower-cased name, in the order of the query *)
Theorem url_parameter_values :
  forall (tmpl : params) (fixed : list (Z * Z)) (r : request) (k : Z),
    reserved k = false -> ~ In k (map fst fixed) -> k <> K_STYLES ->
    pget k (url_params tmpl fixed r) =
    match kvals k (map (fun d => (d_lower d, VStr (d_val d))) (r_fwd r)) with
    | [] => pget k tmpl
    | vl => Some vl
    end.
Proof. exact url_param_value. Qed.

(* Request in the SRS of a (bbox) coverage, SRS supported or unrestricted: the bbox that is sent is a proper
   (non-empty) rectangle: the clipped sub query is the intersection of two overlapping rectangles. *)
Theorem upstream_bbox_nonempty_same_srs :
  forall (T : srs -> srs -> bbox -> option bbox) (kn kd : Z) (GI GC : Z -> bbox -> bool)
         (src : wms_source) (q : query) (r : request) (cb : bbox) (cs : srs),
    wms_get_map T kn kd GI GC src q = Request r ->
    w_cov src = Some (cb, cs) -> w_geom src = None -> proper cb = true -> srs_eq (q_srs q) cs = true ->
    (w_srs src = [] \/ find (fun s => srs_eq (q_srs q) s) (w_srs src) <> None) ->
    proper (r_bbox r) = true.
Proof. exact request_bbox_proper_same_srs. Qed.

(* ---- a layer that stands for several sources honours the configuration of every one of them (with
   combined_request_srs_supported_by_every_member and combined_layers_keep_contract) *)
(* format: an entry that every member lists under the same string *)
Theorem combined_request_format_supported_by_every_member :
  forall (T : srs -> srs -> bbox -> option bbox) (kn kd : Z) (GI GC : Z -> bbox -> bool)
         (first : wms_source) (rest : list (bool * wms_source)) (q : query)
         (e : wms_source) (ms : list wms_source) (r : request) (m : wms_source),
    In (e, ms) (combine_layers kn kd first rest q) ->
    wms_get_map T kn kd GI GC e q = Request r -> w_fmts e <> [] -> In m ms ->
    exists fe fm, In fe (w_fmts e) /\ In fm (w_fmts m) /\ f_id fe = f_id fm /\
                  (r_fmt r = fe \/ fmt_match (r_fmt r) fe = true).
Proof. exact combined_request_format_of_members. Qed.

(* dimensions: only those that every member is configured to forward *)
Theorem combined_request_dimensions_configured_by_every_member :
  forall (T : srs -> srs -> bbox -> option bbox) (kn kd : Z) (GI GC : Z -> bbox -> bool)
         (first : wms_source) (rest : list (bool * wms_source)) (q : query)
         (e : wms_source) (ms : list wms_source) (r : request) (m : wms_source) (d : dim),
    In (e, ms) (combine_layers kn kd first rest q) ->
    wms_get_map T kn kd GI GC e q = Request r -> In m ms -> In d (r_fwd r) ->
    In d (q_dims q) /\ In (d_lower d) (w_fwd m).
Proof. exact combined_request_dims_of_members. Qed.

(* coverage: the layer has the coverage of each member and is not requested when that does not intersect the query *)
Theorem combined_not_contacted_outside_any_member_coverage :
  forall (T : srs -> srs -> bbox -> option bbox) (kn kd : Z) (GI GC : Z -> bbox -> bool)
         (first : wms_source) (rest : list (bool * wms_source)) (q : query)
         (e : wms_source) (ms : list wms_source) (m : wms_source) (cb : bbox) (cs : srs),
    In (e, ms) (combine_layers kn kd first rest q) -> In m ms -> w_cov m = Some (cb, cs) ->
    exists cs', w_cov e = Some (cb, cs') /\ srs_eq cs' cs = true /\ w_geom e = w_geom m /\
      ((forall b, to_srs T (q_srs q) cs' (q_bbox q) = Some b -> cov_intersects GI (w_geom e) cb b = false) ->
       forall r, wms_get_map T kn kd GI GC e q <> Request r).
Proof. exact combined_not_contacted_outside_member_coverage. Qed.

(* WMS 1.3.0 upstreams: the BBOX parameter, read in the axis order of the CRS (swapped back for north/east CRSs; ne =
   is_axis_order_ne of the code), is the negotiated bbox - so all bbox statements above hold for what a 1.3.0 server
   reads -, the code is sent as CRS, and no SRS parameter is left; for 1.1.1 upstreams the URL is url_params. *)
Theorem url_wms130_bbox_in_axis_order_of_crs :
  forall (ne : Z -> bool) (tmpl : params) (fixed : list (Z * Z)) (r : request),
    ~ In K_BBOX (map fst fixed) -> ~ In K_SRS (map fst fixed) ->
    let p := url_params_v true ne tmpl fixed r in
    pget K_BBOX p = Some [VBox (if ne (s_code (r_srs r)) then swap_bbox (r_bbox r) else r_bbox r)] /\
    pget K_CRS p = Some [VStr (s_code (r_srs r))] /\ pget K_SRS p = None.
Proof. exact url_v130. Qed.

Theorem swap_bbox_is_an_involution : forall b, swap_bbox (swap_bbox b) = b.
Proof. exact swap_bbox_involutive. Qed.

(* Tie to the source.  gen_is_compatible is regenerated on every run from the body of WMSSource._is_compatible
   (translator/specs/compat.py -> gen/Gen_compat.v, statement by statement, the loop over (self, other) unrolled, fail
   closed).  The model's `compatible` IS this kernel: its `static_ok` argument is the conjunction static_part of the
   tests that do not concern what an upstream is asked for, every other test (each source's own resolution range,
   supported SRS, supported formats, coverage, forwarded dimensions) is the model's.  An edit of the method that drops
   or weakens a test (e.g. the union of the two resolution ranges instead of each source's own) breaks this theorem. *)
Theorem compatible_model_is_generated_from_source :
  forall (A : Type) kn kd a b q other_is_wms (opacity_a opacity_b : option A)
         tcolor_differ ttol_differ has_cov clip_differ other_opaque,
    compatible kn kd
      (static_part other_is_wms opacity_a opacity_b tcolor_differ ttol_differ has_cov clip_differ other_opaque) a b q =
    gen_is_compatible other_is_wms opacity_a opacity_b
      (k_is_some (w_rr a)) (rr_contains_of kn kd (w_rr a) q)
      (k_is_some (w_rr b)) (rr_contains_of kn kd (w_rr b) q)
      (negb (list_eqb code_eq (w_srs a) (w_srs b)))
      (negb (list_eqb (fun x y => f_id x =? f_id y) (w_fmts a) (w_fmts b)))
      tcolor_differ ttol_differ
      (negb (cov_eqb a b))
      has_cov clip_differ other_opaque
      (negb (list_eqb dim_eqb (dims_for_params (w_fwd a) (q_dims q)) (dims_for_params (w_fwd b) (q_dims q)))).
Proof. exact compatible_as_generated. Qed.
