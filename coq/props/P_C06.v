(* C06  A crash while storing never exposes a corrupt or foreign tile.
   Property theorems only; proofs live in theories/Crash_proofs.v; the model is theories/Crash.v.

   Vocabulary.  `crash_states s ops` = every state process death can leave while the operation list `ops` is
   issued from directory state `s`: each prefix, plus each byte-granular tear of the next raw write (A1, B = 1).
   `read_path s p` = what a fresh reader obtains for location p (follows a symlink; RMissing / RData bytes).
   `file_store_ops s r` = the operations FileCache.store_tile issues for request r in state s
   (write_atomic: create temp, write, rename; link modes: symlink / link under a temp name, rename).  *)
From Coq Require Import ZArith List Bool Arith.
Import ListNotations.
From MP Require Import Base Bytes Crash Crash_proofs.
Local Open Scope Z_scope.

(* ---- write_atomic (LegendCache.store, ProgressStore.write, bundle and index initialisation, FileCache._store).
   Every state, target, temp suffix, content and crash point: the target reads as before or returns the
   complete new content; never missing-if-it-existed, never a prefix.  (Side condition: the target is not a
   symlink to its own temp name.) *)
Theorem crash_safe_write_atomic :
  forall s p sfx d s',
    In s' (crash_states s (fst (write_atomic_ops s p sfx d))) ->
    (forall x, s p = Some (NLink x) -> x <> tmp_of p sfx) ->
    read_path s' p = read_path s p \/ read_path s' p = RData d.
Proof. exact write_atomic_target. Qed.

(* ... and once write_atomic has returned normally the target holds the new content. *)
Theorem write_atomic_publishes :
  forall s p sfx d,
    snd (write_atomic_ops s p sfx d) = true ->
    read_path (apply_ops s (fst (write_atomic_ops s p sfx d))) p = RData d.
Proof. exact write_atomic_completes. Qed.

(* ---- FileCache.store_tile, all three link modes, every prior state and crash point.
   The address being stored reads (a) its previous content, (b) the complete new content (the tile's bytes, or
   the bytes of the existing single colour file it is linked to), or (c) missing - and (c) only if it was
   missing before (then (a)), or the address was a *symlink* that _store replaces by a regular tile file
   (FileCache._store unlinks a symlink before write_atomic: needed for the non-POSIX branch of write_atomic, which
   opens the target in place and would otherwise write through the link into the shared colour file).  Stores
   that go through _store_single_color_tile never expose "missing" for an address that had content: the link is
   created under a temp name and renamed over the tile.  `req_ok` = the temp suffixes are decimal numbers, the
   tile location and the colour file are not temp names, the location does not link to a temp name or to a
   missing colour file, the colour file is not a link. *)
Theorem crash_safe_file_store :
  forall s r s',
    req_ok s r ->
    In s' (crash_states s (file_store_ops s r)) ->
    read_path s' (rq_loc r) = read_path s (rq_loc r) \/
    read_path s' (rq_loc r) = RData (new_content s r) \/
    (read_path s' (rq_loc r) = RMissing /\ is_link s (rq_loc r) = true /\ linked_store r = false).
Proof. exact file_store_target. Qed.

(* The formerly failing input (finding file-link:regular-tile-replaced-by-link:missing, repaired): a regular tile
   replaced by a single colour link reads old, old, new in the three crash states. *)
Theorem regular_tile_replaced_by_link_never_missing_example :
  file_store_ops ex_fs ex_req_link = [OSymlink ex_sc (tmp_of ex_p [53]); ORename (tmp_of ex_p [53]) ex_p] /\
  map (fun s' => read_path s' ex_p) (crash_states ex_fs (file_store_ops ex_fs ex_req_link)) =
  [RData [1; 2; 3]; RData [1; 2; 3]; RData [7; 7]].
Proof. exact regular_replaced_by_link_states_example. Qed.

(* ---- tiles not being written are unaffected: whatever a list of operations does, an address whose path and
   link target it does not name reads the same in every crash state ... *)
Theorem crash_others_unaffected_generic :
  forall ops s s' q,
    In s' (crash_states s ops) ->
    ~ In q (touched ops) -> (forall x, s q = Some (NLink x) -> ~ In x (touched ops)) ->
    read_path s' q = read_path s q.
Proof. exact crash_others_unaffected. Qed.

(* ... and FileCache.store_tile names only the tile location, the colour file and their temp names. *)
Theorem file_store_others_unaffected :
  forall s r s' q,
    In s' (crash_states s (file_store_ops s r)) ->
    let T := [rq_loc r; tmp_of (rq_loc r) (rq_sfx r); tmp_of (rq_loc r) (rq_sfx2 r)] ++
             match rq_color r with Some sc => [sc; tmp_of sc (rq_sfx r)] | None => [] end in
    ~ In q T -> (forall x, s q = Some (NLink x) -> ~ In x T) ->
    read_path s' q = read_path s q.
Proof. exact file_store_others. Qed.

(* Tiles already linked to the (existing) colour file keep reading it while another tile of that colour is stored. *)
Theorem file_store_same_colour_links_unaffected :
  forall s r s' q sc,
    In s' (crash_states s (file_store_ops s r)) ->
    rq_color r = Some sc -> exists_ s sc = true ->
    q <> rq_loc r -> q <> tmp_of (rq_loc r) (rq_sfx2 r) ->
    sc <> rq_loc r -> sc <> tmp_of (rq_loc r) (rq_sfx2 r) -> s q = Some (NLink sc) ->
    rq_mode r <> LNone ->
    read_path s' q = read_path s q.
Proof. exact file_store_same_colour_link_kept. Qed.

(* ---- temp names are never read: every name write_atomic creates is recognised by is_tmp_name, so an address
   that is not a temp name (checked for every real tile location by the correspondence) differs from all of them. *)
Theorem temp_names_never_read :
  forall q p sfx, is_tmp_name q = false -> digits_ok sfx = true -> q <> tmp_of p sfx.
Proof. exact not_tmp_neq. Qed.

(* The state named by the harness coordinates (k complete operations, c bytes of the next write) is one of the
   crash states the theorems quantify over. *)
Theorem crash_state_at_is_crash_state :
  forall ops s k cut,
    (match cut, nth_error ops k with
     | Some c, Some (OWrite _ _ d) => (c < length d)%nat
     | _, _ => True
     end) ->
    In (crash_state_at s ops k cut) (crash_states s ops).
Proof. exact crash_state_at_in. Qed.

(* ================================================================================================ *)
(* Compact bundles.  Vocabulary: a bundle file is a write log (Bytes.v); `v2_read f slot` / `v1_read s slot` are
   the readers of BundleV2._load_tile / BundleV1.load_tiles (index entry, then record); `v?_wf` says that every
   index entry of the state before the store is empty or names a complete record inside the file (the part of
   C19's invariant needed here); `v?_raw_ok b L0 f0 ops` is the discipline checked on every *recorded raw write
   sequence* of the real code (correspondence): a raw write is an append, a rewrite inside the header, or
   whole aligned index entries each of which keeps its value or names a record of batch b that is already
   completely in the file ("data before index"); `v?_crash_states` = every prefix, plus any byte-granular tear
   of an append or header write (A1 with B = 1); index writes are atomic (B = infinity). *)

(* v2: for every prior state with the invariant, every batch, every raw sequence obeying the discipline, every
   crash state and every slot: the slot reads as before or returns the complete bytes of a tile of the batch
   stored for that slot.  (ops_bytes_nonneg: what is written are bytes.) *)
Theorem crash_safe_bundle_v2 :
  forall b f0 ops f' slot,
    v2_wf f0 -> v2_raw_ok b (flen f0) f0 ops = true -> ops_bytes_nonneg ops ->
    In f' (v2_crash_states f0 ops) -> 0 <= slot < SLOTS ->
    v2_read f' slot = v2_read f0 slot \/
    exists dd, has_data b slot dd = true /\ dd <> [] /\ v2_read f' slot = RData dd.
Proof. exact v2_crash_safe. Qed.

(* v2: slots for which the batch holds no tile read exactly as before in every crash state *)
Theorem bundle_v2_others_unaffected :
  forall b f0 ops f' slot,
    v2_wf f0 -> v2_raw_ok b (flen f0) f0 ops = true ->
    In f' (v2_crash_states f0 ops) -> 0 <= slot < SLOTS ->
    (forall dd, has_data b slot dd = false) ->
    v2_read f' slot = v2_read f0 slot.
Proof. exact v2_others_unaffected. Qed.

(* v2 index entries (8 bytes at 64+8i) contain no tear point for any tear granularity B that is a multiple of 8
   (pages, sectors): the B = infinity reading of A1 for v2 index writes is implied by any such B. *)
Theorem bundle_v2_entry_never_torn :
  forall B off c, 0 < B -> B mod 8 = 0 -> off mod 8 = 0 -> off < c < off + 8 -> c mod B <> 0.
Proof. exact v2_entry_never_torn. Qed.

(* ... and the dependence on A1 is real: torn after 5 of its 8 bytes an index entry has the new offset and the
   old size, and the reader returns a strict prefix of the new tile (neither old nor new). *)
Theorem bundle_index_byte_tear_refuted :
  exists (f0 : file) (b : batch) (app idxw : bwrite) (k : nat),
    let f1 := bw_apply f0 app in
    let torn := fwrite f1 (fst idxw) (firstn k (snd idxw)) in
    v2_raw_ok b (flen f0) f0 [app; idxw] = true /\
    Nat.ltb k (length (snd idxw)) = true /\
    forallb (fun dd => has_data b 0 dd) [[9; 8; 7; 6; 5]] = true /\
    rres_eqb (v2_read f0 0) (RData [1; 2; 3]) = true /\
    rres_eqb (v2_read (bw_apply f1 idxw) 0) (RData [9; 8; 7; 6; 5]) = true /\
    rres_eqb (v2_read torn 0) (RData [9; 8; 7]) = true /\
    rres_eqb (v2_read torn 0) (v2_read f0 0) = false /\
    rres_eqb (v2_read torn 0) (RData [9; 8; 7; 6; 5]) = false.
Proof. exact index_byte_tear_refuted. Qed.

(* v1 (.bundle + .bundlx): same statement; an index raw write may carry several whole 5-byte entries (the
   buffered index is flushed as one raw write spanning the changed entries). *)
Theorem crash_safe_bundle_v1 :
  forall b s0 ops s' slot,
    v1_wf s0 -> v1_raw_ok b (flen (v1dat s0)) s0 ops = true -> v1_ops_bytes_nonneg ops ->
    In s' (v1_crash_states s0 ops) -> 0 <= slot < SLOTS ->
    v1_read s' slot = v1_read s0 slot \/
    exists dd, has_data b slot dd = true /\ dd <> [] /\ v1_read s' slot = RData dd.
Proof. exact v1_crash_safe. Qed.

Theorem bundle_v1_others_unaffected :
  forall b s0 ops s' slot,
    v1_wf s0 -> v1_raw_ok b (flen (v1dat s0)) s0 ops = true ->
    In s' (v1_crash_states s0 ops) -> 0 <= slot < SLOTS ->
    (forall dd, has_data b slot dd = false) ->
    v1_read s' slot = v1_read s0 slot.
Proof. exact v1_others_unaffected. Qed.

(* ---- histories: the invariant required of the prior state holds for freshly initialised bundles and is
   re-established by every raw sequence that obeys the discipline, so the crash theorems apply to every store of
   every history of stores (arbitrary prior cache contents reachable by the writers). *)
Theorem bundle_v2_initial_state_ok : v2_wf v2_init.
Proof. exact v2_init_wf. Qed.

Theorem bundle_v1_initial_state_ok : forall c r, v1_wf (mkV1 (v1_dat_init c r) v1_idx_init).
Proof. exact v1_init_wf. Qed.

Theorem bundle_v2_invariant_preserved :
  forall b f0 ops,
    v2_wf f0 -> v2_raw_ok b (flen f0) f0 ops = true -> v2_wf (bw_apply_all f0 ops).
Proof. exact v2_wf_preserved. Qed.

Theorem bundle_v1_invariant_preserved :
  forall b s0 ops,
    v1_wf s0 -> v1_raw_ok b (flen (v1dat s0)) s0 ops = true -> v1_wf (v1_apply_all s0 ops).
Proof. exact v1_wf_preserved. Qed.

(* ---- the model of BundleV2.store_tiles itself (program order: size, data, index entry, metadata) obeys the
   discipline for every batch of non-empty tiles below 2^24 bytes while the file stays below 2^40 bytes (the
   ranges the 8-byte entry can express) ... *)
Theorem bundle_v2_writer_obeys_discipline :
  forall b f0,
    v2_wf f0 -> flen f0 + total_len b <= P40 ->
    (forall slot d, In (slot, d) b -> 0 <= slot < SLOTS /\ d <> [] /\ zlen d < 16777216) ->
    v2_raw_ok b (flen f0) f0 (v2_store_ops f0 b) = true.
Proof. exact v2_store_ops_valid. Qed.

(* ... hence: every crash state of the modelled v2 store, for every prior state with the invariant and every
   batch, shows each slot old or complete new, and the completed store re-establishes the invariant. *)
Theorem crash_safe_bundle_v2_store :
  forall b f0 f' slot,
    v2_wf f0 -> flen f0 + total_len b <= P40 -> v2_batch_ok b ->
    In f' (v2_crash_states f0 (v2_store_ops f0 b)) -> 0 <= slot < SLOTS ->
    v2_read f' slot = v2_read f0 slot \/
    exists dd, has_data b slot dd = true /\ dd <> [] /\ v2_read f' slot = RData dd.
Proof. exact v2_store_crash_safe. Qed.

Theorem bundle_v2_store_reestablishes_invariant :
  forall b f0,
    v2_wf f0 -> flen f0 + total_len b <= P40 -> v2_batch_ok b ->
    v2_wf (bw_apply_all f0 (v2_store_ops f0 b)).
Proof. exact v2_store_wf. Qed.

(* ---- limit of the v1 claim, proved rather than hidden: with page-granular tearing (B = 4096) the 5-byte index
   entry of slot 1635 (file offsets 8191..8195) can be cut at offset 8192; the torn entry (new low byte, old
   high bytes) names a place in the zero area and the reader reports the tile missing although it had content.
   The v1 theorem is therefore stated for atomic index writes (A1, B = infinity) and says so. *)
Theorem bundle_v1_page_tear_refuted :
  cut_allowed 4096 (16 + 5 * 1635) 5 8192 /\
  v1_raw_ok pt_b (flen (v1dat pt_s0)) pt_s0 pt_ops = true /\
  nth_error pt_ops 3 = Some (WI 8191 (le 5 (flen (v1dat pt_s0)))) /\
  let s3 := v1_apply_all pt_s0 (firstn 3 pt_ops) in
  let torn := v1_apply s3 (WI 8191 (firstn 1 (le 5 (flen (v1dat pt_s0))))) in
  rres_eqb (v1_read pt_s0 1635) (RData [1; 2; 3]) = true /\
  rres_eqb (v1_read (v1_apply_all pt_s0 pt_ops) 1635) (RData [9; 8; 7]) = true /\
  rres_eqb (v1_read torn 1635) RMissing = true.
Proof. exact v1_page_tear_refuted. Qed.

(* ---- the model of BundleV1.store_tiles (program order: size, data, header rewrite, index entry) obeys the
   discipline for every batch of non-empty tiles below 2^32 bytes while the data file stays below 2^40 bytes,
   hence every crash state of the modelled v1 store shows each slot old or complete new, and the completed
   store re-establishes the invariant. *)
Theorem bundle_v1_writer_obeys_discipline :
  forall b s0,
    v1_wf s0 -> flen (v1dat s0) + total_len b <= 1099511627776 -> v1_batch_ok b ->
    v1_raw_ok b (flen (v1dat s0)) s0 (v1_store_ops s0 b) = true.
Proof. exact v1_store_ops_valid. Qed.

Theorem crash_safe_bundle_v1_store :
  forall b s0 s' slot,
    v1_wf s0 -> flen (v1dat s0) + total_len b <= 1099511627776 -> v1_batch_ok b ->
    In s' (v1_crash_states s0 (v1_store_ops s0 b)) -> 0 <= slot < SLOTS ->
    v1_read s' slot = v1_read s0 slot \/
    exists dd, has_data b slot dd = true /\ dd <> [] /\ v1_read s' slot = RData dd.
Proof. exact v1_store_crash_safe. Qed.

Theorem bundle_v1_store_reestablishes_invariant :
  forall b s0,
    v1_wf s0 -> flen (v1dat s0) + total_len b <= 1099511627776 -> v1_batch_ok b ->
    v1_wf (v1_apply_all s0 (v1_store_ops s0 b)).
Proof. exact v1_store_wf. Qed.

(* ---- the seed progress file (ProgressStore.write / load) as an instance of write_atomic: for every prior state,
   content and crash point a continued seed loads the previous progress or the complete new one - never the empty
   dictionary in place of an existing progress, never a half-written pickle (`unpickle` is external; None stands
   for the unpickling errors that load answers with {}). *)
Theorem crash_safe_progress_store :
  forall (A : Type) (unpickle : list Z -> option A) (empty : A) s p sfx d s',
    In s' (crash_states s (progress_write_ops s p sfx d)) ->
    (forall x, s p = Some (NLink x) -> x <> tmp_of p sfx) ->
    progress_load unpickle empty s' p = progress_load unpickle empty s p \/
    progress_load unpickle empty s' p = match unpickle d with Some st => st | None => empty end.
Proof. exact progress_write_crash_safe. Qed.

Theorem progress_store_publishes :
  forall (A : Type) (unpickle : list Z -> option A) (empty : A) s p sfx d,
    snd (write_atomic_ops s p sfx d) = true ->
    progress_load unpickle empty (apply_ops s (progress_write_ops s p sfx d)) p =
    match unpickle d with Some st => st | None => empty end.
Proof. exact progress_write_completes. Qed.

(* ---- the legend cache (LegendCache.store / load), same instance *)
Theorem crash_safe_legend_store :
  forall s p sfx d s',
    In s' (crash_states s (legend_store_ops s p sfx d)) ->
    (forall x, s p = Some (NLink x) -> x <> tmp_of p sfx) ->
    legend_load s' p = legend_load s p \/ legend_load s' p = RData d.
Proof. exact legend_store_crash_safe. Qed.

(* ================================================================================================ *)
(* Batches that span several bundle files.  `mstate` maps a bundle id to its bundle file; an operation is a raw
   write on the file of one bundle; `m_crash_states` = every prefix of the interleaved sequence plus the permitted
   tear of the next write; `m_proj b ops` = the subsequence of raw writes on bundle b (what the correspondence checks
   file by file); `m_store_ops` = CompactCacheBase.store_tiles when the tiles are not all in one bundle file: one
   BundleV2.store_tiles([tile]) per tile, in order. *)

(* any interleaving whose per-file subsequences obey the discipline: every address (bundle, slot) reads old or the
   complete bytes of a tile of the batch stored for that address *)
Theorem crash_safe_multi_bundle_v2 :
  forall (bt : Z -> batch) st ops st' b slot,
    (forall x, v2_wf (st x)) ->
    (forall x, v2_raw_ok (bt x) (flen (st x)) (st x) (m_proj x ops) = true) ->
    (forall x s, has_data (bt x) s [] = false) ->
    In st' (m_crash_states st ops) -> 0 <= slot < SLOTS ->
    v2_read (st' b) slot = v2_read (st b) slot \/
    exists dd, has_data (bt b) slot dd = true /\ dd <> [] /\ v2_read (st' b) slot = RData dd.
Proof. exact m_crash_safe. Qed.

(* the modelled writer over several bundle files, every prior state with the invariant, every batch *)
Theorem crash_safe_multi_bundle_v2_store :
  forall st tiles st' b slot,
    (forall x, v2_wf (st x)) ->
    (forall x, flen (st x) + total_len (m_batch_of x tiles) <= P40) ->
    (forall bb s d, In (bb, s, d) tiles -> 0 <= s < SLOTS /\ d <> [] /\ zlen d < 16777216) ->
    In st' (m_crash_states st (m_store_ops st tiles)) -> 0 <= slot < SLOTS ->
    v2_read (st' b) slot = v2_read (st b) slot \/
    exists dd, has_data (m_batch_of b tiles) slot dd = true /\ dd <> [] /\ v2_read (st' b) slot = RData dd.
Proof. exact m_store_crash_safe. Qed.

(* addresses (any bundle, any slot) for which the batch holds no tile are unaffected *)
Theorem multi_bundle_v2_others_unaffected :
  forall st tiles st' b slot,
    (forall x, v2_wf (st x)) ->
    (forall x, flen (st x) + total_len (m_batch_of x tiles) <= P40) ->
    (forall bb s d, In (bb, s, d) tiles -> 0 <= s < SLOTS /\ d <> [] /\ zlen d < 16777216) ->
    In st' (m_crash_states st (m_store_ops st tiles)) -> 0 <= slot < SLOTS ->
    (forall d, ~ In (b, slot, d) tiles) ->
    v2_read (st' b) slot = v2_read (st b) slot.
Proof. exact m_store_others_unaffected. Qed.

Theorem multi_bundle_v2_store_reestablishes_invariant :
  forall st tiles,
    (forall x, v2_wf (st x)) ->
    (forall x, flen (st x) + total_len (m_batch_of x tiles) <= P40) ->
    (forall bb s d, In (bb, s, d) tiles -> 0 <= s < SLOTS /\ d <> [] /\ zlen d < 16777216) ->
    forall x, v2_wf (m_apply_all st (m_store_ops st tiles) x).
Proof. exact m_store_wf. Qed.

(* version 1 (each bundle = .bundle + .bundlx) *)
Theorem crash_safe_multi_bundle_v1 :
  forall (bt : Z -> batch) st ops st' b slot,
    (forall x, v1_wf (st x)) ->
    (forall x, v1_raw_ok (bt x) (flen (v1dat (st x))) (st x) (m1_proj x ops) = true) ->
    (forall x s, has_data (bt x) s [] = false) ->
    In st' (m1_crash_states st ops) -> 0 <= slot < SLOTS ->
    v1_read (st' b) slot = v1_read (st b) slot \/
    exists dd, has_data (bt b) slot dd = true /\ dd <> [] /\ v1_read (st' b) slot = RData dd.
Proof. exact m1_crash_safe. Qed.

Theorem crash_safe_multi_bundle_v1_store :
  forall st tiles st' b slot,
    (forall x, v1_wf (st x)) ->
    (forall x, flen (v1dat (st x)) + total_len (m_batch_of x tiles) <= 1099511627776) ->
    (forall bb s d, In (bb, s, d) tiles -> 0 <= s < SLOTS /\ d <> [] /\ zlen d < 4294967296) ->
    In st' (m1_crash_states st (m1_store_ops st tiles)) -> 0 <= slot < SLOTS ->
    v1_read (st' b) slot = v1_read (st b) slot \/
    exists dd, has_data (m_batch_of b tiles) slot dd = true /\ dd <> [] /\ v1_read (st' b) slot = RData dd.
Proof. exact m1_store_crash_safe. Qed.

Theorem multi_bundle_v1_others_unaffected :
  forall st tiles st' b slot,
    (forall x, v1_wf (st x)) ->
    (forall x, flen (v1dat (st x)) + total_len (m_batch_of x tiles) <= 1099511627776) ->
    (forall bb s d, In (bb, s, d) tiles -> 0 <= s < SLOTS /\ d <> [] /\ zlen d < 4294967296) ->
    In st' (m1_crash_states st (m1_store_ops st tiles)) -> 0 <= slot < SLOTS ->
    (forall d, ~ In (b, slot, d) tiles) ->
    v1_read (st' b) slot = v1_read (st b) slot.
Proof. exact m1_store_others_unaffected. Qed.

(* ---- CompactCacheBase.store_tiles as a whole: the routing decision (`c_single_bundle`: more than one pending tile
   and every pending tile in the bundle file of the last one -> ONE Bundle.store_tiles call that receives all tiles
   and reduces their coordinates modulo 128; otherwise one store_tile per tile) followed by the route taken.
   `tiles` = the pending tiles with their bundle file; `c_store_ops` / `c1_store_ops` = the raw writes of the call. *)

(* on both routes the raw writes that reach bundle file b are exactly Bundle.store_tiles on the tiles of b: no tile is
   ever written into another bundle file (this is what the per-file correspondence compares with the recorded trace) *)
Theorem cache_store_tiles_v2_routes_each_tile_to_its_bundle :
  forall tiles st b, m_proj b (c_store_ops st tiles) = v2_store_ops (st b) (m_batch_of b tiles).
Proof. exact c_store_proj. Qed.

Theorem cache_store_tiles_v1_routes_each_tile_to_its_bundle :
  forall tiles st b, m1_proj b (c1_store_ops st tiles) = v1_store_ops (st b) (m_batch_of b tiles).
Proof. exact c1_store_proj. Qed.

(* every prior cache content with the invariant, every batch (any mixture of bundle files, any order), every crash
   point of the whole call: each address (bundle, slot) reads as before or the complete bytes of a tile of the batch
   stored for exactly that address *)
Theorem crash_safe_cache_store_tiles_v2 :
  forall st tiles st' b slot,
    (forall x, v2_wf (st x)) ->
    (forall x, flen (st x) + total_len (m_batch_of x tiles) <= P40) ->
    (forall bb s d, In (bb, s, d) tiles -> 0 <= s < SLOTS /\ d <> [] /\ zlen d < 16777216) ->
    In st' (m_crash_states st (c_store_ops st tiles)) -> 0 <= slot < SLOTS ->
    v2_read (st' b) slot = v2_read (st b) slot \/
    exists dd, has_data (m_batch_of b tiles) slot dd = true /\ dd <> [] /\ v2_read (st' b) slot = RData dd.
Proof. exact c_store_crash_safe. Qed.

(* addresses the batch holds no tile for (same bundle or any other) are unaffected in every crash state *)
Theorem cache_store_tiles_v2_others_unaffected :
  forall st tiles st' b slot,
    (forall x, v2_wf (st x)) ->
    (forall x, flen (st x) + total_len (m_batch_of x tiles) <= P40) ->
    (forall bb s d, In (bb, s, d) tiles -> 0 <= s < SLOTS /\ d <> [] /\ zlen d < 16777216) ->
    In st' (m_crash_states st (c_store_ops st tiles)) -> 0 <= slot < SLOTS ->
    (forall d, ~ In (b, slot, d) tiles) ->
    v2_read (st' b) slot = v2_read (st b) slot.
Proof. exact c_store_others_unaffected. Qed.

Theorem cache_store_tiles_v2_reestablishes_invariant :
  forall st tiles,
    (forall x, v2_wf (st x)) ->
    (forall x, flen (st x) + total_len (m_batch_of x tiles) <= P40) ->
    (forall bb s d, In (bb, s, d) tiles -> 0 <= s < SLOTS /\ d <> [] /\ zlen d < 16777216) ->
    forall x, v2_wf (m_apply_all st (c_store_ops st tiles) x).
Proof. exact c_store_wf. Qed.

Theorem crash_safe_cache_store_tiles_v1 :
  forall st tiles st' b slot,
    (forall x, v1_wf (st x)) ->
    (forall x, flen (v1dat (st x)) + total_len (m_batch_of x tiles) <= 1099511627776) ->
    (forall bb s d, In (bb, s, d) tiles -> 0 <= s < SLOTS /\ d <> [] /\ zlen d < 4294967296) ->
    In st' (m1_crash_states st (c1_store_ops st tiles)) -> 0 <= slot < SLOTS ->
    v1_read (st' b) slot = v1_read (st b) slot \/
    exists dd, has_data (m_batch_of b tiles) slot dd = true /\ dd <> [] /\ v1_read (st' b) slot = RData dd.
Proof. exact c1_store_crash_safe. Qed.

Theorem cache_store_tiles_v1_others_unaffected :
  forall st tiles st' b slot,
    (forall x, v1_wf (st x)) ->
    (forall x, flen (v1dat (st x)) + total_len (m_batch_of x tiles) <= 1099511627776) ->
    (forall bb s d, In (bb, s, d) tiles -> 0 <= s < SLOTS /\ d <> [] /\ zlen d < 4294967296) ->
    In st' (m1_crash_states st (c1_store_ops st tiles)) -> 0 <= slot < SLOTS ->
    (forall d, ~ In (b, slot, d) tiles) ->
    v1_read (st' b) slot = v1_read (st b) slot.
Proof. exact c1_store_others_unaffected. Qed.

Theorem cache_store_tiles_v1_reestablishes_invariant :
  forall st tiles,
    (forall x, v1_wf (st x)) ->
    (forall x, flen (v1dat (st x)) + total_len (m_batch_of x tiles) <= 1099511627776) ->
    (forall bb s d, In (bb, s, d) tiles -> 0 <= s < SLOTS /\ d <> [] /\ zlen d < 4294967296) ->
    forall x, v1_wf (m1_apply_all st (c1_store_ops st tiles) x).
Proof. exact c1_store_wf. Qed.

(* ================================================================================================ *)
(* A complete store call on a compact cache directory: initialisation of a missing bundle (and, for v1, index) file
   by write_atomic AND the in-place phase as ONE operation list.  `bdir` maps the paths of the directory to files
   (write logs); `b_crash_states` = every prefix + tears (a temp file holds any prefix of its content; appends and
   header rewrites tear at any byte; index entries are atomic); a missing bundle file reads "missing" for every
   slot (BundleV2._readonly / BundleIndexV1.readonly). *)

(* v2: every directory state (bundle present with the invariant, or absent), every batch, every crash point of
   BundleV2.store_tiles: each slot reads as before or the complete new tile *)
Theorem crash_safe_bundle_v2_complete_store :
  forall s p sfx b s' slot,
    (forall f, s p = Some f -> v2_wf f /\ flen f + total_len b <= P40) ->
    V2_REC + total_len b <= P40 -> v2_batch_ok b ->
    In s' (b_crash_states s (v2_dir_store_ops s p sfx b)) -> 0 <= slot < SLOTS ->
    v2_dir_read s' p slot = v2_dir_read s p slot \/
    exists dd, has_data b slot dd = true /\ dd <> [] /\ v2_dir_read s' p slot = RData dd.
Proof. exact v2_dir_store_crash_safe. Qed.

(* every other file of the directory (other bundles, index files, stale temp files) is untouched in every crash state *)
Theorem bundle_v2_complete_store_others_untouched :
  forall s p sfx b s' q,
    In s' (b_crash_states s (v2_dir_store_ops s p sfx b)) ->
    q <> p -> q <> tmp_of p sfx -> s' q = s q.
Proof. exact v2_dir_store_others. Qed.

(* the completed call leaves a bundle file with the invariant (so the theorem applies to the next call) *)
Theorem bundle_v2_complete_store_reestablishes_invariant :
  forall s p sfx b,
    (forall f, s p = Some f -> v2_wf f /\ flen f + total_len b <= P40) ->
    V2_REC + total_len b <= P40 -> v2_batch_ok b ->
    (s p = None -> bd_exists s (tmp_of p sfx) = false) ->
    exists f, b_apply_all s (v2_dir_store_ops s p sfx b) p = Some f /\ v2_wf f.
Proof. exact v2_dir_store_completes. Qed.

(* v1: data file pd and index file pi, each initialised by its own write_atomic when missing (data file first), then
   the in-place phase.  `v1_dir_eff` = the bundle the in-place phase works on (missing files replaced by their initial
   content).  Side conditions: the two paths and their temp names are distinct; no index without its data file (a
   crash never produces that: the data file is created first); an existing data file whose index is missing reads
   "missing" through a fresh index (its size table is still zero). *)
Theorem crash_safe_bundle_v1_complete_store :
  forall s pd pi sfx1 sfx2 c r b s' slot,
    pd <> pi -> tmp_of pd sfx1 <> pi -> tmp_of pi sfx2 <> pd ->
    (s pd = None -> s pi = None) ->
    v1_wf (v1_dir_eff s pd pi c r) ->
    flen (v1dat (v1_dir_eff s pd pi c r)) + total_len b <= 1099511627776 -> v1_batch_ok b ->
    (s pi = None -> v1_read (v1_dir_eff s pd pi c r) slot = RMissing) ->
    In s' (b_crash_states s (v1_dir_store_ops s pd pi sfx1 sfx2 c r b)) -> 0 <= slot < SLOTS ->
    v1_dir_read s' pd pi slot = v1_dir_read s pd pi slot \/
    exists dd, has_data b slot dd = true /\ dd <> [] /\ v1_dir_read s' pd pi slot = RData dd.
Proof. exact v1_dir_store_crash_safe. Qed.

Theorem bundle_v1_complete_store_others_untouched :
  forall s pd pi sfx1 sfx2 c r b s' q,
    In s' (b_crash_states s (v1_dir_store_ops s pd pi sfx1 sfx2 c r b)) ->
    q <> pd -> q <> pi -> q <> tmp_of pd sfx1 -> q <> tmp_of pi sfx2 -> s' q = s q.
Proof. exact v1_dir_store_others. Qed.

Theorem bundle_v1_complete_store_reestablishes_invariant :
  forall s pd pi sfx1 sfx2 c r b,
    pd <> pi -> tmp_of pd sfx1 <> pi -> tmp_of pi sfx2 <> pd ->
    v1_wf (v1_dir_eff s pd pi c r) ->
    flen (v1dat (v1_dir_eff s pd pi c r)) + total_len b <= 1099511627776 -> v1_batch_ok b ->
    (s pd = None -> bd_exists s (tmp_of pd sfx1) = false) ->
    (s pi = None -> bd_exists s (tmp_of pi sfx2) = false) ->
    exists st, b_apply_all s (v1_dir_store_ops s pd pi sfx1 sfx2 c r b) pd = Some (v1dat st) /\
               b_apply_all s (v1_dir_store_ops s pd pi sfx1 sfx2 c r b) pi = Some (v1idx st) /\ v1_wf st.
Proof. exact v1_dir_store_completes. Qed.

(* the first store into a v1 bundle that does not exist yet: nothing but "missing" or the complete new tile, at every
   crash point of both initialisations and of the in-place phase *)
Theorem crash_safe_bundle_v1_first_store :
  forall s pd pi sfx1 sfx2 c r b s' slot,
    pd <> pi -> tmp_of pd sfx1 <> pi -> tmp_of pi sfx2 <> pd ->
    s pd = None -> s pi = None ->
    V1_REC + total_len b <= 1099511627776 -> v1_batch_ok b ->
    In s' (b_crash_states s (v1_dir_store_ops s pd pi sfx1 sfx2 c r b)) -> 0 <= slot < SLOTS ->
    v1_dir_read s' pd pi slot = RMissing \/
    exists dd, has_data b slot dd = true /\ dd <> [] /\ v1_dir_read s' pd pi slot = RData dd.
Proof. exact v1_dir_store_crash_safe_fresh. Qed.
