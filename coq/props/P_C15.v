(* C15  Parallel fan-out returns every result exactly once and in input order.
   Property theorems only; proofs live in theories/Pool_proofs.v. *)
From Coq Require Import ZArith List Bool Arith Sorted.
Import ListNotations.
From MP Require Import Pool Pool_proofs.

(* Result-object mode: for every pool size, every list of items (failing or not), every completion
   order of the workers and every hand-over point between the two drain phases of map_each, the caller
   receives exactly one result per input, in input order; the exception of item i is at position i. *)
Theorem resequencing_correct :
  forall pool_size items arrival split,
    is_perm arrival (length items) ->
    imap pool_size true items arrival split = (items, None).
Proof. exact imap_result_objects. Qed.

(* Raise mode, nothing fails: same statement. *)
Theorem raise_mode_all_results :
  forall pool_size items arrival split,
    is_perm arrival (length items) -> all_ok items ->
    imap pool_size false items arrival split = (items, None).
Proof. exact imap_raise_all_ok. Qed.

(* Raise mode, pool: the exception that is re-raised is that of the first failing item to complete
   (index j, completing after the successful items `pre`); what was yielded before is an input-order
   prefix of successful results that does not reach j - nothing is duplicated or attributed to
   another item, and nothing is yielded after the raise. *)
Theorem exception_attributed_pool :
  forall pool_size items pre j e post split,
    2 <= pool_size -> 2 <= length items ->
    is_perm (pre ++ j :: post) (length items) ->
    value_of items j = Exc e ->
    (forall i, In i pre -> exists v, value_of items i = Ok v) ->
    exists k, k <= j /\ imap pool_size false items (pre ++ j :: post) split = (firstn k items, Some e).
Proof. exact imap_raise_first_arriving. Qed.

(* Raise mode, sequential execution (pool size < 2 or a single item): results up to the first failing
   input, then its exception (needs the repair of finding F11). *)
Theorem exception_attributed_sequential :
  forall pool_size pre e post arrival split,
    pool_size < 2 \/ length (pre ++ Exc e :: post) = 1 ->
    all_ok pre ->
    imap pool_size false (pre ++ Exc e :: post) arrival split = (pre, Some e).
Proof. exact imap_raise_sequential. Qed.

(* ---- worker/consumer handshake (result_queue.put before task_queue.task_done) ---- *)
From MP Require Import PoolSync PoolSync_proofs.

(* For every interleaving of the workers' put / task_done calls in which each task_done(i) follows put(i)
   (what ThreadWorker.run does), the consumer - whose second drain phase starts when task_queue.join()
   returns and may see `extra` further events - receives every result exactly once and in input order;
   nothing that is put is ever left behind in the queue. *)
Theorem handshake_no_result_lost :
  forall raise_exc items tr split extra r,
    wf_trace (length items) tr = true ->
    (raise_exc = true -> all_ok items) ->
    map_each_ev raise_exc items tr split extra = Some r -> r = (items, None).
Proof. exact map_each_ev_all. Qed.

(* ... and join does return once every task was marked done (termination of the hand-over). *)
Theorem handshake_join_returns :
  forall need tr, need <= length (dones tr) -> exists vr, visible need tr = Some vr.
Proof. exact visible_some. Qed.

(* The order matters: with task_done before put there is a schedule that loses a result. *)
Theorem handshake_done_before_put_refuted :
  exists items tr, map_each_ev false items tr 0 0 = Some ([Ok 1], None) /\ items = [Ok 1; Ok 2]
                   /\ wf_trace 2 tr = false.
Proof. exact handshake_done_before_put_loses. Qed.

(* ---- consumers of result objects (cache/tile.py, service/wms.py) ---- *)

(* _create_bulk_meta_tile: whatever the completion order, if some tile request failed the exception of the
   first failing tile (input order) is re-raised and nothing is stored; otherwise exactly the non-blank
   tiles are stored, in input order. *)
Theorem bulk_meta_tile_consumer :
  forall pool_size items arrival split,
    is_perm arrival (length items) ->
    bulk_meta pool_size items arrival split =
    match first_exc items with Some e => ([], Some e) | None => (nonblank items, None) end.
Proof. exact bulk_meta_spec. Qed.

(* LayerRenderer, raise mode: layers are added bottom-up until the first failing layer, whose exception is
   raised; no failure: all layers added in order. *)
Theorem render_raise_consumer_failure :
  forall pool_size pre e post arrival split,
    is_perm arrival (length (pre ++ Exc e :: post)) -> all_ok pre ->
    render_raise pool_size (pre ++ Exc e :: post) arrival split = (nonblank pre, Some e).
Proof. exact render_raise_first_failure. Qed.

Theorem render_raise_consumer_all :
  forall pool_size items arrival split,
    is_perm arrival (length items) -> all_ok items ->
    render_raise pool_size items arrival split = (nonblank items, None).
Proof. exact render_raise_all. Qed.

(* LayerRenderer, capture mode: an exception that is not a SourceError is never swallowed, and the outcome
   does not depend on the completion order. *)
Theorem render_capture_hard_exception_raised :
  forall pool_size items arrival split e,
    is_perm arrival (length items) -> first_hard_exc items = Some e ->
    snd (render_capture pool_size items arrival split) = Some e.
Proof. exact render_capture_hard_exception. Qed.

Theorem render_capture_completion_order_irrelevant :
  forall pool_size items arr arr' split split',
    is_perm arr (length items) -> is_perm arr' (length items) ->
    render_capture pool_size items arr split = render_capture pool_size items arr' split'.
Proof. exact render_capture_order_independent. Qed.

(* ---- termination of the forced shutdown (shutdown(force=True) after an exception) ---- *)

(* _consume_queue empties the task queue with non-blocking gets: whatever the workers take in between
   (any interleaving), after at most 2q+1 of its own steps it is done - the call terminates. *)
Theorem forced_shutdown_drain_terminates :
  forall (q : nat) (pc : bool) (sched : list dstep),
    2 * q + (if pc then 2 else 1) <= count_consumer sched -> drain_run false q pc sched = DDone.
Proof. exact drain_terminates_gen. Qed.

(* with a blocking get there is a schedule (a worker takes the last task between empty() and get())
   on which the consumer blocks for ever *)
Theorem forced_shutdown_blocking_get_refuted :
  drain_run true 1 false [DConsumer; DWorkerTake; DConsumer] = DStuck.
Proof. exact drain_blocking_stuck. Qed.

(* ---- capture mode: no SourceError is swallowed either *)

(* When no layer raised a non-source exception: every SourceError is collected in layer order; if at least one
   layer succeeded, the images are added bottom-up and - when something failed - the message image (-2) is put
   on top; if none succeeded the request fails with "Could not get any sources" (-1).  For every completion
   order and pool size. *)
Theorem render_capture_source_errors_reported :
  forall pool_size items arrival split,
    is_perm arrival (length items) -> first_hard_exc items = None -> items <> [] ->
    render_capture pool_size items arrival split =
    match count_ok items with
    | O => (nonblank items, source_errs items, Some (-1)%Z)
    | S _ => (match source_errs items with [] => nonblank items | _ => nonblank items ++ [(-2)%Z] end,
              source_errs items, None)
    end.
Proof. exact render_capture_reports. Qed.

(* ---- TileCreator._query_sources (cache/tile.py): the sources of a cache are queried through the pool *)

(* Nothing fails: for every completion order the merger receives exactly the images that were delivered, in
   source order, each paired with the coverage (index) of the source it came from. *)
Theorem query_sources_consumer :
  forall items arrival split,
    is_perm arrival (length items) -> all_ok items ->
    query_sources items arrival split = (indexed_nonblank 0 items, None).
Proof. exact query_sources_ok. Qed.

Theorem query_sources_pairs_image_with_own_coverage :
  forall items v k, In (v, k) (indexed_nonblank 0 items) -> value_of items k = Ok v /\ (0 <= v)%Z.
Proof. exact query_sources_own_coverage. Qed.

Theorem query_sources_nothing_lost :
  forall items k v, nth k items (Exc 0) = Ok v -> (0 <= v)%Z -> In (v, k) (indexed_nonblank 0 items).
Proof. exact query_sources_complete. Qed.

Theorem query_sources_source_order :
  forall items, StronglySorted lt (map snd (indexed_nonblank 0 items)).
Proof. exact query_sources_sorted. Qed.

(* A failing source: for every completion order one of the sources' own exceptions reaches the caller and
   nothing is merged. *)
Theorem query_sources_failure_not_swallowed :
  forall items arrival split e0,
    is_perm arrival (length items) -> first_exc items = Some e0 ->
    exists e, In (Exc e) items /\ query_sources items arrival split = ([], Some e).
Proof. exact query_sources_failure. Qed.

(* ---- bulk loads / stores of the S3 and Azure back-ends: all(pool.map(load_tile, tiles)) *)

(* When the call returns, the caller has received the result of every tile (so every load has finished), and
   the value is "all loaded" - whatever the completion order and whichever tile is missing. *)
Theorem bulk_load_complete_at_return :
  forall pool_size items arrival split,
    is_perm arrival (length items) -> all_ok items ->
    bulk_io pool_size items arrival split = (forallb truthy items, length items, None).
Proof. exact bulk_io_all. Qed.

(* ---- TileCreator._create_threaded (concurrent tile creators, raise mode) *)

(* Nothing fails: the caller receives the tiles of every creator, in input order, for every completion order. *)
Theorem create_threaded_all_tiles :
  forall pool_size items arrival split,
    is_perm arrival (length items) -> all_ok items ->
    create_threaded pool_size items arrival split = (nonblank items, None).
Proof. exact create_threaded_ok. Qed.

(* A failing creator is never swallowed, whatever its position and the completion order: one of the creators'
   own exceptions is raised and no tile list is returned. *)
Theorem create_threaded_failure_not_swallowed :
  forall pool_size items arrival split e0,
    is_perm arrival (length items) -> first_exc items = Some e0 ->
    exists e, In (Exc e) items /\ create_threaded pool_size items arrival split = ([], Some e).
Proof. exact create_threaded_failure. Qed.

(* raise mode in general (any pool size): some item's own exception is re-raised *)
Theorem raise_mode_failure_not_swallowed :
  forall pool_size items arrival split e0,
    is_perm arrival (length items) -> first_exc items = Some e0 ->
    exists e rs, In (Exc e) items /\ imap pool_size false items arrival split = (rs, Some e).
Proof. exact imap_raise_failure. Qed.

(* ---- thread-start faults: the call terminates *)

(* A Thread.start() that fails while the pool is set up is reported to the caller at once (nothing is yielded,
   no task was queued, nobody waits for a result); without a pool (one item or pool size < 2) and without a
   fault the call is the ordinary one. *)
Theorem thread_start_fault_is_reported :
  forall pool_size use_result_objects items arrival split k,
    2 <= pool_size -> 2 <= length items -> k < pool_size ->
    imap_start pool_size use_result_objects items arrival split (Some k) = ([], Some E_START).
Proof. exact imap_start_fault. Qed.

Theorem thread_start_no_fault_is_imap :
  forall pool_size use_result_objects items arrival split fail_at,
    match fail_at with Some k => pool_size <= k | None => True end ->
    imap_start pool_size use_result_objects items arrival split fail_at
    = imap pool_size use_result_objects items arrival split.
Proof. exact imap_start_no_fault. Qed.

Theorem thread_start_no_pool_no_fault :
  forall pool_size use_result_objects items arrival split fail_at,
    pool_size < 2 \/ length items = 1 ->
    imap_start pool_size use_result_objects items arrival split fail_at
    = imap pool_size use_result_objects items arrival split.
Proof. exact imap_start_no_pool. Qed.

(* ---- the call terminates: the blocking get of the first drain phase *)

(* Whenever _fetch_results' loop condition lets the consumer call result_queue.get(), a result is in the queue
   or a task is still untaken or running, so the get returns (given a live worker); tasks whose result was put
   but whose task_done() is still outstanding do not keep the consumer in the loop. *)
Theorem fetch_results_get_returns :
  forall s, fetch_cond false s = true -> get_can_return s = true.
Proof. exact fetch_get_returns. Qed.

(* counting unfinished tasks instead would block for ever after the last result *)
Theorem fetch_results_unfinished_tasks_refuted :
  exists s, fetch_cond true s = true /\ get_can_return s = false.
Proof. exact fetch_unfinished_blocks. Qed.
