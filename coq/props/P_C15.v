(* C15  Parallel fan-out returns every result exactly once and in input order.
   Property theorems only; proofs live in theories/Pool_proofs.v. *)
From Coq Require Import ZArith List Bool Arith.
Import ListNotations.
From MP Require Import Pool Pool_proofs.

(* Result-object mode: for every pool size, every list of items (failing or not), every completion
   order of the workers and every hand-over point between the two drain phases of map_each, the caller
   receives exactly one result per input, in input order; the exception of item i is at position i. *)
Theorem resequencing_correct :
  forall pool_size items arrival split,
    is_perm arrival (length items) ->
    imap pool_size true items arrival split = (items, None).
Proof. exact imap_result_objects. Qed.

(* Raise mode, nothing fails: same statement. *)
Theorem raise_mode_all_results :
  forall pool_size items arrival split,
    is_perm arrival (length items) -> all_ok items ->
    imap pool_size false items arrival split = (items, None).
Proof. exact imap_raise_all_ok. Qed.

(* Raise mode, pool: the exception that is re-raised is that of the first failing item to complete
   (index j, completing after the successful items `pre`); what was yielded before is an input-order
   prefix of successful results that does not reach j - nothing is duplicated or attributed to
   another item, and nothing is yielded after the raise. *)
Theorem exception_attributed_pool :
  forall pool_size items pre j e post split,
    2 <= pool_size -> 2 <= length items ->
    is_perm (pre ++ j :: post) (length items) ->
    value_of items j = Exc e ->
    (forall i, In i pre -> exists v, value_of items i = Ok v) ->
    exists k, k <= j /\ imap pool_size false items (pre ++ j :: post) split = (firstn k items, Some e).
Proof. exact imap_raise_first_arriving. Qed.

(* Raise mode, sequential execution (pool size < 2 or a single item): results up to the first failing
   input, then its exception (needs the repair of finding F11). *)
Theorem exception_attributed_sequential :
  forall pool_size pre e post arrival split,
    pool_size < 2 \/ length (pre ++ Exc e :: post) = 1 ->
    all_ok pre ->
    imap pool_size false (pre ++ Exc e :: post) arrival split = (pre, Some e).
Proof. exact imap_raise_sequential. Qed.
