(* C10  Authorization is enforced: denied layers stay dark, limited areas are clipped.
   Property theorems only; proofs live in theories/Auth_proofs.v.
   Reading guide: a callback result is `cbres` (kind, dictionary name -> permissions, global limited_to);
   `permitted f r n` = the callback allows feature f (map / featureinfo / tile) for layer n;
   geometries are identifiers, the geometric predicates (point in geometry, tile bbox contained / intersected,
   pixel outside the rasterised mask) are arbitrary inputs - the theorems hold for every geometry. *)
From Coq Require Import ZArith List Bool Arith.
Import ListNotations.
From MP Require Import Auth Auth_proofs.
Local Open Scope Z_scope.

(* WMS GetMap, any layer tree with groups, any LAYERS list, any callback result (a dictionary: unique keys):
   every source whose get_map is called (= every upstream request) belongs to a selected layer that the
   callback permits for 'map'.  A denied layer is never rendered and never requested upstream. *)
Theorem denied_layer_not_rendered :
  forall tree req r s,
    NoDup (map fst (r_layers r)) ->
    In s (wms_log (wms_map tree req (Some r))) ->
    exists n srcs, In (n, srcs) (select_map (server_layers tree) req []) /\ In s srcs /\
                   permitted Ft_map r n = true.
Proof. exact wms_map_log_permitted. Qed.
(* (select_map = all_layers of the request: the map layers of every requested name, before anything is hidden) *)

(* every entry of the render list: its layer is permitted, and for a 'partial' result the entry carries exactly
   the limited_to of that layer's dictionary entry (limited => LimitedLayer) *)
Theorem render_entry_permitted_and_limited :
  forall tree req r rl cov n lim s,
    NoDup (map fst (r_layers r)) ->
    wms_map tree req (Some r) = W_ok rl cov -> In (n, lim, s) rl ->
    permitted Ft_map r n = true /\
    (exists srcs, In (n, srcs) (select_map (server_layers tree) req []) /\ In s srcs) /\
    (r_kind r = A_partial -> exists p, assoc n (r_layers r) = Some p /\ lim = p_lim p).
Proof. exact wms_map_entry. Qed.

(* 'none', 'unauthenticated' or an unknown value of 'authorized': nothing is rendered at all *)
Theorem unauthorized_request_renders_nothing :
  forall tree req r,
    r_kind r <> A_full -> r_kind r <> A_partial -> wms_log (wms_map tree req (Some r)) = [].
Proof. exact wms_map_none_no_log. Qed.

(* a layer that is part of the answer, was named in LAYERS and is not permitted: the whole request is 403 *)
Theorem explicit_denied_is_403 :
  forall tree req r n srcs,
    NoDup (map fst (r_layers r)) ->
    all_known (server_layers tree) req = true ->
    r_kind r <> A_full -> r_kind r <> A_unauth ->
    In (n, srcs) (select_map (server_layers tree) req []) ->
    In n req ->
    permitted Ft_map r n = false ->
    wms_map tree req (Some r) = W_403.
Proof. exact wms_map_explicit_403. Qed.

(* when every denied layer of the answer is implicit (member of a requested group), the request succeeds,
   the denied layers are dropped and the global limited_to becomes the clip coverage of the merger *)
Theorem implicit_denied_is_dropped :
  forall tree req r,
    NoDup (map fst (r_layers r)) ->
    all_known (server_layers tree) req = true ->
    r_kind r <> A_full -> r_kind r <> A_unauth ->
    (forall n srcs, In (n, srcs) (select_map (server_layers tree) req []) ->
                    permitted Ft_map r n = false -> ~ In n req) ->
    exists rl, wms_map tree req (Some r) = W_ok rl (r_lim r) /\
               forall n, In n (map (fun e : rentry => fst (fst e)) rl) -> permitted Ft_map r n = true.
Proof. exact wms_map_implicit_dropped. Qed.

(* The skipping of layers below an opaque layer (second loop of WMSServer.map, after authorization): a layer that was
   going to be rendered is dropped in the step of a requested layer only if that layer is opaque and every one of its
   map layers is permitted and not limited.  A denied or limited opaque layer never hides the layers below it. *)
Theorem opaque_layer_hides_only_when_completely_permitted :
  forall d w names acc k,
    In k (map fst acc) -> ~ In k (map fst (prune_step d (w, names) acc)) ->
    w_is_opaque w = true /\ forall n, In n names -> exists srcs, assoc n d = Some (None, srcs).
Proof. exact prune_step_hides. Qed.

Theorem unauthenticated_is_401 :
  forall tree req r,
    all_known (server_layers tree) req = true -> r_kind r = A_unauth -> wms_map tree req (Some r) = W_401.
Proof. exact wms_map_unauth_401. Qed.

(* combined_layers (adjacent layers fetched with one upstream request), for every compatibility relation of the
   sources: every source is still rendered under the limited_to of its own layer, in order ... *)
Theorem combined_layers_keep_limits :
  forall compat rl, expand_groups (combine_entries compat rl) = rl.
Proof. exact combine_entries_expand. Qed.

(* ... and a limited layer is never merged with a neighbour into one request *)
Theorem limited_layers_are_not_combined :
  forall compat rl g srcs,
    In (Some g, srcs) (combine_entries compat rl) -> length srcs = 1%nat.
Proof. exact combine_entries_limited_alone. Qed.

(* Global clip, every path of LayerMerger.merge (no layer, the single-layer shortcut - which a coverage
   disables -, the loop): whatever the layer images, their modes, opacities and masks are, a pixel outside the
   mask of the global coverage is exactly the pixel create_image() starts with: bgcolor, alpha 0 for
   transparent requests. *)
Theorem clip_outside_transparent :
  forall o ms cols k col,
    bg_ok o -> nth_error cols k = Some (col, true) ->
    nth_error (snd (merge_image o ms cols true)) k = Some (create_px o).
Proof. exact merge_image_global_outside. Qed.

(* An empty limit is a limit, not "no limit".  WMS: with a global coverage whose mask excludes every pixel (an
   empty geometry, or one that misses the request: image_mask_from_geom without polygons masks everything) the
   whole answer is background, whatever the layers are. *)
Theorem empty_coverage_shows_nothing :
  forall o ms cols,
    bg_ok o -> Forall (fun cb : column * bool => snd cb = true) cols ->
    snd (merge_image o ms cols true) = map (fun _ => create_px o) cols.
Proof. exact merge_image_empty_coverage. Qed.

(* Per-layer clip (LimitedLayer): outside its mask a clipped layer leaves the pixel under it untouched, wherever
   it sits in the stack and on every path of the loop (alpha_composite, Image.blend for opacity < 1, paste);
   for a result without alpha channel the pixel under it is a valid opaque pixel.  (Holds for /repo since the
   repair "layer opacity in non-transparent results leaves transparent parts of the layer untouched"; the
   older blend path is refuted by Auth_proofs.old_blend_path_refuted.) *)
Theorem layer_clip_outside_untouched :
  forall composite m d s,
    lm_clip m = true ->
    (composite = false -> px_ok d /\ px_a d = 255) ->
    step_px composite m d s true = d.
Proof. exact step_px_clip_outside. Qed.

(* hence: a pixel outside the geometry of every layer of the answer (all limited) is the background *)
Theorem all_layers_clipped_outside_is_background :
  forall o ms col,
    bg_ok o ->
    Forall (fun m => lm_clip m = true) ms ->
    Forall (fun sb : px * bool => snd sb = true) col ->
    merge_px o ms col None = create_px o.
Proof. exact merge_px_all_outside. Qed.

(* inside the global mask the global clip keeps the merged pixel, colour and alpha *)
Theorem global_clip_inside_kept :
  forall o composite r,
    px_ok r -> (composite = false -> px_a r = 255) -> global_clip_px o composite r false = r.
Proof. exact global_clip_inside. Qed.

(* pixels inside keep their content: an opaque pixel of a single limited layer without opacity, inside the layer
   mask and inside the global mask (or without one), comes out unchanged *)
Theorem clip_inside_content_kept :
  forall o m s gout,
    bg_ok o -> px_ok s -> px_a s = 255 -> layer_opacity m = None ->
    (gout = None \/ gout = Some false) ->
    (lm_clip m = true \/ lm_mode m = M_RGBA) ->
    merge_px o [m] [(s, false)] gout = s.
Proof. exact merge_px_inside_kept. Qed.

(* TMS / KML / WMTS tiles.  A denied tile layer: 403, the tile manager is not asked. *)
Theorem tile_denied_is_403 :
  forall n r cont inter,
    r_kind r <> A_unauth -> permitted Ft_tile r n = false ->
    tile_render n (Some r) cont inter = TO_403 /\ tile_loads (tile_render n (Some r) cont inter) = false.
Proof. exact tile_denied_403. Qed.

(* a served tile is a permitted one *)
Theorem tile_served_is_permitted :
  forall key n r lim, authorize_tile key n (Some r) = T_ok lim -> permitted key r n = true.
Proof. exact authorize_tile_ok_permitted. Qed.

(* The geometries a tile request is limited to are given as a list, all of them apply (the coverage is their
   intersection, util/coverage.py load_limited_to_all); cont / inter / pt_in are the predicates of that
   intersection.  A tile whose bbox neither lies in nor intersects it is answered with the empty tile and the tile
   manager is never asked (no upstream request). *)
Theorem tile_outside_empty :
  forall lname cb cont inter gs,
    authorize_tile Ft_tile lname cb = T_ok gs -> gs <> [] -> cont gs = false -> inter gs = false ->
    tile_render lname cb cont inter = TO_empty /\ tile_loads (tile_render lname cb cont inter) = false.
Proof. exact tile_outside_empty_l. Qed.

(* A tile that intersects the permitted area without lying in it is masked with it: pixels outside the
   mask are (255,255,255,0), opaque pixels inside keep their value. *)
Theorem tile_partial_masked :
  forall lname cb cont inter gs,
    authorize_tile Ft_tile lname cb = T_ok gs -> gs <> [] -> cont gs = false -> inter gs = true ->
    tile_render lname cb cont inter = TO_masked gs.
Proof. exact tile_partial_masked_l. Qed.

Theorem tile_masked_pixel_outside :
  forall mode s, tile_masked_px mode s true = (255, 255, 255, 0).
Proof. exact tile_masked_outside. Qed.

Theorem tile_masked_pixel_inside :
  forall mode s, px_ok s -> px_a s = 255 -> tile_masked_px mode s false = s.
Proof. exact tile_masked_inside. Qed.

(* Which geometries: the global limited_to always applies (TMS, KML, WMTS tiles and WMTS feature info) ... *)
Theorem tile_global_limit_honoured :
  forall key n r lims g,
    authorize_tile key n (Some r) = T_ok lims -> r_kind r = A_partial -> r_lim r = Some g -> In g lims.
Proof. exact tile_global_limit. Qed.

(* ... and so does the limited_to of the layer entry ... *)
Theorem tile_layer_limit_honoured :
  forall key n r lims p g,
    authorize_tile key n (Some r) = T_ok lims -> r_kind r = A_partial ->
    assoc n (r_layers r) = Some p -> p_lim p = Some g -> In g lims.
Proof. exact tile_layer_limit. Qed.

(* ... and nothing else *)
Theorem tile_limits_come_from_callback :
  forall key n r lims g,
    authorize_tile key n (Some r) = T_ok lims -> In g lims ->
    r_lim r = Some g \/ exists p, assoc n (r_layers r) = Some p /\ p_lim p = Some g.
Proof. exact tile_limits_from_callback. Qed.

(* ... and for tiles and WMTS feature info: a non-empty list of limits whose intersection contains and intersects
   nothing (e.g. it is empty) gives the empty tile without a load and no feature info - it is never read as
   "no limit" (T_ok [] is the only case that is served unclipped). *)
Theorem empty_tile_limit_shows_nothing :
  forall lname infos cb cont inter pt_in gs gs',
    authorize_tile Ft_tile lname cb = T_ok gs -> gs <> [] -> cont gs = false -> inter gs = false ->
    authorize_tile Ft_fi lname cb = T_ok gs' -> gs' <> [] -> pt_in gs' = false -> infos <> [] ->
    tile_render lname cb cont inter = TO_empty /\ tile_loads (tile_render lname cb cont inter) = false /\
    wmts_featureinfo lname infos cb pt_in = FI_ok [].
Proof. exact empty_tile_limit_l. Qed.

(* Feature info (WMS): every info source that is queried belongs to a layer permitted for 'featureinfo'; if that
   layer is limited to g the query point lies in g; if the request is limited globally the point lies in the
   global geometry.  Contrapositive: a point outside => no upstream call, empty answer. *)
Theorem featureinfo_gate :
  forall tree ql ls r pt_in rl cov n lim s,
    NoDup (map fst (r_layers r)) ->
    wms_featureinfo tree ql ls (Some r) pt_in = W_ok rl cov -> In (n, lim, s) rl ->
    permitted Ft_fi r n = true /\
    (forall g, lim = Some g -> pt_in g = true) /\
    (r_kind r <> A_full -> forall g, r_lim r = Some g -> pt_in g = true).
Proof. exact wms_fi_entry. Qed.

(* Feature info (WMTS) *)
Theorem wmts_featureinfo_gate :
  forall n infos cb pt_in gs,
    authorize_tile Ft_fi n cb = T_ok gs -> gs <> [] -> pt_in gs = false -> infos <> [] ->
    wmts_featureinfo n infos cb pt_in = FI_ok [].
Proof. exact wmts_fi_gate. Qed.

(* ... and the other way round: without a limit, or with the query point inside the intersection of the limits,
   every info source of the layer is asked *)
Theorem wmts_featureinfo_inside_answers :
  forall n infos cb pt_in gs,
    authorize_tile Ft_fi n cb = T_ok gs -> (gs = [] \/ pt_in gs = true) ->
    wmts_featureinfo n infos cb pt_in = match infos with [] => FI_notqueryable | _ => FI_ok infos end.
Proof. exact wmts_fi_inside. Qed.

(* so under a limit the answer is decided by the query point alone: info is returned exactly when the point lies in
   the geometry - not when the tile that contains the point merely touches it *)
Theorem wmts_featureinfo_answers_iff_point_inside :
  forall n infos cb pt_in gs,
    authorize_tile Ft_fi n cb = T_ok gs -> gs <> [] -> infos <> [] ->
    (wmts_featureinfo n infos cb pt_in = FI_ok infos <-> pt_in gs = true).
Proof. exact wmts_fi_iff_point_inside. Qed.

Theorem wmts_featureinfo_denied_is_403 :
  forall n infos r pt_in,
    r_kind r <> A_unauth -> permitted Ft_fi r n = false ->
    wmts_featureinfo n infos (Some r) pt_in = FI_403.
Proof. exact wmts_fi_denied. Qed.

(* WMS GetCapabilities with a 'partial' result (FilteredRootLayer; not a clause of the property - no image, feature
   info or upstream request is involved - but the same callback result): every layer named in the document has a
   truthy 'map' entry, and its own and the global limited_to intersect its extent.  Missing or false => not listed;
   a sub layer is only listed below a listed parent. *)
Theorem capabilities_list_only_permitted_layers :
  forall tree r isect names n,
    wms_capabilities tree (Some r) isect = CAP_ok names -> r_kind r = A_partial -> In n names ->
    exists p, assoc n (r_layers r) = Some p /\ truthy_f (p_map p) = true /\
              (forall g, p_lim p = Some g -> isect g n = true) /\
              (forall g, r_lim r = Some g -> isect g n = true).
Proof. exact capabilities_listed_facts. Qed.

(* the filtered document (any callback result) names only layers of the unfiltered document *)
Theorem capabilities_filtered_is_subset :
  forall tree r isect names n,
    wms_capabilities tree (Some r) isect = CAP_ok names -> In n names ->
    exists all, wms_capabilities tree None isect = CAP_ok all /\ In n all.
Proof. exact capabilities_subset_of_unfiltered. Qed.

(* FilteredRootLayer, groups: a group that is not permitted hides its whole subtree, whatever the entries of its sub
   layers say ... *)
Theorem capabilities_denied_group_hides_subtree :
  forall perm m this ch, perm m = false -> cap_child perm (WGroup m this ch) = [].
Proof. exact cap_denied_group_hides_subtree. Qed.

(* ... and a permitted group without sources of its own is dropped when none of its sub layers is left *)
Theorem capabilities_empty_group_hidden :
  forall perm m ch,
    (forall c, In c ch -> cap_child perm c = []) -> cap_child perm (WGroup m None ch) = [].
Proof. exact cap_empty_group_hidden. Qed.

(* completeness at the top level: a permitted top level layer is listed *)
Theorem capabilities_permitted_toplevel_layer_listed :
  forall tree r isect n o maps infos,
    r_kind r = A_partial -> In (WLeaf n o maps infos) tree -> cap_permitted r isect n = true ->
    exists names, wms_capabilities tree (Some r) isect = CAP_ok names /\ In n names.
Proof. exact capabilities_permitted_toplevel_leaf_listed. Qed.

Theorem capabilities_unauthorized_is_403 :
  forall tree r isect,
    r_kind r <> A_full -> r_kind r <> A_partial -> r_kind r <> A_unauth ->
    wms_capabilities tree (Some r) isect = CAP_403.
Proof. exact capabilities_unauthorized. Qed.
