(* C10  Authorization is enforced: denied layers stay dark, limited areas are clipped.
   Property theorems only; proofs live in theories/Auth_proofs.v. *)
From Coq Require Import ZArith List Bool Arith.
Import ListNotations.
From MP Require Import Auth Auth_proofs.
Local Open Scope Z_scope.

(* A tile whose bbox neither lies in nor intersects the geometry the layer is limited to is answered with the
   empty tile and the tile manager is never asked (no upstream request). *)
Theorem tile_outside_empty :
  forall lname cb cont inter g,
    authorize_tile Ft_tile lname cb = T_ok (Some g) -> cont g = false -> inter g = false ->
    tile_render lname cb cont inter = TO_empty /\ tile_loads (tile_render lname cb cont inter) = false.
Proof. exact tile_outside_empty_l. Qed.
