(* C14  Layers composite in order with correct alpha; shortcuts never change the picture.
   Property theorems only; proofs live in theories/Compose_proofs.v.  The model (theories/Compose.v) follows
   mapproxy/image/merge.py, service/wms.py and source/wms.py; Pillow's operators are integer formulas. *)
From Coq Require Import ZArith List Bool Arith.
Import ListNotations.
From MP Require Import Base Compose Compose_proofs Pool Pool_proofs.
Local Open Scope Z_scope.

(* merge_is_fold_over: for every request option, every list of layers (any number, any modes, opacities,
   clips) of the requested size n and every pixel position k, the merged image at k is the left fold -
   bottom layer first - of each layer's per-pixel operator (alpha_composite / faded alpha_composite / paste /
   masked paste / blend, chosen by result mode, layer mode and opacity), starting from the background pixel
   given by bgcolor and the transparent flag. *)
Theorem merge_is_fold_over :
  forall n o layers k dflt,
    Forall (sized n) layers -> (k < n)%nat ->
    nth k (im_px (merge_loop n o layers)) dflt =
    fold_left (fun d l => layer_step (imode_eqb (create_mode o) M_RGBA) l d (nth k (im_px (norm_image l)) dflt))
              layers (create_px o).
Proof. exact merge_loop_pixel. Qed.

(* over_opaque_top: whatever has been composed so far (any image r of the same size), merging a layer that
   has no opacity below 1 and whose contributed pixels all have alpha 255 yields exactly that layer. *)
Theorem over_opaque_top :
  forall r l,
    opaque_layer l -> length (im_px r) = length (im_px (norm_image l)) ->
    merge_layer r l = mk_image (im_mode r) T_none (map (fun s => set_a s 255) (im_px (norm_image l))).
Proof. exact merge_layer_opaque. Qed.

(* prune_below_opaque_sound: LayerMerger.merge (single-layer shortcut and global clip included) returns the
   same picture for the full stack  below ++ top :: above  and for the pruned stack  top :: above,
   provided `top` is opaque: no opacity below 1 (guaranteed by is_opaque, see wms_source_is_opaque_facts)
   and opaque pixels (the upstream assumption for sources not declared transparent). *)
Theorem prune_below_opaque_sound :
  forall n o below top above cov,
    opaque_layer top -> sized n top -> Forall (sized n) below ->
    view (result_image (merge n o (below ++ top :: above) cov)) =
    view (result_image (merge n o (top :: above) cov)).
Proof. exact merge_prune. Qed.

(* prune_below_opaque_sound at the WMS level (WMSServer.map, request combination off): for every request -
   any number of layers, groups nested to any depth - whose selected layer names are distinct (finding
   duplicate-layer-name otherwise), the response with the is_opaque optimisation shows the same picture as the
   response without it, provided every source accepted by is_opaque delivers an opaque layer (upstream
   assumption; the absence of fading is proved, see wms_source_is_opaque_facts) of the requested size. *)
Theorem prune_below_opaque_sound_wms :
  forall fetch n o req,
    NoDup (req_keys req) ->
    (forall s l, fetch s = Some l -> sized n l) ->
    (forall s, src_is_opaque s = true -> exists l, fetch s = Some l /\ opaque_layer l) ->
    view (result_image (wms_map true false fetch n o req)) =
    view (result_image (wms_map false false fetch n o req)).
Proof. exact wms_prune. Qed.

(* the repaired WMSServer.map collects all layers, applies the authorisation and prunes afterwards (two passes,
   wms_map_auth); without an authorize callback it is the one-pass selection the pruning theorem is stated for,
   for every request with distinct selected layer names *)
Theorem two_pass_selection_without_auth :
  forall prune combine fetch n o req,
    NoDup (req_keys req) ->
    wms_map_auth prune combine (fun _ => 0) fetch n o req = wms_map prune combine fetch n o req.
Proof. exact wms_map_auth_no_auth. Qed.

(* what WMSSource.is_opaque = true guarantees: the source answers (inside resolution range and coverage),
   is not declared transparent and is not faded by merge *)
Theorem wms_source_is_opaque_facts :
  forall s, src_is_opaque s = true ->
    s_wms s = true /\ s_res_ok s = true /\ truthy (s_transparent s) = false /\ op_lt1 (s_opacity s) = false /\
    src_blank s = false /\ (s_cov s = 0 \/ s_cov s = 1).
Proof. exact src_is_opaque_facts. Qed.

(* fast_path_equals_composition_partial: the single-layer shortcut returns the layer image itself; for an
   opaque, unclipped layer its picture equals the picture of the full composition over the background.
   Missing for the full statement: a transparent request of a layer with non-opaque pixels (equality up to
   the invisible colour of fully transparent pixels) - checked by the correspondence and the oracle only. *)
Theorem fast_path_equals_composition_partial :
  forall n o l,
    opaque_layer l -> l_clip l = None -> sized n l ->
    view (as_image l) = view (merge_loop n o [l]).
Proof. exact fast_path_opaque. Qed.

(* a fully transparent pixel of an RGBA layer never changes the picture, for every opacity (None, below 1,
   above 1), in a transparent result (alpha_composite) and in a non-transparent result (blend + masked paste) *)
Theorem transparent_pixel_is_neutral_composite :
  forall rg op d s, px_a s = 0 -> px_step true true rg op d s = d.
Proof. exact composite_respects_alpha. Qed.

Theorem transparent_pixel_is_neutral_blend :
  forall op d s, px_ok d -> px_a d = 255 -> px_a s = 0 -> px_step false true true op d s = d.
Proof. exact blend_respects_alpha. Qed.

(* combined_layers_preserves_order: for every list of sources, the configured sources and the upstream layer
   names occur in the combined request list in the original order, none lost, none duplicated; every combined
   request carries the URL of one of the original sources; non-WMS sources are never combined. *)
Theorem combined_layers_preserves_order :
  forall l, flat_map s_ids (combined_layers l) = flat_map s_ids l /\
            flat_map s_lnames (combined_layers l) = flat_map s_lnames l.
Proof. intro l. split; [exact (combined_layers_ids l) | exact (combined_layers_lnames l)]. Qed.

Theorem combined_only_non_wms_untouched :
  forall cur rest, s_wms cur = false -> Forall (fun s => s_wms s = false) rest ->
                   combined_layers (cur :: rest) = cur :: rest.
Proof. exact (fun cur rest => combine_from_non_wms rest cur). Qed.

(* only compatible sources are combined: both inside their resolution range, same URL, no opacity, and the
   upper one not explicitly opaque *)
Theorem combined_only_compatible :
  forall a b, src_compatible a b = true ->
    s_res_ok a = true /\ s_res_ok b = true /\ s_transparent b <> Some false /\ s_url a = s_url b /\
    s_opacity a = None /\ s_opacity b = None.
Proof. exact src_compatible_facts. Qed.

(* the global clip (authorisation limited_to): pixels outside the coverage become the background, pixels inside
   keep colour and alpha *)
Theorem global_clip_keeps_inside :
  forall o r outside k dflt,
    length outside = length (im_px r) -> (k < length (im_px r))%nat ->
    nth k (im_px (global_clip o r outside)) dflt =
    if nth k outside true then create_px o else nth k (im_px r) dflt.
Proof. exact global_clip_pixel. Qed.

(* layer level resolution ranges are the union of the member ranges: a WMS layer (or group) without a configured
   range renders every request that one of its sources (sub layers) renders; a member without a range makes the
   layer unlimited.  (hull hypothesis: contract of grid.merge_resolution_range) *)
Theorem layer_renders_when_a_member_renders :
  forall members hull_ok h,
    (forallb fst members = true -> existsb snd members = true -> hull_ok = true) ->
    In (h, true) members -> layer_res_ok None members hull_ok = true.
Proof. exact layer_res_ok_member. Qed.

Theorem layer_unlimited_when_a_member_is_unlimited :
  forall members hull_ok r, In (false, r) members -> layer_res_ok None members hull_ok = true.
Proof. exact layer_res_ok_unlimited_member. Qed.

(* concurrent rendering (LayerRenderer uses ThreadPool.imap with result objects, model Pool.v of C15): whatever the
   number of renderer threads, the order in which the upstream requests complete and the hand-over point between
   the two drain phases, the render results reach LayerMerger.add in layer order, one per layer *)
Theorem concurrent_render_results_in_layer_order :
  forall pool_size results completion_order split,
    is_perm completion_order (length results) ->
    imap pool_size true results completion_order split = (results, None).
Proof. exact imap_result_objects. Qed.

(* request beyond the SRS extent of the service (srs_extents): every pixel of the answer that lies inside the extent
   is the pixel of the image merged for the part inside the extent; every pixel outside is fully transparent
   (format options without an explicit RGB / L mode) *)
Theorem beyond_srs_extent_inside_is_merged_image :
  forall o sub placement i k,
    nth_error placement i = Some (Some k) -> (k < length (view sub))%nat ->
    exists p, nth_error (im_px (sub_image_source o sub placement)) i = Some p /\ nth_error (view sub) k = Some p.
Proof. exact sub_image_source_inside. Qed.

Theorem beyond_srs_extent_outside_is_transparent :
  forall o sub placement i,
    ro_mode o <> Some M_RGB -> ro_mode o <> Some M_L ->
    nth_error placement i = Some None ->
    exists p, nth_error (im_px (sub_image_source o sub placement)) i = Some p /\ px_a p = 0.
Proof. exact sub_image_source_outside. Qed.

(* transparent colour keys: WMSSource.get_map applies the key to the image of every path (direct request, or sub
   request pasted for a request beyond the coverage), and a pixel within the tolerance of the key colour becomes
   fully transparent whatever its alpha was *)
Theorem colour_key_applied_on_every_path :
  forall c tol pl raw,
    source_image (Some c) tol pl raw = make_transparent_img c tol (source_image None tol pl raw).
Proof. exact source_image_keyed. Qed.

Theorem colour_key_pixel_is_transparent :
  forall four c tol r g b a,
    0 <= tol -> 0 <= a <= 255 ->
    let '(cr, cg, cb) := c in
    cr - tol <= r <= cr + tol -> cg - tol <= g <= cg + tol -> cb - tol <= b <= cb + tol ->
    px_a (make_transparent_px four c tol (r, g, b, a)) = 0.
Proof. exact make_transparent_px_key. Qed.

(* the layer level range check drops nothing: when a layer (or group) without a configured range is skipped because
   its merged range does not contain the request, none of its members would have rendered it (with
   layer_renders_when_a_member_renders: the layer range covers the union of the member ranges; hull hypothesis as
   there) *)
Theorem layer_skipped_only_when_no_member_renders :
  forall members hull_ok,
    (forallb fst members = true -> existsb snd members = true -> hull_ok = true) ->
    layer_res_ok None members hull_ok = false -> Forall (fun m => snd m = false) members.
Proof. exact layer_res_skip_members. Qed.

(* ... and leaving out sources that are outside their own range never changes the response: anywhere in the stack
   (any layers below and above, any request options, with or without a global clip) the merged result is the same *)
Theorem skipping_out_of_range_sources_same_picture :
  forall fetch n o below srcs above cov,
    Forall (fun s => s_res_ok s = false) srcs ->
    merge n o (rendered fetch (below ++ srcs ++ above)) cov = merge n o (rendered fetch (below ++ above)) cov.
Proof. exact skip_out_of_range_layer. Qed.

(* concurrent rendering at the picture level: LayerMerger receives the images carried by the results ThreadPool.imap
   yields (decode: result -> layer image, None for BlankImage / a captured error); for every pool size, completion
   order of the upstream requests and hand-over point the merged response equals the one of the sequential renderer *)
Theorem concurrent_render_same_picture :
  forall pool_size decode n o cov results completion_order split,
    is_perm completion_order (length results) ->
    merge n o (added_layers decode (fst (imap pool_size true results completion_order split))) cov =
    merge n o (added_layers decode results) cov.
Proof. exact concurrent_render_picture. Qed.
