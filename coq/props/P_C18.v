(* C18  Every request gets a well-formed answer and cannot inject markup.
   Property theorems only; proofs live in theories/Escape_proofs.v.  Strings are lists of code points, the
   quantification is over ALL such lists (any length, any characters, surrogates included).
   Proved here: the escaping and the document-structure part.  NOT theorems (validated by the harness on a
   malformed-request stream, see harness/props/c18.py): `the WSGI application never raises`, `images decode
   with the requested size`, `no trace back text in a body`. *)
From Coq Require Import ZArith List Bool.
Import ListNotations.
From MP Require Import Escape Gen_exc_templates Escape_proofs.
Local Open Scope Z_scope.

(* html.escape (used for every XML exception document): the output never contains < > double quote or
   apostrophe, whatever the message is. *)
Theorem escape_no_markup :
  forall msg c, In c (html_escape msg) -> c <> c_lt /\ c <> c_gt /\ c <> c_quot /\ c <> c_apos.
Proof. exact html_escape_markup_free. Qed.

(* mapproxy.util.escape.escape_html (welcome page, demo pages, KML): same statement. *)
Theorem escape_html_no_markup :
  forall data c, In c (escape_html data) -> c <> c_lt /\ c <> c_gt /\ c <> c_quot /\ c <> c_apos.
Proof. exact escape_html_markup_free. Qed.

(* Every ampersand in the output of html.escape is the start of one of the five entities
   amp; lt; gt; quot; #x27; - no bare or half-built entity reference can appear. *)
Theorem escape_amp_entities :
  forall msg pre post, html_escape msg = pre ++ c_amp :: post ->
    exists body rest, In body entity_bodies /\ post = body ++ rest.
Proof. exact html_escape_amps. Qed.

Theorem escape_html_amp_entities :
  forall data pre post, escape_html data = pre ++ c_amp :: post ->
    exists body rest, In body entity_bodies /\ post = body ++ rest.
Proof. exact escape_html_amps. Qed.

(* Decoding the five entities gives the message back: nothing is lost or altered by html.escape ... *)
Theorem escape_roundtrip : forall msg, unescape (html_escape msg) = msg.
Proof. exact unescape_html_escape. Qed.

(* ... so two different messages never produce the same document text. *)
Theorem escape_injective : forall a b, html_escape a = html_escape b -> a = b.
Proof. exact html_escape_injective. Qed.

(* escape_html is weaker by design (it deletes both quote characters): the round trip holds up to that
   deletion only.  Named _partial because the full round trip is false for this function. *)
Theorem escape_html_roundtrip_partial :
  forall data, unescape (escape_html data) = filter not_quote data.
Proof. exact unescape_escape_html. Qed.

(* The function generated from mapproxy/util/escape.py by the translator is the model the theorems are about. *)
Theorem escape_html_is_source : forall data, gen_escape_html data = escape_html data.
Proof. exact gen_escape_html_is_model. Qed.

(* Structure of a document `P ++ E ++ S` where P ends in character-data position and the inserted text E
   contains no `<` (any prefix, any suffix, any such E): the token list is the same for every E except for
   ONE text node, which is pre ++ E ++ post.  tp, pre, post, ts depend on P and S only. *)
Theorem insertion_is_one_text_node :
  forall P S, text_position P ->
  exists tp pre post ts,
    tokenize P = tp ++ [Text pre] /\ tokenize S = Text post :: ts /\
    forall E, (forall c, In c E -> c <> c_lt) ->
      tokenize (P ++ E ++ S) = tp ++ Text (pre ++ E ++ post) :: ts.
Proof. exact insertion_text. Qed.

(* The same inside a quoted attribute value (welcome page: <a href="{escape_html(script_url)}/demo/">):
   text that does not contain the quote character stays inside the one tag; number and kind of all tokens
   are independent of the inserted text. *)
Theorem insertion_stays_in_attribute :
  forall q P S, (q = c_quot \/ q = c_apos) -> attr_position q P ->
  exists tp pre t ts,
    (forall s, t <> Text s) /\
    forall y, tokenize (P ++ escape_html y ++ S) = tp ++ tok_add (pre ++ escape_html y) t :: ts.
Proof. exact escape_html_attr. Qed.

(* The welcome page of MapProxyApp (literals and call site generated from mapproxy/wsgiapp.py): whatever the
   request host / script name is, the page has the same tokens; the URL stays inside the href attribute of the
   one <a> tag.  (version = mapproxy.version.version, assumed free of `<`.) *)
Theorem welcome_page_fixed_structure :
  forall version, (forall c, In c version -> c <> c_lt) ->
  exists tp pre t ts,
    (forall s, t <> Text s) /\
    forall url, tokenize (welcome_page version true url) = tp ++ tok_add (pre ++ escape_html url) t :: ts.
Proof. exact welcome_page_structure. Qed.

(* The exception documents of the source tree.  For every exception template used by a handler class
   (generated from mapproxy/service/templates by the translator), every `code` and `locator` literal that
   occurs at a RequestError call site (or None) and EVERY message:
   the document tokenises to fixed tokens tp, one text node, fixed tokens ts; tp and ts contain only tags and
   white space, none is left open; the text node is white space ++ html.escape(sanitised message) ++ white space,
   where the sanitised message is the message with every character that XML 1.0 cannot represent replaced by
   U+FFFD (xml_sanitize; identical to the message when it has no such character: xml_sanitize_keeps_xml_text). *)
Theorem exception_doc_skeleton_fixed :
  forall t code loc,
    In t exception_templates -> In code (opt_strs exception_codes) -> In loc (opt_strs exception_locators) ->
    exists tp pre post ts,
      toks_blank tp = true /\ blank pre = true /\ blank post = true /\ toks_blank ts = true /\
      forall msg,
        tokenize (exception_doc t msg code loc) = tp ++ Text (pre ++ html_escape (xml_sanitize msg) ++ post) :: ts.
Proof. exact exception_doc_fixed. Qed.

(* Consequence 1: the element skeleton (all tags with their attributes, in order) is that of the document
   for the empty message. *)
Theorem exception_doc_same_skeleton :
  forall t code loc,
    In t exception_templates -> In code (opt_strs exception_codes) -> In loc (opt_strs exception_locators) ->
    forall msg,
      skeleton (tokenize (exception_doc t msg code loc)) = skeleton (tokenize (exception_doc t [] code loc)).
Proof. exact exception_doc_skeleton. Qed.

(* Consequence 2: the single non-blank text node decodes to the (sanitised) message itself (up to the
   template's own white space around the placeholder). *)
Theorem exception_doc_text_is_message :
  forall t code loc,
    In t exception_templates -> In code (opt_strs exception_codes) -> In loc (opt_strs exception_locators) ->
    exists tp pre post ts,
      toks_blank tp = true /\ blank pre = true /\ blank post = true /\ toks_blank ts = true /\
      forall msg, exists raw,
        tokenize (exception_doc t msg code loc) = tp ++ Text raw :: ts /\
        unescape raw = pre ++ xml_sanitize msg ++ post.
Proof. exact exception_doc_text. Qed.

(* The values that reach the attributes code= / exceptionCode= / locator= are literals of the source (the
   translator refuses any RequestError call site with a non-literal code or locator) and none of them
   contains a character that could end the attribute value or start markup. *)
Theorem attribute_values_fixed :
  forall s c, In s (exception_codes ++ exception_locators) -> In c s ->
    c <> c_lt /\ c <> c_gt /\ c <> c_amp /\ c <> c_quot /\ c <> c_apos.
Proof. exact literals_attr_safe. Qed.

(* Well-formedness of the element structure: in every exception document, for every message, start and end tags
   nest properly (declarations and empty-element tags skipped) and no tag is left open. *)
Theorem exception_doc_well_nested :
  forall t code loc msg,
    In t exception_templates -> In code (opt_strs exception_codes) -> In loc (opt_strs exception_locators) ->
    well_nested (tokenize (exception_doc t msg code loc)) = true.
Proof. exact exception_doc_nested. Qed.

(* Characters: every character of every exception document is a character that XML 1.0 can represent - for
   EVERY message (control characters, U+FFFE/U+FFFF and lone surrogates of the request are replaced by U+FFFD
   before escaping).  This was finding C18-a; it holds without hypothesis since the render methods sanitise. *)
Theorem exception_doc_xml_chars :
  forall t code loc msg,
    In t exception_templates -> In code (opt_strs exception_codes) -> In loc (opt_strs exception_locators) ->
    forall c, In c (exception_doc t msg code loc) -> xml_char c = true.
Proof. exact exception_doc_all_xml_chars. Qed.

(* Sanitising does not touch text that XML can represent, and never changes the length. *)
Theorem xml_sanitize_keeps_xml_text :
  forall s, (forall c, In c s -> xml_char c = true) -> xml_sanitize s = s.
Proof. exact xml_sanitize_id. Qed.

Theorem xml_sanitize_same_length : forall s, length (xml_sanitize s) = length s.
Proof. exact xml_sanitize_length. Qed.

(* Documents with SEVERAL insertion points (capabilities documents: the escaped host URL of the request occurs in
   many attribute values and text nodes).  Whatever the fixed segments are and wherever the insertion points lie
   (text, inside a tag, inside a quoted attribute), two values that are free of < > and both quote characters give
   token lists of the same length and the same kinds: request-derived text cannot create, end or merge tokens. *)
Theorem insertions_keep_structure :
  forall segs u v, markup_free u -> markup_free v ->
    shape (tokenize (fill segs u)) = shape (tokenize (fill segs v)).
Proof. exact tokenize_fill_shape. Qed.

(* Instance for what Request.base_url inserts (escape_html of the host URL): the structure of a capabilities
   document does not depend on Host / X-Forwarded-Host / X-Forwarded-Proto.  That the real documents ARE
   `fill segs (escape_html host_url)` for request-independent segs is the correspondence `capabilities` of the
   harness (validated, the capabilities templates themselves are not translated). *)
Theorem capabilities_structure_independent_of_host :
  forall segs h1 h2,
    shape (tokenize (fill segs (escape_html h1))) = shape (tokenize (fill segs (escape_html h2))).
Proof. exact fill_escape_html_shape. Qed.

(* Request.host / Request.host_url (mapproxy/request/base.py), for EVERY combination of Host, X-Forwarded-Host,
   X-Forwarded-Proto, SERVER_NAME, SERVER_PORT (IPv6 literals, several colons, empty values included): the
   index expressions host.split(':')[1] / [0] and host.split(',', 1)[0] are always in range - the code cannot
   raise (None models the IndexError). *)
Theorem host_never_raises : forall e, host e <> None.
Proof. exact host_total. Qed.

Theorem host_url_never_raises : forall e, host_url e <> None.
Proof. exact host_url_total. Qed.

(* the split used there loses nothing: joining the pieces with the separator gives the header value back *)
Theorem split_join : forall c s, join_with c (split_on c s) = s.
Proof. exact split_on_join. Qed.

(* urllib.parse.quote (used for SCRIPT_NAME and PATH_INFO in Request.script_url / base_url): it cannot raise on text
   without lone surrogates (PEP 3333: environ strings are latin-1 decoded bytes, so this always holds for a request) ... *)
Theorem quote_never_raises : forall s, (forall c, In c s -> scalar c) -> quote s <> None.
Proof. exact quote_total. Qed.

(* ... and everything it emits is a letter, digit, one of _ . - ~ / or the percent sign: no markup, no quote, no ampersand. *)
Theorem quote_emits_url_characters :
  forall s q, quote s = Some q -> forall c, In c q ->
    (quote_safe c = true \/ c = 37) /\ c <> c_lt /\ c <> c_gt /\ c <> c_quot /\ c <> c_apos /\ c <> c_amp.
Proof. exact quote_chars_no_markup. Qed.

(* Request.script_url (welcome page, demo pages) and Request.base_url (capabilities documents) for EVERY combination of
   Host, X-Forwarded-Host, X-Forwarded-Proto, SERVER_NAME, SERVER_PORT and every surrogate-free SCRIPT_NAME / PATH_INFO
   (present or absent): the code cannot raise (None models IndexError / UnicodeEncodeError). *)
Theorem script_url_never_raises :
  forall e sn, (forall s c, sn = Some s -> In c s -> scalar c) -> script_url e sn <> None.
Proof. exact script_url_total. Qed.

Theorem base_url_never_raises :
  forall e sn p, (forall s c, sn = Some s -> In c s -> scalar c) -> (forall s c, p = Some s -> In c s -> scalar c) ->
    base_url e sn p <> None.
Proof. exact base_url_total. Qed.

(* Request.base_url never contains < > or a quote character, whatever the request headers, script name and path are ... *)
Theorem base_url_no_markup :
  forall e sn p u, base_url e sn p = Some u ->
    forall c, In c u -> c <> c_lt /\ c <> c_gt /\ c <> c_quot /\ c <> c_apos.
Proof. exact base_url_markup_free. Qed.

(* ... hence a document that inserts it at any number of places (capabilities) has the same token structure for any two
   requests: not only the host but also the script name and the path cannot create, end or merge tokens. *)
Theorem capabilities_structure_independent_of_request :
  forall segs e1 sn1 p1 u1 e2 sn2 p2 u2,
    base_url e1 sn1 p1 = Some u1 -> base_url e2 sn2 p2 = Some u2 ->
    shape (tokenize (fill segs u1)) = shape (tokenize (fill segs u2)).
Proof. exact fill_base_url_shape. Qed.

(* The welcome page as MapProxyApp.__call__ builds it for the paths `` and `/` (call site generated from the source:
   welcome_response(escape_html(req.script_url))): the tokens are the same for every request; the script URL stays inside
   the href attribute of the one <a> tag. *)
Theorem welcome_page_of_request_fixed_structure :
  forall version, (forall c, In c version -> c <> c_lt) ->
  exists tp pre t ts,
    (forall s, t <> Text s) /\
    forall e sn u, script_url e sn = Some u ->
      tokenize (welcome_page version true u) = tp ++ tok_add (pre ++ escape_html u) t :: ts.
Proof. exact welcome_root_structure. Qed.
