(* C13  Expiry rules decide precisely which tiles are refreshed.
   Property theorems only; proofs live in theories/Expiry_proofs.v.

   Reading guide.  Q = ticks per second (any positive number); all instants are ticks.  `s` is any state (cache
   and upstream log) - in particular any state reached by any history; `m` any manager configuration (rule kind,
   single-tile or meta-tile creation, whole-second or exact store stamps); `ev` the clock and the mtime of the
   reference file at the time of the request; `sc k` the answer of the k-th upstream request of the run;
   `members a` the tiles of the meta tile of a.  `s_log` is the upstream log, newest first. *)
From Coq Require Import ZArith List Bool.
Import ListNotations.
From MP Require Import Base Expiry Expiry_proofs Gen_expiry Expiry_gen_proofs.
Local Open Scope Z_scope.

(* The staleness decision of TileManager.is_cached, for every rule kind: a tile is accepted iff it exists and
   the whole second of its timestamp lies after the threshold (int(ts) <= thr is "stale"). *)
Theorem staleness_decision : forall Q, 0 < Q -> forall m ev c a t,
  expire_timestamp Q m ev = ThrAt t ->
  (forall e, get c a = Some e -> 0 <= e_ts e) ->
  (tm_is_cached Q m ev c a = Some true <-> exists e, get c a = Some e /\ t < floor_sec Q (e_ts e)).
Proof. exact is_cached_iff. Qed.

(* A cached tile last written at or before the threshold is fetched again the next time it is needed: the
   request issues at least one upstream request, and if it is answered at all, one of its upstream requests
   covers the tile.  (The alternative is the error of a failed upstream request / broken response body.)  Single-tile and
   meta-tile creation, every rule kind, every upstream behaviour, every other content of the request. *)
Theorem stale_refetched : forall Q m ev sc members s coords a e t s' r,
  0 < Q -> expire_timestamp Q m ev = ThrAt t ->
  In a coords -> In a (members a) ->
  get (s_cache s) a = Some e -> 0 <= e_ts e -> e_ts e <= t ->
  load_tile_coords Q m ev sc members s coords = (s', r) ->
  exists new, s_log s' = new ++ s_log s /\ new <> [] /\
    ((r = Raised ESource \/ r = Raised EBody) \/ exists l entry, r = Served l /\ In entry new /\ In a entry).
Proof. exact stale_refetched_lemma. Qed.

(* The same for a tile that is not in the cache. *)
Theorem missing_fetched : forall Q m ev sc members s coords a s' r,
  expire_timestamp Q m ev <> ThrErr ->
  In a coords -> In a (members a) -> get (s_cache s) a = None ->
  load_tile_coords Q m ev sc members s coords = (s', r) ->
  exists new, s_log s' = new ++ s_log s /\ new <> [] /\
    ((r = Raised ESource \/ r = Raised EBody) \/ exists l entry, r = Served l /\ In entry new /\ In a entry).
Proof. exact missing_fetched_lemma. Qed.

(* Tiles whose whole second lies after the threshold are served from the cache: the answer is the cached
   content, the cache and the upstream log are unchanged (zero upstream requests). *)
Theorem fresh_no_upstream : forall Q m ev sc members s coords t,
  0 < Q -> expire_timestamp Q m ev = ThrAt t ->
  (forall a, In a coords -> exists e, get (s_cache s) a = Some e /\ 0 <= e_ts e /\ t < floor_sec Q (e_ts e)) ->
  load_tile_coords Q m ev sc members s coords = (s, Served (map (content_of (s_cache s)) coords)).
Proof. exact fresh_no_upstream_lemma. Qed.

(* Full strength where timestamps are whole seconds (sqlite / mbtiles rows): "written after the threshold"
   alone suffices. *)
Theorem fresh_no_upstream_whole_seconds : forall Q m ev sc members s coords t,
  0 < Q -> expire_timestamp Q m ev = ThrAt t ->
  (forall a, In a coords -> exists e sec, get (s_cache s) a = Some e /\ 0 <= sec /\ e_ts e = sec * Q /\ t < e_ts e) ->
  load_tile_coords Q m ev sc members s coords = (s, Served (map (content_of (s_cache s)) coords)).
Proof. exact fresh_no_upstream_whole_lemma. Qed.

(* With sub-second file mtimes the unrestricted statement is false: a tile written after the threshold but in
   the same whole second is refreshed (documented one-second granularity, not a finding). *)
Theorem written_after_threshold_same_second_is_refreshed :
  exists Q m ev c a e t,
    0 < Q /\ expire_timestamp Q m ev = ThrAt t /\ get c a = Some e /\ t < e_ts e /\
    tm_is_cached Q m ev c a = Some false.
Proof. exact written_after_threshold_same_second_refuted. Qed.

(* Without a rule nothing expires. *)
Theorem no_rule_no_upstream : forall Q m ev sc members s coords,
  expire_timestamp Q m ev = ThrNone ->
  (forall a, In a coords -> exists e, get (s_cache s) a = Some e) ->
  load_tile_coords Q m ev sc members s coords = (s, Served (map (content_of (s_cache s)) coords)).
Proof. exact no_rule_no_upstream_lemma. Qed.

(* Meta variant / precision: every upstream request of a request is the (meta) tile of a *requested* tile that
   was missing or stale when the request started - nothing else triggers a refresh. *)
Theorem refresh_only_for_needed_tiles : forall Q m ev sc members s coords s' r,
  load_tile_coords Q m ev sc members s coords = (s', r) ->
  exists new, s_log s' = new ++ s_log s /\
    forall entry, In entry new ->
      exists b, In b coords /\ tm_is_cached Q m ev (s_cache s) b = Some false /\
                entry = (if m_meta m then members b else [b]).
Proof. exact request_log. Qed.

(* Single-tile creation: a tile that is accepted when the request starts is not fetched by it. *)
Theorem fresh_tile_not_refetched_single : forall Q m ev sc members s coords a s' r,
  m_meta m = false ->
  tm_is_cached Q m ev (s_cache s) a = Some true ->
  load_tile_coords Q m ev sc members s coords = (s', r) ->
  exists new, s_log s' = new ++ s_log s /\ forall entry, In entry new -> ~ In a entry.
Proof. exact fresh_not_refetched_single_lemma. Qed.

(* A refresh that fails does not destroy the old tile: when no upstream answer from now on is a cacheable
   image (errors, blank, uncacheable error images - also when a pre_store_filter replaces the image -, a body that
   breaks while it is read by the filter, the splitter or the store), the request leaves the whole cache as it
   was.  Both paths, every back-end. *)
Theorem failed_refresh_keeps_old : forall Q m ev sc members s coords,
  (forall k au v, (length (s_log s) <= k)%nat -> sc k <> UOk true au v) ->
  s_cache (fst (load_tile_coords Q m ev sc members s coords)) = s_cache s.
Proof. exact request_failed_keeps_cache. Qed.

(* In general: no request removes a tile, and an entry changes only into the answer of a cacheable upstream
   answer obtained by this very request, stamped with the instant of the request. *)
Theorem old_tile_survives : forall Q m ev sc members s coords a e,
  get (s_cache s) a = Some e ->
  let s' := fst (load_tile_coords Q m ev sc members s coords) in
  get (s_cache s') a = Some e \/
  exists k au v, (length (s_log s) <= k < length (s_log s'))%nat /\ sc k = UOk true au v /\
               get (s_cache s') a = Some (mkEntry (apply_tile_filter m v) (store_ts Q m ev)).
Proof. exact request_entry_survives. Qed.

(* Single-tile creation with the upstream down: every requested tile that exists - stale or not - is served
   with its old content (stale fallback), and the cache is unchanged. *)
Theorem failed_refresh_serves_old_single : forall Q m ev sc members s coords,
  m_meta m = false ->
  expire_timestamp Q m ev <> ThrErr ->
  (forall a, In a coords -> exists e, get (s_cache s) a = Some e) ->
  (forall k, (length (s_log s) <= k)%nat -> sc k = UErr) ->
  exists s', load_tile_coords Q m ev sc members s coords = (s', Served (map (content_of (s_cache s)) coords)) /\
             s_cache s' = s_cache s.
Proof. exact request_failed_serves_old. Qed.

(* After a successful refresh at an instant whose whole second lies after the threshold, every requested tile
   is accepted, and repeating the request is answered from the cache without any upstream request. *)
Theorem refresh_converges : forall Q m ev sc members s coords t,
  0 < Q -> 0 <= now ev ->
  expire_timestamp Q m ev = ThrAt t -> t < floor_sec Q (now ev) ->
  (forall a, In a coords -> In a (members a)) ->
  (forall k, (length (s_log s) <= k)%nat -> exists v, sc k = UOk true false v) ->
  exists s' l, load_tile_coords Q m ev sc members s coords = (s', Served l) /\
    (forall a, In a coords -> tm_is_cached Q m ev (s_cache s') a = Some true) /\
    load_tile_coords Q m ev sc members s' coords = (s', Served (map (content_of (s_cache s')) coords)).
Proof. exact refresh_then_cached_lemma. Qed.

(* The condition of refresh_converges holds at every instant for a relative rule (weeks .. seconds, evaluated
   per request) with an age of at least one second. *)
Theorem relative_rule_satisfies_convergence_condition : forall Q m ev rc,
  0 < Q -> m_refresh_before m = Some rc -> rc_time rc = None -> rc_mtime rc = false -> Q <= delta_of Q rc ->
  exists t, expire_timestamp Q m ev = ThrAt t /\ t < floor_sec Q (now ev).
Proof. exact relative_rule_converges_lemma. Qed.

(* Histories: whatever the sequence of requests, probes, clock changes, rule changes, reference-file changes
   and upstream answers - no tile that was in the cache is ever lost ... *)
Theorem history_never_deletes : forall Q sc members es w a en,
  get (s_cache (w_st w)) a = Some en ->
  exists en', get (s_cache (w_st (fst (run Q sc members w es)))) a = Some en'.
Proof. exact history_never_deletes. Qed.

(* ... and while the upstream gives no cacheable answer the cache does not change at all. *)
Theorem history_upstream_down_cache_constant : forall Q sc members es w,
  (forall k au v, sc k <> UOk true au v) ->
  s_cache (w_st (fst (run Q sc members w es))) = s_cache (w_st w).
Proof. exact history_upstream_down. Qed.

(* Seed task with refresh_before (seeder.py TileWalker after the repair of finding C13-seed).  `wanted` = the tile is
   missing or stale (with --skip-uncached: exists and is stale).  For every (meta) tile the walker examines, it hands
   over exactly the wanted tiles among the tiles created together with it ... *)
Theorem seed_hands_over_exactly_the_wanted_tiles : forall Q m ev skip c l h,
  seed_select Q m ev c skip l = Some h ->
  forall a, In a h <-> In a l /\ wanted Q m ev skip c a.
Proof. exact seed_select_spec. Qed.

(* ... so over a whole walk (any list of examined meta tiles, any upstream behaviour) that completes, every tile
   that was missing or stale at the start and belongs to an examined meta tile is handed to a worker, unless an
   earlier upstream request of the same walk already covered it ... *)
Theorem seed_task_reaches_every_stale_tile : forall Q m ev sc members skip mains s a t,
  In t mains -> In a (members t) -> wanted Q m ev skip (s_cache s) a ->
  forall s' handed, seed_walk Q m ev sc members s skip mains = (s', handed, true) ->
  (exists h, In h handed /\ In a h) \/
  (exists new entry, s_log s' = new ++ s_log s /\ In entry new /\ In a entry).
Proof. exact seed_walk_hands_over. Qed.

(* ... and the worker's request for a handed-over list issues an upstream request that covers the tile (or fails
   with the upstream error, which the worker retries). *)
Theorem seed_handed_tile_refetched : forall Q m ev sc members skip s t h a s' r,
  seed_select Q m ev (s_cache s) skip (members t) = Some h -> In a h -> In a (members a) ->
  load_tile_coords Q m ev sc members s h = (s', r) ->
  exists new, s_log s' = new ++ s_log s /\ new <> [] /\
    ((r = Raised ESource \/ r = Raised EBody) \/ exists l entry, r = Served l /\ In entry new /\ In a entry).
Proof. exact seed_handed_refetched. Qed.

(* A request that waits for its tile lock while another request completes (load_after: `other` runs between the
   first check and the first lock of `coords`).  Single tile path, every back-end: the re-check under the lock
   observes the refreshed tile - a tile that the other request left accepted is not fetched again and stays
   accepted. *)
Theorem recheck_under_lock_observes_refresh : forall Q m ev sc members s0 coords other a,
  m_meta m = false ->
  let s1 := fst (load_tile_coords Q m ev sc members s0 other) in
  let s' := fst (load_after Q m ev sc members s0 coords other) in
  tm_is_cached Q m ev (s_cache s1) a = Some true ->
  s' = s0 \/
  exists new, s_log s' = new ++ s_log s1 /\ (forall entry, In entry new -> ~ In a entry) /\
              tm_is_cached Q m ev (s_cache s') a = Some true.
Proof. exact recheck_observes_refresh. Qed.

(* The same on the meta tile path: when the other request left every tile of the meta tile of `a` accepted, the waiting
   request - which had decided to create that meta tile - re-checks under the lock and fetches nothing of it: none of
   its upstream requests covers a tile of that meta tile, and all its tiles stay accepted.  The meta tiles of the
   requested tiles are equal or disjoint (meta tiles partition the grid). *)
Theorem recheck_under_lock_observes_refresh_meta : forall Q m ev sc members s0 coords other a,
  m_meta m = true ->
  (forall b, In b coords -> members b = members a \/ forall x, In x (members b) -> ~ In x (members a)) ->
  let s1 := fst (load_tile_coords Q m ev sc members s0 other) in
  let s' := fst (load_after Q m ev sc members s0 coords other) in
  (forall x, In x (members a) -> tm_is_cached Q m ev (s_cache s1) x = Some true) ->
  s' = s0 \/
  exists new, s_log s' = new ++ s_log s1 /\
              (forall entry, In entry new -> forall x, In x (members a) -> ~ In x entry) /\
              (forall x, In x (members a) -> tm_is_cached Q m ev (s_cache s') x = Some true).
Proof. exact recheck_observes_refresh_meta. Qed.

(* Also under such interleavings nothing is lost, and nothing changes while the upstream gives no cacheable answer
   (history_never_deletes / history_upstream_down_cache_constant range over ERace events as well). *)

(* Seed tasks that share a TileManager: the walk of a task with refresh_before t runs under threshold t, whatever an
   earlier task left in _expire_timestamp. *)
Theorem seed_task_uses_its_own_threshold : forall Q sc members w t skip mains w' o,
  m_refresh_before (w_mgr w) = None ->
  step_event Q sc members w (ESeed (Some t) skip mains) = (w', o) ->
  expire_timestamp Q (w_mgr w') (w_env w') = ThrAt t /\
  exists handed ok, o = OSeed handed ok /\
    seed_walk Q (mkMgr None (Some t) (m_meta (w_mgr w)) (m_floor_store (w_mgr w)) (m_filter (w_mgr w)) (m_link (w_mgr w)))
              (w_env w) sc members (w_st w) skip mains = (w_st w', handed, ok).
Proof. exact seed_task_own_threshold. Qed.

(* Two seed tasks one after the other on one TileManager (two seeds of the same cache in seed.yaml), thresholds t1 and
   t2: the observations are those of two walks, the first under t1 on the initial cache, the second under its own
   threshold t2 - not under the t1 that the first task left behind - on the cache the first task left. *)
Theorem consecutive_seed_tasks_each_use_their_own_threshold :
  forall Q sc members w t1 skip1 mains1 t2 skip2 mains2 w2 obs,
  m_refresh_before (w_mgr w) = None ->
  run Q sc members w [ESeed (Some t1) skip1 mains1; ESeed (Some t2) skip2 mains2] = (w2, obs) ->
  exists s1 h1 ok1 h2 ok2,
    obs = [OSeed h1 ok1; OSeed h2 ok2] /\
    seed_walk Q (mkMgr None (Some t1) (m_meta (w_mgr w)) (m_floor_store (w_mgr w)) (m_filter (w_mgr w)) (m_link (w_mgr w)))
              (w_env w) sc members (w_st w) skip1 mains1 = (s1, h1, ok1) /\
    seed_walk Q (mkMgr None (Some t2) (m_meta (w_mgr w)) (m_floor_store (w_mgr w)) (m_filter (w_mgr w)) (m_link (w_mgr w)))
              (w_env w) sc members s1 skip2 mains2 = (w_st w2, h2, ok2) /\
    expire_timestamp Q (w_mgr w2) (w_env w2) = ThrAt t2.
Proof. exact seed_tasks_in_sequence. Qed.

(* What the code does when the seeded cache has a refresh_before of its own: expire_timestamp consults the rule of the
   cache first, so the walk of the task runs under the rule of the cache and the threshold of the task is not used. *)
Theorem seed_task_on_cache_with_own_rule_uses_the_rule_of_the_cache : forall Q sc members w rc t skip mains w' o,
  m_refresh_before (w_mgr w) = Some rc ->
  step_event Q sc members w (ESeed (Some t) skip mains) = (w', o) ->
  expire_timestamp Q (w_mgr w') (w_env w') = before_timestamp_from_options Q rc (w_env w).
Proof. exact seed_task_cache_rule_first. Qed.

(* bulk_meta_tiles (tiled sources, meta tiles downloaded tile by tile): a meta tile that contains a missing or stale
   tile - decided by the refresh rule, not by mere existence - is downloaded again tile by tile: every tile of it is
   asked for; or a download fails, and then the request fails with the upstream error and the cache is exactly as
   it was (nothing of the meta tile is stored). *)
Theorem bulk_meta_tile_with_stale_tile_is_downloaded_again : forall Q m ev sc s mt a,
  In a mt -> tm_is_cached Q m ev (s_cache s) a = Some false ->
  match create_bulk_meta Q m ev sc s mt with
  | Cont s' cr => exists new, s_log s' = new ++ s_log s /\ forall t, In t mt -> In [t] new
  | Stop s' e => (e = ESource \/ e = EBody) /\ s_cache s' = s_cache s /\ exists new, s_log s' = new ++ s_log s /\ new <> []
  end.
Proof. exact bulk_meta_refetched. Qed.

(* ... and what a bulk download stores over a tile is only that tile's own cacheable upstream answer. *)
Theorem bulk_store_only_cacheable_answers : forall Q m ev acc c a,
  (forall v, ~ In (a, v, true) acc) -> get (store_bulk Q m ev c acc) a = get c a.
Proof. exact store_bulk_untouched. Qed.

(* Configuration loader: the refresh_before of a cache is in force for the TileManager of every grid of the cache -
   one manager per grid, each with the cache's rule and hence the cache's threshold (all theorems above then apply
   to every grid). *)
Theorem every_grid_of_a_cache_has_the_refresh_rule : forall Q rb fs grids m ev,
  In m (cache_managers rb fs grids) ->
  expire_timestamp Q m ev = match rb with Some rc => before_timestamp_from_options Q rc ev | None => ThrNone end.
Proof. exact cache_managers_threshold. Qed.

Theorem one_manager_per_grid : forall rb fs grids, length (cache_managers rb fs grids) = length grids.
Proof. exact cache_managers_length. Qed.

(* An on_error placeholder that authorises stale tiles (authorize_stale: True), whatever its `cache` flag, never
   replaces a stale tile (single tile creation): the request is answered with the old tile, the cache - content and
   time stamp - is untouched, so the tile is still stale and the next request for it asks the upstream again,
   whatever the upstream then answers. *)
Theorem failed_refresh_with_placeholder_keeps_stale_tile : forall Q m ev sc members s a e cacheable v0,
  m_meta m = false ->
  get (s_cache s) a = Some e ->
  tm_is_cached Q m ev (s_cache s) a = Some false ->
  next_outcome sc s = UOk cacheable true v0 ->
  load_tile_coords Q m ev sc members s [a] = (mkSt (s_cache s) ([a] :: s_log s), Served [Some (e_content e)]) /\
  forall sc', exists s2 r, load_tile_coords Q m ev sc' members (mkSt (s_cache s) ([a] :: s_log s)) [a] = (s2, r) /\
                          s_log s2 = [a] :: [a] :: s_log s.
Proof. exact request_placeholder_authorize_stale_single. Qed.

(* The same at the level of TileCreator._create_single_tile, for a tile inside any request ... *)
Theorem placeholder_with_authorize_stale_is_not_stored_over_a_stale_tile : forall Q m ev sc s a e cacheable v0,
  get (s_cache s) a = Some e ->
  tm_is_cached Q m ev (s_cache s) a = Some false ->
  next_outcome sc s = UOk cacheable true v0 ->
  exists s', create_single Q m ev sc s a = Cont s' [(a, content_of (s_cache s) a)] /\
             s_cache s' = s_cache s /\ s_log s' = [a] :: s_log s /\
             tm_is_cached Q m ev (s_cache s') a = Some false.
Proof. exact placeholder_authorize_stale_keeps_stale_tile. Qed.

(* ... and where nothing is cached yet the placeholder is what the client gets, stored iff its `cache` flag says so. *)
Theorem placeholder_with_authorize_stale_on_a_missing_tile : forall Q m ev sc s a cacheable v0,
  get (s_cache s) a = None ->
  tm_is_cached Q m ev (s_cache s) a = Some false ->
  next_outcome sc s = UOk cacheable true v0 ->
  create_single Q m ev sc s a =
    Cont (mkSt (if cacheable then store_tile Q m ev (s_cache s) a (apply_tile_filter m v0) else s_cache s)
               ([a] :: s_log s)) [(a, Some (apply_tile_filter m v0))].
Proof. exact placeholder_authorize_stale_on_missing_tile. Qed.

(* Tie to the source.  gen_tm_is_cached, gen_tm_is_stale and gen_expire_timestamp are regenerated on every run from
   the bodies of TileManager.is_cached, is_stale and expire_timestamp (translator/specs/expiry.py -> gen/Gen_expiry.v,
   statement by statement, fail closed).  The model the theorems above speak about IS these kernels, applied to the
   back-end look-up, the threshold and int(tile.timestamp): an edit of one of the three methods that changes a decision
   (a comparison, a guard, the order of the tests, the precedence of refresh_before) breaks these three theorems. *)
Theorem is_cached_model_is_generated_from_source : forall Q m ev c a,
  tm_is_cached Q m ev c a =
  match expire_timestamp Q m ev with
  | ThrErr => None
  | th => Some (gen_tm_is_cached (Some a) (is_some (get c a)) (thr_opt th) (ts_int_of Q c a))
  end.
Proof. exact tm_is_cached_as_generated. Qed.

Theorem is_stale_model_is_generated_from_source : forall Q m ev c a,
  tm_is_stale Q m ev c a =
  match get c a with
  | Some _ => match tm_is_cached Q m ev c a with
              | Some fresh => Some (gen_tm_is_stale true fresh)
              | None => None
              end
  | None => Some (gen_tm_is_stale false false)
  end.
Proof. exact tm_is_stale_as_generated. Qed.

Theorem expire_timestamp_model_is_generated_from_source : forall Q m ev,
  expire_timestamp Q m ev =
  gen_expire_timestamp (is_some (m_refresh_before m))
    (match m_refresh_before m with Some rc => before_timestamp_from_options Q rc ev | None => ThrNone end)
    (match m_expire m with Some t => ThrAt t | None => ThrNone end).
Proof. exact expire_timestamp_as_generated. Qed.

(* ... and before_timestamp_from_options (seed/config.py): which key decides ('time' over 'mtime' over the deltas) is
   translated; its final statements (all five units handed to timestamp_before) and util/times.py timestamp_before
   (one timedelta of all five units) are pinned whole. *)
Theorem before_timestamp_model_is_generated_from_source : forall Q rc ev,
  before_timestamp_from_options Q rc ev =
  gen_before_timestamp (is_some (rc_time rc))
    (match rc_time rc with Some s => ThrAt (s * Q) | None => ThrNone end)
    (rc_mtime rc)
    (match ref_mtime ev with Some t => ThrAt t | None => ThrErr end)
    (ThrAt (timestamp_before Q rc (now ev))).
Proof. exact before_timestamp_as_generated. Qed.
